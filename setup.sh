#!/bin/sh
# MANIFEST.setup_cmd: build everything offline from files on disk.
set -e
cd "$(dirname "$0")"
export GOFLAGS=-mod=mod GOPROXY=off GOSUMDB=off GOTOOLCHAIN=local
exec ./check build
