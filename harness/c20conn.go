package main

// C20, connection level: things a healthy connection must shrug off, because the client reacts to
// a connection-level error from a region client by dropping it from the connection cache and
// dialling its server again (clientDown) — a healthy connection reporting one is a second
// connection to a server whose first one never failed.

import (
	"context"
	"fmt"
	"net"
	"os"
	"time"

	"github.com/tsuna/gohbase/hrpc"
	"github.com/tsuna/gohbase/region"
)

// c20DialAgain: establishRegion calls Dial on the (shared, already connected) region client of
// every region it establishes, under that region's context; for a region that is already dead the
// context is done. That Dial is a no-op returning nil; the connection stays in service.
func c20DialAgain() string {
	v := newVConn()
	dialer := func(ctx context.Context, network, addr string) (net.Conn, error) { return v, nil }
	rc := region.NewClient("vconn:0", region.RegionClient, 5, 0, "verif", time.Hour, nil, dialer, discardLogger)
	if err := rc.Dial(context.Background()); err != nil {
		return "c20 check dial-on-connected-client-failed setup-" + err.Error()
	}
	defer rc.Close()
	ctx, cancel := context.WithCancel(context.Background())
	cancel()
	err := rc.Dial(ctx)
	verdict := "ok"
	if err != nil {
		verdict = fmt.Sprintf("error:%T", err)
	} else if region.VerifIsDone(rc) {
		verdict = "connection-failed"
	}
	return "c20 check dial-on-connected-client-failed " + verdict
}

// c20CancelledBatchBusy: a batch whose context is already done is handed to a connection whose
// batching goroutine is busy writing. The calls are not this connection's business any more; in
// particular they are not answered with a connection-level error.
func c20CancelledBatchBusy() string {
	s := newConnScn(NewRNG(7, "c20busy"), 5)
	if s.broken != "" {
		return "c20 check connection-error-from-healthy-connection setup-" + s.broken
	}
	first := s.newCall(false, false)
	go s.rc.QueueRPC(first.call)
	settle() // the writer is parked inside conn.Write
	ctx, cancel := context.WithCancel(context.Background())
	cancel()
	g, _ := hrpc.NewGet(ctx, []byte("t"), []byte("a-late"))
	g.SetRegion(s.regs[0])
	done := make(chan struct{})
	go func() { s.rc.QueueBatch(ctx, []hrpc.Call{g}); close(done) }()
	verdict := "ok"
	select {
	case <-done:
	case <-time.After(2 * time.Second):
		verdict = "queuebatch-blocked"
	}
	settle()
	select {
	case r := <-g.ResultChan():
		if r.Error != nil {
			if _, ok := r.Error.(region.ServerError); ok {
				verdict = "connection-level-error-delivered"
			}
		}
	default:
	}
	if verdict == "ok" && region.VerifIsDone(s.rc) {
		verdict = "connection-failed"
	}
	go s.rc.Close()
	for i := 0; i < 20; i++ {
		for _, p := range s.v.Pending() {
			if p.kind != "read" {
				s.v.take(p)
				p.ch <- gateRes{err: errVClosed}
			}
		}
		time.Sleep(time.Millisecond)
	}
	return "c20 check connection-error-from-healthy-connection " + verdict
}

func c20ConnLines(out *Out) {
	if os.Getenv("VERIF_SHARD") != "" {
		return
	}
	out.Line("%s", c20DialAgain())
	out.Line("%s", c20CancelledBatchBusy())
}

// c19DialClosed (C19): a region client that was closed before anybody dialled it (Close of the
// client reaches it between its creation and its establisher's Dial) does not open a connection
// when Dial is called afterwards.
func c19DialClosed() string {
	dials := 0
	v := newVConn()
	dialer := func(ctx context.Context, network, addr string) (net.Conn, error) { dials++; return v, nil }
	rc := region.NewClient("vconn:0", region.RegionClient, 5, 0, "verif", time.Hour, nil, dialer, discardLogger)
	rc.Close()
	err := rc.Dial(context.Background())
	verdict := "ok"
	if dials != 0 {
		verdict = fmt.Sprintf("dialled-%d-times-after-close", dials)
	} else if err == nil {
		verdict = "dial-succeeded-on-closed-client"
	}
	return "c19 check connection-opened-after-close " + verdict
}
