//go:build verif

package main

// Table administration over the master connection (C13): a real admin client over a stub
// ZooKeeper and a stub master.  The four admin calls first send their request, then poll the
// procedure's state with a growing back-off; the caller's context must end the call in each of
// those waits.

import (
	"bytes"
	"context"
	"encoding/binary"
	"errors"
	"fmt"
	"net"
	"runtime"
	"strings"
	"sync"
	"sync/atomic"
	"time"

	"github.com/tsuna/gohbase"
	"github.com/tsuna/gohbase/hrpc"
	"github.com/tsuna/gohbase/pb"
	"github.com/tsuna/gohbase/zk"
	"google.golang.org/protobuf/proto"
)

type adminCluster struct {
	zkSilent   bool
	reqSilent  bool // the master never answers the admin request itself
	pollSilent bool // the master never answers a procedure-state poll
	finishAt   int  // the n-th poll answers FINISHED (0: never, always RUNNING)
	polls      int32
	onPoll     func()
	script     []string // answers to the polls, in order: r f x n (then RUNNING)
	snapshots  []*pb.SnapshotDescription
	tables     []*pb.TableName
	balancer   bool
	status     *pb.ClusterStatus
	mu         sync.Mutex
	pollCtxs   []context.Context
}

func (a *adminCluster) LocateResource(res zk.ResourceName) (string, error) {
	if a.zkSilent {
		select {}
	}
	return "master:1", nil
}

type adminConn struct{ a *adminCluster }

func (c *adminConn) Dial(ctx context.Context) error { return nil }
func (c *adminConn) Close()                         {}
func (c *adminConn) Addr() string                   { return "master:1" }
func (c *adminConn) String() string                 { return "adminConn" }
func (c *adminConn) QueueBatch(ctx context.Context, calls []hrpc.Call) {
	for _, x := range calls {
		c.QueueRPC(x)
	}
}
func (c *adminConn) QueueRPC(call hrpc.Call) {
	go func() {
		var msg proto.Message
		switch call.Name() {
		case "CreateTable":
			msg = &pb.CreateTableResponse{ProcId: proto.Uint64(7)}
		case "DeleteTable":
			msg = &pb.DeleteTableResponse{ProcId: proto.Uint64(7)}
		case "EnableTable":
			msg = &pb.EnableTableResponse{ProcId: proto.Uint64(7)}
		case "DisableTable":
			msg = &pb.DisableTableResponse{ProcId: proto.Uint64(7)}
		case "Snapshot":
			msg = &pb.SnapshotResponse{ExpectedTimeout: proto.Int64(1000)}
		case "DeleteSnapshot":
			msg = &pb.DeleteSnapshotResponse{}
		case "RestoreSnapshot":
			msg = &pb.RestoreSnapshotResponse{}
		case "GetCompletedSnapshots":
			msg = &pb.GetCompletedSnapshotsResponse{Snapshots: c.a.snapshots}
		case "GetTableNames":
			msg = &pb.GetTableNamesResponse{TableNames: c.a.tables}
		case "SetBalancerRunning":
			msg = &pb.SetBalancerRunningResponse{PrevBalanceValue: proto.Bool(c.a.balancer)}
		case "GetClusterStatus":
			msg = &pb.GetClusterStatusResponse{ClusterStatus: c.a.status}
		case "MoveRegion":
			msg = &pb.MoveRegionResponse{}
		case "IsSnapshotDone":
			// the completion check of CreateSnapshot: a poll like the procedure-state one
			atomic.AddInt32(&c.a.polls, 1)
			if c.a.pollSilent {
				return
			}
			call.ResultChan() <- hrpc.RPCResult{Msg: &pb.IsSnapshotDoneResponse{Done: proto.Bool(c.a.finishAt > 0)}}
			return
		case "getProcedureResult":
			n := int(atomic.AddInt32(&c.a.polls, 1))
			if c.a.onPoll != nil {
				c.a.onPoll()
			}
			c.a.mu.Lock()
			c.a.pollCtxs = append(c.a.pollCtxs, call.Context())
			c.a.mu.Unlock()
			if c.a.pollSilent {
				return
			}
			st := pb.GetProcedureResultResponse_RUNNING
			if c.a.finishAt > 0 && n >= c.a.finishAt {
				st = pb.GetProcedureResultResponse_FINISHED
			}
			resp := &pb.GetProcedureResultResponse{State: &st}
			if n-1 < len(c.a.script) {
				switch c.a.script[n-1] {
				case "f":
					st = pb.GetProcedureResultResponse_FINISHED
				case "x":
					st = pb.GetProcedureResultResponse_FINISHED
					resp.Exception = &pb.ForeignExceptionMessage{GenericException: &pb.GenericExceptionMessage{
						ClassName: proto.String("org.apache.hadoop.hbase.TableExistsException"), Message: proto.String("t")}}
				case "n":
					st = pb.GetProcedureResultResponse_NOT_FOUND
				}
			}
			msg = resp
		default:
			call.ResultChan() <- hrpc.RPCResult{Error: fmt.Errorf("adminConn: unexpected call %s", call.Name())}
			return
		}
		if call.Name() != "getProcedureResult" && c.a.reqSilent {
			return
		}
		call.ResultChan() <- hrpc.RPCResult{Msg: msg}
	}()
}

func adminCall(v *gohbase.VerifClient, api string, ctx context.Context) error {
	switch api {
	case "createtable":
		return v.C.CreateTable(hrpc.NewCreateTable(ctx, []byte("t"), map[string]map[string]string{"f": nil}))
	case "deletetable":
		return v.C.DeleteTable(hrpc.NewDeleteTable(ctx, []byte("t")))
	case "enabletable":
		return v.C.EnableTable(hrpc.NewEnableTable(ctx, []byte("t")))
	case "disabletable":
		return v.C.DisableTable(hrpc.NewDisableTable(ctx, []byte("t")))
	case "createsnapshot":
		sn, _ := hrpc.NewSnapshot(ctx, "s", "t")
		return v.C.CreateSnapshot(sn)
	case "deletesnapshot":
		sn, _ := hrpc.NewSnapshot(ctx, "s", "t")
		return v.C.DeleteSnapshot(sn)
	case "restoresnapshot":
		sn, _ := hrpc.NewSnapshot(ctx, "s", "t")
		return v.C.RestoreSnapshot(sn)
	case "listsnapshots":
		_, err := v.C.ListSnapshots(hrpc.NewListSnapshots(ctx))
		return err
	case "listtables":
		l, _ := hrpc.NewListTableNames(ctx)
		_, err := v.C.ListTableNames(l)
		return err
	default:
		b, _ := hrpc.NewSetBalancer(ctx, true)
		_, err := v.C.SetBalancer(b)
		return err
	}
}

// adminWaitScenario: one admin call, blocked in the given state, has its context ended.
func adminWaitScenario(state, api, mode string) string {
	setSleepOverride(nil)
	a := &adminCluster{}
	switch state {
	case "admin-master-lookup":
		a.zkSilent = true
	case "admin-request-silent":
		a.reqSilent = true
	case "admin-poll-silent":
		a.pollSilent = true
	case "admin-poll-running":
	}
	wrap := func(real hrpc.RegionClient) hrpc.RegionClient { return &adminConn{a} }
	v := gohbase.VerifNewClient(a, true, wrap, gohbase.Logger(discardLogger),
		gohbase.RegionLookupTimeout(3*time.Second), gohbase.RegionReadTimeout(3*time.Second))
	defer v.Client().Close()
	wait := 60 * time.Millisecond
	if api == "createsnapshot" && strings.HasPrefix(state, "admin-poll") {
		wait = 650 * time.Millisecond // the first completion check goes out after half a second
	}
	ctx, cancel := context.WithCancel(context.Background())
	if mode == "deadline" {
		ctx, cancel = context.WithTimeout(context.Background(), wait)
	}
	defer cancel()
	resCh := make(chan string, 1)
	go func() { resCh <- classOf(adminCall(v, api, ctx)) }()
	early := ""
	select {
	case r := <-resCh:
		early = r
	case <-time.After(wait):
	}
	if early == "" && (state == "admin-poll-silent" || state == "admin-poll-running") && atomic.LoadInt32(&a.polls) == 0 {
		early = "no-poll-yet"
	}
	t0 := time.Now()
	if mode == "cancel" {
		cancel()
	}
	if early != "" {
		return fmt.Sprintf("c13 wait %s %s %s 0 early:%s", state, api, mode, early)
	}
	select {
	case res := <-resCh:
		return fmt.Sprintf("c13 wait %s %s %s %d %s", state, api, mode, time.Since(t0).Microseconds(), res)
	case <-time.After(2 * time.Second):
		return fmt.Sprintf("c13 wait %s %s %s 2000000 blocked", state, api, mode)
	}
}

func adminWaitJobs(tier string) []func() string {
	var jobs []func() string
	apis := []string{"createtable", "deletetable", "enabletable", "disabletable"}
	// the calls without a completion wait: only the master lookup and the request itself
	for _, api := range []string{"deletesnapshot", "restoresnapshot", "listsnapshots", "listtables", "setbalancer"} {
		for k, state := range []string{"admin-master-lookup", "admin-request-silent"} {
			api, state := api, state
			mode := []string{"cancel", "deadline"}[(len(api)+k)%2]
			jobs = append(jobs, func() string { return adminWaitScenario(state, api, mode) })
		}
	}
	apis = append(apis, "createsnapshot")
	for i, state := range []string{"admin-master-lookup", "admin-request-silent", "admin-poll-silent", "admin-poll-running"} {
		for j, api := range apis {
			for k, mode := range []string{"cancel", "deadline"} {
				if tier == "quick" && (i+j+k)%2 == 1 && api != "createtable" {
					continue
				}
				state, api, mode := state, api, mode
				jobs = append(jobs, func() string { return adminWaitScenario(state, api, mode) })
			}
		}
	}
	return jobs
}

// closeZooKeeperDownReal (C19): the client's own ZooKeeper client (zk/client.go over the real
// go-zookeeper library) with a dialer that refuses every connection: a request is waiting for the
// location of hbase:meta when Close is called.  Once things have settled, no ZooKeeper connection
// attempt may follow and no goroutine of the ZooKeeper library may be left.
func closeZooKeeperDownReal() string {
	setSleepOverride(nil)
	var dials int32
	refuse := func(ctx context.Context, network, addr string) (net.Conn, error) {
		atomic.AddInt32(&dials, 1)
		return nil, errors.New("connection refused")
	}
	cl := gohbase.NewClient("127.0.0.1:2181", gohbase.ZooKeeperDialer(refuse), gohbase.ZookeeperTimeout(2*time.Second),
		gohbase.RegionLookupTimeout(time.Second), gohbase.Logger(discardLogger))
	res := make(chan string, 1)
	go func() {
		ctx, cancel := context.WithTimeout(context.Background(), 5*time.Second)
		defer cancel()
		g, _ := hrpc.NewGet(ctx, []byte("t"), []byte("k"))
		_, err := cl.Get(g)
		res <- classOf(err)
	}()
	for t0 := time.Now(); atomic.LoadInt32(&dials) == 0; time.Sleep(5 * time.Millisecond) {
		if time.Since(t0) > 3*time.Second {
			cl.Close()
			return "c19 close zookeeper-down-real 0 setup-failed 0 clientclosed 0 open=0 late=0 gor=0 second=ok"
		}
	}
	time.Sleep(100 * time.Millisecond)
	t0 := time.Now()
	cl.Close()
	closeLat := time.Since(t0)
	inflight, lat := "blocked", time.Duration(0)
	select {
	case inflight = <-res:
		lat = time.Since(t0)
	case <-time.After(2 * time.Second):
		lat = 2 * time.Second
	}
	t1 := time.Now()
	g, _ := hrpc.NewGet(context.Background(), []byte("t"), []byte("k"))
	_, err := cl.Get(g)
	later, laterLat := classOf(err), time.Since(t1)
	second := "ok"
	func() {
		defer func() {
			if recover() != nil {
				second = "panic"
			}
		}()
		cl.Close()
	}()
	time.Sleep(2500 * time.Millisecond)
	settled := atomic.LoadInt32(&dials)
	time.Sleep(2200 * time.Millisecond)
	late := int(atomic.LoadInt32(&dials) - settled)
	buf := make([]byte, 1<<20)
	buf = buf[:runtime.Stack(buf, true)]
	gor := strings.Count(string(buf), "go-zookeeper/zk.(*Conn).loop")
	return fmt.Sprintf("c19 close zookeeper-down-real %d %s %d %s %d open=0 late=%d gor=%d second=%s",
		closeLat.Microseconds(), inflight, lat.Microseconds(), later, laterLat.Microseconds(), late, 3*gor, second)
}

// debugStateScenario (C09): gohbase.DebugState renders the client's caches under their locks.
// (1) a rendering that starts while a writer holds a cache's lock waits for the writer and then
// completes; (2) renderings running next to region discovery, connection loss and
// re-establishment neither crash nor block (and, in the -race build, do not race).
func debugStateScenario(rng *RNG) []string {
	setSleepOverride(fastBackoff)
	defer setSleepOverride(nil)
	c := buildCluster(rng)
	sc := newSimClient(c)
	defer sc.cl.Close()
	var out []string
	get := func(t, k string) {
		ctx, cancel := context.WithTimeout(context.Background(), 5*time.Second)
		defer cancel()
		g, _ := hrpc.NewGet(ctx, []byte(t), []byte(k))
		sc.cl.Get(g)
	}
	c.mu.Lock()
	var tables []string
	seen := map[string]bool{}
	for _, r := range c.regions {
		if fq := string(r.fq()); !seen[fq] && fq != "hbase:meta" {
			seen[fq] = true
			tables = append(tables, fq)
		}
	}
	c.mu.Unlock()
	for _, t := range tables {
		get(t, "a")
	}
	render := func() string {
		res := make(chan string, 1)
		go func() {
			defer func() {
				if recover() != nil {
					res <- "panic"
				}
			}()
			if _, err := gohbase.DebugState(sc.cl); err != nil {
				res <- "error"
				return
			}
			res <- "ok"
		}()
		select {
		case r := <-res:
			return r
		case <-time.After(3 * time.Second):
			return "blocked"
		}
	}
	for _, which := range []string{"connection-cache", "location-cache"} {
		lock, unlock := sc.v.ConnCacheLock, sc.v.ConnCacheUnlock
		if which == "location-cache" {
			lock, unlock = sc.v.Cache().Lock, sc.v.Cache().Unlock
		}
		lock()
		res := make(chan string, 1)
		go func() { res <- render() }()
		time.Sleep(60 * time.Millisecond)
		early := ""
		select {
		case early = <-res:
		default:
		}
		unlock()
		verdict := ""
		switch {
		case early == "ok":
			verdict = "did-not-wait-for-writer"
		case early != "":
			verdict = early
		default:
			verdict = <-res
		}
		out = append(out, "c09 check debug-state-with-writer-on-"+which+" "+verdict)
	}
	// renderings next to traffic and faults
	stop := make(chan struct{})
	var wg sync.WaitGroup
	worst := "ok"
	var wmu sync.Mutex
	for i := 0; i < 2; i++ {
		wg.Add(1)
		go func() {
			defer wg.Done()
			for {
				select {
				case <-stop:
					return
				default:
				}
				if r := render(); r != "ok" {
					wmu.Lock()
					worst = r
					wmu.Unlock()
					return
				}
			}
		}()
	}
	var tw sync.WaitGroup
	for g := 0; g < 4; g++ {
		g := g
		tw.Add(1)
		go func() {
			defer tw.Done()
			for i := 0; i < 40; i++ {
				get(tables[(g+i)%len(tables)], string(simKeys[(g*7+i)%len(simKeys)]))
			}
		}()
	}
	// one connection loss shared by the regions of a server, mid-way
	time.Sleep(5 * time.Millisecond)
	c.mu.Lock()
	var addr string
	for _, r := range c.regions {
		if string(r.fq()) != "hbase:meta" {
			addr = r.addr
			break
		}
	}
	c.mu.Unlock()
	c.mu.Lock()
	for _, r := range c.regions {
		if r.addr == addr && string(r.fq()) != "hbase:meta" {
			r.faults = append(r.faults, "connErr")
		}
	}
	c.mu.Unlock()
	tw.Wait()
	close(stop)
	wg.Wait()
	out = append(out, "c09 check debug-state-next-to-traffic "+worst)
	return out
}

// apiResultsScenario (C02, at the API): concurrent callers increment counters of their own rows on
// a simulated cluster whose answer depends on the row; each caller must be handed exactly the
// value the server produced for its row (any 64-bit pattern, negative values included).
func apiResultsScenario(rng *RNG) string {
	setSleepOverride(fastBackoff)
	defer setSleepOverride(nil)
	c := buildCluster(rng)
	sc := newSimClient(c)
	defer sc.cl.Close()
	var wrong, failed int32
	var wg sync.WaitGroup
	for g := 0; g < 8; g++ {
		g := g
		wg.Add(1)
		go func() {
			defer wg.Done()
			for i := 0; i < 30; i++ {
				key := []byte(fmt.Sprintf("%c-%d-%d", 'a'+byte((g*5+i)%26), g, i))
				ctx, cancel := context.WithTimeout(context.Background(), 5*time.Second)
				p, _ := hrpc.NewInc(ctx, []byte("t"), key, map[string]map[string][]byte{"f": {"q": {0, 0, 0, 0, 0, 0, 0, 1}}})
				got, err := sc.cl.Increment(p)
				cancel()
				if err != nil {
					atomic.AddInt32(&failed, 1)
				} else if got != int64(binary.BigEndian.Uint64(simCounterValue(key))) {
					atomic.AddInt32(&wrong, 1)
				}
			}
		}()
	}
	wg.Wait()
	verdict := "ok"
	if wrong > 0 {
		verdict = fmt.Sprintf("%d-callers-got-another-value", wrong)
	} else if failed > 0 {
		verdict = fmt.Sprintf("%d-answered-calls-failed", failed)
	}
	return "sim check increment-result-is-the-servers-answer " + verdict
}

// apiGetResultsScenario (C02, at the API): concurrent Gets of rows whose answer is a function of
// the row — cells or none, the exists and stale flags true, false or absent; every caller must be
// handed that very result (a flag the server sent as false is not the same as one it did not send).
func apiGetResultsScenario(rng *RNG) string {
	setSleepOverride(fastBackoff)
	defer setSleepOverride(nil)
	c := buildCluster(rng)
	sc := newSimClient(c)
	defer sc.cl.Close()
	var wrong, failed int32
	var first atomic.Value
	optB := func(b *bool) string {
		if b == nil {
			return "_"
		}
		if *b {
			return "1"
		}
		return "0"
	}
	// the caller's Stale is a plain bool: absent and false are the same to it
	staleOf := func(b *bool) string {
		if b != nil && *b {
			return "1"
		}
		return "0"
	}
	var wg sync.WaitGroup
	for g := 0; g < 6; g++ {
		g := g
		wg.Add(1)
		go func() {
			defer wg.Done()
			for i := 0; i < 40; i++ {
				key := []byte(fmt.Sprintf("api-%c-%d-%d", 'a'+byte((g*3+i)%26), g, i))
				ctx, cancel := context.WithTimeout(context.Background(), 5*time.Second)
				get, _ := hrpc.NewGet(ctx, []byte("t"), key)
				res, err := sc.cl.Get(get)
				cancel()
				if err != nil || res == nil {
					atomic.AddInt32(&failed, 1)
					continue
				}
				want := simGetResult(key)
				got := optB(res.Exists) + staleOf(&res.Stale) + fmt.Sprint(len(res.Cells))
				exp := optB(want.Exists) + staleOf(want.Stale) + fmt.Sprint(len(want.Cell))
				for j := 0; got == exp && j < len(res.Cells); j++ {
					if !bytes.Equal(res.Cells[j].Value, want.Cell[j].Value) || !bytes.Equal(res.Cells[j].Qualifier, want.Cell[j].Qualifier) {
						got += "/cell-differs"
					}
				}
				if got != exp {
					if atomic.AddInt32(&wrong, 1) == 1 {
						first.Store("server-" + exp + "-caller-" + got)
					}
				}
			}
		}()
	}
	wg.Wait()
	verdict := "ok"
	if wrong > 0 {
		verdict = fmt.Sprintf("%d-differ-first-%s", wrong, first.Load())
	} else if failed > 0 {
		verdict = fmt.Sprintf("%d-answered-calls-failed", failed)
	}
	return "sim check get-result-is-the-servers-answer " + verdict
}

// adminPollRateScenario (C17): a procedure that stays RUNNING: the state polls of an admin call are
// spaced by the schedule (real time, 1.5 s).
func adminPollRateScenario() string {
	setSleepOverride(nil)
	a := &adminCluster{}
	var mu sync.Mutex
	var ts []time.Time
	a.onPoll = func() {
		mu.Lock()
		ts = append(ts, time.Now())
		mu.Unlock()
	}
	wrap := func(real hrpc.RegionClient) hrpc.RegionClient { return &adminConn{a} }
	v := gohbase.VerifNewClient(a, true, wrap, gohbase.Logger(discardLogger))
	defer v.Client().Close()
	ctx, cancel := context.WithTimeout(context.Background(), 1500*time.Millisecond)
	defer cancel()
	t0 := time.Now()
	adminCall(v, "createtable", ctx)
	mu.Lock()
	defer mu.Unlock()
	var atts []string
	for _, t := range ts {
		atts = append(atts, fmt.Sprintf("x.adminpoll.%d", t.Sub(t0).Microseconds()))
	}
	if len(atts) == 0 {
		atts = []string{"-"}
	}
	return fmt.Sprintf("c17 rate admin-poll %s", strings.Join(atts, ";"))
}

// adminScriptCase (C17): one admin call against a master that answers the procedure-state polls by
// a script (RUNNING k times, a final answer, more answers behind it); the waits are virtual
// (sleep override: +1 ns growth, durations recorded).
func adminScriptCase(rng *RNG) string {
	a := &adminCluster{}
	k := rng.Intn(7)
	for i := 0; i < k; i++ {
		a.script = append(a.script, "r")
	}
	a.script = append(a.script, []string{"f", "f", "x", "n"}[rng.Intn(4)])
	for i, n := 0, rng.Intn(3); i < n; i++ {
		a.script = append(a.script, []string{"r", "f", "x", "n"}[rng.Intn(4)])
	}
	api := []string{"createtable", "deletetable", "enabletable", "disabletable"}[rng.Intn(4)]
	backoffLog.Lock()
	backoffLog.d = nil
	backoffLog.Unlock()
	setSleepOverride(fastBackoff)
	defer setSleepOverride(nil)
	wrap := func(real hrpc.RegionClient) hrpc.RegionClient { return &adminConn{a} }
	v := gohbase.VerifNewClient(a, true, wrap, gohbase.Logger(discardLogger))
	defer v.Client().Close()
	ctx, cancel := context.WithTimeout(context.Background(), 5*time.Second)
	defer cancel()
	err := adminCall(v, api, ctx)
	res := "ok"
	switch {
	case err == nil:
	case strings.Contains(err.Error(), "procedure exception"):
		res = "procexc"
	case strings.Contains(err.Error(), "procedure not found"):
		res = "notfound"
	default:
		res = "other:" + classOf(err)
	}
	backoffLog.Lock()
	var ss []string
	for _, d := range backoffLog.d {
		if d == 0 {
			continue // the establisher of the master connection: its first "wait" is none
		}
		ss = append(ss, fmt.Sprint(int64(d)))
	}
	backoffLog.Unlock()
	sl := strings.Join(ss, ",")
	if sl == "" {
		sl = "-"
	}
	return fmt.Sprintf("c17 admin %s %s %s %d %s", api, strings.Join(a.script, ","), res, atomic.LoadInt32(&a.polls), sl)
}

// adminResultsScenario (C02, at the API of the admin client): what ListSnapshots, ListTableNames,
// SetBalancer and ClusterStatus hand to the caller is what the master answered.
func adminResultsScenario(rng *RNG) string {
	setSleepOverride(fastBackoff)
	defer setSleepOverride(nil)
	a := &adminCluster{balancer: rng.Bool()}
	for i, n := 0, rng.Intn(4); i < n; i++ {
		a.snapshots = append(a.snapshots, &pb.SnapshotDescription{Name: proto.String(fmt.Sprintf("s%d-%d", i, rng.Intn(1000))),
			Table: proto.String(fmt.Sprintf("t%d", rng.Intn(10))), Version: proto.Int32(int32(rng.Intn(3))), CreationTime: proto.Int64(int64(rng.Intn(1 << 30)))})
	}
	for i, n := 0, rng.Intn(5); i < n; i++ {
		a.tables = append(a.tables, &pb.TableName{Namespace: []byte([]string{"default", "ns"}[rng.Intn(2)]), Qualifier: []byte(fmt.Sprintf("t%d-%d", i, rng.Intn(1000)))})
	}
	a.status = &pb.ClusterStatus{ClusterId: &pb.ClusterId{ClusterId: proto.String(fmt.Sprintf("cluster-%d", rng.Intn(1000)))},
		BalancerOn: proto.Bool(rng.Bool())}
	wrap := func(real hrpc.RegionClient) hrpc.RegionClient { return &adminConn{a} }
	v := gohbase.VerifNewClient(a, true, wrap, gohbase.Logger(discardLogger))
	defer v.Client().Close()
	ctx, cancel := context.WithTimeout(context.Background(), 5*time.Second)
	defer cancel()
	snaps, err := v.C.ListSnapshots(hrpc.NewListSnapshots(ctx))
	if err != nil || len(snaps) != len(a.snapshots) {
		return "sim check admin-results snapshots-differ"
	}
	for i := range snaps {
		if !proto.Equal(snaps[i], a.snapshots[i]) {
			return "sim check admin-results snapshots-differ"
		}
	}
	l, _ := hrpc.NewListTableNames(ctx)
	names, err := v.C.ListTableNames(l)
	if err != nil || len(names) != len(a.tables) {
		return "sim check admin-results table-names-differ"
	}
	for i := range names {
		if !proto.Equal(names[i], a.tables[i]) {
			return "sim check admin-results table-names-differ"
		}
	}
	b, _ := hrpc.NewSetBalancer(ctx, !a.balancer)
	prev, err := v.C.SetBalancer(b)
	if err != nil || prev != a.balancer {
		return "sim check admin-results balancer-previous-state-differs"
	}
	st, err := v.C.ClusterStatus()
	if err != nil || !proto.Equal(st, a.status) {
		return "sim check admin-results cluster-status-differs"
	}
	mv, _ := hrpc.NewMoveRegion(ctx, []byte("0123456789abcdef0123456789abcdef"))
	if err := v.C.MoveRegion(mv); err != nil {
		return "sim check admin-results move-region-failed"
	}
	return "sim check admin-results ok"
}
