package main

// C05 — bytes written to the server encode exactly the requested operation.
//
// A real region client (region.NewClient + Dial through a custom dialer) writes into an
// in-memory net.Conn that records every Write call separately and never answers. The recorded
// bytes are decoded by the independent decoder below (encoding/binary + protowire for the
// framing, proto.Unmarshal into the generated pb types for the payloads, own KeyValue / Hadoop
// block parsers for cellblocks) and rendered canonically next to the operation the generator
// built. The Lean driver judges framing, ids, cellblock meta and the two renderings.

import (
	"bytes"
	"context"
	"encoding/binary"
	"errors"
	"fmt"
	"io"
	"log/slog"
	"math"
	"net"
	"sort"
	"strconv"
	"strings"
	"sync"
	"time"

	"github.com/golang/snappy"
	"github.com/tsuna/gohbase/compression"
	gsnappy "github.com/tsuna/gohbase/compression/snappy"
	"github.com/tsuna/gohbase/filter"
	"github.com/tsuna/gohbase/hrpc"
	"github.com/tsuna/gohbase/pb"
	"github.com/tsuna/gohbase/region"
	"google.golang.org/protobuf/encoding/protowire"
	"google.golang.org/protobuf/proto"
)

func init() { props["C05"] = runC05 }

// ---------------------------------------------------------------- recording connection

type recConn struct {
	mu     sync.Mutex
	units  [][]byte
	closed chan struct{}
	once   sync.Once
}

func newRecConn() *recConn { return &recConn{closed: make(chan struct{})} }

func (c *recConn) Write(b []byte) (int, error) {
	select {
	case <-c.closed:
		return 0, io.ErrClosedPipe
	default:
	}
	c.mu.Lock()
	c.units = append(c.units, append([]byte{}, b...))
	c.mu.Unlock()
	return len(b), nil
}

// Read never delivers anything: requests only need to be written.
func (c *recConn) Read(b []byte) (int, error) {
	<-c.closed
	return 0, io.EOF
}
func (c *recConn) Close() error                       { c.once.Do(func() { close(c.closed) }); return nil }
func (c *recConn) LocalAddr() net.Addr                { return dummyAddr{} }
func (c *recConn) RemoteAddr() net.Addr               { return dummyAddr{} }
func (c *recConn) SetDeadline(t time.Time) error      { return nil }
func (c *recConn) SetReadDeadline(t time.Time) error  { return nil }
func (c *recConn) SetWriteDeadline(t time.Time) error { return nil }
func (c *recConn) snapshot() [][]byte {
	c.mu.Lock()
	defer c.mu.Unlock()
	return append([][]byte{}, c.units...)
}

type dummyAddr struct{}

func (dummyAddr) Network() string { return "mem" }
func (dummyAddr) String() string  { return "mem:0" }

// ---------------------------------------------------------------- canonical rendering

const maxInt64 = uint64(math.MaxInt64)

type canonCell struct {
	fam, qual, val []byte
	ts             uint64 // maxInt64 = latest
	typ            int    // KeyValue type code 4, 8, 10, 12, 14
}

func (c canonCell) String() string {
	ts := strconv.FormatUint(c.ts, 10)
	if c.ts == maxInt64 {
		ts = "latest"
	}
	return hx(c.fam) + "/" + hx(c.qual) + "/" + ts + "/" + strconv.Itoa(c.typ) + "/" + hx(c.val)
}

func renderCells(cs []canonCell) string {
	s := make([]string, len(cs))
	for i, c := range cs {
		s[i] = c.String()
	}
	sort.Strings(s)
	return "[" + strings.Join(s, ",") + "]"
}

type famQ struct {
	fam   string
	quals []string
}

func renderFams(fs []famQ) string {
	fs = append([]famQ{}, fs...)
	sort.SliceStable(fs, func(i, j int) bool { return fs[i].fam < fs[j].fam })
	var sb strings.Builder
	sb.WriteString("[")
	for i, f := range fs {
		if i > 0 {
			sb.WriteString(",")
		}
		sb.WriteString(hx([]byte(f.fam)) + "(")
		for j, q := range f.quals {
			if j > 0 {
				sb.WriteString(",")
			}
			sb.WriteString(hx([]byte(q)))
		}
		sb.WriteString(")")
	}
	sb.WriteString("]")
	return sb.String()
}

func c05b01(b bool) string {
	if b {
		return "1"
	}
	return "0"
}

func limStr(v uint32) string {
	if v == math.MaxInt32 {
		return "inf"
	}
	return strconv.FormatUint(uint64(v), 10)
}

func toStr(v uint64) string {
	if v == math.MaxUint64 {
		return "max"
	}
	return strconv.FormatUint(v, 10)
}

// queryCanon: the query part shared by Get and Scan.
type queryCanon struct {
	fams     []famQ
	flt      string
	from, to uint64
	mv       uint32
	lim, off uint32
	cb       bool
	cons     string
}

func (q queryCanon) String() string {
	return "fam=" + renderFams(q.fams) + ";flt=" + q.flt + ";tr=" + strconv.FormatUint(q.from, 10) +
		"-" + toStr(q.to) + ";mv=" + strconv.FormatUint(uint64(q.mv), 10) + ";lim=" + limStr(q.lim) +
		";off=" + strconv.FormatUint(uint64(q.off), 10) + ";cb=" + c05b01(q.cb) + ";cons=" + q.cons
}

// ---------------------------------------------------------------- independent decoder

type decFrame struct {
	prefix     uint32
	hdr        *pb.RequestHeader
	reqBytes   []byte
	cellblocks []byte
	nunits     int
}

func consumeDelimited(b []byte) ([]byte, []byte, error) {
	n, l := protowire.ConsumeVarint(b)
	if l < 0 {
		return nil, nil, errors.New("bad varint")
	}
	b = b[l:]
	if uint64(len(b)) < n {
		return nil, nil, errors.New("delimited payload truncated")
	}
	return b[:n], b[n:], nil
}

func decodeHello(u []byte) (*pb.ConnectionHeader, error) {
	if len(u) < 10 || !bytes.Equal(u[:6], []byte("HBas\x00\x50")) {
		return nil, errors.New("bad preamble")
	}
	n := binary.BigEndian.Uint32(u[6:10])
	if uint32(len(u)-10) != n {
		return nil, errors.New("connection header length")
	}
	ch := &pb.ConnectionHeader{}
	if err := proto.Unmarshal(u[10:], ch); err != nil {
		return nil, err
	}
	return ch, nil
}

// decodeByPrefix: the server's view — trust the 4-byte length prefix.
func decodeByPrefix(stream []byte) ([]decFrame, error) {
	var out []decFrame
	for len(stream) > 0 {
		if len(stream) < 4 {
			return nil, errors.New("truncated length")
		}
		total := binary.BigEndian.Uint32(stream[:4])
		if uint64(len(stream)-4) < uint64(total) {
			return nil, errors.New("truncated body")
		}
		body := stream[4 : 4+total]
		stream = stream[4+total:]
		h, rest, err := consumeDelimited(body)
		if err != nil {
			return nil, err
		}
		hdr := &pb.RequestHeader{}
		if err := proto.Unmarshal(h, hdr); err != nil {
			return nil, err
		}
		if hdr.CallId == nil || hdr.MethodName == nil {
			return nil, errors.New("header without call id / method")
		}
		r, cbs, err := consumeDelimited(rest)
		if err != nil {
			return nil, err
		}
		out = append(out, decFrame{prefix: total, hdr: hdr, reqBytes: r, cellblocks: cbs})
	}
	return out, nil
}

// decodeByUnits: fallback that ignores the length prefix: a frame starts with the Write that
// carries the marshalled buffer; its cellblock is what CellBlockMeta announces.
func decodeByUnits(units [][]byte) ([]decFrame, error) {
	var out []decFrame
	for len(units) > 0 {
		b := units[0]
		units = units[1:]
		if len(b) < 4 {
			return nil, errors.New("short unit")
		}
		h, rest, err := consumeDelimited(b[4:])
		if err != nil {
			return nil, err
		}
		hdr := &pb.RequestHeader{}
		if err := proto.Unmarshal(h, hdr); err != nil {
			return nil, err
		}
		if hdr.CallId == nil || hdr.MethodName == nil {
			return nil, errors.New("header without call id / method")
		}
		r, tail, err := consumeDelimited(rest)
		if err != nil {
			return nil, err
		}
		need := int(hdr.GetCellBlockMeta().GetLength())
		cbs := append([]byte{}, tail...)
		n := 1
		for len(cbs) < need {
			if len(units) == 0 {
				return nil, errors.New("cellblock units exhausted")
			}
			cbs = append(cbs, units[0]...)
			units = units[1:]
			n++
		}
		if len(cbs) != need {
			return nil, errors.New("cellblock does not end on a unit boundary")
		}
		out = append(out, decFrame{prefix: binary.BigEndian.Uint32(b[:4]), hdr: hdr, reqBytes: r,
			cellblocks: cbs, nunits: n})
	}
	return out, nil
}

// Hadoop block stream: <raw len> (<compressed chunk len> <chunk>)* per block.
func decodeHadoop(b []byte) ([]byte, error) {
	var out []byte
	for len(b) > 0 {
		if len(b) < 4 {
			return nil, errors.New("block length truncated")
		}
		raw := binary.BigEndian.Uint32(b[:4])
		b = b[4:]
		var got uint32
		for got < raw {
			if len(b) < 4 {
				return nil, errors.New("chunk length truncated")
			}
			cl := binary.BigEndian.Uint32(b[:4])
			b = b[4:]
			if uint64(len(b)) < uint64(cl) {
				return nil, errors.New("chunk truncated")
			}
			d, err := snappy.Decode(nil, b[:cl])
			if err != nil {
				return nil, err
			}
			b = b[cl:]
			out = append(out, d...)
			got += uint32(len(d))
		}
		if got != raw {
			return nil, errors.New("block length mismatch")
		}
	}
	return out, nil
}

type kvCell struct {
	row []byte
	canonCell
	size int
}

// parseKV: one KeyValue from the HBase format description.
func parseKV(b []byte) (kvCell, error) {
	var c kvCell
	if len(b) < 12 {
		return c, errors.New("kv header truncated")
	}
	total := int(binary.BigEndian.Uint32(b[0:4]))
	kl := int(binary.BigEndian.Uint32(b[4:8]))
	vl := int(binary.BigEndian.Uint32(b[8:12]))
	if total != 8+kl+vl || len(b) < 4+total {
		return c, errors.New("kv lengths inconsistent")
	}
	k := b[12 : 12+kl]
	v := b[12+kl : 12+kl+vl]
	if len(k) < 2 {
		return c, errors.New("kv key truncated")
	}
	rl := int(binary.BigEndian.Uint16(k[0:2]))
	if len(k) < 2+rl+1 {
		return c, errors.New("kv row truncated")
	}
	c.row = k[2 : 2+rl]
	fl := int(k[2+rl])
	rest := k[2+rl+1:]
	if len(rest) < fl+9 {
		return c, errors.New("kv family truncated")
	}
	c.fam = rest[:fl]
	c.qual = rest[fl : len(rest)-9]
	c.ts = binary.BigEndian.Uint64(rest[len(rest)-9 : len(rest)-1])
	c.typ = int(rest[len(rest)-1])
	c.val = v
	c.size = 4 + total
	return c, nil
}

func takeCells(b []byte, n int) ([]kvCell, []byte, error) {
	var out []kvCell
	for i := 0; i < n; i++ {
		c, err := parseKV(b)
		if err != nil {
			return nil, nil, err
		}
		out = append(out, c)
		b = b[c.size:]
	}
	return out, b, nil
}

// ---------------------------------------------------------------- decoded messages → canon

func decFilter(f *pb.Filter) string {
	if f == nil {
		return "none"
	}
	name := strings.TrimPrefix(f.GetName(), "org.apache.hadoop.hbase.filter.")
	s := f.GetSerializedFilter()
	switch name {
	case "PrefixFilter":
		m := &pb.PrefixFilter{}
		if proto.Unmarshal(s, m) == nil {
			return "Prefix(" + hx(m.GetPrefix()) + ")"
		}
	case "ColumnPrefixFilter":
		m := &pb.ColumnPrefixFilter{}
		if proto.Unmarshal(s, m) == nil {
			return "ColumnPrefix(" + hx(m.GetPrefix()) + ")"
		}
	case "KeyOnlyFilter":
		m := &pb.KeyOnlyFilter{}
		if proto.Unmarshal(s, m) == nil {
			return "KeyOnly(" + c05b01(m.GetLenAsVal()) + ")"
		}
	case "PageFilter":
		m := &pb.PageFilter{}
		if proto.Unmarshal(s, m) == nil {
			return "Page(" + strconv.FormatInt(m.GetPageSize(), 10) + ")"
		}
	case "FirstKeyOnlyFilter":
		m := &pb.FirstKeyOnlyFilter{}
		if proto.Unmarshal(s, m) == nil {
			return "FirstKeyOnly()"
		}
	case "MultiRowRangeFilter":
		m := &pb.MultiRowRangeFilter{}
		if proto.Unmarshal(s, m) == nil {
			parts := []string{}
			for _, r := range m.GetRowRangeList() {
				parts = append(parts, c05b01(r.GetStartRowInclusive())+hx(r.GetStartRow())+":"+hx(r.GetStopRow())+c05b01(r.GetStopRowInclusive()))
			}
			return "MultiRowRange(" + strings.Join(parts, ",") + ")"
		}
	case "ColumnRangeFilter":
		m := &pb.ColumnRangeFilter{}
		if proto.Unmarshal(s, m) == nil {
			return "ColumnRange(" + c05b01(m.GetMinColumnInclusive()) + hx(m.GetMinColumn()) + ":" + hx(m.GetMaxColumn()) + c05b01(m.GetMaxColumnInclusive()) + ")"
		}
	case "TimestampsFilter":
		m := &pb.TimestampsFilter{}
		if proto.Unmarshal(s, m) == nil {
			parts := []string{}
			for _, t := range m.GetTimestamps() {
				parts = append(parts, strconv.FormatInt(t, 10))
			}
			return "Timestamps(" + strings.Join(parts, ",") + ")"
		}
	case "InclusiveStopFilter":
		m := &pb.InclusiveStopFilter{}
		if proto.Unmarshal(s, m) == nil {
			return "InclusiveStop(" + hx(m.GetStopRowKey()) + ")"
		}
	case "ColumnCountGetFilter":
		m := &pb.ColumnCountGetFilter{}
		if proto.Unmarshal(s, m) == nil {
			return "ColumnCountGet(" + strconv.Itoa(int(m.GetLimit())) + ")"
		}
	case "ColumnPaginationFilter":
		m := &pb.ColumnPaginationFilter{}
		if proto.Unmarshal(s, m) == nil {
			// (the server chooses the filter's mode by the presence of column_offset, even an empty one)
			return "ColumnPagination(" + strconv.Itoa(int(m.GetLimit())) + "," + strconv.Itoa(int(m.GetOffset())) + "," + hxPresent(m.ColumnOffset) + ")"
		}
	case "MultipleColumnPrefixFilter":
		m := &pb.MultipleColumnPrefixFilter{}
		if proto.Unmarshal(s, m) == nil {
			parts := []string{}
			for _, x := range m.GetSortedPrefixes() {
				parts = append(parts, hx(x))
			}
			return "MultipleColumnPrefix(" + strings.Join(parts, ",") + ")"
		}
	case "SkipFilter":
		m := &pb.SkipFilter{}
		if proto.Unmarshal(s, m) == nil {
			return "Skip(" + decFilter(m.GetFilter()) + ")"
		}
	case "WhileMatchFilter":
		m := &pb.WhileMatchFilter{}
		if proto.Unmarshal(s, m) == nil {
			return "WhileMatch(" + decFilter(m.GetFilter()) + ")"
		}
	case "SingleColumnValueFilter":
		m := &pb.SingleColumnValueFilter{}
		if proto.Unmarshal(s, m) == nil {
			return "SingleColumnValue(" + hx(m.GetColumnFamily()) + "," + hx(m.GetColumnQualifier()) + "," + strconv.Itoa(int(m.GetCompareOp())) + "," +
				decComparator(m.GetComparator()) + "," + c05b01(m.GetFilterIfMissing()) + c05b01(m.GetLatestVersionOnly()) + ")"
		}
	case "RowFilter":
		m := &pb.RowFilter{}
		if proto.Unmarshal(s, m) == nil {
			return "Row(" + decCompare(m.GetCompareFilter()) + ")"
		}
	case "ValueFilter":
		m := &pb.ValueFilter{}
		if proto.Unmarshal(s, m) == nil {
			return "Value(" + decCompare(m.GetCompareFilter()) + ")"
		}
	case "QualifierFilter":
		m := &pb.QualifierFilter{}
		if proto.Unmarshal(s, m) == nil {
			return "Qualifier(" + decCompare(m.GetCompareFilter()) + ")"
		}
	case "FamilyFilter":
		m := &pb.FamilyFilter{}
		if proto.Unmarshal(s, m) == nil {
			return "Family(" + decCompare(m.GetCompareFilter()) + ")"
		}
	case "DependentColumnFilter":
		m := &pb.DependentColumnFilter{}
		if proto.Unmarshal(s, m) == nil {
			return "DependentColumn(" + decCompare(m.GetCompareFilter()) + "," + hx(m.GetColumnFamily()) + "," + hx(m.GetColumnQualifier()) + "," + c05b01(m.GetDropDependentColumn()) + ")"
		}
	case "FirstKeyValueMatchingQualifiersFilter":
		m := &pb.FirstKeyValueMatchingQualifiersFilter{}
		if proto.Unmarshal(s, m) == nil {
			parts := []string{}
			for _, x := range m.GetQualifiers() {
				parts = append(parts, hx(x))
			}
			return "FirstKeyValueMatchingQualifiers(" + strings.Join(parts, ",") + ")"
		}
	case "FuzzyRowFilter":
		m := &pb.FuzzyRowFilter{}
		if proto.Unmarshal(s, m) == nil {
			parts := []string{}
			for _, x := range m.GetFuzzyKeysData() {
				parts = append(parts, hx(x.GetFirst())+":"+hx(x.GetSecond()))
			}
			return "FuzzyRow(" + strings.Join(parts, ",") + ")"
		}
	case "RandomRowFilter":
		m := &pb.RandomRowFilter{}
		if proto.Unmarshal(s, m) == nil {
			return "RandomRow(" + strconv.FormatUint(uint64(math.Float32bits(m.GetChance())), 16) + ")"
		}
	case "SingleColumnValueExcludeFilter":
		m := &pb.SingleColumnValueExcludeFilter{}
		if proto.Unmarshal(s, m) == nil {
			v := m.GetSingleColumnValueFilter()
			return "SingleColumnValueExclude(" + hx(v.GetColumnFamily()) + "," + hx(v.GetColumnQualifier()) + "," + strconv.Itoa(int(v.GetCompareOp())) + "," +
				decComparator(v.GetComparator()) + "," + c05b01(v.GetFilterIfMissing()) + c05b01(v.GetLatestVersionOnly()) + ")"
		}
	case "FilterList":
		m := &pb.FilterList{}
		if proto.Unmarshal(s, m) == nil {
			parts := []string{}
			for _, x := range m.GetFilters() {
				parts = append(parts, decFilter(x))
			}
			return "List" + strconv.Itoa(int(m.GetOperator())) + "(" + strings.Join(parts, ",") + ")"
		}
	}
	return "unknown/" + hx([]byte(f.GetName())) + "/" + hx(s)
}

// hxPresent: hex of a byte string that may be absent (nil: "_") — absent and empty differ on the wire.
func hxPresent(b []byte) string {
	if b == nil {
		return "_"
	}
	return hx(b)
}

func decCompare(c *pb.CompareFilter) string {
	return strconv.Itoa(int(c.GetCompareOp())) + "," + decComparator(c.GetComparator())
}

// decComparator: the two byte-array comparators the generator uses, by class name and value
func decComparator(c *pb.Comparator) string {
	name := strings.TrimPrefix(c.GetName(), "org.apache.hadoop.hbase.filter.")
	switch name {
	case "BinaryComparator":
		m := &pb.BinaryComparator{}
		if proto.Unmarshal(c.GetSerializedComparator(), m) == nil {
			return "Binary:" + hx(m.GetComparable().GetValue())
		}
	case "BinaryPrefixComparator":
		m := &pb.BinaryPrefixComparator{}
		if proto.Unmarshal(c.GetSerializedComparator(), m) == nil {
			return "BinaryPrefix:" + hx(m.GetComparable().GetValue())
		}
	}
	switch name {
	case "LongComparator":
		m := &pb.LongComparator{}
		if proto.Unmarshal(c.GetSerializedComparator(), m) == nil {
			return "Long:" + hx(m.GetComparable().GetValue())
		}
	case "BitComparator":
		m := &pb.BitComparator{}
		if proto.Unmarshal(c.GetSerializedComparator(), m) == nil {
			return "Bit" + strconv.Itoa(int(m.GetBitwiseOp())) + ":" + hx(m.GetComparable().GetValue())
		}
	case "NullComparator":
		m := &pb.NullComparator{}
		if proto.Unmarshal(c.GetSerializedComparator(), m) == nil {
			return "Null"
		}
	case "RegexStringComparator":
		m := &pb.RegexStringComparator{}
		if proto.Unmarshal(c.GetSerializedComparator(), m) == nil {
			return "Regex:" + hx([]byte(m.GetPattern())) + ":" + strconv.Itoa(int(m.GetPatternFlags())) + ":" + hx([]byte(m.GetCharset())) + ":" + hx([]byte(m.GetEngine()))
		}
	case "SubstringComparator":
		m := &pb.SubstringComparator{}
		if proto.Unmarshal(c.GetSerializedComparator(), m) == nil {
			return "Substring:" + hx([]byte(m.GetSubstr()))
		}
	}
	return "unknown/" + hx([]byte(c.GetName())) + "/" + hx(c.GetSerializedComparator())
}

func decColumns(cs []*pb.Column) []famQ {
	var out []famQ
	for _, c := range cs {
		f := famQ{fam: string(c.GetFamily())}
		for _, q := range c.GetQualifier() {
			f.quals = append(f.quals, string(q))
		}
		out = append(out, f)
	}
	return out
}

func decCons(c pb.Consistency) string {
	if c == pb.Consistency_TIMELINE {
		return "timeline"
	}
	return "strong"
}

func decTo(tr *pb.TimeRange) uint64 {
	if tr == nil || tr.To == nil {
		return math.MaxUint64 // HBase: Long.MAX_VALUE, "no upper bound"
	}
	return tr.GetTo()
}

func decLimit(p *uint32) uint32 {
	if p == nil {
		return math.MaxInt32 // HBase: -1, "no limit"
	}
	return *p
}

func decGetBody(g *pb.Get) string {
	if g == nil {
		return "noget"
	}
	q := queryCanon{fams: decColumns(g.GetColumn()), flt: decFilter(g.GetFilter()),
		from: g.GetTimeRange().GetFrom(), to: decTo(g.GetTimeRange()), mv: g.GetMaxVersions(),
		lim: decLimit(g.StoreLimit), off: g.GetStoreOffset(), cb: g.GetCacheBlocks(),
		cons: decCons(g.GetConsistency())}
	return "row=" + hx(g.GetRow()) + ";" + q.String() + ";ex=" + c05b01(g.GetExistenceOnly())
}

var deleteTypeCode = map[pb.MutationProto_DeleteType]int{
	pb.MutationProto_DELETE_ONE_VERSION:       8,
	pb.MutationProto_DELETE_MULTIPLE_VERSIONS: 12,
	pb.MutationProto_DELETE_FAMILY:            14,
	pb.MutationProto_DELETE_FAMILY_VERSION:    10,
}

// decMutationBody renders a MutationProto; cells come from the cellblock stream (the next
// associated_cell_count cells) and/or from inline column values.
func decMutationBody(m *pb.MutationProto, cbs *[]byte, useCB bool) string {
	if m == nil {
		return "nomutation"
	}
	var cells []canonCell
	note := ""
	if m.AssociatedCellCount != nil {
		if !useCB {
			note = ";unexpected-cell-count"
		}
		kvs, rest, err := takeCells(*cbs, int(m.GetAssociatedCellCount()))
		if err != nil {
			note += ";cellblock-error=" + strings.ReplaceAll(err.Error(), " ", "_")
		} else {
			*cbs = rest
			for _, kv := range kvs {
				if !bytes.Equal(kv.row, m.GetRow()) {
					note += ";cell-row=" + hx(kv.row)
				}
				cells = append(cells, kv.canonCell)
			}
		}
	}
	for _, cv := range m.GetColumnValue() {
		for _, qv := range cv.GetQualifierValue() {
			c := canonCell{fam: cv.GetFamily(), qual: qv.GetQualifier(), val: qv.GetValue(), ts: maxInt64, typ: 4}
			if qv.Timestamp != nil {
				c.ts = qv.GetTimestamp()
			}
			if qv.DeleteType != nil {
				c.typ = deleteTypeCode[qv.GetDeleteType()]
			}
			cells = append(cells, c)
		}
	}
	ts := "none"
	if m.Timestamp != nil {
		ts = strconv.FormatUint(m.GetTimestamp(), 10)
	}
	ttl := "none"
	var other []string
	for _, a := range m.GetAttribute() {
		if a.GetName() == "_ttl" {
			ttl = hx(a.GetValue())
		} else {
			other = append(other, a.GetName())
		}
	}
	if len(other) > 0 {
		note += ";attrs=" + strings.Join(other, ",")
	}
	typ := "unset"
	if m.MutateType != nil {
		typ = m.GetMutateType().String()
	}
	return "row=" + hx(m.GetRow()) + ";type=" + typ + ";dur=" + strconv.Itoa(int(m.GetDurability())) +
		";ts=" + ts + ";ttl=" + ttl + ";cells=" + renderCells(cells) + note
}

func decCondition(c *pb.Condition) string {
	if c == nil {
		return "none"
	}
	cmp := "unknown/" + hx([]byte(c.GetComparator().GetName()))
	if c.GetComparator().GetName() == "org.apache.hadoop.hbase.filter.BinaryComparator" {
		m := &pb.BinaryComparator{}
		if proto.Unmarshal(c.GetComparator().GetSerializedComparator(), m) == nil {
			cmp = "Binary(" + hx(m.GetComparable().GetValue()) + ")"
		}
	}
	return hx(c.GetRow()) + "/" + hx(c.GetFamily()) + "/" + hx(c.GetQualifier()) + "/" +
		c.GetCompareType().String() + "/" + cmp
}

func decRegion(r *pb.RegionSpecifier) string {
	if r == nil {
		return "noregion"
	}
	if r.GetType() != pb.RegionSpecifier_REGION_NAME {
		return "type" + strconv.Itoa(int(r.GetType())) + "/" + hx(r.GetValue())
	}
	return hx(r.GetValue())
}

func decAttrs(as []*pb.NameBytesPair) string {
	var s []string
	for _, a := range as {
		s = append(s, hx([]byte(a.GetName()))+"/"+hx(a.GetValue()))
	}
	return "[" + strings.Join(s, ",") + "]"
}

func decScan(r *pb.ScanRequest) string {
	tail := ";n=" + strconv.FormatUint(uint64(r.GetNumberOfRows()), 10) + ";close=" + c05b01(r.GetCloseScanner()) +
		";renew=" + c05b01(r.GetRenew()) + ";track=" + c05b01(r.GetTrackScanMetrics()) +
		";php=" + c05b01(r.GetClientHandlesPartials()) + ";phb=" + c05b01(r.GetClientHandlesHeartbeats())
	if r.ScannerId != nil {
		extra := ""
		if r.Scan != nil {
			extra = ";scan-with-id"
		}
		return "sid=" + strconv.FormatUint(r.GetScannerId(), 10) + extra + tail
	}
	s := r.GetScan()
	if s == nil {
		return "noscan" + tail
	}
	q := queryCanon{fams: decColumns(s.GetColumn()), flt: decFilter(s.GetFilter()),
		from: s.GetTimeRange().GetFrom(), to: decTo(s.GetTimeRange()), mv: s.GetMaxVersions(),
		lim: decLimit(s.StoreLimit), off: s.GetStoreOffset(), cb: s.GetCacheBlocks(),
		cons: decCons(s.GetConsistency())}
	mrs := "none"
	if s.MaxResultSize != nil {
		mrs = strconv.FormatUint(s.GetMaxResultSize(), 10)
	}
	return "start=" + hx(s.GetStartRow()) + ";stop=" + hx(s.GetStopRow()) + ";" + q.String() +
		";rev=" + c05b01(s.GetReversed()) + ";mrs=" + mrs + ";attr=" + decAttrs(s.GetAttribute()) + tail
}

// decodedFrame: everything the independent decoder extracted from one frame.
type decodedFrame struct {
	id       uint32
	method   string
	prio     uint32
	meta     *uint32
	render   string
	multi    *pb.MultiRequest
	cells    []kvCell // all cells of the frame's cellblock, in stream order
	cbLen    int
	mutCells [][]kvCell // multi: cells per action, RegionAction order (nil entry for a Get)
}

func decodeFrameOps(f decFrame, codecOn bool) decodedFrame {
	d := decodedFrame{id: f.hdr.GetCallId(), method: f.hdr.GetMethodName(), prio: f.hdr.GetPriority(), cbLen: len(f.cellblocks)}
	if f.hdr.CellBlockMeta != nil {
		l := f.hdr.GetCellBlockMeta().GetLength()
		d.meta = &l
	}
	head := d.method + ";p=" + strconv.FormatUint(uint64(d.prio), 10)
	if !f.hdr.GetRequestParam() {
		head += ";norequestparam"
	}
	cbs := f.cellblocks
	note := ""
	if codecOn && len(cbs) > 0 {
		raw, err := decodeHadoop(cbs)
		if err != nil {
			note = ";hadoop-error=" + strings.ReplaceAll(err.Error(), " ", "_")
			raw = nil
		}
		cbs = raw
	}
	if all, _, err := takeCellsAll(cbs); err == nil {
		d.cells = all
	}
	switch d.method {
	case "Get":
		m := &pb.GetRequest{}
		if err := proto.Unmarshal(f.reqBytes, m); err != nil {
			d.render = head + ";unmarshal-error"
			return d
		}
		d.render = head + ";reg=" + decRegion(m.GetRegion()) + ";" + decGetBody(m.GetGet())
	case "Mutate":
		m := &pb.MutateRequest{}
		if err := proto.Unmarshal(f.reqBytes, m); err != nil {
			d.render = head + ";unmarshal-error"
			return d
		}
		d.render = head + ";reg=" + decRegion(m.GetRegion()) + ";" + decMutationBody(m.GetMutation(), &cbs, true) +
			";cond=" + decCondition(m.GetCondition())
	case "Scan":
		m := &pb.ScanRequest{}
		if err := proto.Unmarshal(f.reqBytes, m); err != nil {
			d.render = head + ";unmarshal-error"
			return d
		}
		d.render = head + ";reg=" + decRegion(m.GetRegion()) + ";" + decScan(m)
	case "Multi":
		m := &pb.MultiRequest{}
		if err := proto.Unmarshal(f.reqBytes, m); err != nil {
			d.render = head + ";unmarshal-error"
			return d
		}
		d.multi = m
		var ras []string
		for _, ra := range m.GetRegionAction() {
			var as []string
			for _, a := range ra.GetAction() {
				body := "empty"
				switch {
				case a.Get != nil && a.Mutation != nil:
					body = "both"
				case a.Get != nil:
					body = "Get," + strings.ReplaceAll(decGetBody(a.GetGet()), ";", ",")
					d.mutCells = append(d.mutCells, nil)
				case a.Mutation != nil:
					before := cbs
					body = "Mutate," + strings.ReplaceAll(decMutationBody(a.GetMutation(), &cbs, true), ";", ",")
					n := int(a.GetMutation().GetAssociatedCellCount())
					cs, _, err := takeCells(before, n)
					if err != nil {
						cs = nil
					}
					d.mutCells = append(d.mutCells, cs)
				}
				idx := "noindex"
				if a.Index != nil {
					idx = strconv.FormatUint(uint64(a.GetIndex()), 10)
				}
				as = append(as, idx+":"+body)
			}
			ras = append(ras, decRegion(ra.GetRegion())+"{"+strings.Join(as, "|")+"}")
		}
		d.render = head + ";ra=[" + strings.Join(ras, "&") + "]"
	default:
		d.render = head + ";unknown-method"
		return d
	}
	if len(cbs) > 0 {
		note += ";trailing-cellblock-bytes=" + strconv.Itoa(len(cbs))
	}
	d.render += note
	return d
}

func takeCellsAll(b []byte) ([]kvCell, []byte, error) {
	var out []kvCell
	for len(b) > 0 {
		c, err := parseKV(b)
		if err != nil {
			return out, b, err
		}
		out = append(out, c)
		b = b[c.size:]
	}
	return out, b, nil
}

func renderHello(user, service, codecClass, compressor string) string {
	return "user=" + hx([]byte(user)) + ";svc=" + service + ";codec=" + codecClass + ";comp=" + compressor
}

func decHello(ch *pb.ConnectionHeader) string {
	comp := "none"
	if ch.CellBlockCompressorClass != nil {
		comp = ch.GetCellBlockCompressorClass()
	}
	cc := "none"
	if ch.CellBlockCodecClass != nil {
		cc = ch.GetCellBlockCodecClass()
	}
	return renderHello(ch.GetUserInfo().GetEffectiveUser(), ch.GetServiceName(), cc, comp)
}

// ---------------------------------------------------------------- operation specs (generator side)

type fltRange struct {
	start, stop   []byte
	startI, stopI bool
}

type fltSpec struct {
	// 0 none, 1 prefix, 2 column prefix, 3 key only, 4 page, 5 first key only, 6 list (1..3 members,
	// nested up to two levels), 7 multi row range, 8 column range, 9 timestamps, 10 inclusive stop,
	// 11 column count, 12 column pagination, 13 multiple column prefix, 14 skip, 15 while match,
	// 16 single column value, 17 row, 18 value, 19 qualifier, 20 family
	kind    int
	arg     []byte
	arg2    []byte
	b       bool
	b2      bool
	n       int64
	n2      int64
	op      int
	sub     []fltSpec
	ranges  []fltRange
	list    [][]byte
	ts      []int64
	prefix  bool // comparator: BinaryPrefixComparator rather than BinaryComparator
	cmpStrs [2][]byte
	chance  float32
	cmp     int // comparator kind when > 0: 1 long, 2 bit (n2 = operator), 3 null, 4 regex (arg pattern, n2 flags, cmpStrs charset and engine), 5 substring
}

func (f fltSpec) comparator() filter.Comparator {
	switch f.cmp {
	case 1:
		return filter.NewLongComparator(filter.NewByteArrayComparable(f.arg))
	case 2:
		return filter.NewBitComparator(filter.BitComparatorBitwiseOp(f.n2), filter.NewByteArrayComparable(f.arg))
	case 3:
		return filter.NewNullComparator()
	case 4:
		return filter.NewRegexStringComparator(string(f.arg), int32(f.n2), string(f.cmpStrs[0]), string(f.cmpStrs[1]))
	case 5:
		return filter.NewSubstringComparator(string(f.arg))
	}
	if f.prefix {
		return filter.NewBinaryPrefixComparator(filter.NewByteArrayComparable(f.arg))
	}
	return filter.NewBinaryComparator(filter.NewByteArrayComparable(f.arg))
}

func (f fltSpec) renderComparator() string {
	switch f.cmp {
	case 1:
		return "Long:" + hx(f.arg)
	case 2:
		return "Bit" + strconv.FormatInt(f.n2, 10) + ":" + hx(f.arg)
	case 3:
		return "Null"
	case 4:
		return "Regex:" + hx(f.arg) + ":" + strconv.FormatInt(f.n2, 10) + ":" + hx(f.cmpStrs[0]) + ":" + hx(f.cmpStrs[1])
	case 5:
		return "Substring:" + hx(f.arg)
	}
	if f.prefix {
		return "BinaryPrefix:" + hx(f.arg)
	}
	return "Binary:" + hx(f.arg)
}

func (f fltSpec) build() filter.Filter {
	switch f.kind {
	case 1:
		return filter.NewPrefixFilter(f.arg)
	case 2:
		return filter.NewColumnPrefixFilter(f.arg)
	case 3:
		return filter.NewKeyOnlyFilter(f.b)
	case 4:
		return filter.NewPageFilter(f.n)
	case 5:
		return filter.NewFirstKeyOnlyFilter()
	case 6:
		var subs []filter.Filter
		for _, x := range f.sub {
			subs = append(subs, x.build())
		}
		if f.b { // members added one by one
			l := filter.NewList(filter.ListOperator(f.op))
			for _, x := range subs {
				l.AddFilters(x)
			}
			return l
		}
		return filter.NewList(filter.ListOperator(f.op), subs...)
	case 7:
		var rs []*filter.RowRange
		for _, r := range f.ranges {
			rs = append(rs, filter.NewRowRange(r.start, r.stop, r.startI, r.stopI))
		}
		return filter.NewMultiRowRangeFilter(rs)
	case 8:
		return filter.NewColumnRangeFilter(f.arg, f.arg2, f.b, f.b2)
	case 9:
		return filter.NewTimestampsFilter(f.ts)
	case 10:
		return filter.NewInclusiveStopFilter(f.arg)
	case 11:
		return filter.NewColumnCountGetFilter(int32(f.n))
	case 12:
		return filter.NewColumnPaginationFilter(int32(f.n), int32(f.n2), f.arg)
	case 13:
		return filter.NewMultipleColumnPrefixFilter(f.list)
	case 14:
		return filter.NewSkipFilter(f.sub[0].build())
	case 15:
		return filter.NewWhileMatchFilter(f.sub[0].build())
	case 16:
		return filter.NewSingleColumnValueFilter(f.arg2, f.list[0], filter.CompareType(f.op), f.comparator(), f.b, f.b2)
	case 17:
		return filter.NewRowFilter(filter.NewCompareFilter(filter.CompareType(f.op), f.comparator()))
	case 18:
		return filter.NewValueFilter(filter.NewCompareFilter(filter.CompareType(f.op), f.comparator()))
	case 19:
		return filter.NewQualifierFilter(filter.NewCompareFilter(filter.CompareType(f.op), f.comparator()))
	case 20:
		return filter.NewFamilyFilter(filter.NewCompareFilter(filter.CompareType(f.op), f.comparator()))
	case 21:
		return filter.NewDependentColumnFilter(filter.NewCompareFilter(filter.CompareType(f.op), f.comparator()), f.arg2, f.list[0], f.b)
	case 22:
		return filter.NewFirstKeyValueMatchingQualifiersFilter(f.list)
	case 23:
		var ps []*filter.BytesBytesPair
		for i := 0; i+1 < len(f.list); i += 2 {
			ps = append(ps, filter.NewBytesBytesPair(f.list[i], f.list[i+1]))
		}
		return filter.NewFuzzyRowFilter(ps)
	case 24:
		return filter.NewRandomRowFilter(f.chance)
	case 25:
		return filter.NewSingleColumnValueExcludeFilter(filter.NewSingleColumnValueFilter(f.arg2, f.list[0], filter.CompareType(f.op), f.comparator(), f.b, f.b2))
	}
	return nil
}

func (f fltSpec) render() string {
	switch f.kind {
	case 1:
		return "Prefix(" + hx(f.arg) + ")"
	case 2:
		return "ColumnPrefix(" + hx(f.arg) + ")"
	case 3:
		return "KeyOnly(" + c05b01(f.b) + ")"
	case 4:
		return "Page(" + strconv.FormatInt(f.n, 10) + ")"
	case 5:
		return "FirstKeyOnly()"
	case 6:
		parts := []string{}
		for _, x := range f.sub {
			parts = append(parts, x.render())
		}
		return "List" + strconv.Itoa(f.op) + "(" + strings.Join(parts, ",") + ")"
	case 7:
		parts := []string{}
		for _, r := range f.ranges {
			parts = append(parts, c05b01(r.startI)+hx(r.start)+":"+hx(r.stop)+c05b01(r.stopI))
		}
		return "MultiRowRange(" + strings.Join(parts, ",") + ")"
	case 8:
		return "ColumnRange(" + c05b01(f.b) + hx(f.arg) + ":" + hx(f.arg2) + c05b01(f.b2) + ")"
	case 9:
		parts := []string{}
		for _, t := range f.ts {
			parts = append(parts, strconv.FormatInt(t, 10))
		}
		return "Timestamps(" + strings.Join(parts, ",") + ")"
	case 10:
		return "InclusiveStop(" + hx(f.arg) + ")"
	case 11:
		return "ColumnCountGet(" + strconv.FormatInt(f.n, 10) + ")"
	case 12:
		return "ColumnPagination(" + strconv.FormatInt(f.n, 10) + "," + strconv.FormatInt(f.n2, 10) + "," + hxPresent(f.arg) + ")"
	case 13:
		parts := []string{}
		for _, x := range f.list {
			parts = append(parts, hx(x))
		}
		return "MultipleColumnPrefix(" + strings.Join(parts, ",") + ")"
	case 14:
		return "Skip(" + f.sub[0].render() + ")"
	case 15:
		return "WhileMatch(" + f.sub[0].render() + ")"
	case 16:
		return "SingleColumnValue(" + hx(f.arg2) + "," + hx(f.list[0]) + "," + strconv.Itoa(f.op) + "," + f.renderComparator() + "," + c05b01(f.b) + c05b01(f.b2) + ")"
	case 17:
		return "Row(" + strconv.Itoa(f.op) + "," + f.renderComparator() + ")"
	case 18:
		return "Value(" + strconv.Itoa(f.op) + "," + f.renderComparator() + ")"
	case 19:
		return "Qualifier(" + strconv.Itoa(f.op) + "," + f.renderComparator() + ")"
	case 20:
		return "Family(" + strconv.Itoa(f.op) + "," + f.renderComparator() + ")"
	case 21:
		return "DependentColumn(" + strconv.Itoa(f.op) + "," + f.renderComparator() + "," + hx(f.arg2) + "," + hx(f.list[0]) + "," + c05b01(f.b) + ")"
	case 22:
		parts := []string{}
		for _, x := range f.list {
			parts = append(parts, hx(x))
		}
		return "FirstKeyValueMatchingQualifiers(" + strings.Join(parts, ",") + ")"
	case 23:
		parts := []string{}
		for i := 0; i+1 < len(f.list); i += 2 {
			parts = append(parts, hx(f.list[i])+":"+hx(f.list[i+1]))
		}
		return "FuzzyRow(" + strings.Join(parts, ",") + ")"
	case 24:
		return "RandomRow(" + strconv.FormatUint(uint64(math.Float32bits(f.chance)), 16) + ")"
	case 25:
		return "SingleColumnValueExclude(" + hx(f.arg2) + "," + hx(f.list[0]) + "," + strconv.Itoa(f.op) + "," + f.renderComparator() + "," + c05b01(f.b) + c05b01(f.b2) + ")"
	}
	return "none"
}

type opSpec struct {
	kind      string // get put app inc incs del cas scan
	serial    int
	row       []byte
	region    int
	cancelled bool
	skipBatch bool
	strCtor   bool // use the …Str constructor

	famsSet bool
	fams    []famQ
	flt     fltSpec
	trSet   bool
	from    uint64
	to      uint64
	mv      *uint32
	lim     *uint32
	off     *uint32
	cb      *bool
	cons    *int
	prio    *uint32
	exists  bool

	values  map[string]map[string][]byte
	ttlMs   *int64
	ts      *uint64
	dur     *int
	delOne  bool
	incFam  string
	incQual string
	incAmt  int64

	casFam  string
	casQual string
	casVal  []byte

	useRange  bool
	start     []byte
	stop      []byte
	scannerID *uint64
	nrows     *uint32
	reversed  bool
	closeSc   bool
	allowPart bool
	renewal   bool
	track     bool
	mrs       *uint64
	attrs     [][2][]byte
}

func (s *opSpec) method() string {
	switch s.kind {
	case "get":
		return "Get"
	case "scan":
		return "Scan"
	}
	return "Mutate"
}

func (s *opSpec) batchable() bool {
	return s.kind != "scan" && s.kind != "cas" && !s.skipBatch
}

func (s *opSpec) priority() uint32 {
	if s.prio != nil && (s.kind == "get" || s.kind == "scan") {
		return *s.prio
	}
	return 0
}

var c05Table = []byte("t1")

func (s *opSpec) queryOpts() []func(hrpc.Call) error {
	var o []func(hrpc.Call) error
	if s.famsSet {
		m := map[string][]string{}
		for _, f := range s.fams {
			m[f.fam] = f.quals
		}
		if s.fams == nil {
			m = nil
		}
		o = append(o, hrpc.Families(m))
	}
	if s.flt.kind != 0 {
		o = append(o, hrpc.Filters(s.flt.build()))
	}
	if s.trSet {
		o = append(o, hrpc.TimeRangeUint64(s.from, s.to))
	}
	if s.mv != nil {
		o = append(o, hrpc.MaxVersions(*s.mv))
	}
	if s.lim != nil {
		o = append(o, hrpc.MaxResultsPerColumnFamily(*s.lim))
	}
	if s.off != nil {
		o = append(o, hrpc.ResultOffset(*s.off))
	}
	if s.cb != nil {
		o = append(o, hrpc.CacheBlocks(*s.cb))
	}
	if s.cons != nil {
		o = append(o, hrpc.Consistency(hrpc.ConsistencyType(*s.cons)))
	}
	if s.prio != nil {
		o = append(o, hrpc.Priority(*s.prio))
	}
	return o
}

func (s *opSpec) mutOpts() []func(hrpc.Call) error {
	var o []func(hrpc.Call) error
	if s.ttlMs != nil {
		o = append(o, hrpc.TTL(time.Duration(*s.ttlMs)*time.Millisecond))
	}
	if s.ts != nil {
		o = append(o, hrpc.TimestampUint64(*s.ts))
	}
	if s.dur != nil {
		o = append(o, hrpc.Durability(hrpc.DurabilityType(*s.dur)))
	}
	if s.delOne {
		o = append(o, hrpc.DeleteOneVersion())
	}
	return o
}

// build constructs the real hrpc call from the public constructors.
func (s *opSpec) build(ctx context.Context) (hrpc.Call, error) {
	tbl, row := c05Table, s.row
	switch s.kind {
	case "get":
		o := s.queryOpts()
		if s.skipBatch {
			o = append(o, hrpc.SkipBatch())
		}
		var g *hrpc.Get
		var err error
		if s.strCtor {
			g, err = hrpc.NewGetStr(ctx, string(tbl), string(row), o...)
		} else {
			g, err = hrpc.NewGet(ctx, tbl, row, o...)
		}
		if err != nil {
			return nil, err
		}
		if s.exists {
			g.ExistsOnly()
		}
		return g, nil
	case "put", "app", "inc", "incs", "del", "cas":
		o := s.mutOpts()
		if s.skipBatch {
			o = append(o, hrpc.SkipBatch())
		}
		var m *hrpc.Mutate
		var err error
		switch s.kind {
		case "put", "cas":
			if s.strCtor {
				m, err = hrpc.NewPutStr(ctx, string(tbl), string(row), s.values, o...)
			} else {
				m, err = hrpc.NewPut(ctx, tbl, row, s.values, o...)
			}
		case "app":
			if s.strCtor {
				m, err = hrpc.NewAppStr(ctx, string(tbl), string(row), s.values, o...)
			} else {
				m, err = hrpc.NewApp(ctx, tbl, row, s.values, o...)
			}
		case "inc":
			if s.strCtor {
				m, err = hrpc.NewIncStr(ctx, string(tbl), string(row), s.values, o...)
			} else {
				m, err = hrpc.NewInc(ctx, tbl, row, s.values, o...)
			}
		case "incs":
			if s.strCtor {
				m, err = hrpc.NewIncStrSingle(ctx, string(tbl), string(row), s.incFam, s.incQual, s.incAmt, o...)
			} else {
				m, err = hrpc.NewIncSingle(ctx, tbl, row, s.incFam, s.incQual, s.incAmt, o...)
			}
		case "del":
			if s.strCtor {
				m, err = hrpc.NewDelStr(ctx, string(tbl), string(row), s.values, o...)
			} else {
				m, err = hrpc.NewDel(ctx, tbl, row, s.values, o...)
			}
		}
		if err != nil {
			return nil, err
		}
		if s.kind == "cas" {
			return hrpc.NewCheckAndPut(m, s.casFam, s.casQual, s.casVal)
		}
		return m, nil
	case "scan":
		o := s.queryOpts()
		if s.scannerID != nil {
			o = append(o, hrpc.ScannerID(*s.scannerID))
		}
		if s.nrows != nil {
			o = append(o, hrpc.NumberOfRows(*s.nrows))
		}
		if s.reversed {
			o = append(o, hrpc.Reversed())
		}
		if s.closeSc {
			o = append(o, hrpc.CloseScanner())
		}
		if s.allowPart {
			o = append(o, hrpc.AllowPartialResults())
		}
		if s.renewal {
			o = append(o, hrpc.RenewalScan())
		}
		if s.track {
			o = append(o, hrpc.TrackScanMetrics())
		}
		if s.mrs != nil {
			o = append(o, hrpc.MaxResultSize(*s.mrs))
		}
		for _, a := range s.attrs {
			o = append(o, hrpc.Attribute(string(a[0]), a[1]))
		}
		switch {
		case s.useRange && s.strCtor:
			return hrpc.NewScanRangeStr(ctx, string(tbl), string(s.start), string(s.stop), o...)
		case s.useRange:
			return hrpc.NewScanRange(ctx, tbl, s.start, s.stop, o...)
		case s.strCtor:
			return hrpc.NewScanStr(ctx, string(tbl), o...)
		}
		return hrpc.NewScan(ctx, tbl, o...)
	}
	return nil, errors.New("unknown kind")
}

func (s *opSpec) builtQuery() queryCanon {
	q := queryCanon{from: 0, to: math.MaxUint64, mv: 1, lim: math.MaxInt32, off: 0, cb: true, cons: "strong", flt: s.flt.render()}
	if s.famsSet {
		q.fams = s.fams
	}
	if s.trSet {
		q.from, q.to = s.from, s.to
	}
	if s.mv != nil {
		q.mv = *s.mv
	}
	if s.lim != nil {
		q.lim = *s.lim
	}
	if s.off != nil {
		q.off = *s.off
	}
	if s.cb != nil {
		q.cb = *s.cb
	}
	if s.cons != nil && *s.cons == int(hrpc.TimelineConsistency) {
		q.cons = "timeline"
	}
	return q
}

// builtCells: the cells the value map stands for (from the documented meaning of the
// constructors, not from the encoder).
func (s *opSpec) builtCells() []canonCell {
	ts := maxInt64
	if s.ts != nil && *s.ts != math.MaxUint64 {
		ts = *s.ts
	}
	values := s.values
	if s.kind == "incs" {
		amt := make([]byte, 8)
		binary.BigEndian.PutUint64(amt, uint64(s.incAmt))
		values = map[string]map[string][]byte{s.incFam: {s.incQual: amt}}
	}
	var out []canonCell
	for fam, inner := range values {
		if s.kind == "del" {
			if len(inner) == 0 { // a family named without qualifiers (nil or empty map): the whole family
				t := 14
				if s.delOne {
					t = 10
				}
				out = append(out, canonCell{fam: []byte(fam), ts: ts, typ: t})
				continue
			}
			t := 12
			if s.delOne {
				t = 8
			}
			for q, v := range inner {
				out = append(out, canonCell{fam: []byte(fam), qual: []byte(q), val: v, ts: ts, typ: t})
			}
			continue
		}
		for q, v := range inner {
			out = append(out, canonCell{fam: []byte(fam), qual: []byte(q), val: v, ts: ts, typ: 4})
		}
	}
	return out
}

func (s *opSpec) builtBody() string {
	switch s.kind {
	case "get":
		return "row=" + hx(s.row) + ";" + s.builtQuery().String() + ";ex=" + c05b01(s.exists)
	case "scan":
		n := uint32(math.MaxInt32)
		if s.nrows != nil {
			n = *s.nrows
		}
		tail := ";n=" + strconv.FormatUint(uint64(n), 10) + ";close=" + c05b01(s.closeSc) + ";renew=" + c05b01(s.renewal) +
			";track=" + c05b01(s.track) + ";php=1;phb=1"
		if s.scannerID != nil && *s.scannerID != math.MaxUint64 {
			return "sid=" + strconv.FormatUint(*s.scannerID, 10) + tail
		}
		mrs := uint64(2097152)
		if s.mrs != nil {
			mrs = *s.mrs
		}
		var start, stop []byte
		if s.useRange {
			start, stop = s.start, s.stop
		}
		var as []string
		for _, a := range s.attrs {
			as = append(as, hx(a[0])+"/"+hx(a[1]))
		}
		return "start=" + hx(start) + ";stop=" + hx(stop) + ";" + s.builtQuery().String() + ";rev=" + c05b01(s.reversed) +
			";mrs=" + strconv.FormatUint(mrs, 10) + ";attr=[" + strings.Join(as, ",") + "]" + tail
	}
	typ := map[string]string{"put": "PUT", "cas": "PUT", "app": "APPEND", "inc": "INCREMENT", "incs": "INCREMENT", "del": "DELETE"}[s.kind]
	dur := 0
	if s.dur != nil {
		dur = *s.dur
	}
	ts := "none"
	if s.ts != nil && *s.ts != math.MaxUint64 {
		ts = strconv.FormatUint(*s.ts, 10)
	}
	ttl := "none"
	if s.ttlMs != nil {
		b := make([]byte, 8)
		binary.BigEndian.PutUint64(b, uint64(*s.ttlMs))
		ttl = hx(b)
	}
	return "row=" + hx(s.row) + ";type=" + typ + ";dur=" + strconv.Itoa(dur) + ";ts=" + ts + ";ttl=" + ttl +
		";cells=" + renderCells(s.builtCells())
}

func (s *opSpec) builtRender(regionNames [][]byte) string {
	head := s.method() + ";p=" + strconv.FormatUint(uint64(s.priority()), 10) + ";reg=" + hx(regionNames[s.region]) + ";"
	body := s.builtBody()
	if s.method() == "Mutate" {
		cond := "none"
		if s.kind == "cas" {
			cond = hx(s.row) + "/" + hx([]byte(s.casFam)) + "/" + hx([]byte(s.casQual)) + "/EQUAL/Binary(" + hx(s.casVal) + ")"
		}
		body += ";cond=" + cond
	}
	return head + body
}

// ---------------------------------------------------------------- generators

func pU32(v uint32) *uint32 { return &v }
func pU64(v uint64) *uint64 { return &v }
func pInt(v int) *int       { return &v }
func pI64(v int64) *int64   { return &v }
func pBool(v bool) *bool    { return &v }

var c05Alpha = []byte{0x00, 0xff, 'a', 'b', ',', '1', 0x80, ' '}

func genInner(r *RNG, big int) map[string][]byte {
	switch r.Intn(6) {
	case 0:
		return nil
	case 1:
		return map[string][]byte{}
	}
	n := 1 + r.Intn(4)
	m := map[string][]byte{}
	for i := 0; i < n; i++ {
		q := string(r.Bytes(4, c05Alpha))
		if r.Intn(8) == 0 {
			q = ""
		}
		var v []byte
		switch r.Intn(5) {
		case 0:
			v = nil
		case 1:
			v = []byte{}
		default:
			v = r.Bytes(12, c05Alpha)
		}
		if big > 0 && i == 0 {
			v = make([]byte, big)
			for j := range v {
				v[j] = byte(r.Next() >> 17) // incompressible enough to span chunks
			}
		}
		m[q] = v
	}
	return m
}

func genValues(r *RNG, big int) map[string]map[string][]byte {
	switch r.Intn(8) {
	case 0:
		if big == 0 {
			return nil
		}
	case 1:
		if big == 0 {
			return map[string]map[string][]byte{"cf": nil}
		}
	case 2:
		if big == 0 {
			return map[string]map[string][]byte{"cf": {}}
		}
	}
	n := 1 + r.Intn(4)
	m := map[string]map[string][]byte{}
	for i := 0; i < n; i++ {
		f := "cf" + strconv.Itoa(i)
		if r.Intn(6) == 0 {
			f = string(r.Bytes(3, []byte{'x', 'y', 0x00, 0xff})) + strconv.Itoa(i)
		}
		in := genInner(r, big)
		if big > 0 && i == 0 {
			for len(in) == 0 {
				in = genInner(r, big)
			}
		}
		m[f] = in
	}
	return m
}

func genFltSome(r *RNG, depth int) fltSpec {
	for {
		if f := genFlt(r, depth); f.kind != 0 {
			return f
		}
	}
}

func genFlt(r *RNG, depth int) fltSpec {
	k := r.Intn(12)
	if k >= 7 { // the less common filters share the upper part of the range
		k = 7 + r.Intn(19)
	}
	if depth >= 2 && (k == 6 || k == 14 || k == 15) {
		k = 1
	}
	switch k {
	case 1, 2, 10:
		return fltSpec{kind: k, arg: r.Bytes(4, c05Alpha)}
	case 3:
		return fltSpec{kind: 3, b: r.Bool()}
	case 4:
		return fltSpec{kind: 4, n: int64(1 + r.Intn(1000))}
	case 5:
		return fltSpec{kind: 5}
	case 6:
		f := fltSpec{kind: 6, op: 1 + r.Intn(2), b: r.Bool()}
		for i, n := 0, 1+r.Intn(3); i < n; i++ {
			sub := genFltSome(r, depth+1)
			if depth == 0 && i == 0 && r.Intn(2) == 0 { // a list in a list, same or other operator
				sub = fltSpec{kind: 6, op: 1 + r.Intn(2), sub: []fltSpec{genFltSome(r, 2), genFltSome(r, 2)}}
			}
			f.sub = append(f.sub, sub)
		}
		return f
	case 7:
		f := fltSpec{kind: 7}
		for i, n := 0, 1+r.Intn(4); i < n; i++ {
			rg := fltRange{start: r.Bytes(3, c05Alpha), stop: r.Bytes(3, c05Alpha), startI: r.Bool(), stopI: r.Bool()}
			switch r.Intn(5) {
			case 0: // one row
				rg.stop, rg.startI, rg.stopI = append([]byte{}, rg.start...), true, true
			case 1: // open ends
				if r.Bool() {
					rg.start = nil
				} else {
					rg.stop = nil
				}
			case 2: // ordered
				if bytes.Compare(rg.start, rg.stop) > 0 {
					rg.start, rg.stop = rg.stop, rg.start
				}
			}
			f.ranges = append(f.ranges, rg)
		}
		return f
	case 8:
		return fltSpec{kind: 8, arg: r.Bytes(3, c05Alpha), arg2: r.Bytes(3, c05Alpha), b: r.Bool(), b2: r.Bool()}
	case 9:
		f := fltSpec{kind: 9}
		for i, n := 0, 1+r.Intn(4); i < n; i++ {
			f.ts = append(f.ts, int64(r.Intn(1<<20)))
		}
		return f
	case 11:
		return fltSpec{kind: 11, n: int64(r.Intn(100))}
	case 12:
		f := fltSpec{kind: 12, n: int64(1 + r.Intn(100)), n2: int64(r.Intn(50)), arg: r.Bytes(3, c05Alpha)}
		switch r.Intn(4) {
		case 0:
			f.arg = nil // no column offset: the integer offset counts
		case 1:
			f.arg = []byte{} // an empty column offset is a column offset
		}
		return f
	case 13:
		f := fltSpec{kind: 13}
		for i, n := 0, 1+r.Intn(3); i < n; i++ {
			f.list = append(f.list, r.Bytes(3, c05Alpha))
		}
		return f
	case 14, 15:
		return fltSpec{kind: k, sub: []fltSpec{genFltSome(r, depth+1)}}
	case 16:
		return genCmp(r, fltSpec{kind: 16, arg: r.Bytes(4, c05Alpha), arg2: r.Bytes(2, c05Alpha), list: [][]byte{r.Bytes(3, c05Alpha)},
			op: r.Intn(7), prefix: r.Bool(), b: r.Bool(), b2: r.Bool()})
	case 17, 18, 19, 20:
		return genCmp(r, fltSpec{kind: k, arg: r.Bytes(4, c05Alpha), op: r.Intn(7), prefix: r.Bool()})
	case 21:
		return genCmp(r, fltSpec{kind: 21, arg: r.Bytes(4, c05Alpha), arg2: r.Bytes(2, c05Alpha), list: [][]byte{r.Bytes(3, c05Alpha)}, op: r.Intn(7), b: r.Bool()})
	case 22:
		f := fltSpec{kind: 22}
		for i, n := 0, 1+r.Intn(3); i < n; i++ {
			f.list = append(f.list, r.Bytes(3, c05Alpha))
		}
		return f
	case 23:
		f := fltSpec{kind: 23}
		for i, n := 0, 1+r.Intn(3); i < n; i++ {
			key := r.Bytes(4, c05Alpha)
			mask := make([]byte, len(key))
			for j := range mask {
				mask[j] = byte(r.Intn(2))
			}
			f.list = append(f.list, key, mask)
		}
		return f
	case 24:
		return fltSpec{kind: 24, chance: float32(r.Intn(1000)) / 1000}
	case 25:
		return genCmp(r, fltSpec{kind: 25, arg: r.Bytes(4, c05Alpha), arg2: r.Bytes(2, c05Alpha), list: [][]byte{r.Bytes(3, c05Alpha)},
			op: r.Intn(7), b: r.Bool(), b2: r.Bool()})
	}
	return fltSpec{}
}

// genCmp picks the comparator of a comparing filter: the two byte-array ones half of the time,
// otherwise one of long, bit (and / or / xor), null, regex string, substring.
func genCmp(r *RNG, f fltSpec) fltSpec {
	if r.Bool() {
		return f
	}
	f.cmp = 1 + r.Intn(5)
	switch f.cmp {
	case 2:
		f.n2 = int64(1 + r.Intn(3))
	case 4:
		f.n2 = int64(r.Intn(64))
		f.cmpStrs = [2][]byte{[]byte([]string{"UTF-8", "ISO-8859-1"}[r.Intn(2)]), []byte([]string{"JAVA", "JONI"}[r.Intn(2)])}
	}
	return f
}

func genQuery(r *RNG, s *opSpec) {
	if r.Intn(3) > 0 {
		s.famsSet = true
		switch r.Intn(5) {
		case 0:
			s.fams = nil
		case 1:
			s.fams = []famQ{}
		default:
			n := 1 + r.Intn(3)
			for i := 0; i < n; i++ {
				f := famQ{fam: "f" + strconv.Itoa(i) + string(r.Bytes(2, []byte{'a', 0x00, 0xff}))}
				nq := r.Intn(4)
				for j := 0; j < nq; j++ {
					f.quals = append(f.quals, string(r.Bytes(3, c05Alpha)))
				}
				s.fams = append(s.fams, f)
			}
		}
	}
	if r.Intn(3) == 0 {
		s.flt = genFlt(r, 0)
	}
	if r.Intn(3) == 0 {
		s.trSet = true
		trs := [][2]uint64{{0, math.MaxUint64}, {0, 5}, {3, math.MaxUint64}, {10, 20}, {0, math.MaxInt64}, {1, 2}}
		t := trs[r.Intn(len(trs))]
		s.from, s.to = t[0], t[1]
	}
	if r.Intn(3) == 0 {
		s.mv = pU32([]uint32{1, 2, 5, math.MaxInt32, 0}[r.Intn(5)])
	}
	if r.Intn(3) == 0 {
		s.lim = pU32([]uint32{math.MaxInt32, 1, 10, 0}[r.Intn(4)])
	}
	if r.Intn(3) == 0 {
		s.off = pU32([]uint32{0, 1, 7, math.MaxInt32}[r.Intn(4)])
	}
	if r.Intn(3) == 0 {
		s.cb = pBool(r.Bool())
	}
	if r.Intn(3) == 0 {
		s.cons = pInt(r.Intn(3))
	}
	if r.Intn(3) == 0 {
		s.prio = pU32([]uint32{0, 1, 200, math.MaxUint32}[r.Intn(4)])
	}
}

func genMutOpts(r *RNG, s *opSpec) {
	if r.Intn(3) == 0 {
		s.ttlMs = pI64([]int64{0, 1, 1000, 86400000}[r.Intn(4)])
	}
	if r.Intn(2) == 0 {
		s.ts = pU64([]uint64{0, 1, 1234567890123, math.MaxInt64 - 1, math.MaxInt64, math.MaxUint64}[r.Intn(6)])
	}
	if r.Intn(2) == 0 {
		s.dur = pInt(r.Intn(5))
	}
}

func genSpec(r *RNG, serial, nregions int, kind string, big int) opSpec {
	s := opSpec{kind: kind, serial: serial, region: r.Intn(nregions), strCtor: r.Intn(4) == 0}
	s.row = append([]byte(fmt.Sprintf("r%05d", serial)), r.Bytes(5, c05Alpha)...)
	if s.strCtor && kind == "incs" {
		s.strCtor = r.Bool()
	}
	switch kind {
	case "get":
		genQuery(r, &s)
		s.exists = r.Intn(4) == 0
		s.skipBatch = r.Intn(5) == 0
	case "put", "app", "inc", "del", "cas":
		s.values = genValues(r, big)
		genMutOpts(r, &s)
		s.skipBatch = r.Intn(5) == 0
		if kind == "del" && len(s.values) > 0 {
			s.delOne = r.Intn(3) == 0
		}
		if kind == "cas" {
			s.casFam = "cf" + strconv.Itoa(r.Intn(3))
			s.casQual = string(r.Bytes(3, c05Alpha))
			s.casVal = r.Bytes(6, c05Alpha)
			if r.Intn(4) == 0 {
				s.casVal = nil
			}
		}
	case "incs":
		genMutOpts(r, &s)
		s.incFam = "cf" + strconv.Itoa(r.Intn(3))
		s.incQual = string(r.Bytes(3, c05Alpha))
		s.incAmt = int64(r.Next())
		s.skipBatch = r.Intn(5) == 0
	case "scan":
		genQuery(r, &s)
		if r.Intn(2) == 0 {
			s.useRange = true
			s.start = r.Bytes(5, c05Alpha)
			s.stop = r.Bytes(5, c05Alpha)
		}
		if r.Intn(3) == 0 {
			s.scannerID = pU64([]uint64{math.MaxUint64, 0, 7, 1 << 40}[r.Intn(4)])
		}
		if r.Intn(2) == 0 {
			s.nrows = pU32([]uint32{0, 1, 100, math.MaxInt32}[r.Intn(4)])
		}
		s.reversed = r.Intn(3) == 0
		s.closeSc = r.Intn(3) == 0
		s.allowPart = r.Intn(3) == 0
		s.renewal = r.Intn(4) == 0
		s.track = r.Intn(4) == 0
		if r.Intn(3) == 0 {
			s.mrs = pU64([]uint64{1, 2097152, 1 << 33}[r.Intn(3)])
		}
		na := r.Intn(3)
		if r.Intn(2) == 0 {
			na = 0
		}
		for i := 0; i < na; i++ {
			s.attrs = append(s.attrs, [2][]byte{[]byte("a" + strconv.Itoa(i)), r.Bytes(4, c05Alpha)})
		}
	}
	return s
}

var c05Kinds = []string{"get", "get", "put", "put", "app", "inc", "incs", "del", "del", "cas", "scan", "scan"}
var c05Batchable = []string{"get", "put", "app", "inc", "incs", "del"}

func c05RegionNames(r *RNG, n int) [][]byte {
	out := make([][]byte, n)
	for i := range out {
		out[i] = []byte(fmt.Sprintf("t1,%s,%d.%032x.", string(r.Bytes(3, []byte{'a', 'k', 0x00, ','})), 1600000000000+i, r.Next()))
	}
	return out
}

// ---------------------------------------------------------------- stream cases

type submission struct {
	batch bool  // QueueBatch(context.Background(), …) of several calls
	idx   []int // spec indices
}

type streamCase struct {
	qsize   int
	flush   time.Duration
	codec   bool
	names   [][]byte
	specs   []opSpec
	plan    []submission
	user    string
	bigCase bool
}

func genStreamCase(seed uint64, i int, tier string) streamCase {
	r := NewRNG(seed, "c05-stream-"+strconv.Itoa(i))
	c := streamCase{}
	c.qsize = []int{1, 2, 5, 100}[i%4]
	c.flush = []time.Duration{0, time.Millisecond}[(i/4)%2]
	c.codec = (i/8)%2 == 1
	c.names = c05RegionNames(r, 1+r.Intn(4))
	c.user = []string{"u", "", "ünï", "a b"}[r.Intn(4)]
	big := 0
	if i < 2 {
		// a couple of cases with a payload above snappyChunkLen (218 KiB)
		big = 230000 + 70000*i
		c.codec = true
		c.bigCase = true
	} else if i == 2 {
		big = 230000
		c.codec = false
		c.bigCase = true
	}
	nsub := 1 + r.Intn(6)
	if i%37 == 36 {
		nsub = 0 // hello only
	}
	serial := 0
	add := func(kind string, b int) int {
		for {
			s := genSpec(r, serial, len(c.names), kind, b)
			if _, err := s.build(context.Background()); err != nil {
				continue // e.g. DeleteOneVersion on a whole-row delete: rejected by the constructor
			}
			c.specs = append(c.specs, s)
			serial++
			return len(c.specs) - 1
		}
	}
	for k := 0; k < nsub; k++ {
		if big > 0 && k == 0 {
			j := add("put", big)
			c.specs[j].skipBatch = r.Bool()
			c.plan = append(c.plan, submission{idx: []int{j}})
			continue
		}
		if r.Intn(3) == 0 {
			n := 1 + r.Intn(5)
			var idx []int
			live := false
			for t := 0; t < n; t++ {
				j := add(c05Batchable[r.Intn(len(c05Batchable))], 0)
				c.specs[j].skipBatch = false
				if r.Intn(4) == 0 {
					c.specs[j].cancelled = true
				} else {
					live = true
				}
				idx = append(idx, j)
			}
			if !live {
				c.specs[idx[0]].cancelled = false
			}
			c.plan = append(c.plan, submission{batch: true, idx: idx})
			continue
		}
		j := add(c05Kinds[r.Intn(len(c05Kinds))], 0)
		s := &c.specs[j]
		direct := c.qsize <= 1 || !s.batchable()
		if direct && r.Intn(6) == 0 {
			s.cancelled = true // never written: QueueRPC sees the finished context
		}
		c.plan = append(c.plan, submission{idx: []int{j}})
	}
	if nsub > 0 && r.Intn(10) == 0 {
		// an all-cancelled slice at the very end: flushed as an empty MultiRequest (or not yet)
		j := add("get", 0)
		c.specs[j].cancelled = true
		c.specs[j].skipBatch = false
		c.plan = append(c.plan, submission{batch: true, idx: []int{j}})
	}
	return c
}

func serialOfRow(row []byte) int {
	if len(row) < 6 || row[0] != 'r' {
		return -1
	}
	n, err := strconv.Atoi(string(row[1:6]))
	if err != nil {
		return -1
	}
	return n
}

// decodeUnits runs the independent decoder over the recorded writes (unit 0 = hello).
func decodeUnits(units [][]byte) ([]decFrame, bool) {
	var all []byte
	for _, u := range units {
		all = append(all, u...)
	}
	if len(all) < 10 {
		return nil, false
	}
	hl := 10 + int(binary.BigEndian.Uint32(all[6:10]))
	if hl < 10 || len(all) < hl {
		return nil, false
	}
	if fs, err := decodeByPrefix(all[hl:]); err == nil {
		return fs, true
	}
	// units after the hello (only when the hello ends on a unit boundary)
	n, k := 0, 0
	for k < len(units) && n < hl {
		n += len(units[k])
		k++
	}
	if n == hl {
		if fs, err := decodeByUnits(units[k:]); err == nil {
			return fs, true
		}
	}
	return nil, false
}

func seenSerials(fs []decFrame) map[int]int {
	seen := map[int]int{}
	for _, f := range fs {
		switch f.hdr.GetMethodName() {
		case "Get":
			m := &pb.GetRequest{}
			if proto.Unmarshal(f.reqBytes, m) == nil {
				seen[serialOfRow(m.GetGet().GetRow())]++
			}
		case "Mutate":
			m := &pb.MutateRequest{}
			if proto.Unmarshal(f.reqBytes, m) == nil {
				seen[serialOfRow(m.GetMutation().GetRow())]++
			}
		case "Multi":
			m := &pb.MultiRequest{}
			if proto.Unmarshal(f.reqBytes, m) == nil {
				for _, ra := range m.GetRegionAction() {
					for _, a := range ra.GetAction() {
						if a.Get != nil {
							seen[serialOfRow(a.GetGet().GetRow())]++
						} else if a.Mutation != nil {
							seen[serialOfRow(a.GetMutation().GetRow())]++
						}
					}
				}
			}
		}
	}
	return seen
}

func waitSerials(conn *recConn, want map[int]bool, d time.Duration) {
	if len(want) == 0 {
		return
	}
	deadline := time.Now().Add(d)
	for time.Now().Before(deadline) {
		if fs, ok := decodeUnits(conn.snapshot()); ok {
			seen := seenSerials(fs)
			all := true
			for s := range want {
				if seen[s] == 0 {
					all = false
					break
				}
			}
			if all {
				return
			}
		}
		time.Sleep(150 * time.Microsecond)
	}
}

var c05Logger = slog.New(slog.NewTextHandler(io.Discard, nil))

func cancelledCtx() context.Context {
	ctx, cancel := context.WithCancel(context.Background())
	cancel()
	return ctx
}

func runStreamCase(c streamCase) (line string) {
	defer func() {
		if r := recover(); r != nil {
			line = "c05 stream 0 - panic~" + strings.ReplaceAll(fmt.Sprint(r), " ", "_")
		}
	}()
	conn := newRecConn()
	var codec compression.Codec
	if c.codec {
		codec = gsnappy.New()
	}
	dialer := func(ctx context.Context, network, addr string) (net.Conn, error) { return conn, nil }
	client := region.NewClient("mem:0", region.RegionClient, c.qsize, c.flush, c.user, time.Hour,
		codec, dialer, c05Logger)
	if err := client.Dial(context.Background()); err != nil {
		return "c05 stream 0 - dial-error~x"
	}
	defer client.Close()
	regions := make([]hrpc.RegionInfo, len(c.names))
	for i, n := range c.names {
		regions[i] = region.NewInfo(uint64(i), nil, c05Table, n, nil, nil)
	}
	calls := make([]hrpc.Call, len(c.specs))
	for i := range c.specs {
		ctx := context.Background()
		if c.specs[i].cancelled {
			ctx = cancelledCtx()
		}
		call, err := c.specs[i].build(ctx)
		if err != nil {
			return "c05 stream 0 - build-error~" + strings.ReplaceAll(err.Error(), " ", "_")
		}
		call.SetRegion(regions[c.specs[i].region])
		calls[i] = call
	}
	idOf := map[uint32]int{} // call id of a direct send → spec
	var bq []int             // batched calls in the order they were queued
	pending := map[int]bool{}
	for _, sub := range c.plan {
		if sub.batch {
			var cs []hrpc.Call
			for _, j := range sub.idx {
				cs = append(cs, calls[j])
				bq = append(bq, j)
				if !c.specs[j].cancelled {
					pending[c.specs[j].serial] = true
				}
			}
			client.QueueBatch(context.Background(), cs)
			continue
		}
		j := sub.idx[0]
		s := &c.specs[j]
		if c.qsize > 1 && s.batchable() {
			bq = append(bq, j)
			pending[s.serial] = true
			client.QueueRPC(calls[j])
			continue
		}
		// direct send from this goroutine: let the batching goroutine drain first so that the
		// call id observed right after the send is this call's
		waitSerials(conn, pending, 2*time.Second)
		before := region.VerifCallID(client)
		client.QueueRPC(calls[j])
		after := region.VerifCallID(client)
		if after == before+1 {
			idOf[after] = j
		}
	}
	waitSerials(conn, pending, 2*time.Second)
	if n := len(c.plan); n > 0 && c.plan[n-1].batch {
		allCancelled := true
		for _, j := range c.plan[n-1].idx {
			allCancelled = allCancelled && c.specs[j].cancelled
		}
		if allCancelled {
			time.Sleep(3 * time.Millisecond)
		}
	}
	units := conn.snapshot()
	return streamLine(c, units, idOf, bq)
}

func streamLine(c streamCase, units [][]byte, idOf map[uint32]int, bq []int) string {
	var us []string
	for _, u := range units {
		us = append(us, hx(u))
	}
	unitsTok := "-"
	if len(us) > 0 {
		unitsTok = strings.Join(us, ",")
	}
	codecTok := "0"
	comp := "none"
	if c.codec {
		codecTok = "1"
		comp = "org.apache.hadoop.io.compress.SnappyCodec"
	}
	var expect []string
	for _, s := range c.specs {
		if !s.cancelled && s.method() != "Scan" && s.kind != "cas" {
			expect = append(expect, strconv.Itoa(s.serial))
		}
	}
	helloBuilt := renderHello(c.user, "ClientService", "org.apache.hadoop.hbase.codec.KeyValueCodec", comp) +
		";calls=" + strings.Join(expect, ".")
	helloDec := "undecodable"
	var recs []string
	{
		var all []byte
		for _, u := range units {
			all = append(all, u...)
		}
		if len(all) >= 10 {
			hl := 10 + int(binary.BigEndian.Uint32(all[6:10]))
			if hl >= 10 && hl <= len(all) {
				if ch, err := decodeHello(all[:hl]); err == nil {
					helloDec = decHello(ch)
				}
			}
		}
	}
	fs, ok := decodeUnits(units)
	if ok {
		seen := seenSerials(fs)
		var got []int
		for s, n := range seen {
			for k := 0; k < n; k++ {
				got = append(got, s)
			}
		}
		sort.Ints(got)
		var gs []string
		for _, s := range got {
			gs = append(gs, strconv.Itoa(s))
		}
		// cas mutations carry a row too: drop them from the seen list (they are identified by id)
		helloDec += ";calls=" + strings.Join(filterSerials(gs, c), ".")
		pos := map[int]int{} // spec index → position in bq
		for p, j := range bq {
			pos[j] = p
		}
		specOfSerial := map[int]int{}
		for j, s := range c.specs {
			specOfSerial[s.serial] = j
		}
		prevEnd := -1
		for _, f := range fs {
			d := decodeFrameOps(f, c.codec)
			built := "unknown-frame"
			bufs := "-"
			switch d.method {
			case "Multi":
				built, prevEnd = builtMulti(c, d, bq, pos, specOfSerial, prevEnd)
				if c.codec {
					bufs = strconv.Itoa(d.cbLen)
				} else {
					var lens []string
					for _, cs := range d.mutCells {
						n := 0
						for _, kv := range cs {
							n += kv.size
						}
						if n > 0 {
							lens = append(lens, strconv.Itoa(n))
						}
					}
					if len(lens) > 0 {
						bufs = strings.Join(lens, "+")
					}
				}
			default:
				if j, ok := idOf[d.id]; ok {
					built = c.specs[j].builtRender(c.names)
					s := c.specs[j]
					if s.method() == "Mutate" && s.kind != "cas" {
						if c.codec {
							bufs = strconv.Itoa(d.cbLen)
						} else if len(s.builtCells()) > 0 {
							bufs = strconv.Itoa(d.cbLen)
						}
					}
				}
			}
			meta := "-"
			if d.meta != nil {
				meta = strconv.FormatUint(uint64(*d.meta), 10)
			}
			recs = append(recs, fmt.Sprintf("%d~%s~%d~%s~%s~%s~%s", d.id, d.method, d.prio, meta, bufs, d.render, built))
		}
	}
	line := "c05 stream " + codecTok + " " + unitsTok + " " + helloDec + "~" + helloBuilt
	if len(recs) > 0 {
		line += " " + strings.Join(recs, " ")
	}
	return line
}

func filterSerials(gs []string, c streamCase) []string {
	cas := map[string]bool{}
	for _, s := range c.specs {
		if s.kind == "cas" {
			cas[strconv.Itoa(s.serial)] = true
		}
	}
	var out []string
	for _, g := range gs {
		if !cas[g] {
			out = append(out, g)
		}
	}
	return out
}

// builtMulti renders the MultiRequest the batch stands for. The batch is located in the queue
// order from the first action's index (start = position − index + 1); regions are rendered in
// the order the frame lists them (any order is allowed), calls inside a region in queue order.
func builtMulti(c streamCase, d decodedFrame, bq []int, pos map[int]int, specOfSerial map[int]int,
	prevEnd int) (string, int) {
	head := "Multi;p=0;ra=["
	if d.multi == nil {
		return head + "undecodable]", prevEnd
	}
	type act struct{ serial, index int }
	var acts []act
	var order []string // region names as listed
	for _, ra := range d.multi.GetRegionAction() {
		order = append(order, string(ra.GetRegion().GetValue()))
		for _, a := range ra.GetAction() {
			var row []byte
			if a.Get != nil {
				row = a.GetGet().GetRow()
			} else if a.Mutation != nil {
				row = a.GetMutation().GetRow()
			}
			acts = append(acts, act{serialOfRow(row), int(a.GetIndex())})
		}
	}
	if len(acts) == 0 {
		return head + "]", prevEnd
	}
	start, end := -1, -1
	for _, a := range acts {
		j, ok := specOfSerial[a.serial]
		if !ok {
			return head + "unknown-row]", prevEnd
		}
		p, ok := pos[j]
		if !ok {
			return head + "not-a-batched-call]", prevEnd
		}
		if start < 0 {
			start = p - a.index + 1
		}
		if p > end {
			end = p
		}
	}
	if start <= prevEnd || start < 0 {
		return head + fmt.Sprintf("batch-start-%d-overlaps-previous-end-%d]", start, prevEnd), prevEnd
	}
	for p := prevEnd + 1; p < start; p++ {
		if !c.specs[bq[p]].cancelled {
			return head + "live-call-skipped]", prevEnd
		}
	}
	listed := map[string]bool{}
	var ras []string
	renderRegion := func(name string) string {
		var as []string
		for p := start; p <= end; p++ {
			s := c.specs[bq[p]]
			if s.cancelled || string(c.names[s.region]) != name {
				continue
			}
			as = append(as, strconv.Itoa(p-start+1)+":"+s.method()+","+strings.ReplaceAll(s.builtBody(), ";", ","))
		}
		return hx([]byte(name)) + "{" + strings.Join(as, "|") + "}"
	}
	for _, name := range order {
		if listed[name] {
			ras = append(ras, "duplicate-region")
			continue
		}
		listed[name] = true
		ras = append(ras, renderRegion(name))
	}
	for p := start; p <= end; p++ {
		s := c.specs[bq[p]]
		if !s.cancelled && !listed[string(c.names[s.region])] {
			listed[string(c.names[s.region])] = true
			ras = append(ras, renderRegion(string(c.names[s.region])))
		}
	}
	return head + strings.Join(ras, "&") + "]", end
}

// ---------------------------------------------------------------- multi.toProto through the hooks

func kvSize(row []byte, c canonCell) int {
	return 4 + 4 + 4 + 2 + len(row) + 1 + len(c.fam) + len(c.qual) + 8 + 1 + len(c.val)
}

func runMultiCase(seed uint64, i int) (line string) {
	defer func() {
		if r := recover(); r != nil {
			line = "c05 multi - - - panic~" + strings.ReplaceAll(fmt.Sprint(r), " ", "_") + " - 0"
		}
	}()
	r := NewRNG(seed, "c05-multi-"+strconv.Itoa(i))
	names := c05RegionNames(r, 1+r.Intn(4))
	regions := make([]hrpc.RegionInfo, len(names))
	for k, n := range names {
		regions[k] = region.NewInfo(uint64(k), nil, c05Table, n, nil, nil)
	}
	n := r.Intn(9)
	if i%5 == 0 {
		n = 2 + r.Intn(3)
	}
	cellblocks := i%3 != 0
	var specs []opSpec
	var calls []hrpc.Call
	for len(specs) < n {
		s := genSpec(r, len(specs), len(names), c05Batchable[r.Intn(len(c05Batchable))], 0)
		s.cancelled = r.Intn(4) == 0
		ctx := context.Background()
		if s.cancelled {
			ctx = cancelledCtx()
		}
		call, err := s.build(ctx)
		if err != nil {
			continue
		}
		call.SetRegion(regions[s.region])
		specs = append(specs, s)
		calls = append(calls, call)
	}
	m := region.VerifNewMulti(n + 1)
	m.Add(calls)
	var msg proto.Message
	var cbs [][]byte
	var size uint32
	if cellblocks {
		msg, cbs, size = m.SerializeCellBlocks()
	} else {
		msg = m.ToProto()
	}
	var nameToks, callToks, permToks, raToks, cbToks []string
	for _, nm := range names {
		nameToks = append(nameToks, hx(nm))
	}
	for _, s := range specs {
		lc := "l"
		if s.cancelled {
			lc = "c"
		}
		if s.kind == "get" {
			callToks = append(callToks, fmt.Sprintf("%d.%s.g.0.0", s.region, lc))
			continue
		}
		count, cblen := 0, 0
		if cellblocks {
			for _, c := range s.builtCells() {
				count++
				cblen += kvSize(s.row, c)
			}
		}
		callToks = append(callToks, fmt.Sprintf("%d.%s.m.%d.%d", s.region, lc, count, cblen))
	}
	for _, ri := range m.Regions() {
		k := -1
		for j := range regions {
			if regions[j] == ri {
				k = j
			}
		}
		permToks = append(permToks, strconv.Itoa(k))
	}
	for _, ra := range msg.(*pb.MultiRequest).GetRegionAction() {
		var as []string
		for _, a := range ra.GetAction() {
			kind := "g"
			if a.Mutation != nil {
				kind = "m" + strconv.Itoa(int(a.GetMutation().GetAssociatedCellCount()))
			}
			as = append(as, strconv.FormatUint(uint64(a.GetIndex()), 10)+"/"+kind)
		}
		tok := hx(ra.GetRegion().GetValue()) + "="
		if len(as) == 0 {
			tok += "-"
		} else {
			tok += strings.Join(as, "+")
		}
		raToks = append(raToks, tok)
	}
	for _, b := range cbs {
		who := 999999
		if kvs, _, err := takeCellsAll(b); err == nil && len(kvs) > 0 {
			who = serialOfRow(kvs[0].row)
			for _, kv := range kvs {
				if serialOfRow(kv.row) != who {
					who = 999998
				}
			}
		}
		cbToks = append(cbToks, fmt.Sprintf("%d/%d", who, len(b)))
	}
	j := func(l []string) string {
		if len(l) == 0 {
			return "-"
		}
		return strings.Join(l, ",")
	}
	return fmt.Sprintf("c05 multi %s %s %s %s %s %d", j(nameToks), j(callToks), j(permToks), j(raToks), j(cbToks), size)
}

// ---------------------------------------------------------------- entry point

func parallelLines(n, workers int, out *Out, gen func(i int) string) {
	const chunk = 64
	for base := 0; base < n; base += chunk {
		end := base + chunk
		if end > n {
			end = n
		}
		lines := make([]string, end-base)
		need := make([]bool, end-base)
		first := out.n
		for k := range lines {
			need[k] = out.WantAt(first + k)
		}
		var wg sync.WaitGroup
		sem := make(chan struct{}, workers)
		for k := range lines {
			if !need[k] {
				continue
			}
			wg.Add(1)
			sem <- struct{}{}
			go func(k int) {
				defer wg.Done()
				defer func() { <-sem }()
				lines[k] = gen(base + k)
			}(k)
		}
		wg.Wait()
		for k := range lines {
			out.Line("%s", lines[k])
		}
	}
}

func runC05(tier string, seed uint64, out *Out) {
	nStream, nMulti, nTie := 1200, 4000, 6000
	if tier != "quick" {
		nStream, nMulti, nTie = 12000, 40000, 60000
	}
	// a call that is serialised, re-located (SetRegion, as after a split or move) and serialised again
	// names its new region — for every call kind, in the protobuf and in the cellblock form
	for _, l := range relocCases() {
		out.Line("%s", l)
	}
	// table-administration requests: the schema on the wire is the one the caller described
	nAdmin := 160
	if tier != "quick" {
		nAdmin = 1600
	}
	for i := 0; i < nAdmin; i++ {
		out.Line("%s", adminCase(NewRNG(seed, fmt.Sprintf("c05admin-%d", i))))
	}
	parallelLines(nMulti, 8, out, func(i int) string { return runMultiCase(seed, i) })
	parallelLines(nStream, 8, out, func(i int) string { return runStreamCase(genStreamCase(seed, i, tier)) })
	// the structure ties last: they can only report DIFF, and the runner keeps the first 200
	// failing lines
	parallelLines(nTie, 8, out, func(i int) string { return runTieCase(seed, i) })
}

// ---------------------------------------------------------------- ToProto structure ties

func rOptU32(p *uint32) string {
	if p == nil {
		return "_"
	}
	return strconv.FormatUint(uint64(*p), 10)
}
func rOptU64(p *uint64) string {
	if p == nil {
		return "_"
	}
	return strconv.FormatUint(*p, 10)
}
func rOptBool(p *bool) string {
	if p == nil {
		return "_"
	}
	return c05b01(*p)
}
func rFilterPB(f *pb.Filter) string {
	if f == nil {
		return "_"
	}
	return hx([]byte(f.GetName())) + ":" + hx(f.GetSerializedFilter())
}
func rColsStr(cs []famQ) string {
	if len(cs) == 0 {
		return "-"
	}
	var out []string
	for _, c := range cs {
		var qs []string
		for _, q := range c.quals {
			qs = append(qs, hx([]byte(q)))
		}
		out = append(out, hx([]byte(c.fam))+":"+strings.Join(qs, "+"))
	}
	return strings.Join(out, "|")
}
func rTRPB(t *pb.TimeRange) string {
	if t == nil {
		return "_"
	}
	return rOptU64(t.From) + ":" + rOptU64(t.To)
}
func rConsPB(c *pb.Consistency) string {
	if c == nil {
		return "_"
	}
	return strconv.Itoa(int(*c))
}
func rAttrsPB(as []*pb.NameBytesPair) string {
	if len(as) == 0 {
		return "-"
	}
	var out []string
	for _, a := range as {
		out = append(out, hx([]byte(a.GetName()))+":"+hx(a.GetValue()))
	}
	return strings.Join(out, "|")
}
func rRegionPB(r *pb.RegionSpecifier) string {
	if r == nil {
		return "noregion"
	}
	if r.GetType() != pb.RegionSpecifier_REGION_NAME {
		return "type" + strconv.Itoa(int(r.GetType()))
	}
	return hx(r.GetValue())
}

func rGetPB(m *pb.GetRequest) string {
	g := m.GetGet()
	return "region=" + rRegionPB(m.GetRegion()) + ";row=" + hx(g.GetRow()) + ";col=" + rColsStr(decColumns(g.GetColumn())) +
		";flt=" + rFilterPB(g.Filter) + ";tr=" + rTRPB(g.TimeRange) + ";mv=" + rOptU32(g.MaxVersions) +
		";cb=" + rOptBool(g.CacheBlocks) + ";lim=" + rOptU32(g.StoreLimit) + ";off=" + rOptU32(g.StoreOffset) +
		";ex=" + rOptBool(g.ExistenceOnly) + ";cons=" + rConsPB(g.Consistency)
}

func (s *opSpec) queryFields() string {
	q := s.builtQuery()
	flt := "_"
	if s.flt.kind != 0 {
		if f, err := s.flt.build().ConstructPBFilter(); err == nil {
			flt = rFilterPB(f)
		}
	}
	cons := 0
	if s.cons != nil {
		cons = *s.cons
	}
	var fams []famQ
	if s.famsSet {
		fams = s.fams
	}
	return "fams=" + rColsStr(fams) + ";flt=" + flt + ";from=" + strconv.FormatUint(q.from, 10) +
		";to=" + strconv.FormatUint(q.to, 10) + ";mv=" + strconv.FormatUint(uint64(q.mv), 10) +
		";lim=" + strconv.FormatUint(uint64(q.lim), 10) + ";off=" + strconv.FormatUint(uint64(q.off), 10) +
		";prio=" + strconv.FormatUint(uint64(s.priority()), 10) + ";cb=" + c05b01(q.cb) + ";cons=" + strconv.Itoa(cons)
}

func rValsSpec(values map[string]map[string][]byte) string {
	if len(values) == 0 {
		return "-"
	}
	var fams []string
	for f := range values {
		fams = append(fams, f)
	}
	sort.Strings(fams)
	var out []string
	for _, f := range fams {
		inner := values[f]
		if inner == nil {
			out = append(out, hx([]byte(f))+":~")
			continue
		}
		var qs []string
		for q := range inner {
			qs = append(qs, q)
		}
		sort.Strings(qs)
		var es []string
		for _, q := range qs {
			es = append(es, hx([]byte(q))+"/"+hx(inner[q]))
		}
		out = append(out, hx([]byte(f))+":"+strings.Join(es, "+"))
	}
	return strings.Join(out, "|")
}

func (s *opSpec) effValues() map[string]map[string][]byte {
	if s.kind == "incs" {
		amt := make([]byte, 8)
		binary.BigEndian.PutUint64(amt, uint64(s.incAmt))
		return map[string]map[string][]byte{s.incFam: {s.incQual: amt}}
	}
	return s.values
}

// rValsOrd: the value map in the order the message lists families and qualifiers.
func (s *opSpec) rValsOrd(cvs []*pb.MutationProto_ColumnValue) string {
	if len(cvs) == 0 {
		return "-"
	}
	values := s.effValues()
	var out []string
	for _, cv := range cvs {
		f := string(cv.GetFamily())
		inner, ok := values[f]
		if ok && inner == nil {
			out = append(out, hx([]byte(f))+":~")
			continue
		}
		if ok && len(inner) == 0 { // an empty map stays an empty map (a delete writes its family cell for it)
			out = append(out, hx([]byte(f))+":")
			continue
		}
		var es []string
		for _, qv := range cv.GetQualifierValue() {
			q := string(qv.GetQualifier())
			v, ok := inner[q]
			if !ok {
				v = qv.GetValue()
			}
			es = append(es, hx([]byte(q))+"/"+hx(v))
		}
		out = append(out, hx([]byte(f))+":"+strings.Join(es, "+"))
	}
	return strings.Join(out, "|")
}

func rMutatePB(m *pb.MutateRequest) string {
	p := m.GetMutation()
	typ := "_"
	if p.MutateType != nil {
		typ = strconv.Itoa(int(p.GetMutateType()))
	}
	dur := "_"
	if p.Durability != nil {
		dur = strconv.Itoa(int(p.GetDurability()))
	}
	count := "_"
	if p.AssociatedCellCount != nil {
		count = strconv.Itoa(int(p.GetAssociatedCellCount()))
	}
	cv := "-"
	if len(p.GetColumnValue()) > 0 {
		var fs []string
		for _, c := range p.GetColumnValue() {
			var qs []string
			for _, qv := range c.GetQualifierValue() {
				dt := "_"
				if qv.DeleteType != nil {
					dt = strconv.Itoa(int(qv.GetDeleteType()))
				}
				qs = append(qs, hx(qv.GetQualifier())+"/"+hx(qv.GetValue())+"/"+rOptU64(qv.Timestamp)+"/"+dt)
			}
			fs = append(fs, hx(c.GetFamily())+":"+strings.Join(qs, "+"))
		}
		cv = strings.Join(fs, "|")
	}
	cond := "_"
	if c := m.GetCondition(); c != nil {
		cond = hx(c.GetRow()) + "/" + hx(c.GetFamily()) + "/" + hx(c.GetQualifier()) + "/" +
			strconv.Itoa(int(c.GetCompareType())) + "/" + hx([]byte(c.GetComparator().GetName())) + ":" +
			hx(c.GetComparator().GetSerializedComparator())
	}
	return "region=" + rRegionPB(m.GetRegion()) + ";row=" + hx(p.GetRow()) + ";type=" + typ + ";cv=" + cv +
		";ts=" + rOptU64(p.Timestamp) + ";attrs=" + rAttrsPB(p.GetAttribute()) + ";dur=" + dur + ";count=" + count +
		";cond=" + cond
}

func (s *opSpec) mutateFields(region []byte) string {
	typ := map[string]int{"app": 0, "inc": 1, "incs": 1, "put": 2, "cas": 2, "del": 3}[s.kind]
	ttl := "-"
	if s.ttlMs != nil {
		b := make([]byte, 8)
		binary.BigEndian.PutUint64(b, uint64(*s.ttlMs))
		ttl = hx(b)
	}
	ts := uint64(math.MaxUint64)
	if s.ts != nil {
		ts = *s.ts
	}
	dur := 0
	if s.dur != nil {
		dur = *s.dur
	}
	return "key=" + hx(s.row) + ";region=" + hx(region) + ";type=" + strconv.Itoa(typ) + ";vals=" + rValsSpec(s.effValues()) +
		";ttl=" + ttl + ";ts=" + strconv.FormatUint(ts, 10) + ";dur=" + strconv.Itoa(dur) + ";delone=" + c05b01(s.delOne)
}

func rScanPB(m *pb.ScanRequest) string {
	sc := "_"
	if s := m.Scan; s != nil {
		sc = "{start=" + hx(s.GetStartRow()) + ",stop=" + hx(s.GetStopRow()) + ",col=" + rColsStr(decColumns(s.GetColumn())) +
			",attrs=" + rAttrsPB(s.GetAttribute()) + ",flt=" + rFilterPB(s.Filter) + ",tr=" + rTRPB(s.TimeRange) +
			",mv=" + rOptU32(s.MaxVersions) + ",cb=" + rOptBool(s.CacheBlocks) + ",mrs=" + rOptU64(s.MaxResultSize) +
			",lim=" + rOptU32(s.StoreLimit) + ",off=" + rOptU32(s.StoreOffset) + ",rev=" + rOptBool(s.Reversed) +
			",cons=" + rConsPB(s.Consistency) + "}"
	}
	return "region=" + rRegionPB(m.GetRegion()) + ";scan=" + sc + ";sid=" + rOptU64(m.ScannerId) + ";n=" + rOptU32(m.NumberOfRows) +
		";close=" + rOptBool(m.CloseScanner) + ";php=" + rOptBool(m.ClientHandlesPartials) +
		";phb=" + rOptBool(m.ClientHandlesHeartbeats) + ";track=" + rOptBool(m.TrackScanMetrics) + ";renew=" + rOptBool(m.Renew)
}

func runTieCase(seed uint64, i int) (line string) {
	r := NewRNG(seed, "c05-tie-"+strconv.Itoa(i))
	names := c05RegionNames(r, 1)
	reg := region.NewInfo(1, nil, c05Table, names[0], nil, nil)
	kinds := []string{"get", "scan", "put", "app", "inc", "incs", "del", "cas", "mutcb", "mutcb"}
	kind := kinds[i%len(kinds)]
	cb := kind == "mutcb"
	if cb {
		kind = c05Batchable[1+r.Intn(len(c05Batchable)-1)]
	}
	var s opSpec
	var call hrpc.Call
	for {
		s = genSpec(r, i%100000, 1, kind, 0)
		if (kind == "get" || kind == "scan") && r.Intn(25) == 0 {
			s.cons = pInt(7) // not one of the ConsistencyType constants
		}
		var err error
		if call, err = s.build(context.Background()); err == nil {
			break
		}
	}
	call.SetRegion(reg)
	var msg proto.Message
	var cbs [][]byte
	var size uint32
	panicked := false
	func() {
		defer func() {
			if rec := recover(); rec != nil {
				panicked = true
			}
		}()
		if cb {
			msg, cbs, size = call.(*hrpc.Mutate).SerializeCellBlocks(nil)
		} else {
			msg = call.ToProto()
		}
	}()
	switch kind {
	case "get":
		obs := "panic"
		ord := "-"
		if !panicked {
			obs = rGetPB(msg.(*pb.GetRequest))
			ord = rColsStr(decColumns(msg.(*pb.GetRequest).GetGet().GetColumn()))
		} else if s.famsSet {
			ord = rColsStr(s.fams)
		}
		return "c05 get key=" + hx(s.row) + ";region=" + hx(names[0]) + ";" + s.queryFields() + ";ex=" + c05b01(s.exists) +
			";ord=" + ord + " " + obs
	case "scan":
		obs := "panic"
		ord := "-"
		if !panicked {
			m := msg.(*pb.ScanRequest)
			obs = rScanPB(m)
			ord = rColsStr(decColumns(m.GetScan().GetColumn()))
		} else if s.famsSet {
			ord = rColsStr(s.fams)
		}
		var start, stop []byte
		if s.useRange {
			start, stop = s.start, s.stop
		}
		sid := uint64(math.MaxUint64)
		if s.scannerID != nil {
			sid = *s.scannerID
		}
		mrs := uint64(hrpc.DefaultMaxResultSize)
		if s.mrs != nil {
			mrs = *s.mrs
		}
		n := uint32(hrpc.DefaultNumberOfRows)
		if s.nrows != nil {
			n = *s.nrows
		}
		attrs := "-"
		if len(s.attrs) > 0 {
			var as []string
			for _, a := range s.attrs {
				as = append(as, hx(a[0])+":"+hx(a[1]))
			}
			attrs = strings.Join(as, "|")
		}
		return "c05 scan region=" + hx(names[0]) + ";start=" + hx(start) + ";stop=" + hx(stop) + ";" + s.queryFields() +
			";sid=" + strconv.FormatUint(sid, 10) + ";mrs=" + strconv.FormatUint(mrs, 10) + ";n=" + strconv.FormatUint(uint64(n), 10) +
			";rev=" + c05b01(s.reversed) + ";attrs=" + attrs + ";track=" + c05b01(s.track) + ";close=" + c05b01(s.closeSc) +
			";allow=" + c05b01(s.allowPart) + ";renew=" + c05b01(s.renewal) + ";ord=" + ord + " " + obs
	}
	if panicked {
		return "c05 mutate panic panic"
	}
	m := msg.(*pb.MutateRequest)
	fields := s.mutateFields(names[0])
	if cb {
		cblen := 0
		bufs := "[]"
		if len(cbs) > 0 {
			cblen = len(cbs[0])
			var ls []string
			for _, b := range cbs {
				ls = append(ls, strconv.Itoa(len(b)))
			}
			bufs = "[" + strings.Join(ls, ", ") + "]"
		}
		return "c05 mutatecb " + fields + ";cblen=" + strconv.Itoa(cblen) + ";count=" + strconv.Itoa(int(m.GetMutation().GetAssociatedCellCount())) +
			" " + rMutatePB(m) + ";bufs=" + bufs + ";size=" + strconv.FormatUint(uint64(size), 10)
	}
	fields += ";ord=" + s.rValsOrd(m.GetMutation().GetColumnValue())
	if kind == "cas" {
		ser, _ := proto.Marshal(&pb.BinaryComparator{Comparable: &pb.ByteArrayComparable{Value: s.casVal}})
		fields += ";cfam=" + hx([]byte(s.casFam)) + ";cqual=" + hx([]byte(s.casQual)) + ";cmp=" +
			hx([]byte("org.apache.hadoop.hbase.filter.BinaryComparator")) + ":" + hx(ser)
	}
	return "c05 mutate " + fields + " " + rMutatePB(m)
}

// adminCase builds one CreateTable / DeleteTable / EnableTable / DisableTable request, marshals
// it, decodes the bytes into a fresh message and compares with what was asked for.  Family
// attributes the caller did not give must equal those of a request built with no attributes at all
// (the library's defaults, whatever they are).
func adminCase(r *RNG) string {
	ctx := context.Background()
	table := append([]byte("t"), r.Bytes(5, c05Alpha)...)
	reround := func(m proto.Message, into proto.Message) bool {
		b, err := proto.Marshal(m)
		return err == nil && proto.Unmarshal(b, into) == nil
	}
	kind := []string{"create", "create", "create", "delete", "enable", "disable", "snapshot", "snapshot", "listtables", "balancer", "move"}[r.Intn(11)]
	switch kind {
	case "move":
		// MoveRegion: the encoded region name, and (when given) the destination host,port,startcode
		region := []byte(fmt.Sprintf("%032x", r.Next()))
		host, port, start := fmt.Sprintf("h%d.example", r.Intn(1000)), uint32(1+r.Intn(65000)), r.Next()>>uint(r.Intn(40))
		withDest := r.Intn(3) != 0
		var opts []func(hrpc.Call) error
		if withDest {
			// a host name may itself contain no comma; the start code takes all 64 bits
			name := fmt.Sprintf("%s,%d,%d", host, port, start)
			if r.Intn(2) == 0 { // zero-padded decimal fields are decimal fields
				name = fmt.Sprintf("%s,%06d,%020d", host, port, start)
			}
			opts = append(opts, hrpc.WithDestinationRegionServer(name))
		}
		mv, err := hrpc.NewMoveRegion(ctx, region, opts...)
		d := &pb.MoveRegionRequest{}
		if err != nil || !reround(mv.ToProto(), d) {
			return "c05 admin move undecodable"
		}
		switch {
		case !bytes.Equal(d.GetRegion().GetValue(), region) || d.GetRegion().GetType() != pb.RegionSpecifier_ENCODED_REGION_NAME:
			return "c05 admin move region-differs"
		case withDest != (d.DestServerName != nil):
			return "c05 admin move destination-presence-differs"
		case withDest && (d.GetDestServerName().GetHostName() != host || d.GetDestServerName().GetPort() != port || d.GetDestServerName().GetStartCode() != start):
			return "c05 admin move destination-differs"
		}
		return "c05 admin move ok"
	}
	switch kind {
	case "snapshot":
		// a snapshot description: name, table, version (0 is a version: the V1 manifest format),
		// owner, type — the same in the request that takes it and in those that check, delete, restore it
		name := "s" + string(r.Bytes(4, c05Alpha))
		var opts []func(hrpc.Call) error
		wantVersion, hasVersion := int32(0), false
		if r.Intn(4) != 0 {
			wantVersion, hasVersion = int32(r.Intn(3)), true
			opts = append(opts, hrpc.SnapshotVersion(wantVersion))
		}
		owner := ""
		if r.Bool() {
			owner = "o" + string(r.Bytes(3, c05Alpha))
			opts = append(opts, hrpc.SnapshotOwner(owner))
		}
		skip := r.Bool()
		if skip {
			opts = append(opts, hrpc.SnapshotSkipFlush())
		}
		sn, err := hrpc.NewSnapshot(ctx, name, string(table), opts...)
		if err != nil {
			return "c05 admin snapshot constructor-failed"
		}
		descs := map[string]*pb.SnapshotDescription{}
		{
			d := &pb.SnapshotRequest{}
			if !reround(sn.ToProto(), d) {
				return "c05 admin snapshot undecodable"
			}
			descs["take"] = d.GetSnapshot()
		}
		{
			d := &pb.IsSnapshotDoneRequest{}
			if !reround(hrpc.NewSnapshotDone(sn).ToProto(), d) {
				return "c05 admin snapshot-done undecodable"
			}
			descs["done"] = d.GetSnapshot()
		}
		{
			d := &pb.DeleteSnapshotRequest{}
			if !reround(hrpc.NewDeleteSnapshot(sn).ToProto(), d) {
				return "c05 admin snapshot-delete undecodable"
			}
			descs["delete"] = d.GetSnapshot()
		}
		{
			d := &pb.RestoreSnapshotRequest{}
			if !reround(hrpc.NewRestoreSnapshot(sn).ToProto(), d) {
				return "c05 admin snapshot-restore undecodable"
			}
			descs["restore"] = d.GetSnapshot()
		}
		for _, which := range []string{"take", "done", "delete", "restore"} {
			d := descs[which]
			tag := "snapshot-" + which
			switch {
			case d.GetName() != name:
				return "c05 admin " + tag + " name-differs"
			case d.GetTable() != string(table):
				return "c05 admin " + tag + " table-differs"
			case hasVersion && (d.Version == nil || d.GetVersion() != wantVersion):
				return "c05 admin " + tag + " version-differs"
			case !hasVersion && d.Version != nil:
				return "c05 admin " + tag + " version-invented"
			case d.GetOwner() != owner:
				return "c05 admin " + tag + " owner-differs"
			case skip != (d.Type != nil && d.GetType() == pb.SnapshotDescription_SKIPFLUSH):
				return "c05 admin " + tag + " type-differs"
			}
		}
		return "c05 admin snapshot ok"
	case "listtables":
		regex, ns, sys := "r"+string(r.Bytes(3, c05Alpha)), "n"+string(r.Bytes(2, c05Alpha)), r.Bool()
		l, err := hrpc.NewListTableNames(ctx, hrpc.ListRegex(regex), hrpc.ListNamespace(ns), hrpc.ListSysTables(sys))
		d := &pb.GetTableNamesRequest{}
		if err != nil || !reround(l.ToProto(), d) {
			return "c05 admin listtables undecodable"
		}
		if d.GetRegex() != regex || d.GetNamespace() != ns || d.GetIncludeSysTables() != sys {
			return "c05 admin listtables options-differ"
		}
		return "c05 admin listtables ok"
	case "balancer":
		on := r.Bool()
		b, err := hrpc.NewSetBalancer(ctx, on)
		d := &pb.SetBalancerRunningRequest{}
		if err != nil || !reround(b.ToProto(), d) {
			return "c05 admin balancer undecodable"
		}
		if d.GetOn() != on {
			return "c05 admin balancer flag-differs"
		}
		return "c05 admin balancer ok"
	}
	switch kind {
	case "delete", "enable", "disable":
		var m proto.Message
		var got *pb.TableName
		switch kind {
		case "delete":
			d := &pb.DeleteTableRequest{}
			m = hrpc.NewDeleteTable(ctx, table).ToProto()
			if !reround(m, d) {
				return "c05 admin " + kind + " undecodable"
			}
			got = d.GetTableName()
		case "enable":
			d := &pb.EnableTableRequest{}
			m = hrpc.NewEnableTable(ctx, table).ToProto()
			if !reround(m, d) {
				return "c05 admin " + kind + " undecodable"
			}
			got = d.GetTableName()
		default:
			d := &pb.DisableTableRequest{}
			m = hrpc.NewDisableTable(ctx, table).ToProto()
			if !reround(m, d) {
				return "c05 admin " + kind + " undecodable"
			}
			got = d.GetTableName()
		}
		if !bytes.Equal(got.GetQualifier(), table) {
			return "c05 admin " + kind + " table-name-differs"
		}
		return "c05 admin " + kind + " ok"
	}
	keys := []string{"BLOOMFILTER", "REPLICATION_SCOPE", "COMPRESSION", "VERSIONS", "TTL", "MIN_VERSIONS",
		"KEEP_DELETED_CELLS", "BLOCKSIZE", "IN_MEMORY", "BLOCKCACHE", "DATA_BLOCK_ENCODING"}
	// the defaults, from a request with no attributes
	ref := &pb.CreateTableRequest{}
	if !reround(hrpc.NewCreateTable(ctx, table, map[string]map[string]string{"ref": nil}).ToProto(), ref) ||
		len(ref.GetTableSchema().GetColumnFamilies()) != 1 {
		return "c05 admin create reference-undecodable"
	}
	defaults := map[string]string{}
	for _, a := range ref.GetTableSchema().GetColumnFamilies()[0].GetAttributes() {
		defaults[string(a.GetFirst())] = string(a.GetSecond())
	}
	nf := 1 + r.Intn(4)
	fams := map[string]map[string]string{}
	for i := 0; i < nf; i++ {
		name := fmt.Sprintf("f%d", i)
		var attrs map[string]string
		if r.Intn(4) != 0 {
			attrs = map[string]string{}
			for j, n := 0, r.Intn(5); j < n; j++ {
				attrs[keys[r.Intn(len(keys))]] = fmt.Sprintf("v%d", r.Intn(1000))
			}
		}
		fams[name] = attrs
	}
	var splits [][]byte
	for j, n := 0, r.Intn(4); j < n; j++ {
		splits = append(splits, []byte(fmt.Sprintf("s%02d", j*7+r.Intn(7))))
	}
	opts := []func(*hrpc.CreateTable){}
	if len(splits) > 0 {
		opts = append(opts, hrpc.SplitKeys(splits))
	}
	got := &pb.CreateTableRequest{}
	if !reround(hrpc.NewCreateTable(ctx, table, fams, opts...).ToProto(), got) {
		return "c05 admin create undecodable"
	}
	tag := fmt.Sprintf("create-%dfam", nf)
	ts := got.GetTableSchema()
	if !bytes.Equal(ts.GetTableName().GetQualifier(), table) {
		return "c05 admin " + tag + " table-name-differs"
	}
	if len(got.GetSplitKeys()) != len(splits) {
		return "c05 admin " + tag + " split-keys-differ"
	}
	for i := range splits {
		if !bytes.Equal(got.GetSplitKeys()[i], splits[i]) {
			return "c05 admin " + tag + " split-keys-differ"
		}
	}
	if len(ts.GetColumnFamilies()) != nf {
		return "c05 admin " + tag + " family-count-differs"
	}
	seen := map[string]bool{}
	for _, f := range ts.GetColumnFamilies() {
		name := string(f.GetName())
		want, ok := fams[name]
		if !ok || seen[name] {
			return "c05 admin " + tag + " family-names-differ"
		}
		seen[name] = true
		gotAttrs := map[string]string{}
		for _, a := range f.GetAttributes() {
			if _, dup := gotAttrs[string(a.GetFirst())]; dup {
				return "c05 admin " + tag + " attribute-twice"
			}
			gotAttrs[string(a.GetFirst())] = string(a.GetSecond())
		}
		for k, v := range want {
			if gotAttrs[k] != v {
				return "c05 admin " + tag + " family-attribute-differs"
			}
		}
		for k, v := range gotAttrs {
			if _, given := want[k]; !given && defaults[k] != v {
				return "c05 admin " + tag + " family-attribute-differs"
			}
		}
		if len(gotAttrs) < len(defaults) {
			return "c05 admin " + tag + " family-attribute-missing"
		}
	}
	return "c05 admin " + tag + " ok"
}

func relocCases() []string {
	r1 := region.NewInfo(1, nil, []byte("t"), []byte("t,,1.parent."), nil, nil)
	r2 := region.NewInfo(2, nil, []byte("t"), []byte("t,,2.daughter."), nil, []byte("m"))
	ctx := context.Background()
	vals := map[string]map[string][]byte{"f": {"q": []byte("v")}}
	mk := map[string]func() hrpc.Call{
		"get":  func() hrpc.Call { c, _ := hrpc.NewGetStr(ctx, "t", "k"); return c },
		"put":  func() hrpc.Call { c, _ := hrpc.NewPutStr(ctx, "t", "k", vals); return c },
		"del":  func() hrpc.Call { c, _ := hrpc.NewDelStr(ctx, "t", "k", vals); return c },
		"app":  func() hrpc.Call { c, _ := hrpc.NewAppStr(ctx, "t", "k", vals); return c },
		"inc":  func() hrpc.Call { c, _ := hrpc.NewIncStrSingle(ctx, "t", "k", "f", "q", 1); return c },
		"scan": func() hrpc.Call { c, _ := hrpc.NewScanStr(ctx, "t"); return c },
		"cas": func() hrpc.Call {
			p, _ := hrpc.NewPutStr(ctx, "t", "k", vals)
			c, _ := hrpc.NewCheckAndPut(p, "f", "q", []byte("x"))
			return c
		},
	}
	specOf := func(m proto.Message) []byte {
		switch x := m.(type) {
		case *pb.GetRequest:
			return x.GetRegion().GetValue()
		case *pb.MutateRequest:
			return x.GetRegion().GetValue()
		case *pb.ScanRequest:
			return x.GetRegion().GetValue()
		}
		return nil
	}
	var out []string
	for _, kind := range []string{"get", "put", "del", "app", "inc", "scan", "cas"} {
		for _, form := range []string{"pb", "cb"} {
			c := mk[kind]()
			ser := func() []byte {
				if s, ok := c.(interface {
					SerializeCellBlocks([][]byte) (proto.Message, [][]byte, uint32)
				}); ok && form == "cb" {
					m, _, _ := s.SerializeCellBlocks(nil)
					return specOf(m)
				}
				return specOf(c.ToProto())
			}
			c.SetRegion(r1)
			first := ser()
			c.SetRegion(r2)
			second := ser()
			res := "ok"
			if !bytes.Equal(first, r1.Name()) {
				res = "first-wrong"
			} else if !bytes.Equal(second, r2.Name()) {
				res = "stale"
			}
			out = append(out, fmt.Sprintf("c05 reloc %s %s %s", kind, form, res))
		}
	}
	return out
}
