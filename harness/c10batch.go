package main

// C10 inside a batch: several mutations for two or three regions, in interleaved order, go through
// the region client's multi. In the request that results, the cells that a reader of the cellblock
// stream attributes to each action (sequentially, by associated_cell_count, in request order) must
// be the cells its protobuf form denotes. One `c10 mut` line per action, judged like a single
// mutation (Drive/C10.lean handleMut).

import (
	"fmt"
	"strconv"

	"github.com/tsuna/gohbase/hrpc"
	"github.com/tsuna/gohbase/pb"
	"github.com/tsuna/gohbase/region"
)

type c10bSpec struct {
	kind     string
	onev     bool
	ts       uint64
	key      []byte
	nilOuter bool
	fams     []famSpec
}

func c10bRandSpec(r *RNG, i int) c10bSpec {
	small := []byte{0, 'a', 'b', 0xff, ','}
	full := []byte{0, 1, 'x', 0xfe, 0xff}
	nf := r.Intn(4)
	seen := map[string]bool{}
	var fams []famSpec
	for j := 0; j < nf; j++ {
		f := r.Bytes(3, small)
		if seen[string(f)] {
			continue
		}
		seen[string(f)] = true
		var in innerSpec
		if r.Intn(6) != 0 {
			ne := 1 + r.Intn(3)
			qs := map[string]bool{}
			for k := 0; k < ne; k++ {
				q := r.Bytes(3, small)
				if qs[string(q)] {
					continue
				}
				qs[string(q)] = true
				in.ents = append(in.ents, [2][]byte{q, append(r.Bytes(6, full), byte(i))})
			}
		}
		fams = append(fams, famSpec{f, in})
	}
	ts := uint64(1<<64 - 1)
	if r.Intn(2) == 0 {
		ts = uint64(1 + r.Intn(1000))
	}
	s := c10bSpec{kind: c10Kinds[r.Intn(4)], onev: r.Intn(3) == 0, ts: ts, nilOuter: r.Bool(), fams: fams}
	s.key = append([]byte{"agz"[r.Intn(3)]}, []byte(strconv.Itoa(i))...)
	return s
}

func c10bHead(mp *pb.MutationProto) string {
	ts := "-"
	if mp.Timestamp != nil {
		ts = strconv.FormatUint(*mp.Timestamp, 10)
	}
	return fmt.Sprintf("ts%s.type%d.dur%d.row%s", ts, int(mp.GetMutateType()), int(mp.GetDurability()), hx(mp.Row))
}

var c10bRegions = []hrpc.RegionInfo{
	region.NewInfo(1, nil, []byte("t"), []byte("t,,1.0123456789abcdef0123456789abcdef."), nil, []byte("c")),
	region.NewInfo(2, nil, []byte("t"), []byte("t,c,2.0123456789abcdef0123456789abcdef."), []byte("c"), []byte("m")),
	region.NewInfo(3, nil, []byte("t"), []byte("t,m,3.0123456789abcdef0123456789abcdef."), []byte("m"), nil),
}

// c10Batch emits the lines of one batch.
func c10Batch(out *Out, r *RNG) {
	n := 2 + r.Intn(6)
	var specs []c10bSpec
	var calls []hrpc.Call
	for i := 0; i < n; i++ {
		s := c10bRandSpec(r, i)
		if s.kind == "del" && len(s.fams) == 0 && s.onev {
			s.onev = false
		}
		var opts []func(hrpc.Call) error
		if s.ts != 1<<64-1 {
			opts = append(opts, hrpc.TimestampUint64(s.ts))
		}
		if s.onev {
			opts = append(opts, hrpc.DeleteOneVersion())
		}
		m, err := newMutate(s.kind, s.key, buildMap(s.nilOuter, s.fams), opts)
		if err != nil {
			continue
		}
		switch s.key[0] {
		case 'a':
			m.SetRegion(c10bRegions[0])
		case 'g':
			m.SetRegion(c10bRegions[1])
		default:
			m.SetRegion(c10bRegions[2])
		}
		specs = append(specs, s)
		calls = append(calls, m)
	}
	if len(calls) == 0 {
		return
	}
	type form struct {
		mp *pb.MutationProto
		cb []byte
		ok bool
	}
	cbForm := map[uint32]form{}
	pbForm := map[uint32]*pb.MutationProto{}
	status := func() (res string) {
		defer func() {
			if x := recover(); x != nil {
				res = "panic"
			}
		}()
		mm := region.VerifNewMulti(1000)
		mm.Add(calls)
		msg, cbs, _ := mm.SerializeCellBlocks()
		var stream []byte
		for _, b := range cbs {
			stream = append(stream, b...)
		}
		for _, ra := range msg.(*pb.MultiRequest).RegionAction {
			for _, a := range ra.Action {
				mp := a.GetMutation()
				if mp == nil {
					continue
				}
				f := form{mp: mp, ok: true}
				rest := stream
				for k := int32(0); k < mp.GetAssociatedCellCount(); k++ {
					c, err := parseKV(rest)
					if err != nil {
						f.ok = false
						break
					}
					rest = rest[c.size:]
				}
				f.cb = stream[:len(stream)-len(rest)]
				stream = rest
				cbForm[a.GetIndex()-1] = f
			}
		}
		if len(stream) != 0 {
			return fmt.Sprintf("trailing-%d-bytes", len(stream))
		}
		mm2 := region.VerifNewMulti(1000)
		mm2.Add(calls)
		for _, ra := range mm2.ToProto().(*pb.MultiRequest).RegionAction {
			for _, a := range ra.Action {
				if mp := a.GetMutation(); mp != nil {
					pbForm[a.GetIndex()-1] = mp
				}
			}
		}
		return "ok"
	}()
	for i, s := range specs {
		if !out.Want() {
			out.n++
			continue
		}
		f, ok1 := cbForm[uint32(i)]
		p, ok2 := pbForm[uint32(i)]
		if status != "ok" || !ok1 || !ok2 {
			out.Line("c10 batch-broken %s action=%d cellblock-form=%v proto-form=%v", status, i, ok1, ok2)
			continue
		}
		ov := 0
		if s.onev {
			ov = 1
		}
		out.Line("c10 mut %s %d %d %s %s %s %s %d %d %s %s", s.kind, ov, s.ts, hx(s.key), mapStr(s.nilOuter, s.fams),
			protoStr(p), hx(f.cb), f.mp.GetAssociatedCellCount(), len(f.cb), c10bHead(p), c10bHead(f.mp))
	}
}
