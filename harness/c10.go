package main

// C10 (and the cell-decoder part of C11): the KeyValue ("cellblock") codec of hrpc.
// Real code under test: hrpc.appendCellblock / cellblockLen / cellFromCellBlock /
// deserializeCellBlocks (through the verif hooks) and the two mutation encodings through the public
// API (NewPut/NewDel/NewApp/NewInc + ToProto / SerializeCellBlocks).
// Line formats: lean/GohbaseVerif/Drive/C10.lean.

import (
	"context"
	"encoding/binary"
	"fmt"
	"sort"
	"strconv"
	"strings"

	"github.com/tsuna/gohbase/hrpc"
	"github.com/tsuna/gohbase/pb"
	"github.com/tsuna/gohbase/region"
)

var c10Region = region.NewInfo(1, nil, []byte("t"), []byte("t,,1.0123456789abcdef0123456789abcdef."), nil, nil)

func init() { props["C10"] = runC10 }

// exact returns a copy of b whose capacity equals its length, so that an over-read in the
// decoder is a slice-bounds panic and not a silent read of spare capacity.
func exact(b []byte) []byte {
	c := make([]byte, len(b))
	copy(c, b)
	return c[:len(b):len(b)]
}

func pbCellStr(c *pb.Cell) string {
	return fmt.Sprintf("%s.%s.%s.%d.%d.%s", hx(c.Row), hx(c.Family), hx(c.Qualifier),
		c.GetTimestamp(), uint32(c.GetCellType())&0xff, hx(c.Value))
}

type kv struct {
	row, fam, qual, val []byte
	ts                  uint64
	typ                 byte
}

func (c kv) str() string {
	return fmt.Sprintf("%s.%s.%s.%d.%d.%s", hx(c.row), hx(c.fam), hx(c.qual), c.ts, c.typ, hx(c.val))
}

func cellsStr(cs []kv) string {
	if len(cs) == 0 {
		return "E"
	}
	s := make([]string, len(cs))
	for i, c := range cs {
		s[i] = c.str()
	}
	return strings.Join(s, ",")
}

// goEncode runs appendCellblock on cbs = pre.
func goEncode(c kv, pre []byte) (out []byte, panicked bool) {
	defer func() {
		if r := recover(); r != nil {
			out, panicked = nil, true
		}
	}()
	cbs := make([]byte, len(pre), len(pre)+8) // spare capacity: append must not rely on it
	copy(cbs, pre)
	return hrpc.VerifAppendCellblock(c.row, string(c.fam), string(c.qual), c.val, c.ts, c.typ, cbs), false
}

// goDecode runs cellFromCellBlock on an exact-capacity copy.
func goDecode(b []byte) (res string) {
	defer func() {
		if r := recover(); r != nil {
			res = "panic"
		}
	}()
	c, n, err := hrpc.VerifCellFromCellBlock(exact(b))
	if err != nil {
		return "err"
	}
	return "ok:" + pbCellStr(c) + ":" + strconv.FormatUint(uint64(n), 10)
}

// goDeserialize runs deserializeCellBlocks on an exact-capacity copy.
func goDeserialize(b []byte, n uint32) (res string) {
	defer func() {
		if r := recover(); r != nil {
			res = "panic"
		}
	}()
	cells, read, err := hrpc.VerifDeserializeCellBlocks(exact(b), n)
	if err != nil {
		return "err"
	}
	s := "E"
	if len(cells) > 0 {
		parts := make([]string, len(cells))
		for i, c := range cells {
			parts[i] = pbCellStr(c)
		}
		s = strings.Join(parts, ",")
	}
	return "ok:" + s + ":" + strconv.FormatUint(uint64(read), 10)
}

func pattern(n int, salt byte) []byte {
	b := make([]byte, n)
	for i := range b {
		b[i] = byte(i*7+3) ^ salt
	}
	return b
}

var (
	c10Types = []byte{hrpc.VerifPutType, hrpc.VerifDeleteType, hrpc.VerifDeleteFamilyVersionType,
		hrpc.VerifDeleteColumnType, hrpc.VerifDeleteFamilyType}
	c10Ts   = []uint64{0, 1, 1<<63 - 1, 1 << 63, 1<<64 - 1}
	c10Pre  = [][]byte{nil, {0xaa, 0xbb, 0xcc}}
	c10Rest = [][]byte{nil, {0xff}, {0, 0, 0, 1, 2}}
)

func encLine(out *Out, c kv, idx int) {
	if !out.Want() {
		out.n++
		return
	}
	pre := c10Pre[idx%len(c10Pre)]
	rest := c10Rest[(idx/2)%len(c10Rest)]
	enc, panicked := goEncode(c, pre)
	outs := "panic"
	dec := "panic"
	if !panicked {
		outs = hx(enc)
		if len(enc) >= len(pre) {
			dec = goDecode(append(append([]byte{}, enc[len(pre):]...), rest...))
		}
	}
	out.Line("c10 enc %s %s %s %s %s %d %d %s %s %d %s", hx(pre), hx(c.row), hx(c.fam), hx(c.qual),
		hx(c.val), c.ts, c.typ, hx(rest), outs,
		hrpc.VerifCellblockLen(len(c.row), len(c.fam), len(c.qual), len(c.val)), dec)
}

// ---------------------------------------------------------------- mutations

type innerSpec struct {
	nilMap bool
	ents   [][2][]byte
}
type famSpec struct {
	fam   []byte
	inner innerSpec
}

func mapStr(nilOuter bool, fams []famSpec) string {
	if len(fams) == 0 {
		if nilOuter {
			return "N"
		}
		return "E"
	}
	parts := make([]string, len(fams))
	for i, f := range fams {
		switch {
		case f.inner.nilMap:
			parts[i] = hx(f.fam) + "~N"
		case len(f.inner.ents) == 0:
			parts[i] = hx(f.fam) + "~E"
		default:
			es := make([]string, len(f.inner.ents))
			for j, e := range f.inner.ents {
				es[j] = hx(e[0]) + "=" + hx(e[1])
			}
			parts[i] = hx(f.fam) + "~" + strings.Join(es, ",")
		}
	}
	return strings.Join(parts, ";")
}

func buildMap(nilOuter bool, fams []famSpec) map[string]map[string][]byte {
	if len(fams) == 0 {
		if nilOuter {
			return nil
		}
		return map[string]map[string][]byte{}
	}
	m := map[string]map[string][]byte{}
	for _, f := range fams {
		if f.inner.nilMap {
			m[string(f.fam)] = nil
			continue
		}
		in := map[string][]byte{}
		for _, e := range f.inner.ents {
			in[string(e[0])] = e[1]
		}
		m[string(f.fam)] = in
	}
	return m
}

func protoStr(mp *pb.MutationProto) string {
	cvs := mp.GetColumnValue()
	if len(cvs) == 0 {
		return "E"
	}
	parts := make([]string, len(cvs))
	for i, cv := range cvs {
		if len(cv.QualifierValue) == 0 {
			parts[i] = hx(cv.Family) + "~E"
			continue
		}
		qs := make([]string, len(cv.QualifierValue))
		for j, q := range cv.QualifierValue {
			// a server reads the qualifier's timestamp, else the mutation's, else LATEST_TIMESTAMP
			ts := "-"
			if q.Timestamp != nil {
				ts = strconv.FormatUint(*q.Timestamp, 10)
			} else if mp.Timestamp != nil {
				ts = strconv.FormatUint(*mp.Timestamp, 10)
			}
			dt := "-"
			if q.DeleteType != nil {
				dt = strconv.Itoa(int(*q.DeleteType))
			}
			qs[j] = hx(q.Qualifier) + "=" + hx(q.Value) + "@" + ts + "#" + dt
		}
		parts[i] = hx(cv.Family) + "~" + strings.Join(qs, ",")
	}
	sort.Strings(parts)
	return strings.Join(parts, ";")
}

var c10Kinds = []string{"put", "del", "app", "inc"}

func newMutate(kind string, key []byte, values map[string]map[string][]byte,
	opts []func(hrpc.Call) error) (*hrpc.Mutate, error) {
	ctx := context.Background()
	table := []byte("t")
	switch kind {
	case "put":
		return hrpc.NewPut(ctx, table, key, values, opts...)
	case "del":
		return hrpc.NewDel(ctx, table, key, values, opts...)
	case "app":
		return hrpc.NewApp(ctx, table, key, values, opts...)
	}
	return hrpc.NewInc(ctx, table, key, values, opts...)
}

// mutHead renders the mutation-level fields of one of the two forms.
func mutHead(m *hrpc.Mutate, cellblocks bool) (res string) {
	defer func() {
		if r := recover(); r != nil {
			res = "panic"
		}
	}()
	var mp *pb.MutationProto
	if cellblocks {
		p, _, _ := m.SerializeCellBlocks(nil)
		mp = p.(*pb.MutateRequest).Mutation
	} else {
		mp = m.ToProto().(*pb.MutateRequest).Mutation
	}
	ts := "-"
	if mp.Timestamp != nil {
		ts = strconv.FormatUint(*mp.Timestamp, 10)
	}
	return fmt.Sprintf("ts%s.type%d.dur%d.row%s", ts, int(mp.GetMutateType()), int(mp.GetDurability()), hx(mp.Row))
}

func goProto(m *hrpc.Mutate) (res string) {
	defer func() {
		if r := recover(); r != nil {
			res = "panic"
		}
	}()
	req := m.ToProto().(*pb.MutateRequest)
	return protoStr(req.Mutation)
}

func goCellblocks(m *hrpc.Mutate) (cb string, count int32, size uint32) {
	defer func() {
		if r := recover(); r != nil {
			cb, count, size = "panic", 0, 0
		}
	}()
	p, cbs, sz := m.SerializeCellBlocks(nil)
	req := p.(*pb.MutateRequest)
	var all []byte
	for _, b := range cbs {
		all = append(all, b...)
	}
	return hx(all), req.Mutation.GetAssociatedCellCount(), sz
}

func mutLine(out *Out, kind string, onev bool, ts uint64, key []byte, nilOuter bool, fams []famSpec) {
	if kind == "del" && len(fams) == 0 && onev {
		// NewDel refuses DeleteOneVersion on a whole-row delete: not a mutation (no line, no index)
		return
	}
	if !out.Want() {
		out.n++
		return
	}
	var opts []func(hrpc.Call) error
	if ts != 1<<64-1 {
		opts = append(opts, hrpc.TimestampUint64(ts))
	}
	if onev {
		opts = append(opts, hrpc.DeleteOneVersion())
	}
	m, err := newMutate(kind, key, buildMap(nilOuter, fams), opts)
	if err != nil {
		out.Line("c10 mut-constructor-error %s %v", kind, err)
		return
	}
	m.SetRegion(c10Region)
	ov := 0
	if onev {
		ov = 1
	}
	cb, count, size := goCellblocks(m)
	out.Line("c10 mut %s %d %d %s %s %s %s %d %d %s %s", kind, ov, ts, hx(key), mapStr(nilOuter, fams),
		goProto(m), cb, count, size, mutHead(m, false), mutHead(m, true))
}

func runC10(tier string, seed uint64, out *Out) {
	quick := tier == "quick"
	idx := 0

	// ---- (1) single cells: exhaustive over boundary lengths × type codes × timestamps
	rowLens := []int{0, 1, 2, 300}
	famLens := []int{0, 1, 2, 254, 255}
	qualLens := []int{0, 1, 3}
	valLens := []int{0, 1, 5}
	for _, rl := range rowLens {
		for _, fl := range famLens {
			for _, ql := range qualLens {
				for _, vl := range valLens {
					for _, ty := range c10Types {
						for _, ts := range c10Ts {
							c := kv{pattern(rl, 0x10), pattern(fl, 0x20), pattern(ql, 0x30), pattern(vl, 0x40), ts, ty}
							encLine(out, c, idx)
							idx++
						}
					}
				}
			}
		}
	}
	// rows at the uint16 boundary (large lines: type/timestamp pairs rotate instead of crossing)
	bigQ, bigV := []int{0, 1}, []int{0, 1}
	if !quick {
		bigQ, bigV = qualLens, valLens
	}
	for _, rl := range []int{65534, 65535} {
		for _, fl := range famLens {
			for _, ql := range bigQ {
				for _, vl := range bigV {
					reps := 1
					if !quick {
						reps = 5
					}
					for r := 0; r < reps; r++ {
						c := kv{pattern(rl, 0x11), pattern(fl, 0x21), pattern(ql, 0x31), pattern(vl, 0x41),
							c10Ts[(idx+r)%5], c10Types[(idx/5+r)%5]}
						encLine(out, c, idx)
						idx++
					}
				}
			}
		}
	}
	// other type bytes, 0x00/0xff content, large qualifier/value
	for _, ty := range []byte{0, 1, 5, 127, 128, 255} {
		encLine(out, kv{[]byte{0, 0xff}, []byte{0xff}, []byte{0}, []byte{0xff, 0}, 1<<64 - 2, ty}, idx)
		idx++
	}
	encLine(out, kv{[]byte("r"), []byte("f"), pattern(70000, 1), pattern(66000, 2), 42, 4}, idx)
	idx++
	// outside the property's quantifier (model = implementation only): length fields wrap
	for _, c := range []kv{
		{pattern(65536, 1), []byte("f"), []byte("q"), []byte("v"), 1, 4},
		{pattern(65537, 1), []byte("f"), nil, nil, 1, 4},
		{[]byte("r"), pattern(256, 2), []byte("q"), []byte("v"), 1, 4},
		{[]byte("r"), pattern(257, 2), nil, nil, 1, 8},
		{[]byte("r"), pattern(300, 2), []byte("q"), []byte("v"), 1, 14},
	} {
		encLine(out, c, idx)
		idx++
	}
	// seeded random cells
	rng := NewRNG(seed, "c10-enc")
	nEnc := 3000
	if !quick {
		nEnc = 120000
	}
	full := make([]byte, 256)
	for i := range full {
		full[i] = byte(i)
	}
	rlen := func(small, big int) int {
		switch rng.Intn(10) {
		case 0:
			return 0
		case 1:
			return big - rng.Intn(2)
		case 2:
			return rng.Intn(big + 1)
		}
		return rng.Intn(small + 1)
	}
	var pool []kv // small valid cells reused by the decoder streams
	for i := 0; i < nEnc; i++ {
		rl := rlen(24, 600)
		if rng.Intn(400) == 0 {
			rl = 65535 - rng.Intn(3)
		}
		c := kv{ts: rng.Next(), typ: byte(rng.Intn(256))}
		c.row = make([]byte, rl)
		for j := range c.row {
			c.row[j] = byte(rng.Next())
		}
		c.fam = rng.Bytes(rlen(6, 255), full)
		c.qual = rng.Bytes(rlen(8, 300), full)
		c.val = rng.Bytes(rlen(16, 700), full)
		switch rng.Intn(4) {
		case 0:
			c.typ = c10Types[rng.Intn(5)]
		case 1:
			c.ts = c10Ts[rng.Intn(5)]
		}
		encLine(out, c, idx)
		idx++
		if len(pool) < 64 && len(c.row) < 40 && len(c.fam) < 40 && len(c.qual) < 40 && len(c.val) < 40 {
			pool = append(pool, c)
		}
	}

	// ---- (2) decoder on valid cells, every truncation, field corruptions, random bytes
	base := []kv{
		{nil, nil, nil, nil, 0, 4},
		{[]byte("r"), []byte("f"), []byte("q"), []byte("v"), 1, 4},
		{[]byte("row"), []byte("cf"), nil, nil, 1<<63 - 1, 14},
		{[]byte("row"), nil, []byte("qual"), []byte("value"), 1 << 63, 8},
		{[]byte{0, 0xff, ','}, []byte{0xff}, []byte{0}, []byte{0, 0}, 1<<64 - 1, 12},
		{pattern(300, 5), pattern(255, 6), pattern(3, 7), pattern(2, 8), 7, 10},
	}
	if !quick {
		base = append(base, pool[:min(len(pool), 24)]...)
	} else {
		base = append(base, pool[:min(len(pool), 6)]...)
	}
	dec := func(b []byte) {
		if !out.Want() {
			out.n++
			return
		}
		out.Line("c10 dec %s %s", hx(b), goDecode(b))
	}
	// KeyValue lengths next to 2^32 whose inner lengths are mutually consistent (kvLen = keyLen +
	// valueLen + 8 with wrap-free uint64 arithmetic): only the buffer-size check stands between
	// them and the slicing code, and kvLen+4 wraps around in uint32
	for _, kv := range []uint32{0xFFFFFFFF, 0xFFFFFFFE, 0xFFFFFFFD, 0xFFFFFFFC, 0xFFFFFFFB, 0xFFFFFFF0, 0x80000000, 0x7FFFFFFF} {
		for _, keyLen := range []uint32{12, 13, 20} {
			cell := make([]byte, 24+int(keyLen-12))
			binary.BigEndian.PutUint32(cell[0:], kv)
			binary.BigEndian.PutUint32(cell[4:], keyLen)
			binary.BigEndian.PutUint32(cell[8:], kv-8-keyLen)
			binary.BigEndian.PutUint16(cell[12:], uint16(keyLen-12))
			cell[len(cell)-1] = 4
			dec(cell)
			dec(append(cell, make([]byte, 40)...))
		}
	}
	put32 := func(b []byte, off int, v uint32) []byte {
		c := append([]byte{}, b...)
		binary.BigEndian.PutUint32(c[off:], v)
		return c
	}
	for _, c := range base {
		enc, _ := goEncode(c, nil)
		if enc == nil {
			continue
		}
		dec(enc)
		dec(append(append([]byte{}, enc...), 0xde, 0xad))
		// every truncation (long cells: around every field boundary and a stride)
		for n := 0; n < len(enc); n++ {
			if len(enc) > 120 && n > 40 && n < len(enc)-40 && n%37 != 0 {
				continue
			}
			dec(enc[:n])
		}
		kvl := binary.BigEndian.Uint32(enc[0:])
		kl := binary.BigEndian.Uint32(enc[4:])
		vl := binary.BigEndian.Uint32(enc[8:])
		rl := uint32(binary.BigEndian.Uint16(enc[12:]))
		u32s := func(o uint32) []uint32 {
			return []uint32{0, 1, 2, 9, 10, 11, 12, 13, 14, o - 2, o - 1, o + 1, o + 2, o + 12, o - 12, kvl, kl, vl, rl,
				uint32(len(enc)), uint32(len(enc)) - 4, 255, 256, 65535, 65536, 1<<31 - 1, 1 << 31, 1<<32 - 13, 1<<32 - 12,
				1<<32 - 4, 1<<32 - 1}
		}
		// single length-field corruptions
		for _, off := range []int{0, 4, 8} {
			o := binary.BigEndian.Uint32(enc[off:])
			for _, v := range u32s(o) {
				if v != o {
					dec(put32(enc, off, v))
				}
			}
		}
		for _, v := range u32s(rl) {
			if uint16(v) != uint16(rl) {
				c2 := append([]byte{}, enc...)
				binary.BigEndian.PutUint16(c2[12:], uint16(v))
				dec(c2)
			}
		}
		famOff := 14 + int(rl)
		for _, v := range []int{0, 1, 2, len(c.fam) - 1, len(c.fam) + 1, len(c.fam) + len(c.qual), len(c.fam) + len(c.qual) + 1,
			len(c.fam) + len(c.qual) + 9, 127, 128, 254, 255} {
			if v >= 0 && v != len(c.fam) {
				c2 := append([]byte{}, enc...)
				c2[famOff] = byte(v)
				dec(c2)
			}
		}
		// consistent pairs: total and key length (or value length) moved together
		for _, d := range []uint32{1, 2, 12, 1<<32 - 1, 1<<32 - 2, 1<<32 - 12, 1 << 31, -kl, 11 - kl, 12 - kl} {
			dec(put32(put32(enc, 0, kvl+d), 4, kl+d))
			dec(put32(put32(enc, 0, kvl+d), 8, vl+d))
			dec(append(put32(put32(enc, 0, kvl+d), 4, kl+d), make([]byte, int(d%64))...))
			dec(put32(put32(enc, 4, kl+d), 8, vl-d))
		}
		// every header byte set to 0x00 / 0xff / ±1
		for i := 0; i < 14 && i < len(enc); i++ {
			for _, v := range []byte{0, 0xff, enc[i] + 1, enc[i] - 1} {
				if v != enc[i] {
					c2 := append([]byte{}, enc...)
					c2[i] = v
					dec(c2)
				}
			}
		}
	}
	// raw bytes: all strings over a tiny alphabet up to length 5, then seeded random
	for _, s := range allStrings([]byte{0, 10, 0xff}, 5) {
		dec(s)
	}
	rngD := NewRNG(seed, "c10-dec")
	nDec := 20000
	if !quick {
		nDec = 600000
	}
	biased := []byte{0, 0, 0, 0, 1, 2, 9, 10, 11, 12, 13, 14, 22, 0xff}
	for i := 0; i < nDec; i++ {
		var b []byte
		switch rngD.Intn(4) {
		case 0: // uniformly random
			b = rngD.Bytes(48, full)
		case 1: // small numbers: plausible length words
			b = rngD.Bytes(48, biased)
		default: // structured: header with near-consistent lengths over a random body
			body := rngD.Intn(40)
			rk := uint32(rngD.Intn(body + 14))
			v := uint32(rngD.Intn(body + 3))
			kvLen := 8 + rk + v
			switch rngD.Intn(6) {
			case 0:
				kvLen += uint32(rngD.Intn(3)) - 1
			case 1:
				rk, kvLen = rk+1<<31, kvLen+1<<31
			}
			b = make([]byte, 14, 14+body)
			binary.BigEndian.PutUint32(b[0:], kvLen)
			binary.BigEndian.PutUint32(b[4:], rk)
			binary.BigEndian.PutUint32(b[8:], v)
			binary.BigEndian.PutUint16(b[12:], uint16(rngD.Intn(int(rk%64)+3)))
			if rngD.Intn(8) == 0 {
				binary.BigEndian.PutUint16(b[12:], uint16(rngD.Next()))
			}
			b = append(b, rngD.Bytes(body, biased)...)
			if rngD.Intn(3) == 0 && int(kvLen)+4 >= 0 && int(kvLen)+4 < 200 {
				for len(b) < int(kvLen)+4 {
					b = append(b, byte(rngD.Intn(4)))
				}
				if rngD.Bool() {
					b = b[:int(kvLen)+4]
				}
			}
		}
		dec(b)
	}

	// ---- (3) streams: encode n cells with the implementation, deserialize them back
	srt := func(cs []kv, rest []byte) []byte {
		var bytes []byte
		for _, c := range cs {
			bytes = hrpc.VerifAppendCellblock(c.row, string(c.fam), string(c.qual), c.val, c.ts, c.typ, bytes)
		}
		if out.Want() {
			out.Line("c10 srt %s %s %s %s", cellsStr(cs), hx(rest), hx(bytes),
				goDeserialize(append(append([]byte{}, bytes...), rest...), uint32(len(cs))))
		} else {
			out.n++
		}
		return bytes
	}
	des := func(b []byte, n uint32) {
		if !out.Want() {
			out.n++
			return
		}
		out.Line("c10 des %s %d %s", hx(b), n, goDeserialize(b, n))
	}
	streamCells := append(append([]kv{}, base[:6]...), pool[:min(len(pool), 10)]...)
	rngS := NewRNG(seed, "c10-stream")
	nStreams := 300
	if !quick {
		nStreams = 6000
	}
	for i := 0; i < nStreams; i++ {
		n := i % 6
		if i >= 60 {
			n = rngS.Intn(7)
		}
		cs := make([]kv, n)
		for j := range cs {
			if i < 60 {
				cs[j] = streamCells[(i/6+j*5)%len(streamCells)]
			} else {
				cs[j] = streamCells[rngS.Intn(len(streamCells))]
			}
		}
		rest := c10Rest[i%len(c10Rest)]
		bytes := srt(cs, rest)
		// wrong counts, truncations and a corrupted later cell (raw: outcome class vs model)
		for _, k := range []int{0, n - 1, n + 1, n + 3} {
			if k >= 0 && k != n {
				des(append(append([]byte{}, bytes...), rest...), uint32(k))
			}
		}
		if i < 40 || i%10 == 0 {
			for t := 0; t < len(bytes); t += 1 + len(bytes)/24 {
				des(bytes[:t], uint32(n))
			}
			if n >= 2 {
				first := 24 + len(cs[0].row) + len(cs[0].fam) + len(cs[0].qual) + len(cs[0].val)
				for _, off := range []int{0, 4, 8} {
					for _, v := range []uint32{0, 9, 10, 1<<32 - 1, 1<<32 - 4, uint32(len(bytes))} {
						des(put32(bytes, first+off, v), uint32(n))
					}
				}
			}
		}
	}
	for _, s := range allStrings([]byte{0, 10, 0xff}, 4) {
		for _, n := range []uint32{0, 1, 2} {
			des(s, n)
		}
	}
	for i := 0; i < nDec/10; i++ {
		des(rngS.Bytes(60, biased), uint32(rngS.Intn(4)))
	}

	// ---- (4) mutations: both encodings of every map shape × kind × DeleteOneVersion × timestamp
	ent := func(q, v string) [2][]byte { return [2][]byte{[]byte(q), []byte(v)} }
	inners := []innerSpec{
		{nilMap: true},
		{},
		{ents: [][2][]byte{{[]byte(""), nil}}},
		{ents: [][2][]byte{ent("q", "v")}},
		{ents: [][2][]byte{ent("", ""), ent("q", "v")}},
		{ents: [][2][]byte{ent("a", "1"), ent("b", ""), {[]byte("c"), nil}}},
		{ents: [][2][]byte{ent("a", "1"), ent("b", "22"), ent("", "x"), {[]byte{0, 0xff}, []byte{0xff, 0}}}},
	}
	famNames := [][]byte{[]byte("cf"), []byte(""), pattern(255, 9), []byte("g")}
	mutTs := []uint64{1<<64 - 1, 0, 1, 1<<63 - 1, 1 << 63, 1<<64 - 2}
	keys := [][]byte{[]byte("row"), nil, pattern(300, 3), pattern(65535, 4)}
	type shape struct {
		nilOuter bool
		fams     []famSpec
	}
	var shapes []shape
	shapes = append(shapes, shape{true, nil}, shape{false, nil})
	for _, f := range famNames[:3] {
		for _, in := range inners {
			shapes = append(shapes, shape{false, []famSpec{{f, in}}})
		}
	}
	for _, a := range inners {
		for _, b := range inners {
			shapes = append(shapes, shape{false, []famSpec{{famNames[0], a}, {famNames[3], b}}})
		}
	}
	for i, a := range inners {
		shapes = append(shapes, shape{false, []famSpec{{famNames[0], a}, {famNames[1], inners[(i+1)%7]}, {famNames[3], inners[(i+3)%7]}}})
		shapes = append(shapes, shape{false, []famSpec{{famNames[0], inners[(i+2)%7]}, {famNames[1], a}, {famNames[2], inners[(i+5)%7]}, {famNames[3], inners[(i+6)%7]}}})
	}
	mi := 0
	for _, sh := range shapes {
		for _, kind := range c10Kinds {
			for _, onev := range []bool{false, true} {
				for _, ts := range mutTs {
					key := keys[mi%3]
					if mi%193 == 0 {
						key = keys[3]
					}
					mutLine(out, kind, onev, ts, key, sh.nilOuter, sh.fams)
					mi++
				}
			}
		}
	}
	// seeded random maps
	rngM := NewRNG(seed, "c10-mut")
	nMut := 3000
	if !quick {
		nMut = 100000
	}
	small := []byte{0, 'a', 'b', 0xff, ','}
	for i := 0; i < nMut; i++ {
		nf := rngM.Intn(5)
		seen := map[string]bool{}
		var fams []famSpec
		for j := 0; j < nf; j++ {
			f := rngM.Bytes(3, small)
			if rngM.Intn(30) == 0 {
				f = pattern(255-rngM.Intn(2), byte(j))
			}
			if seen[string(f)] {
				continue
			}
			seen[string(f)] = true
			var in innerSpec
			switch rngM.Intn(5) {
			case 0:
				in.nilMap = true
			case 1:
			default:
				ne := 1 + rngM.Intn(4)
				qs := map[string]bool{}
				for k := 0; k < ne; k++ {
					q := rngM.Bytes(3, small)
					if qs[string(q)] {
						continue
					}
					qs[string(q)] = true
					var v []byte
					if rngM.Intn(4) != 0 {
						v = rngM.Bytes(9, full)
					}
					in.ents = append(in.ents, [2][]byte{q, v})
				}
			}
			fams = append(fams, famSpec{f, in})
		}
		ts := mutTs[rngM.Intn(len(mutTs))]
		if rngM.Intn(3) == 0 {
			ts = rngM.Next()
		}
		mutLine(out, c10Kinds[rngM.Intn(4)], rngM.Intn(3) == 0, ts, rngM.Bytes(12, full), rngM.Bool(), fams)
	}
	// ---- mutations inside a batch (region client multi): see c10batch.go
	nBatch := 400
	if !quick {
		nBatch = 20000
	}
	rngB := NewRNG(seed, "c10-batch")
	for i := 0; i < nBatch; i++ {
		c10Batch(out, rngB)
	}
}
