package main

// Function-level correspondence for the connection cache (clientRegionCache, caches.go) and the
// availability object (region.info): random op sequences on the real objects, every observation
// printed for the Lean driver (Drive/ConnCache.lean) to compare with Model/ConnCache.lean and
// Model/Avail.lean. Part of the C20, C19 (cc) and C09 (ri) checks.

import (
	"context"
	"encoding/json"
	"fmt"
	"net"
	"sort"
	"strconv"
	"strings"
	"sync"
	"sync/atomic"
	"time"

	"github.com/tsuna/gohbase"
	"github.com/tsuna/gohbase/hrpc"
	"github.com/tsuna/gohbase/region"
)

type ccConn struct {
	id     int
	addr   string
	closed int
}

func (c *ccConn) Dial(context.Context) error              { return nil }
func (c *ccConn) Close()                                  { c.closed++ }
func (c *ccConn) Addr() string                            { return c.addr }
func (c *ccConn) QueueRPC(hrpc.Call)                      {}
func (c *ccConn) QueueBatch(context.Context, []hrpc.Call) {}
func (c *ccConn) String() string                          { return fmt.Sprintf("ccConn{%d %s}", c.id, c.addr) }

func joinInts(xs []int, sep string) string {
	if len(xs) == 0 {
		return "-"
	}
	sort.Ints(xs)
	ss := make([]string, len(xs))
	for i, x := range xs {
		ss[i] = strconv.Itoa(x)
	}
	return strings.Join(ss, sep)
}

// ccAddrs: regionserver addresses as hbase:meta / ZooKeeper report them (host names are not
// normalised there: mixed case happens).
var ccAddrs = []string{"0", "1", "rs-2.example.com:16020", "RS-A.Example.COM:16020", "Node7:16020"}

func ccScenario(rng *RNG) string {
	cache := gohbase.VerifNewConnCache()
	// real: the cached objects are real region clients (region.NewClient, never dialled) instead of
	// stubs, so that what put compares with (Addr()) is what the region client reports
	real := rng.Intn(3) == 0
	ids := map[hrpc.RegionClient]int{}
	madeFor := map[hrpc.RegionClient]int{}
	var all []hrpc.RegionClient
	isClosed := func(rc hrpc.RegionClient) bool {
		if c, ok := rc.(*ccConn); ok {
			return c.closed > 0
		}
		return region.VerifIsDone(rc)
	}
	nAddr := 1 + rng.Intn(4)
	nReg := 1 + rng.Intn(6)
	regs := make([]hrpc.RegionInfo, nReg)
	regIdx := map[hrpc.RegionInfo]int{}
	for i := range regs {
		regs[i] = region.NewInfo(uint64(i), nil, []byte("t"), []byte(fmt.Sprintf("t,%d,1.x.", i)), []byte{byte('a' + i)}, []byte{byte('b' + i)})
		regIdx[regs[i]] = i
	}
	snap := func() string {
		s := cache.Snapshot()
		type ent struct {
			id   int
			addr string
			regs []int
		}
		var es []ent
		for rc, rs := range s {
			var ri []int
			for _, r := range rs {
				ri = append(ri, regIdx[r])
			}
			// the address this connection was created for (the regionserver it talks to)
			es = append(es, ent{ids[rc], strconv.Itoa(madeFor[rc]), ri})
		}
		sort.Slice(es, func(i, j int) bool { return es[i].id < es[j].id })
		var parts []string
		for _, e := range es {
			parts = append(parts, fmt.Sprintf("%d.%s.%s", e.id, e.addr, joinInts(e.regs, "+")))
		}
		e := "-"
		if len(parts) > 0 {
			e = strings.Join(parts, ",")
		}
		var cl []int
		for _, c := range all {
			if isClosed(c) {
				cl = append(cl, ids[c])
			}
		}
		return e + "/" + joinInts(cl, "+")
	}
	n := 4 + rng.Intn(20)
	closeAt := -1
	if rng.Intn(3) == 0 {
		closeAt = rng.Intn(n)
	}
	var toks []string
	for i := 0; i < n; i++ {
		if i == closeAt {
			cache.CloseAll()
			toks = append(toks, "closeall/"+snap())
			continue
		}
		switch k := rng.Intn(10); {
		case k < 5: // put, as establishRegion does: put, then SetClient on the region
			a := rng.Intn(nAddr)
			r := rng.Intn(nReg)
			created := false
			rc := cache.Put(ccAddrs[a], regs[r], func() hrpc.RegionClient {
				var c hrpc.RegionClient
				if real {
					c = region.NewClient(ccAddrs[a], region.RegionClient, 1, 0, "verif", time.Second, nil, nil, discardLogger)
				} else {
					c = &ccConn{id: len(all), addr: ccAddrs[a]}
				}
				ids[c] = len(all)
				madeFor[c] = a
				all = append(all, c)
				created = true
				return c
			})
			res := "r"
			if rc != nil {
				if created {
					res = "c" + strconv.Itoa(ids[rc])
				} else {
					res = "e" + strconv.Itoa(ids[rc])
				}
				regs[r].SetClient(rc)
			}
			toks = append(toks, fmt.Sprintf("put:%d:%d:%s/%s", a, r, res, snap()))
		case k < 7: // del
			r := rng.Intn(nReg)
			cid := "-"
			if c := regs[r].Client(); c != nil {
				cid = strconv.Itoa(ids[c])
			}
			cache.Del(regs[r])
			toks = append(toks, fmt.Sprintf("del:%d:%s/%s", r, cid, snap()))
		default: // clientDown
			if len(all) == 0 {
				continue
			}
			c := all[rng.Intn(len(all))]
			down := cache.ClientDown(c)
			var ri []int
			for r := range down {
				ri = append(ri, regIdx[r])
				r.SetClient(nil)
			}
			toks = append(toks, fmt.Sprintf("down:%d:%s/%s", ids[c], joinInts(ri, "+"), snap()))
		}
	}
	return "cc seq " + strings.Join(toks, " ")
}

// ccConcurrent: goroutines use one cache at once, as establishers, requesters and failure handlers
// do — regions of one shared connection are linked, unlinked and the connection is declared dead
// concurrently. The run has to survive (a data race on the cache's maps ends in the runtime's
// "concurrent map writes" fatal error, or in a report of the race detector when the harness is
// built with it), and the cache must still hold at most one connection per address.
func ccConcurrent(rng *RNG) string {
	cache := gohbase.VerifNewConnCache()
	g := 4 + rng.Intn(5)
	per := 32
	rounds := 40 + rng.Intn(40)
	var mu sync.Mutex
	made := 0
	factory := func(addr string) func() hrpc.RegionClient {
		return func() hrpc.RegionClient {
			mu.Lock()
			made++
			mu.Unlock()
			return &ccConn{addr: addr}
		}
	}
	var wg sync.WaitGroup
	for i := 0; i < g; i++ {
		wg.Add(1)
		go func(i int) {
			defer wg.Done()
			regs := make([]hrpc.RegionInfo, per)
			for k := range regs {
				regs[k] = region.NewInfo(uint64(i*per+k), nil, []byte("t"), []byte(fmt.Sprintf("t,%d-%d,1.x.", i, k)), nil, nil)
			}
			for round := 0; round < rounds; round++ {
				for _, r := range regs {
					if rc := cache.Put("shared:1", r, factory("shared:1")); rc != nil {
						r.SetClient(rc)
					}
				}
				for _, r := range regs {
					cache.Del(r)
				}
				if i == 0 && round%16 == 15 {
					for rc := range cache.Snapshot() {
						for r := range cache.ClientDown(rc) {
							r.SetClient(nil)
						}
					}
				}
			}
		}(i)
	}
	wg.Wait()
	return fmt.Sprintf("cc conc goroutines=%d ops=%d entries=%d", g, g*per*rounds*2, len(cache.Snapshot()))
}

func riScenario(rng *RNG) string {
	r := region.NewInfo(1, nil, []byte("t"), []byte("t,,1.x."), nil, nil)
	var chans []<-chan struct{}
	obs := func() string {
		u := "0"
		if r.IsUnavailable() {
			u = "1"
		}
		c := "-"
		if rc := r.Client(); rc != nil {
			c = strconv.Itoa(rc.(*ccConn).id)
		}
		d := "0"
		if r.Context().Err() != nil {
			d = "1"
		}
		ch := ""
		for _, x := range chans {
			select {
			case <-x:
				ch += "c"
			default:
				ch += "o"
			}
		}
		if ch == "" {
			ch = "-"
		}
		return u + "." + c + "." + d + "." + ch
	}
	n := 3 + rng.Intn(16)
	var toks []string
	for i := 0; i < n; i++ {
		switch k := rng.Intn(10); {
		case k < 4:
			created := r.MarkUnavailable()
			if created {
				chans = append(chans, r.AvailabilityChan())
			}
			b := "0"
			if created {
				b = "1"
			}
			toks = append(toks, "mu:"+b+"/"+obs())
		case k < 7:
			if !r.IsUnavailable() {
				continue
			}
			r.MarkAvailable()
			toks = append(toks, "ma/"+obs())
		case k < 9:
			if rng.Bool() {
				r.SetClient(nil)
				toks = append(toks, "sc:-/"+obs())
			} else {
				id := rng.Intn(5)
				r.SetClient(&ccConn{id: id})
				toks = append(toks, fmt.Sprintf("sc:%d/%s", id, obs()))
			}
		default:
			r.MarkDead()
			toks = append(toks, "md/"+obs())
		}
	}
	if !r.IsUnavailable() && rng.Intn(3) == 0 {
		p := "0"
		func() {
			defer func() {
				if recover() != nil {
					p = "1"
				}
			}()
			r.MarkAvailable()
		}()
		toks = append(toks, "mapanic:"+p)
	}
	return "ri " + strings.Join(toks, " ")
}

// riConcurrent: G goroutines call MarkUnavailable on one available region at the same instant
// (as the callers of a connection that just died do); exactly one of them may be told that it
// made the region unavailable — it is the one that starts the establisher.
func riConcurrent(rng *RNG) string {
	g := 2 + rng.Intn(7)
	rounds := 2000
	r := region.NewInfo(1, nil, []byte("t"), []byte("t,,1.x."), nil, nil)
	maxWinners, minWinners := 0, g
	for round := 0; round < rounds; round++ {
		start := make(chan struct{})
		var wg sync.WaitGroup
		var winners int32
		for i := 0; i < g; i++ {
			wg.Add(1)
			go func() {
				defer wg.Done()
				<-start
				if r.MarkUnavailable() {
					atomic.AddInt32(&winners, 1)
				}
			}()
		}
		close(start)
		wg.Wait()
		w := int(atomic.LoadInt32(&winners))
		if w > maxWinners {
			maxWinners = w
		}
		if w < minWinners {
			minWinners = w
		}
		if !r.IsUnavailable() {
			return fmt.Sprintf("ri conc callers=%d rounds=%d winners=%d..%d lost-mark", g, round, minWinners, maxWinners)
		}
		r.MarkAvailable()
	}
	return fmt.Sprintf("ri conc callers=%d rounds=%d winners=%d..%d ok", g, rounds, minWinners, maxWinners)
}

// dialOnceScenario (C20): several regions of one regionserver are first used while the shared
// connection is still being dialled: each establisher calls Dial on the one cached region client.
// The server must be dialled once, whatever the number of concurrent callers, and again never.
func dialOnceScenario(rng *RNG) string {
	g := 2 + rng.Intn(6)
	var mu sync.Mutex
	dials := 0
	release := make(chan struct{})
	var conns []*VConn
	dialer := func(ctx context.Context, network, addr string) (net.Conn, error) {
		mu.Lock()
		dials++
		mu.Unlock()
		<-release
		v := newVConn()
		mu.Lock()
		conns = append(conns, v)
		mu.Unlock()
		return v, nil
	}
	rc := region.NewClient("rs:1", region.RegionClient, 2, 0, "verif", time.Hour, nil, dialer, discardLogger)
	var wg sync.WaitGroup
	errs := make([]error, g)
	for i := 0; i < g; i++ {
		wg.Add(1)
		go func(i int) {
			defer wg.Done()
			errs[i] = rc.Dial(context.Background())
		}(i)
	}
	time.Sleep(time.Duration(1+rng.Intn(20)) * time.Millisecond)
	mu.Lock()
	during := dials
	mu.Unlock()
	close(release)
	wg.Wait()
	later := rc.Dial(context.Background())
	mu.Lock()
	total := dials
	mu.Unlock()
	failed := 0
	for _, e := range errs {
		if e != nil {
			failed++
		}
	}
	if later != nil {
		failed++
	}
	rc.Close()
	open := 0
	mu.Lock()
	for _, v := range conns {
		if !v.Closed() {
			open++
		}
	}
	mu.Unlock()
	return fmt.Sprintf("cc dial callers=%d during=%d total=%d failed=%d openafterclose=%d", g, during, total, failed, open)
}

// riMarshalScenario (C09): the client's debug state (gohbase.DebugState → region info MarshalJSON)
// is rendered while a connection is being lost and re-established, i.e. while other goroutines
// set and clear the region's client. Rendering must not crash.
func riMarshalScenario(rng *RNG) string {
	r := region.NewInfo(1, nil, []byte("t"), []byte("t,,1.x."), nil, nil)
	rc := &ccConn{id: 1, addr: "rs:1"}
	stop := make(chan struct{})
	var wg sync.WaitGroup
	wg.Add(1)
	go func() {
		defer wg.Done()
		for {
			select {
			case <-stop:
				return
			default:
			}
			r.SetClient(rc)
			r.SetClient(nil)
		}
	}()
	panics := 0
	n := 20000 + rng.Intn(20000)
	for i := 0; i < n; i++ {
		func() {
			defer func() {
				if recover() != nil {
					panics++
				}
			}()
			json.Marshal(r)
		}()
	}
	close(stop)
	wg.Wait()
	return fmt.Sprintf("ri marshal renders=%d panics=%d", n, panics)
}

// resultChanCases (C03): the failure transition, a refusal and the reader all deliver a call's
// result without waiting for the caller (a caller may have given up). That needs a result channel
// that can hold one result — for every kind of call the package can build.
func resultChanCases() []string {
	ctx := context.Background()
	vals := map[string]map[string][]byte{"f": {"q": []byte("v")}}
	snap, _ := hrpc.NewSnapshot(ctx, "s", "t")
	calls := map[string]hrpc.Call{}
	add := func(name string, c hrpc.Call, err error) {
		if err == nil && c != nil {
			calls[name] = c
		}
	}
	g, e := hrpc.NewGetStr(ctx, "t", "k")
	add("Get", g, e)
	p, e := hrpc.NewPutStr(ctx, "t", "k", vals)
	add("Put", p, e)
	d, e := hrpc.NewDelStr(ctx, "t", "k", vals)
	add("Del", d, e)
	a, e := hrpc.NewAppStr(ctx, "t", "k", vals)
	add("App", a, e)
	i, e := hrpc.NewIncStrSingle(ctx, "t", "k", "f", "q", 1)
	add("Inc", i, e)
	s, e := hrpc.NewScanStr(ctx, "t")
	add("Scan", s, e)
	sb, e := hrpc.NewSetBalancer(ctx, true)
	add("SetBalancer", sb, e)
	add("CreateTable", hrpc.NewCreateTable(ctx, []byte("t"), map[string]map[string]string{"f": nil}), nil)
	add("DeleteTable", hrpc.NewDeleteTable(ctx, []byte("t")), nil)
	add("DisableTable", hrpc.NewDisableTable(ctx, []byte("t")), nil)
	add("EnableTable", hrpc.NewEnableTable(ctx, []byte("t")), nil)
	lt, e := hrpc.NewListTableNames(ctx)
	add("ListTableNames", lt, e)
	mr, e := hrpc.NewMoveRegion(ctx, []byte("r"))
	add("MoveRegion", mr, e)
	add("GetProcedureState", hrpc.NewGetProcedureState(ctx, 7), nil)
	add("Snapshot", snap, nil)
	if snap != nil {
		add("SnapshotDone", hrpc.NewSnapshotDone(snap), nil)
		add("DeleteSnapshot", hrpc.NewDeleteSnapshot(snap), nil)
		add("RestoreSnapshot", hrpc.NewRestoreSnapshot(snap), nil)
		add("RestoreSnapshotDone", hrpc.NewRestoreSnapshotDone(snap), nil)
	}
	add("ListSnapshots", hrpc.NewListSnapshots(ctx), nil)
	add("ClusterStatus", hrpc.NewClusterStatus(), nil)
	var names []string
	for n := range calls {
		names = append(names, n)
	}
	sort.Strings(names)
	var out []string
	for _, n := range names {
		out = append(out, fmt.Sprintf("cc chan %s cap=%d", n, cap(calls[n].ResultChan())))
	}
	return out
}

// dialCloseScenario (C03 / C20): what happens to a region client that is closed, or whose dial
// context ends, while its dialer is still connecting — and the dialer then hands out a connection
// all the same (a proxy dialer that does not watch the context, or the race of the two).
//
//	close:  Close() during the dial. The client is closed: Dial reports it, the connection is
//	        closed, later calls are refused.
//	ctx:    the dial context ends during the dial. Either the client goes into service with that
//	        connection, or it is failed and the connection is closed — never failed and left open.
func dialCloseScenario(mode string) string {
	started := make(chan struct{}, 1)
	release := make(chan struct{})
	v := newVConn()
	if mode == "close-peer-gone" {
		// … and the connection the dialer finally hands out is to a peer that has gone: the hello
		// cannot be written
		v.failWrites = true
		mode = "close"
	}
	dialer := func(ctx context.Context, network, addr string) (net.Conn, error) {
		started <- struct{}{}
		<-release
		return v, nil
	}
	rc := region.NewClient("rs:1", region.RegionClient, 2, 0, "verif", time.Hour, nil, dialer, discardLogger)
	ctx, cancel := context.WithCancel(context.Background())
	defer cancel()
	errc := make(chan error, 1)
	go func() { errc <- rc.Dial(ctx) }()
	<-started
	if mode == "close" {
		rc.Close()
	} else {
		cancel()
	}
	time.Sleep(2 * time.Millisecond)
	close(release)
	dialErr := "timeout"
	select {
	case e := <-errc:
		dialErr = "nil"
		if e != nil {
			dialErr = "err"
		}
	case <-time.After(2 * time.Second):
	}
	time.Sleep(5 * time.Millisecond)
	// a call handed over now: refused at once if the client is closed, else it is written (auto conn)
	g, _ := hrpc.NewGetStr(context.Background(), "t", "k", hrpc.SkipBatch())
	g.SetRegion(region.NewInfo(1, nil, []byte("t"), []byte("t,,1.x."), nil, nil))
	qd := make(chan struct{})
	go func() { rc.QueueRPC(g); close(qd) }()
	later := "pending"
	select {
	case r := <-g.ResultChan():
		later = errClass(r.Error)
	case <-time.After(300 * time.Millisecond):
	}
	done := region.VerifIsDone(rc)
	closed := v.Closed()
	rc.Close()
	return fmt.Sprintf("cc dialclose %s dial=%s done=%v connclosed=%v later=%s", mode, dialErr, done, closed, later)
}
