package main

// Function-level correspondence for the connection cache (clientRegionCache, caches.go) and the
// availability object (region.info): random op sequences on the real objects, every observation
// printed for the Lean driver (Drive/ConnCache.lean) to compare with Model/ConnCache.lean and
// Model/Avail.lean. Part of the C20, C19 (cc) and C09 (ri) checks.

import (
	"context"
	"fmt"
	"sort"
	"strconv"
	"strings"

	"github.com/tsuna/gohbase"
	"github.com/tsuna/gohbase/hrpc"
	"github.com/tsuna/gohbase/region"
)

type ccConn struct {
	id     int
	addr   string
	closed int
}

func (c *ccConn) Dial(context.Context) error              { return nil }
func (c *ccConn) Close()                                  { c.closed++ }
func (c *ccConn) Addr() string                            { return c.addr }
func (c *ccConn) QueueRPC(hrpc.Call)                      {}
func (c *ccConn) QueueBatch(context.Context, []hrpc.Call) {}
func (c *ccConn) String() string                          { return fmt.Sprintf("ccConn{%d %s}", c.id, c.addr) }

func joinInts(xs []int, sep string) string {
	if len(xs) == 0 {
		return "-"
	}
	sort.Ints(xs)
	ss := make([]string, len(xs))
	for i, x := range xs {
		ss[i] = strconv.Itoa(x)
	}
	return strings.Join(ss, sep)
}

func ccScenario(rng *RNG) string {
	cache := gohbase.VerifNewConnCache()
	nAddr := 1 + rng.Intn(4)
	nReg := 1 + rng.Intn(6)
	regs := make([]hrpc.RegionInfo, nReg)
	regIdx := map[hrpc.RegionInfo]int{}
	for i := range regs {
		regs[i] = region.NewInfo(uint64(i), nil, []byte("t"), []byte(fmt.Sprintf("t,%d,1.x.", i)), []byte{byte('a' + i)}, []byte{byte('b' + i)})
		regIdx[regs[i]] = i
	}
	var conns []*ccConn
	snap := func() string {
		s := cache.Snapshot()
		type ent struct {
			id   int
			addr string
			regs []int
		}
		var es []ent
		for rc, rs := range s {
			c := rc.(*ccConn)
			var ri []int
			for _, r := range rs {
				ri = append(ri, regIdx[r])
			}
			es = append(es, ent{c.id, c.addr, ri})
		}
		sort.Slice(es, func(i, j int) bool { return es[i].id < es[j].id })
		var parts []string
		for _, e := range es {
			parts = append(parts, fmt.Sprintf("%d.%s.%s", e.id, e.addr, joinInts(e.regs, "+")))
		}
		e := "-"
		if len(parts) > 0 {
			e = strings.Join(parts, ",")
		}
		var cl []int
		for _, c := range conns {
			if c.closed > 0 {
				cl = append(cl, c.id)
			}
		}
		return e + "/" + joinInts(cl, "+")
	}
	n := 4 + rng.Intn(20)
	closeAt := -1
	if rng.Intn(3) == 0 {
		closeAt = rng.Intn(n)
	}
	var toks []string
	for i := 0; i < n; i++ {
		if i == closeAt {
			cache.CloseAll()
			toks = append(toks, "closeall/"+snap())
			continue
		}
		switch k := rng.Intn(10); {
		case k < 5: // put, as establishRegion does: put, then SetClient on the region
			a := rng.Intn(nAddr)
			r := rng.Intn(nReg)
			created := false
			rc := cache.Put(strconv.Itoa(a), regs[r], func() hrpc.RegionClient {
				c := &ccConn{id: len(conns), addr: strconv.Itoa(a)}
				conns = append(conns, c)
				created = true
				return c
			})
			res := "r"
			if rc != nil {
				c := rc.(*ccConn)
				if created {
					res = "c" + strconv.Itoa(c.id)
				} else {
					res = "e" + strconv.Itoa(c.id)
				}
				regs[r].SetClient(rc)
			}
			toks = append(toks, fmt.Sprintf("put:%d:%d:%s/%s", a, r, res, snap()))
		case k < 7: // del
			r := rng.Intn(nReg)
			cid := "-"
			if c := regs[r].Client(); c != nil {
				cid = strconv.Itoa(c.(*ccConn).id)
			}
			cache.Del(regs[r])
			toks = append(toks, fmt.Sprintf("del:%d:%s/%s", r, cid, snap()))
		default: // clientDown
			if len(conns) == 0 {
				continue
			}
			c := conns[rng.Intn(len(conns))]
			down := cache.ClientDown(c)
			var ri []int
			for r := range down {
				ri = append(ri, regIdx[r])
				r.SetClient(nil)
			}
			toks = append(toks, fmt.Sprintf("down:%d:%s/%s", c.id, joinInts(ri, "+"), snap()))
		}
	}
	return "cc seq " + strings.Join(toks, " ")
}

func riScenario(rng *RNG) string {
	r := region.NewInfo(1, nil, []byte("t"), []byte("t,,1.x."), nil, nil)
	var chans []<-chan struct{}
	obs := func() string {
		u := "0"
		if r.IsUnavailable() {
			u = "1"
		}
		c := "-"
		if rc := r.Client(); rc != nil {
			c = strconv.Itoa(rc.(*ccConn).id)
		}
		d := "0"
		if r.Context().Err() != nil {
			d = "1"
		}
		ch := ""
		for _, x := range chans {
			select {
			case <-x:
				ch += "c"
			default:
				ch += "o"
			}
		}
		if ch == "" {
			ch = "-"
		}
		return u + "." + c + "." + d + "." + ch
	}
	n := 3 + rng.Intn(16)
	var toks []string
	for i := 0; i < n; i++ {
		switch k := rng.Intn(10); {
		case k < 4:
			created := r.MarkUnavailable()
			if created {
				chans = append(chans, r.AvailabilityChan())
			}
			b := "0"
			if created {
				b = "1"
			}
			toks = append(toks, "mu:"+b+"/"+obs())
		case k < 7:
			if !r.IsUnavailable() {
				continue
			}
			r.MarkAvailable()
			toks = append(toks, "ma/"+obs())
		case k < 9:
			if rng.Bool() {
				r.SetClient(nil)
				toks = append(toks, "sc:-/"+obs())
			} else {
				id := rng.Intn(5)
				r.SetClient(&ccConn{id: id})
				toks = append(toks, fmt.Sprintf("sc:%d/%s", id, obs()))
			}
		default:
			r.MarkDead()
			toks = append(toks, "md/"+obs())
		}
	}
	if !r.IsUnavailable() && rng.Intn(3) == 0 {
		p := "0"
		func() {
			defer func() {
				if recover() != nil {
					p = "1"
				}
			}()
			r.MarkAvailable()
		}()
		toks = append(toks, "mapanic:"+p)
	}
	return "ri " + strings.Join(toks, " ")
}
