package main

import (
	"github.com/tsuna/gohbase"
	"github.com/tsuna/gohbase/region"
)

func init() { props["C16"] = runC16 }

func signStr(i int) string {
	switch {
	case i < 0:
		return "lt"
	case i > 0:
		return "gt"
	}
	return "eq"
}

// goCompare runs region.Compare, mapping a panic to "panic".
func goCompare(a, b []byte) (res string) {
	defer func() {
		if r := recover(); r != nil {
			res = "panic"
		}
	}()
	return signStr(region.Compare(a, b))
}

func mkName(t, k, s []byte) []byte {
	n := append([]byte{}, t...)
	n = append(n, ',')
	n = append(n, k...)
	n = append(n, ',')
	return append(n, s...)
}

type name3 struct{ t, k, s []byte }

func runC16(tier string, seed uint64, out *Out) {
	// (1) exhaustive small scope over adversarial alphabets, well-formed names
	tables := [][]byte{[]byte("a"), []byte("a+"), []byte("a-"), []byte("aa"), []byte("a:b")}
	keyAlpha := []byte{',', '+', '-', 0x00, 'a'}
	keyLen := 2
	ids := [][]byte{{}, []byte("1"), []byte("11"), []byte("2"), []byte(":")}
	if tier != "quick" {
		tables = append(tables, []byte(""), []byte("a."), []byte("b"), []byte{'a', 0xff}, []byte{'a', 0x00})
		keyAlpha = []byte{',', '+', '-', 0x00, 'a', 0xff, ':'}
		ids = append(ids, []byte("1.a."), []byte("9"), []byte("10"))
	}
	var names []name3
	for _, t := range tables {
		for _, k := range allStrings(keyAlpha, keyLen) {
			for _, s := range ids {
				names = append(names, name3{t, k, s})
			}
		}
	}
	step := 1
	if tier != "quick" && len(names) > 2500 {
		// keep the pair count bounded: a seeded offset chooses which residue class is skipped
		step = 1
	}
	for i := 0; i < len(names); i += step {
		a := names[i]
		an := mkName(a.t, a.k, a.s)
		for j := 0; j < len(names); j++ {
			if tier != "quick" && (i*31+j*17+int(seed))%4 != 0 {
				continue
			}
			b := names[j]
			if !out.Want() {
				out.n++
				continue
			}
			out.Line("c16 cmp3 %s %s %s %s %s %s %s", hx(a.t), hx(a.k), hx(a.s), hx(b.t), hx(b.k), hx(b.s),
				goCompare(an, mkName(b.t, b.k, b.s)))
		}
	}
	// (2) raw, mostly ill-formed names: model vs implementation including the panic
	raw := allStrings([]byte{',', 'a', '+'}, 3)
	for _, a := range raw {
		for _, b := range raw {
			out.Line("c16 cmp %s %s %s", hx(a), hx(b), goCompare(a, b))
		}
	}
	// (3) random long well-formed names
	rng := NewRNG(seed, "c16")
	n := 20000
	if tier != "quick" {
		n = 400000
	}
	full := []byte{',', '+', '-', 0x00, 'a', 0xff, ':', '1', 'b', '.', '9'}
	nocomma := []byte{'+', '-', 0x00, 'a', 0xff, ':', '1', 'b', '.', '9'}
	for i := 0; i < n; i++ {
		t1 := rng.Bytes(4, nocomma)
		t2 := t1
		if rng.Intn(3) == 0 {
			t2 = rng.Bytes(4, nocomma)
		} else if rng.Intn(4) == 0 {
			t2 = append(append([]byte{}, t1...), rng.Bytes(2, nocomma)...)
		}
		k1 := rng.Bytes(8, full)
		k2 := k1
		if rng.Intn(2) == 0 {
			k2 = rng.Bytes(8, full)
		} else if rng.Intn(3) == 0 {
			k2 = append(append([]byte{}, k1...), rng.Bytes(3, full)...)
		}
		s1 := rng.Bytes(5, nocomma)
		s2 := s1
		if rng.Intn(2) == 0 {
			s2 = rng.Bytes(5, nocomma)
		}
		if rng.Bool() {
			t1, t2, k1, k2, s1, s2 = t2, t1, k2, k1, s2, s1
		}
		out.Line("c16 cmp3 %s %s %s %s %s %s %s", hx(t1), hx(k1), hx(s1), hx(t2), hx(k2), hx(s2),
			goCompare(mkName(t1, k1, s1), mkName(t2, k2, s2)))
	}
	// (3') the same kind of names handed over in buffers the caller re-uses (a name assembled in a
	// scratch slice, as a lookup loop or a decoder does): the order is a function of the bytes
	scratchA := make([]byte, 0, 64)
	scratchB := make([]byte, 0, 64)
	nr := 3000
	if tier != "quick" {
		nr = 60000
	}
	rngR := NewRNG(seed, "c16-reuse")
	for i := 0; i < nr; i++ {
		// same total length, commas in different places, so that stale positions would matter
		t := rngR.Bytes(2, nocomma)
		mk := func() ([]byte, []byte) {
			k := rngR.Bytes(5, full)
			sfx := rngR.Bytes(8-len(k), nocomma)
			for len(k)+len(sfx) < 8 {
				sfx = append(sfx, '1')
			}
			return k, sfx
		}
		k1, s1 := mk()
		k2, s2 := mk()
		scratchA = append(scratchA[:0], mkName(t, k1, s1)...)
		scratchB = append(scratchB[:0], mkName(t, k2, s2)...)
		out.Line("c16 cmp3 %s %s %s %s %s %s %s", hx(t), hx(k1), hx(s1), hx(t), hx(k2), hx(s2), goCompare(scratchA, scratchB))
		if i%3 == 0 {
			out.Line("c16 cmp3 %s %s %s %s %s %s %s", hx(t), hx(k1), hx(s1), hx(t), hx(k1), hx(s1), goCompare(scratchA, scratchA))
		}
	}
	// (4) lookup search keys, including the MaxInt16 truncation
	for _, t := range [][]byte{[]byte("t"), []byte("ns:table"), make([]byte, 200)} {
		for _, kl := range []int{0, 1, 5, 32000, 32767 - len(t) - 4, 32767 - len(t) - 3, 32767 - len(t) - 2, 32767, 40000} {
			if kl < 0 {
				continue
			}
			k := make([]byte, kl)
			for i := range k {
				k[i] = byte('a' + i%7)
			}
			out.Line("c16 skey %s %s %s", hx(t), hx(k), hx(gohbase.VerifSearchKey(t, k)))
		}
	}
}
