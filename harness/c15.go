package main

// C15: cellblock compression round-trips and follows Hadoop block framing (+ the decompression part
// of C11).  The real compressCellblocks / decompressCellblocks (hooks VerifCompress/VerifDecompress)
// run with the real snappy codec and with an identity-like mock codec; every outcome is put on a
// driver line and judged by the Lean reference decoder / model (lean/GohbaseVerif/Drive/C15.lean).
//
//   c15 comp <codec> <ulen> <bufs> <stream|panic>
//   c15 dec  <codec> <stream> <ok:len:fnv|err:class|panic>
//   c15 mut  <codec> <orig-stream> set <pos> <byte> <outcome>     single-byte corruption
//   c15 mut  <codec> <orig-stream> trunc <newlen> 0 <outcome>     truncation

import (
	"encoding/binary"
	"fmt"
	"hash/fnv"
	"os"
	"runtime/debug"
	"strings"
	"time"

	gsnappy "github.com/golang/snappy"
	"github.com/tsuna/gohbase/compression"
	"github.com/tsuna/gohbase/region"
)

func init() { props["C15"] = runC15 }

// mockCodec: the tests' identity-like codec with a configurable chunk size.
type mockCodec struct{ chunk uint32 }

func (m mockCodec) Encode(src, dst []byte) ([]byte, uint32) {
	return append(dst, src...), uint32(len(src))
}
func (m mockCodec) Decode(src, dst []byte) ([]byte, uint32, error) {
	return append(dst, src...), uint32(len(src)), nil
}
func (m mockCodec) ChunkLen() uint32                 { return m.chunk }
func (m mockCodec) CellBlockCompressorClass() string { return "mock" }

type c15codec struct {
	name  string // driver token
	codec compression.Codec
	enc   func(piece []byte) []byte      // independent encoder of one chunk (harness side)
	dlen  func(chunk []byte) (int, bool) // decoded length a chunk declares (cost screening only)
}

func c15codecs() []c15codec {
	return []c15codec{
		{"snappy", compression.New("snappy"), func(p []byte) []byte { return gsnappy.Encode(nil, p) },
			func(c []byte) (int, bool) { n, err := gsnappy.DecodedLen(c); return n, err == nil }},
		{"mock:10", mockCodec{10}, func(p []byte) []byte { return append([]byte{}, p...) },
			func(c []byte) (int, bool) { return len(c), true }},
	}
}

func fnvTok(b []byte) string {
	h := fnv.New64a()
	h.Write(b)
	return fmt.Sprintf("%d:%016x", len(b), h.Sum64())
}

func c15ErrClass(err error) string {
	m := err.Error()
	switch {
	case strings.Contains(m, "failed to read uncompressed block length"):
		return "block-len"
	case strings.Contains(m, "failed to read compressed chunk block length"):
		return "chunk-len"
	case strings.Contains(m, "failed to read compressed chunk"):
		return "chunk"
	case strings.Contains(m, "failed to decode compressed chunk"):
		return "decode"
	case strings.Contains(m, "uncompressed more than expected"):
		return "more"
	}
	return "other"
}

var (
	c15deadline time.Time
	c15flush    func()
)

// goDecompress runs the real decompressor on an exact-capacity copy (an over-read would panic).
func goDecompress(codec compression.Codec, stream []byte) (res string) {
	if time.Now().After(c15deadline) {
		c15flush()
		fmt.Fprintln(os.Stderr, "c15: time budget exceeded (is the implementation allocating huge buffers?)")
		os.Exit(3)
	}
	t0 := time.Now()
	defer func() {
		if time.Since(t0) > 200*time.Millisecond {
			debug.FreeOSMemory()
		}
	}()
	defer func() {
		if r := recover(); r != nil {
			res = "panic"
		}
	}()
	b := make([]byte, len(stream))
	copy(b, stream)
	out, err := region.VerifDecompress(codec, b)
	if err != nil {
		return "err:" + c15ErrClass(err)
	}
	return "ok:" + fnvTok(out)
}

func goCompress(codec compression.Codec, bufs [][]byte, ulen uint32) (stream []byte, panicked bool) {
	defer func() {
		if r := recover(); r != nil {
			stream, panicked = nil, true
		}
	}()
	cp := make([][]byte, len(bufs)) // net.Buffers.Read consumes its receiver
	for i, b := range bufs {
		cp[i] = append(make([]byte, 0, len(b)), b...)
	}
	if bufs == nil {
		cp = nil
	}
	return region.VerifCompress(codec, cp, ulen), false
}

func bufsTok(bufs [][]byte) string {
	if len(bufs) == 0 {
		return "nil"
	}
	parts := make([]string, len(bufs))
	for i, b := range bufs {
		parts[i] = hx(b)
	}
	return strings.Join(parts, ",")
}

// payload content: compressible (text-like with repeats at several distances) or incompressible.
func c15payload(rng *RNG, n int, compressible bool) []byte {
	b := make([]byte, n)
	if !compressible {
		for i := 0; i < n; i += 8 {
			v := rng.Next()
			for j := 0; j < 8 && i+j < n; j++ {
				b[i+j] = byte(v >> (8 * j))
			}
		}
		return b
	}
	words := []string{"row-", "cf:qual", "value", "\x00\x00\x00\x01", "abcabcabc", "Z"}
	i := 0
	for i < n {
		switch rng.Intn(4) {
		case 0: // a run
			c, l := byte('a'+rng.Intn(4)), 1+rng.Intn(90)
			for ; l > 0 && i < n; l-- {
				b[i] = c
				i++
			}
		case 1: // a copy from earlier (short and long offsets)
			if i > 0 {
				off := 1 + rng.Intn(i)
				if rng.Bool() && i > 70000 {
					off = 66000 + rng.Intn(i-66000)
				}
				for l := 4 + rng.Intn(80); l > 0 && i < n; l-- {
					b[i] = b[i-off]
					i++
				}
				continue
			}
			fallthrough
		default:
			w := words[rng.Intn(len(words))]
			for k := 0; k < len(w) && i < n; k++ {
				b[i] = w[k]
				i++
			}
		}
	}
	return b
}

// splitBufs cuts p into k buffers at random points; some buffers may be empty.
func splitBufs(rng *RNG, p []byte, k int, allowEmpty bool) [][]byte {
	cuts := make([]int, 0, k+1)
	cuts = append(cuts, 0)
	for i := 1; i < k; i++ {
		c := rng.Intn(len(p) + 1)
		if allowEmpty && rng.Intn(3) == 0 {
			c = cuts[rng.Intn(len(cuts))] // duplicate cut = empty buffer
		}
		cuts = append(cuts, c)
	}
	cuts = append(cuts, len(p))
	// insertion sort
	for i := 1; i < len(cuts); i++ {
		for j := i; j > 0 && cuts[j] < cuts[j-1]; j-- {
			cuts[j], cuts[j-1] = cuts[j-1], cuts[j]
		}
	}
	out := make([][]byte, 0, k)
	for i := 0; i+1 < len(cuts); i++ {
		out = append(out, p[cuts[i]:cuts[i+1]])
	}
	return out
}

// hadoopEncode is the harness's own BlockCompressorStream writer: for each block the 4-byte
// big-endian raw length, then per piece the 4-byte compressed length and the compressed bytes.
// It also returns the offsets of the block-length fields.
func hadoopEncode(cd c15codec, blocks [][][]byte) (stream []byte, blockOffs []int) {
	var u [4]byte
	for _, pieces := range blocks {
		raw := 0
		for _, p := range pieces {
			raw += len(p)
		}
		blockOffs = append(blockOffs, len(stream))
		binary.BigEndian.PutUint32(u[:], uint32(raw))
		stream = append(stream, u[:]...)
		for _, p := range pieces {
			e := cd.enc(p)
			binary.BigEndian.PutUint32(u[:], uint32(len(e)))
			stream = append(stream, u[:]...)
			stream = append(stream, e...)
		}
	}
	return
}

// randomBlocks: 1..3 blocks, each cut into random non-empty pieces of at most maxPiece bytes.
func randomBlocks(rng *RNG, nBlocks, maxBlock, maxPiece int, compressible bool) [][][]byte {
	blocks := make([][][]byte, nBlocks)
	for i := range blocks {
		n := rng.Intn(maxBlock + 1)
		if rng.Intn(8) != 0 && n == 0 {
			n = 1
		}
		data := c15payload(rng, n, compressible)
		var pieces [][]byte
		for len(data) > 0 {
			l := 1 + rng.Intn(maxPiece)
			if rng.Intn(4) == 0 {
				l = maxPiece
			}
			if l > len(data) {
				l = len(data)
			}
			pieces = append(pieces, data[:l])
			data = data[l:]
		}
		blocks[i] = pieces
	}
	return blocks
}

// costly reports whether decoding the stream would make the client allocate more than 4 MiB in
// one step: decompressCellblocks does slices.Grow(out, blockLen) and the snappy library
// make([]byte, declaredLen) *before* validating anything, up to 4 GiB (+ clearing) per length field.
// Memory use is outside the model (DESIGN §4); such cases are skipped, deterministically, to keep
// the run fast.  Only the framing is walked (lengths as declared), nothing is judged here.
func costly(cd c15codec, s []byte) bool {
	const limit = 4 << 20
	for len(s) >= 4 {
		l := binary.BigEndian.Uint32(s)
		s = s[4:]
		if l > limit {
			return true
		}
		var so uint32
		for so < l {
			if len(s) < 4 {
				return false
			}
			cl := binary.BigEndian.Uint32(s)
			s = s[4:]
			if uint64(cl) > uint64(len(s)) {
				return false
			}
			n, ok := cd.dlen(s[:cl])
			if !ok {
				return false
			}
			if n > limit {
				return true
			}
			s = s[cl:]
			so += uint32(n)
		}
		if so > l {
			return false
		}
	}
	return false
}

func isBlockLenMSB(pos int, blockOffs []int) bool {
	for _, o := range blockOffs {
		if pos == o {
			return true
		}
	}
	return false
}

// mutValues: the replacement bytes tried at one position.  The most significant byte of a
// block-length field only gets small values (larger ones are screened out by costly anyway).
func mutValues(orig byte, all bool, msb bool) []byte {
	var vals []byte
	if msb {
		for _, v := range []byte{1, 2, 4, 8} {
			if v != orig {
				vals = append(vals, v)
			}
		}
		return vals
	}
	if all {
		for v := 0; v < 256; v++ {
			if byte(v) != orig {
				vals = append(vals, byte(v))
			}
		}
		return vals
	}
	seen := map[byte]bool{orig: true}
	for _, v := range []byte{orig ^ 0x01, orig + 1, 0, orig ^ 0x80, orig - 1, 0xff} {
		if !seen[v] {
			seen[v] = true
			vals = append(vals, v)
		}
	}
	return vals
}

func runC15(tier string, seed uint64, out *Out) {
	quick := tier == "quick"
	// Self-protection against a tree that allocates wire-declared sizes where the current code does
	// not (e.g. a mutant reading a length little-endian): bound the resident memory and the wall
	// time; what was produced so far is flushed and still judged, the non-zero exit is reported.
	debug.SetMemoryLimit(6 << 30)
	budget := 90 * time.Second
	if !quick {
		budget = 20 * time.Minute
	}
	c15deadline = time.Now().Add(budget)
	c15flush = func() { out.w.Flush() }
	rng := NewRNG(seed, "c15")
	codecs := c15codecs()
	// delivered results stay what the server sent (real region client, see c15alias.go)
	if os.Getenv("VERIF_SHARD") == "" || os.Getenv("VERIF_SHARD") == "0" {
		nAlias := 6
		if !quick {
			nAlias = 60
		}
		for i := 0; i < nAlias; i++ {
			if !out.Want() {
				out.n++
				continue
			}
			cd := codecs[i%2]
			if cd.name != "snappy" {
				cd.codec = mockCodec{1000}
			}
			out.Line("%s", c15AliasScenario(NewRNG(seed, fmt.Sprintf("c15alias-%d", i)), strings.SplitN(cd.name, ":", 2)[0], cd.codec))
		}
		// what concurrent senders of one connection compress decompresses to their own payloads
		// (free-running senders, see c05stress.go; rounds with snappy only)
		nStress := 8
		if !quick {
			nStress = 80
		}
		for i := 0; i < nStress; i++ {
			if !out.Want() {
				out.n++
				continue
			}
			round := 1 + i + i/3 // never a multiple of 4
			out.Line("%s", strings.Replace(c05Stress(NewRNG(seed, fmt.Sprintf("c15s-%d", i)), round), "c05 ", "c15s ", 1))
		}
	}

	emitComp := func(cd c15codec, bufs [][]byte) {
		total := 0
		for _, b := range bufs {
			total += len(b)
		}
		// one line for the compressor, one for the decompressor on the compressor's own output
		want1 := out.WantAt(out.n)
		want2 := out.WantAt(out.n + 1)
		if !want1 && !want2 {
			out.n += 2
			return
		}
		stream, panicked := goCompress(cd.codec, bufs, uint32(total))
		if panicked {
			out.Line("c15 comp %s %d %s panic", cd.name, total, bufsTok(bufs))
			out.Line("c15 dec %s - %s", cd.name, goDecompress(cd.codec, nil))
			return
		}
		out.Line("c15 comp %s %d %s %s", cd.name, total, bufsTok(bufs), hx(stream))
		if want2 {
			out.Line("c15 dec %s %s %s", cd.name, hx(stream), goDecompress(cd.codec, stream))
		} else {
			out.n++
		}
	}
	emitDec := func(cd c15codec, stream []byte) {
		if costly(cd, stream) {
			return
		}
		if !out.Want() {
			out.n++
			return
		}
		out.Line("c15 dec %s %s %s", cd.name, hx(stream), goDecompress(cd.codec, stream))
	}
	emitSet := func(cd c15codec, stream []byte, pos int, v byte) {
		m := append([]byte{}, stream...)
		m[pos] = v
		if costly(cd, m) {
			return
		}
		if !out.Want() {
			out.n++
			return
		}
		out.Line("c15 mut %s %s set %d %d %s", cd.name, hx(stream), pos, v, goDecompress(cd.codec, m))
	}
	emitTrunc := func(cd c15codec, stream []byte, n int) {
		if costly(cd, stream[:n]) {
			return
		}
		if !out.Want() {
			out.n++
			return
		}
		out.Line("c15 mut %s %s trunc %d 0 %s", cd.name, hx(stream), n, goDecompress(cd.codec, stream[:n]))
	}

	// ---- (1) compressor: sizes around the chunk size × content × buffer splits
	for _, cd := range codecs {
		chunk := int(cd.codec.ChunkLen())
		sizes := []int{0, 1, chunk - 1, chunk, chunk + 1, 2 * chunk, 3*chunk + 7}
		// degenerate buffer lists for the empty payload
		emitComp(cd, nil)
		emitComp(cd, [][]byte{{}})
		emitComp(cd, [][]byte{{}, {}, {}})
		for _, n := range sizes {
			for _, compressible := range []bool{true, false} {
				p := c15payload(rng, n, compressible)
				emitComp(cd, [][]byte{p}) // one buffer
				reps := 2
				if !quick {
					reps = 6
				}
				if chunk < 1000 {
					reps *= 4
				}
				for r := 0; r < reps; r++ {
					k := 2 + rng.Intn(4)
					emitComp(cd, splitBufs(rng, p, k, r%2 == 1))
				}
				if n >= chunk && n > 1 {
					// buffer boundary exactly at / next to a chunk boundary, with an empty buffer between
					emitComp(cd, [][]byte{p[:chunk], {}, p[chunk:]})
					emitComp(cd, [][]byte{p[:chunk-1], p[chunk-1 : chunk], p[chunk:], {}})
				}
			}
		}
	}
	// extremely compressible payloads (zero-filled values, padding: snappy reaches 20:1 and more),
	// alone and as the last block behind an incompressible one
	{
		cd := codecs[0]
		chunk := int(cd.codec.ChunkLen())
		for _, n := range []int{1000, 100000, chunk, chunk + 1, 3*chunk + 17} {
			z := make([]byte, n)
			emitComp(cd, [][]byte{z})
			var zp [][]byte // the zero block in chunk-sized pieces
			for rest := z; len(rest) > 0; {
				l := chunk
				if l > len(rest) {
					l = len(rest)
				}
				zp = append(zp, rest[:l])
				rest = rest[l:]
			}
			s, _ := hadoopEncode(cd, [][][]byte{{c15payload(rng, 500, false)}, zp})
			emitDec(cd, s)
		}
	}
	// small sizes exhaustively for the mock codec: every size 0..35, every 2-split
	mock := codecs[1]
	for n := 0; n <= 35; n++ {
		p := c15payload(rng, n, false)
		step := 1
		if quick {
			step = 3
		}
		for c := 0; c <= n; c += step {
			emitComp(mock, [][]byte{p[:c], p[c:]})
		}
	}

	// ---- (2) conforming streams from the harness's own encoder, decoded by the client
	nConf := 150
	if !quick {
		nConf = 3000
	}
	for _, cd := range codecs {
		chunk := int(cd.codec.ChunkLen())
		for i := 0; i < nConf; i++ {
			maxBlock, maxPiece := 300, 40
			if chunk < 1000 {
				maxBlock, maxPiece = 45, chunk
			}
			blocks := randomBlocks(rng, 1+rng.Intn(3), maxBlock, maxPiece, rng.Bool())
			s, _ := hadoopEncode(cd, blocks)
			emitDec(cd, s)
		}
	}
	// large conforming snappy streams: blocks of several chunks, full-size and random pieces
	nLarge := 3
	if !quick {
		nLarge = 20
	}
	for i := 0; i < nLarge; i++ {
		cd := codecs[0]
		chunk := int(cd.codec.ChunkLen())
		blocks := randomBlocks(rng, 1+rng.Intn(3), 2*chunk+rng.Intn(chunk), chunk, i%2 == 0)
		s, _ := hadoopEncode(cd, blocks)
		emitDec(cd, s)
	}

	// a server cuts its chunks by its own buffer size, not by the client's constant: Hadoop's
	// default is one byte more than the client's chunk, a larger io.compression.codec.snappy.buffersize
	// gives larger ones still
	for i, piece := range []int{218422, 256 * 1024, 300000, 436874} {
		cd := codecs[0]
		if quick && i == 3 {
			continue
		}
		blocks := randomBlocks(rng, 1+i%2, piece+rng.Intn(piece), piece, i%2 == 1)
		s, _ := hadoopEncode(cd, blocks)
		emitDec(cd, s)
	}
	for i := 0; i < 40; i++ {
		chunk := int(mock.codec.ChunkLen())
		blocks := randomBlocks(rng, 1+rng.Intn(3), 6*chunk, chunk+1+rng.Intn(3*chunk), false)
		s, _ := hadoopEncode(mock, blocks)
		emitDec(mock, s)
	}

	// ---- (3) raw malformed input (C11): short strings exhaustively, random bytes, hostile lengths
	for _, s := range allStrings([]byte{0x00, 0x01, 0x05, 0xff}, 6) {
		emitDec(mock, s)
		if len(s) <= 4 || !quick {
			emitDec(codecs[0], s)
		}
	}
	hostile := [][]byte{
		{0, 0, 0, 0},
		{0, 0, 0, 0, 0, 0, 0, 0, 0, 0, 0, 0},
		{0, 0, 0, 1, 0, 0, 0, 0},                         // empty chunk forever? consumes 4 bytes per turn
		{0, 0, 0, 1, 0, 0, 0, 0, 0, 0, 0, 0, 0, 0, 0, 0}, // several empty chunks, then input ends
		{0, 0, 0, 1, 0xff, 0xff, 0xff, 0xff},             // chunk length 2^32-1
		{0, 0, 0, 1, 0x7f, 0xff, 0xff, 0xff, 1, 2, 3},    // chunk length 2^31-1
		{0, 0, 0, 1, 0x80, 0, 0, 0, 1},                   // chunk length 2^31 (int32 sign)
		{0, 0, 0, 5, 0, 0, 0, 7, 0x05, 0x10, 'a', 'b', 'c', 'd', 'e'},
		{0, 0, 0, 2, 0, 0, 0, 3, 0x05, 0x10, 'a'},                 // snappy literal longer than input
		{0, 0, 0, 9, 0, 0, 0, 5, 0x09, 0x00, 'a', 0x11, 0x01},     // overlapping copy
		{0, 0, 0, 9, 0, 0, 0, 5, 0x09, 0x00, 'a', 0x11, 0x02},     // copy offset beyond output
		{0, 0, 0, 9, 0, 0, 0, 5, 0x09, 0x00, 'a', 0x11, 0x00},     // copy offset 0
		{0, 0, 0, 1, 0, 0, 0, 6, 0xff, 0xff, 0xff, 0xff, 0x0f, 0}, // snappy declares 2^32-1 bytes
		{0, 0, 0, 1, 0, 0, 0, 6, 0xff, 0xff, 0xff, 0xff, 0x1f, 0}, // snappy declares > 2^32-1
	}
	for _, s := range hostile {
		for _, cd := range codecs {
			emitDec(cd, s)
		}
	}
	nRaw := 400
	if !quick {
		nRaw = 20000
	}
	for i := 0; i < nRaw; i++ {
		cd := codecs[i%2]
		n := rng.Intn(40)
		s := make([]byte, n)
		for j := range s {
			switch rng.Intn(3) {
			case 0:
				s[j] = 0
			case 1:
				s[j] = byte(rng.Intn(8))
			default:
				s[j] = byte(rng.Next())
			}
		}
		if n > 2 && rng.Intn(4) != 0 { // mostly a small first block length, so that chunks are reached
			s[0], s[1], s[2] = 0, 0, 0
		}
		emitDec(cd, s)
	}
	// ---- (4) every truncation and single-byte corruption of small valid streams
	type small struct {
		cd     c15codec
		stream []byte
		offs   []int
	}
	var smalls []small
	for _, cd := range codecs {
		chunk := int(cd.codec.ChunkLen())
		// (a) what the real compressor produced for a ~60..150 byte payload (one block)
		for _, compressible := range []bool{true, false} {
			n := 60 + rng.Intn(90)
			if chunk < 1000 {
				n = 3*chunk + 5
			}
			p := c15payload(rng, n, compressible)
			if chunk < 1000 {
				for i := range p { // bytes >= 0x80: never look like a small length field
					p[i] |= 0x80
				}
			}
			if s, panicked := goCompress(cd.codec, [][]byte{p}, uint32(len(p))); !panicked {
				smalls = append(smalls, small{cd, s, []int{0}})
			}
		}
		// (b) multi-block, multi-chunk streams from the harness's encoder
		nb := 2
		if !quick {
			nb = 6
		}
		for i := 0; i < nb; i++ {
			maxPiece := 30
			if chunk < 1000 {
				maxPiece = chunk
			}
			blocks := randomBlocks(rng, 1+i%3, 50, maxPiece, i%2 == 0)
			if chunk < 1000 {
				for _, ps := range blocks {
					for _, p := range ps {
						for k := range p {
							p[k] |= 0x80
						}
					}
				}
			}
			s, offs := hadoopEncode(cd, blocks)
			smalls = append(smalls, small{cd, s, offs})
		}
	}
	for _, sm := range smalls {
		for n := 0; n < len(sm.stream); n++ {
			emitTrunc(sm.cd, sm.stream, n)
		}
		for pos := 0; pos < len(sm.stream); pos++ {
			for _, v := range mutValues(sm.stream[pos], !quick, isBlockLenMSB(pos, sm.offs)) {
				emitSet(sm.cd, sm.stream, pos, v)
			}
		}
	}

	// ---- (5) sampled truncations / corruptions of large streams (real compressor output)
	for _, compressible := range []bool{true, false} {
		cd := codecs[0]
		chunk := int(cd.codec.ChunkLen())
		p := c15payload(rng, 2*chunk+1234, compressible)
		s, panicked := goCompress(cd.codec, splitBufs(rng, p, 3, false), uint32(len(p)))
		if panicked {
			continue
		}
		nS := 12
		if !quick {
			nS = 150
		}
		// the length fields first, then random positions
		for pos := 1; pos < 12 && pos < len(s); pos++ {
			emitSet(cd, s, pos, s[pos]^0x01)
		}
		for i := 0; i < nS; i++ {
			pos := 1 + rng.Intn(len(s)-1)
			vals := mutValues(s[pos], false, false)
			emitSet(cd, s, pos, vals[rng.Intn(len(vals))])
		}
		for i := 0; i < nS/2; i++ {
			emitTrunc(cd, s, 1+rng.Intn(len(s)-1))
		}
	}

}
