// corr: correspondence harness. Runs the real gohbase code (built from the working tree with
// -tags verif) on generated inputs and prints one driver line per case:
//
//	<model> <op> <inputs…> <implementation outputs…>
//
// The Lean driver replays the model on the same inputs and judges the outputs.
package main

import (
	"bufio"
	"bytes"
	"encoding/hex"
	"fmt"
	"os"
	"os/exec"
	"strconv"
	"strings"
	"sync"
	"syscall"
	"time"
)

// RNG is a splitmix64 generator: every random choice derives from VERIF_SEED.
type RNG struct{ s uint64 }

func NewRNG(seed uint64, stream string) *RNG {
	h := seed*0x9e3779b97f4a7c15 + 0x1234567
	for i := 0; i < len(stream); i++ {
		h = (h ^ uint64(stream[i])) * 0x100000001b3
	}
	return &RNG{s: h}
}

func (r *RNG) Next() uint64 {
	r.s += 0x9e3779b97f4a7c15
	z := r.s
	z = (z ^ (z >> 30)) * 0xbf58476d1ce4e5b9
	z = (z ^ (z >> 27)) * 0x94d049bb133111eb
	return z ^ (z >> 31)
}

func (r *RNG) Intn(n int) int {
	if n <= 0 {
		return 0
	}
	return int(r.Next() % uint64(n))
}

func (r *RNG) Bool() bool { return r.Next()&1 == 1 }

// Shuffle permutes xs in place.
func (r *RNG) Shuffle(xs []string) {
	for i := len(xs) - 1; i > 0; i-- {
		j := r.Intn(i + 1)
		xs[i], xs[j] = xs[j], xs[i]
	}
}

func (r *RNG) Bytes(maxLen int, alphabet []byte) []byte {
	n := r.Intn(maxLen + 1)
	b := make([]byte, n)
	for i := range b {
		b[i] = alphabet[r.Intn(len(alphabet))]
	}
	return b
}

func hx(b []byte) string {
	if len(b) == 0 {
		return "-"
	}
	return hex.EncodeToString(b)
}

// Out is the line sink. With only >= 0 just that line index is printed (replay); indices below
// start are skipped (a guarded run resumed after a case that killed the process).
type Out struct {
	mu    sync.Mutex
	w     *bufio.Writer
	n     int
	only  int
	start int
	each  bool // flush after every line
}

// WantAt reports whether line index i will be printed.
func (o *Out) WantAt(i int) bool { return (o.only < 0 || o.only == i) && i >= o.start }

func (o *Out) Line(format string, args ...any) {
	if o.WantAt(o.n) {
		o.mu.Lock()
		fmt.Fprintf(o.w, format, args...)
		o.w.WriteByte('\n')
		if o.each {
			o.w.Flush()
		}
		o.mu.Unlock()
	}
	o.n++
}

// Want reports whether the next line will be printed (lets generators skip expensive work).
func (o *Out) Want() bool { return o.WantAt(o.n) }

// allStrings enumerates all strings over alphabet with length <= maxLen.
func allStrings(alphabet []byte, maxLen int) [][]byte {
	out := [][]byte{{}}
	prev := [][]byte{{}}
	for l := 1; l <= maxLen; l++ {
		var cur [][]byte
		for _, p := range prev {
			for _, c := range alphabet {
				s := append(append([]byte{}, p...), c)
				cur = append(cur, s)
			}
		}
		out = append(out, cur...)
		prev = cur
	}
	return out
}

type propFn func(tier string, seed uint64, out *Out)

var props = map[string]propFn{}

func main() {
	if len(os.Args) < 4 {
		fmt.Fprintln(os.Stderr, "usage: corr <Cxx> <quick|thorough|search> <seed> [only-index]")
		os.Exit(2)
	}
	fn, ok := props[os.Args[1]]
	if !ok {
		fmt.Fprintln(os.Stderr, "unknown property", os.Args[1])
		os.Exit(2)
	}
	seed, _ := strconv.ParseUint(os.Args[3], 10, 64)
	only := -1
	if len(os.Args) > 4 {
		only, _ = strconv.Atoi(os.Args[4])
	}
	inner := os.Getenv("VERIF_SHARD") != "" || os.Getenv("VERIF_C11_CHILD") != ""
	if os.Getenv("VERIF_GUARDED") == "" && !inner {
		guardParent(only)
		return
	}
	// no case may eat the machine's memory (a runaway loop in the code under test)
	lim := syscall.Rlimit{Cur: 8 << 30, Max: 8 << 30}
	syscall.Setrlimit(syscall.RLIMIT_AS, &lim)
	w := bufio.NewWriterSize(os.Stdout, 1<<20)
	out := &Out{w: w, only: only}
	if !inner {
		out.start, _ = strconv.Atoi(os.Getenv("VERIF_START"))
		out.each = os.Getenv("VERIF_CAREFUL") == "1"
		go func() {
			for range time.Tick(500 * time.Millisecond) {
				out.mu.Lock()
				w.Flush()
				out.mu.Unlock()
			}
		}()
	}
	fn(os.Args[2], seed, out)
	out.mu.Lock()
	w.Flush()
	out.mu.Unlock()
}

// guardParent runs the property's generator in a child process and copies its lines. When the
// child dies (panic in a goroutine, fatal error, out of memory) or prints nothing for a long time
// (a loop that never ends), the case it was working on is pinned down by re-running from the last
// line received with a flush after every line; in its place the parent prints
//
//	<model> guard-crash <crash|oom|hang> index=<i> why=<first fatal line>
//
// and the run continues after it. After 4 such cases the run stops.
// heartbeat prints a comment line every 20 s until the returned function is called; for phases of a
// generator that run none of the code under test (the guard's no-output limit is about that code).
func heartbeat(what string) func() {
	stop := make(chan struct{})
	done := make(chan struct{})
	go func() {
		defer close(done)
		t := time.NewTicker(20 * time.Second)
		defer t.Stop()
		for {
			select {
			case <-stop:
				return
			case <-t.C:
				os.Stdout.WriteString("# " + what + "\n")
			}
		}
	}()
	return func() { close(stop); <-done }
}

func guardParent(only int) {
	stall := 150 * time.Second
	model := strings.ToLower(os.Args[1])
	w := bufio.NewWriterSize(os.Stdout, 1<<20)
	defer w.Flush()
	start, careful, crashes := 0, false, 0
	for {
		cmd := exec.Command(os.Args[0], os.Args[1:]...)
		cmd.Env = append(os.Environ(), "VERIF_GUARDED=1", fmt.Sprintf("VERIF_START=%d", start),
			"GOTRACEBACK=single")
		if careful {
			cmd.Env = append(cmd.Env, "VERIF_CAREFUL=1")
		}
		var stderr bytes.Buffer
		cmd.Stderr = &stderr
		stdout, err := cmd.StdoutPipe()
		if err != nil || cmd.Start() != nil {
			fmt.Fprintln(os.Stderr, "guard: cannot start the child")
			os.Exit(3)
		}
		lines := make(chan string, 1024)
		go func() {
			sc := bufio.NewScanner(stdout)
			sc.Buffer(make([]byte, 1<<20), 1<<28)
			for sc.Scan() {
				lines <- sc.Text()
			}
			close(lines)
		}()
		got, hung := 0, false
	loop:
		for {
			select {
			case l, ok := <-lines:
				if !ok {
					break loop
				}
				if strings.HasPrefix(l, "#") {
					continue // a heartbeat of a phase that runs no code under test
				}
				w.WriteString(l)
				w.WriteByte('\n')
				got++
			case <-time.After(stall):
				hung = true
				cmd.Process.Kill() // our own child
				break loop
			}
		}
		if hung {
			for range lines {
			}
		}
		werr := cmd.Wait()
		if werr == nil && !hung {
			os.Stderr.Write(stderr.Bytes())
			return
		}
		if only >= 0 && got > 0 {
			return
		}
		if !careful && only < 0 {
			start += got
			careful = true
			continue
		}
		idx := start + got
		if only >= 0 {
			idx = only
		}
		kind, why := "crash", ""
		for _, l := range strings.Split(stderr.String(), "\n") {
			if strings.HasPrefix(l, "panic:") || strings.HasPrefix(l, "fatal error:") || strings.HasPrefix(l, "runtime: out of memory") {
				why = l
				break
			}
		}
		if hung {
			kind, why = "hang", fmt.Sprintf("no output for %s", stall)
		} else if strings.Contains(stderr.String(), "out of memory") || strings.Contains(stderr.String(), "cannot allocate") {
			kind = "oom"
		}
		why = strings.ReplaceAll(strings.TrimSpace(why), " ", "_")
		if len(why) > 200 {
			why = why[:200]
		}
		fmt.Fprintf(w, "%s guard-crash %s index=%d why=%s\n", model, kind, idx, why)
		crashes++
		if only >= 0 || crashes >= 4 {
			return
		}
		start, careful = idx+1, false
	}
}
