// corr: correspondence harness. Runs the real gohbase code (built from the working tree with
// -tags verif) on generated inputs and prints one driver line per case:
//
//	<model> <op> <inputs…> <implementation outputs…>
//
// The Lean driver replays the model on the same inputs and judges the outputs.
package main

import (
	"bufio"
	"encoding/hex"
	"fmt"
	"os"
	"strconv"
)

// RNG is a splitmix64 generator: every random choice derives from VERIF_SEED.
type RNG struct{ s uint64 }

func NewRNG(seed uint64, stream string) *RNG {
	h := seed*0x9e3779b97f4a7c15 + 0x1234567
	for i := 0; i < len(stream); i++ {
		h = (h ^ uint64(stream[i])) * 0x100000001b3
	}
	return &RNG{s: h}
}

func (r *RNG) Next() uint64 {
	r.s += 0x9e3779b97f4a7c15
	z := r.s
	z = (z ^ (z >> 30)) * 0xbf58476d1ce4e5b9
	z = (z ^ (z >> 27)) * 0x94d049bb133111eb
	return z ^ (z >> 31)
}

func (r *RNG) Intn(n int) int {
	if n <= 0 {
		return 0
	}
	return int(r.Next() % uint64(n))
}

func (r *RNG) Bool() bool { return r.Next()&1 == 1 }

func (r *RNG) Bytes(maxLen int, alphabet []byte) []byte {
	n := r.Intn(maxLen + 1)
	b := make([]byte, n)
	for i := range b {
		b[i] = alphabet[r.Intn(len(alphabet))]
	}
	return b
}

func hx(b []byte) string {
	if len(b) == 0 {
		return "-"
	}
	return hex.EncodeToString(b)
}

// Out is the line sink. With only >= 0 just that line index is printed (replay).
type Out struct {
	w    *bufio.Writer
	n    int
	only int
}

func (o *Out) Line(format string, args ...any) {
	if o.only < 0 || o.only == o.n {
		fmt.Fprintf(o.w, format, args...)
		o.w.WriteByte('\n')
	}
	o.n++
}

// Want reports whether the next line will be printed (lets generators skip expensive work).
func (o *Out) Want() bool { return o.only < 0 || o.only == o.n }

// allStrings enumerates all strings over alphabet with length <= maxLen.
func allStrings(alphabet []byte, maxLen int) [][]byte {
	out := [][]byte{{}}
	prev := [][]byte{{}}
	for l := 1; l <= maxLen; l++ {
		var cur [][]byte
		for _, p := range prev {
			for _, c := range alphabet {
				s := append(append([]byte{}, p...), c)
				cur = append(cur, s)
			}
		}
		out = append(out, cur...)
		prev = cur
	}
	return out
}

type propFn func(tier string, seed uint64, out *Out)

var props = map[string]propFn{}

func main() {
	if len(os.Args) < 4 {
		fmt.Fprintln(os.Stderr, "usage: corr <Cxx> <quick|thorough|search> <seed> [only-index]")
		os.Exit(2)
	}
	fn, ok := props[os.Args[1]]
	if !ok {
		fmt.Fprintln(os.Stderr, "unknown property", os.Args[1])
		os.Exit(2)
	}
	seed, _ := strconv.ParseUint(os.Args[3], 10, 64)
	only := -1
	if len(os.Args) > 4 {
		only, _ = strconv.Atoi(os.Args[4])
	}
	w := bufio.NewWriterSize(os.Stdout, 1<<20)
	out := &Out{w: w, only: only}
	fn(os.Args[2], seed, out)
	w.Flush()
}
