package main

// C05, free-running part: G goroutines send unbatched Gets and Appends (cellblocks) and batched
// Puts at once on one region client whose connection is an in-memory net.Conn that accepts every
// Write immediately, so the senders run in true parallel (the gated scenarios of connrun.go run
// one goroutine at a time). What reached the connection is decoded independently: whole frames,
// call ids unique on the connection, every call written exactly once with its own row.

import (
	"context"
	"encoding/binary"
	"fmt"
	"net"
	"sync"
	"time"

	"github.com/tsuna/gohbase/compression"
	gsnappy "github.com/tsuna/gohbase/compression/snappy"
	"github.com/tsuna/gohbase/hrpc"
	"github.com/tsuna/gohbase/pb"
	"github.com/tsuna/gohbase/region"
	"google.golang.org/protobuf/encoding/protowire"
	"google.golang.org/protobuf/proto"
)

func c05Stress(rng *RNG, round int) string {
	g := 2 + rng.Intn(7)
	per := 100 + rng.Intn(300)
	val := make([]byte, 512+rng.Intn(3000)) // cell values big enough for compression to take a moment
	for i := range val {
		val[i] = byte(rng.Intn(7))
	}
	q := []int{1, 2, 5, 100}[rng.Intn(4)]
	v := newVConn()
	dialer := func(ctx context.Context, network, addr string) (net.Conn, error) { return v, nil }
	// every other round with cellblock compression (the compressor is shared by all senders of the
	// connection)
	var codec compression.Codec
	if round%4 != 0 {
		codec = gsnappy.New()
	}
	rc := region.NewClient("vconn:0", region.RegionClient, q, 0, "verif", time.Hour, codec, dialer, discardLogger)
	if err := rc.Dial(context.Background()); err != nil {
		return "c05 stress BAD dial"
	}
	reg := region.NewInfo(1, nil, []byte("t"), []byte("t,,1.aaaaaaaaaaaaaaaaaaaaaaaaaaaaaaaa."), nil, nil)
	want := map[string]string{} // row -> method
	calls := make([][]hrpc.Call, g)
	for i := 0; i < g; i++ {
		for j := 0; j < per; j++ {
			row := fmt.Sprintf("g%d-%d", i, j)
			var c hrpc.Call
			switch (i + j) % 3 {
			case 0:
				c, _ = hrpc.NewGetStr(context.Background(), "t", row, hrpc.SkipBatch())
				want[row] = "Get"
			case 1:
				c, _ = hrpc.NewAppStr(context.Background(), "t", row, map[string]map[string][]byte{"cf": {"q": append([]byte(row), val...)}}, hrpc.SkipBatch())
				want[row] = "Mutate"
			default:
				c, _ = hrpc.NewPutStr(context.Background(), "t", row, map[string]map[string][]byte{"cf": {"q": append([]byte(row), val...)}})
				want[row] = "Mutate"
			}
			c.SetRegion(reg)
			calls[i] = append(calls[i], c)
		}
	}
	start := make(chan struct{})
	var wg sync.WaitGroup
	for i := 0; i < g; i++ {
		wg.Add(1)
		go func(cs []hrpc.Call) {
			defer wg.Done()
			<-start
			for _, c := range cs {
				rc.QueueRPC(c)
			}
		}(calls[i])
	}
	close(start)
	wg.Wait()
	// wait until every call has been written (batched ones are flushed by the queue timer)
	total := g * per
	seenRows := map[string]int{}
	ids := map[uint32]int{}
	verdict := ""
	deadline := time.Now().Add(20 * time.Second)
	for {
		seenRows = map[string]int{}
		ids = map[uint32]int{}
		verdict = c05StressParse(v, codec, want, seenRows, ids)
		if verdict != "ok" || len(seenRows) >= total || time.Now().After(deadline) {
			break
		}
		time.Sleep(5 * time.Millisecond)
	}
	rc.Close()
	dup, missing, twice := 0, 0, 0
	for _, n := range ids {
		if n > 1 {
			dup++
		}
	}
	for row := range want {
		switch seenRows[row] {
		case 0:
			missing++
		case 1:
		default:
			twice++
		}
	}
	return fmt.Sprintf("c05 stress senders=%d calls=%d queue=%d stream=%s dupids=%d missing=%d twice=%d",
		g, total, q, verdict, dup, missing, twice)
}

// cellRows returns the row of every KeyValue of an (uncompressed) cellblock, nil if it does not parse.
func cellRows(cb []byte) [][]byte {
	var rows [][]byte
	for len(cb) > 0 {
		if len(cb) < 4 || len(cb) < 4+int(binary.BigEndian.Uint32(cb)) {
			return nil
		}
		kv := cb[4 : 4+int(binary.BigEndian.Uint32(cb))]
		if len(kv) < 10 {
			return nil
		}
		rl := int(binary.BigEndian.Uint16(kv[8:]))
		if len(kv) < 10+rl {
			return nil
		}
		rows = append(rows, kv[10:10+rl])
		cb = cb[4+len(kv):]
	}
	return rows
}

func c05StressParse(v *VConn, codec compression.Codec, want map[string]string, seenRows map[string]int, ids map[uint32]int) string {
	v.mu.Lock()
	var b []byte
	for _, u := range v.written {
		b = append(b, u...)
	}
	v.mu.Unlock()
	if len(b) < 10 || string(b[:4]) != "HBas" {
		return "broken-preamble"
	}
	hl := int(binary.BigEndian.Uint32(b[6:10]))
	if len(b) < 10+hl {
		return "broken-hello"
	}
	b = b[10+hl:]
	n := 0
	for len(b) >= 4 {
		total := int(binary.BigEndian.Uint32(b))
		if total > 1<<24 {
			return fmt.Sprintf("broken-length-prefix-frame%d", n)
		}
		if len(b) < 4+total {
			return "ok" // a frame still being written
		}
		body := b[4 : 4+total]
		hb, k := protowire.ConsumeBytes(body)
		var h pb.RequestHeader
		if k < 0 || proto.Unmarshal(hb, &h) != nil || h.CallId == nil || h.MethodName == nil {
			return fmt.Sprintf("broken-header-frame%d", n)
		}
		rb, k2 := protowire.ConsumeBytes(body[k:])
		if k2 < 0 {
			return fmt.Sprintf("broken-request-frame%d", n)
		}
		if uint32(len(body[k+k2:])) != h.GetCellBlockMeta().GetLength() {
			return fmt.Sprintf("broken-cellblock-length-frame%d", n)
		}
		// the cellblock of a frame carries the cells of the rows its request names, nothing else
		var cbRows [][]byte
		if cb := body[k+k2:]; len(cb) > 0 {
			if codec != nil {
				d, err := region.VerifDecompress(codec, cb)
				if err != nil {
					return fmt.Sprintf("cellblock-does-not-decompress-frame%d", n)
				}
				cb = d
			}
			if cbRows = cellRows(cb); cbRows == nil {
				return fmt.Sprintf("broken-cellblock-cells-frame%d", n)
			}
		}
		var reqRows [][]byte
		ids[h.GetCallId()]++
		note := func(row []byte, method string) string {
			if w, ok := want[string(row)]; !ok || (w != method && method != "Multi") {
				return fmt.Sprintf("wrong-method-frame%d", n)
			}
			seenRows[string(row)]++
			return ""
		}
		switch h.GetMethodName() {
		case "Get":
			var r pb.GetRequest
			if proto.Unmarshal(rb, &r) != nil {
				return fmt.Sprintf("broken-request-frame%d", n)
			}
			if e := note(r.GetGet().GetRow(), "Get"); e != "" {
				return e
			}
		case "Mutate":
			var r pb.MutateRequest
			if proto.Unmarshal(rb, &r) != nil {
				return fmt.Sprintf("broken-request-frame%d", n)
			}
			if e := note(r.GetMutation().GetRow(), "Mutate"); e != "" {
				return e
			}
			if r.GetMutation().GetAssociatedCellCount() > 0 {
				reqRows = append(reqRows, r.GetMutation().GetRow())
			}
		case "Multi":
			var r pb.MultiRequest
			if proto.Unmarshal(rb, &r) != nil {
				return fmt.Sprintf("broken-request-frame%d", n)
			}
			for _, ra := range r.GetRegionAction() {
				for _, a := range ra.GetAction() {
					row := a.GetMutation().GetRow()
					if a.GetGet() != nil {
						row = a.GetGet().GetRow()
					}
					if e := note(row, "Multi"); e != "" {
						return e
					}
					for i := int32(0); i < a.GetMutation().GetAssociatedCellCount(); i++ {
						reqRows = append(reqRows, row)
					}
				}
			}
		default:
			return fmt.Sprintf("unknown-method-frame%d", n)
		}
		if len(cbRows) != len(reqRows) {
			return fmt.Sprintf("cellblock-cell-count-frame%d", n)
		}
		for i := range cbRows {
			if string(cbRows[i]) != string(reqRows[i]) {
				return fmt.Sprintf("cellblock-of-another-request-frame%d", n)
			}
		}
		b = b[4+total:]
		n++
	}
	return "ok"
}
