package main

// vconn: a scriptable in-memory net.Conn. Every Write and SetReadDeadline parks the calling
// goroutine at a "gate" until the controller releases it with a result; a Read parks until the
// controller supplies bytes or an error, or the connection is closed. The controller learns that
// the system is quiescent by inspecting goroutine states (see settle).

import (
	"bytes"
	"errors"
	"net"
	"runtime"
	"strconv"
	"strings"
	"sync"
	"time"
)

type gateRes struct {
	n    int
	data []byte
	err  error
}

type gate struct {
	kind string // "write" | "read" | "deadline"
	data []byte // bytes being written
	zero bool   // deadline: clearing (zero time)
	gid  int64
	seq  int
	ch   chan gateRes
}

var errVClosed = errors.New("vconn: use of closed connection")
var errVReset = errors.New("vconn: connection reset by peer")

type vtimeout struct{}

func (vtimeout) Error() string   { return "vconn: i/o timeout" }
func (vtimeout) Timeout() bool   { return true }
func (vtimeout) Temporary() bool { return true }

type VConn struct {
	mu          sync.Mutex
	auto        bool // complete every operation immediately (connection set-up)
	gateClose   bool // Close parks at a gate as well
	deadline    time.Time
	closed      bool
	pending     []*gate
	seq         int
	deadlineSet bool
	written     [][]byte // units written successfully, in order
	closes      int
	failWrites  bool  // every Write fails (the peer has gone by the time the connection is used)
	closeErr    error // what Close reports after having closed the connection (tls: "failed to send closeNotify alert (but connection was closed anyway)")
}

func newVConn() *VConn { return &VConn{auto: true} }

func curGID() int64 {
	var buf [64]byte
	n := runtime.Stack(buf[:], false)
	// "goroutine 123 [running]:"
	f := bytes.Fields(buf[:n])
	if len(f) < 2 {
		return -1
	}
	id, _ := strconv.ParseInt(string(f[1]), 10, 64)
	return id
}

func (v *VConn) park(kind string, data []byte, zero bool) gateRes {
	g := &gate{kind: kind, data: data, zero: zero, gid: curGID(), ch: make(chan gateRes, 1)}
	v.mu.Lock()
	v.seq++
	g.seq = v.seq
	v.pending = append(v.pending, g)
	v.mu.Unlock()
	return <-g.ch
}

// take removes and returns the pending gate (by pointer).
func (v *VConn) take(g *gate) {
	v.mu.Lock()
	for i, p := range v.pending {
		if p == g {
			v.pending = append(v.pending[:i], v.pending[i+1:]...)
			break
		}
	}
	v.mu.Unlock()
}

func (v *VConn) Pending() []*gate {
	v.mu.Lock()
	defer v.mu.Unlock()
	return append([]*gate(nil), v.pending...)
}

func (v *VConn) Write(b []byte) (int, error) {
	v.mu.Lock()
	if v.failWrites {
		v.mu.Unlock()
		return 0, errVReset
	}
	if v.auto {
		v.written = append(v.written, append([]byte(nil), b...))
		v.mu.Unlock()
		return len(b), nil
	}
	v.mu.Unlock()
	r := v.park("write", append([]byte(nil), b...), false)
	v.mu.Lock()
	if v.closed && r.err == nil {
		r.err, r.n = errVClosed, 0
	}
	if r.err == nil {
		v.written = append(v.written, append([]byte(nil), b...))
	}
	v.mu.Unlock()
	if r.err != nil {
		return r.n, r.err
	}
	return len(b), nil
}

func (v *VConn) Read(b []byte) (int, error) {
	v.mu.Lock()
	if v.closed {
		v.mu.Unlock()
		return 0, errVClosed
	}
	v.mu.Unlock()
	r := v.park("read", nil, false)
	if r.err != nil && len(r.data) == 0 {
		return 0, r.err
	}
	n := copy(b, r.data)
	return n, r.err
}

func (v *VConn) SetReadDeadline(t time.Time) error {
	v.mu.Lock()
	if v.auto {
		v.deadlineSet = !t.IsZero()
		v.mu.Unlock()
		return nil
	}
	v.mu.Unlock()
	r := v.park("deadline", nil, t.IsZero())
	v.mu.Lock()
	defer v.mu.Unlock()
	if v.closed && r.err == nil {
		r.err = errVClosed
	}
	if r.err == nil {
		v.deadlineSet = !t.IsZero()
		v.deadline = t
	}
	return r.err
}

// Deadline returns the read deadline currently set (zero: none).
func (v *VConn) Deadline() time.Time {
	v.mu.Lock()
	defer v.mu.Unlock()
	return v.deadline
}

// Written returns the Write units accepted so far.
func (v *VConn) Written() [][]byte {
	v.mu.Lock()
	defer v.mu.Unlock()
	return append([][]byte(nil), v.written...)
}

func (v *VConn) Close() error {
	v.mu.Lock()
	gc := v.gateClose
	v.mu.Unlock()
	if gc {
		// a Close that takes its time (lingering socket, TLS shutdown, a proxy's own teardown):
		// the connection counts as closed only once the controller lets it complete
		v.park("close", nil, false)
	}
	v.mu.Lock()
	v.closed = true
	v.closes++
	var reads []*gate
	var rest []*gate
	for _, g := range v.pending {
		if g.kind == "read" {
			reads = append(reads, g)
		} else {
			rest = append(rest, g)
		}
	}
	v.pending = rest
	v.mu.Unlock()
	for _, g := range reads {
		g.ch <- gateRes{err: errVClosed}
	}
	return v.closeErr
}

func (v *VConn) Closed() bool {
	v.mu.Lock()
	defer v.mu.Unlock()
	return v.closed
}

func (v *VConn) DeadlineSet() bool {
	v.mu.Lock()
	defer v.mu.Unlock()
	return v.deadlineSet
}

func (v *VConn) SetAuto(a bool) {
	v.mu.Lock()
	v.auto = a
	v.mu.Unlock()
}

type vaddr struct{}

func (vaddr) Network() string { return "vconn" }
func (vaddr) String() string  { return "vconn:0" }

func (v *VConn) LocalAddr() net.Addr  { return vaddr{} }
func (v *VConn) RemoteAddr() net.Addr { return vaddr{} }

// SetDeadline sets the read deadline as well (the write deadline is not tracked).
func (v *VConn) SetDeadline(t time.Time) error {
	v.mu.Lock()
	v.deadlineSet = !t.IsZero()
	v.deadline = t
	v.mu.Unlock()
	return nil
}
func (v *VConn) SetWriteDeadline(t time.Time) error { return nil }

// settle waits until every goroutine other than the caller is blocked (not running, runnable or
// in a syscall), i.e. until the released goroutine and everything it woke up have run to their
// next blocking point. Returns false on timeout.
// lastMutexBlocked is the number of goroutines found blocked in sync.Mutex.Lock by the last settle.
var lastMutexBlocked int

func settle() bool {
	buf := make([]byte, 1<<20)
	me := curGID()
	quiet := 0
	deadline := time.Now().Add(3 * time.Second)
	for time.Now().Before(deadline) {
		runtime.Gosched()
		n := runtime.Stack(buf, true)
		busy := false
		mblocked := 0
		for _, blk := range bytes.Split(buf[:n], []byte("\n\n")) {
			if !bytes.HasPrefix(blk, []byte("goroutine ")) {
				continue
			}
			line := blk
			if i := bytes.IndexByte(blk, '\n'); i >= 0 {
				line = blk[:i]
			}
			f := bytes.Fields(line)
			if len(f) < 3 {
				continue
			}
			id, _ := strconv.ParseInt(string(f[1]), 10, 64)
			if id == me {
				continue
			}
			st := string(bytes.Trim(bytes.Join(f[2:], []byte(" ")), "[]:"))
			if i := bytes.IndexByte([]byte(st), ','); i >= 0 {
				st = st[:i]
			}
			// Only goroutines parked on a channel, a select, a sync primitive or the network are at
			// rest. Everything else is busy: running, runnable, syscall, preempted, "(scan)" variants —
			// and "semacquire", which is what a goroutine shows when it wants to start a GC cycle
			// while this function's own runtime.Stack holds the world semaphore (counting it as
			// blocked made settle return before a just-released goroutine had run: the cause of the
			// one-off "stranded" observations, found by the C11 worker).
			parked := false
			for _, p := range []string{"chan receive", "chan send", "select", "sync.", "IO wait"} {
				if strings.HasPrefix(st, p) && !strings.Contains(st, "(scan)") {
					parked = true
				}
			}
			if !parked {
				busy = true
			} else if strings.HasPrefix(st, "sync.Mutex") || strings.HasPrefix(st, "sync.RWMutex") {
				mblocked++
			}
		}
		if !busy {
			quiet++
			lastMutexBlocked = mblocked
			if quiet >= 3 {
				return true
			}
		} else {
			quiet = 0
		}
	}
	return false
}
