package main

// C11: no byte sequence received from a regionserver can crash the client, make it read outside the
// received data, block its reader or strand a caller.
//
// Every frame/raw case runs a fresh real region client (region.NewClient + Dial) over a VConn in
// auto mode: the calls are registered by really sending them (direct Get / Append / Scan, or a
// QueueBatch of 2-4 Gets/Appends over two regions so that a multi is written), the written request
// is parsed to learn the wire id / action indices / region order, ONE response is released at the
// parked Read gate, and what every call's ResultChan holds is observed after the system has
// settled, again after an EOF (raw cases) and again after Close.
// A panic in the client's reader goroutine kills the process, so cases run in child processes with
// a begin/end protocol (B <i> / R <i> <line>); the parent turns a dead child into
// `c11 crash <kind> <case>` (or `c11 oom …` when the Go runtime died allocating a wire-declared
// size under the child's address-space limit).
// A multi response that carries a server-class exception (region/client.go serverErrorIn): the calls
// get their results and then the connection is failed; c11ServerExcCases (c11gen.go) lists such
// responses explicitly for multis over one, two and three regions.
// Line formats: lean/GohbaseVerif/Drive/C11.lean.

import (
	"bufio"
	"bytes"
	"context"
	"encoding/binary"
	"fmt"
	"io"
	"net"
	"os"
	"os/exec"
	"runtime"
	"strconv"
	"strings"
	"sync"
	"syscall"
	"time"

	"github.com/tsuna/gohbase"
	"github.com/tsuna/gohbase/hrpc"
	"github.com/tsuna/gohbase/pb"
	"github.com/tsuna/gohbase/region"
	"google.golang.org/protobuf/encoding/protowire"
	"google.golang.org/protobuf/proto"
)

func init() { props["C11"] = runC11 }

// ------------------------------------------------------------------ specs

type c11MC struct {
	kind    byte // 'g' Get, 'a' Append
	reg     int  // 0 | 1 | 2 (c11RegInfos)
	dropped bool // own context cancelled before the flush: multi.toProto drops the call
}

type c11Exc struct{ cls, stack *string }

type c11NBP struct {
	name  *string // nil: required field missing (built with AllowPartial; Unmarshal must reject)
	value []byte
	hasV  bool
}

type c11Res struct {
	present bool
	acc     *int32
	inline  int
}

type c11Roe struct {
	idx *uint32
	res c11Res
	exc *c11NBP
}

type c11Rar struct {
	exc  *c11NBP
	roes []c11Roe
}

type c11Inl struct {
	cells   int
	partial *bool
}

type c11Frame struct {
	id      string // own | none | unk
	exc     *c11Exc
	cbm     string // n p zero exact plus1 minus1 frame frame1 max rest1 cell
	resp    string // ok | absent | trunc | undec
	res     c11Res
	cpr     []uint32
	flags   []bool
	inl     []c11Inl
	rars    []c11Rar
	cbCells int
	cbMut   string // none | trunc:<k> | extra:<k> | lie:<cell>:<field>:<how>
}

type c11Case struct {
	op    string // frame | raw | info | coalesce
	kind  string // get | app | scan | multi
	q     int
	calls []c11MC
	f     *c11Frame
	// raw
	metaRow    []byte // metarow: the row key of the meta row
	lateCancel bool   // multi: the calls' contexts end between the request and the response
	rawMode    string // trunc:<n> | flip:<pos>:<val> | rand:<len> | whole
	rawSeed    uint64
	// info
	infoVal []byte
	infoSrv *string
	// coalesce
	allowPartial bool
	script       [][]c11CoRes
}

type c11CoRes struct {
	row     int // -1: no cells
	cells   int
	partial bool
	stale   bool
}

func sp(s string) *string { return &s }
func i32(i int32) *int32  { return &i }
func u32(i uint32) *uint32 {
	return &i
}
func bp(b bool) *bool { return &b }

func (f *c11Frame) clone() *c11Frame {
	g := *f
	if f.exc != nil {
		e := *f.exc
		g.exc = &e
	}
	g.cpr = append([]uint32(nil), f.cpr...)
	g.flags = append([]bool(nil), f.flags...)
	g.inl = append([]c11Inl(nil), f.inl...)
	g.rars = nil
	for _, r := range f.rars {
		r2 := c11Rar{exc: r.exc, roes: append([]c11Roe(nil), r.roes...)}
		g.rars = append(g.rars, r2)
	}
	return &g
}

// ------------------------------------------------------------------ building bytes

var c11Table = []byte("t")

func c11Row(reg, i int) []byte { return []byte(fmt.Sprintf("%c-row%d", "amt"[reg%3], i)) }

func c11Cellblock(n int) [][]byte {
	var out [][]byte
	for i := 0; i < n; i++ {
		row := []byte(fmt.Sprintf("r%d", i))
		out = append(out, hrpc.VerifAppendCellblock(row, "f", "q", append([]byte("v"), row...), 42, 4, nil))
	}
	return out
}

// c11Tail builds the bytes that follow the response message: n valid cells, then one corruption.
func c11Tail(n int, mut string) []byte {
	cells := c11Cellblock(n)
	parts := strings.Split(mut, ":")
	if parts[0] == "lie" && len(cells) > 0 {
		ci, _ := strconv.Atoi(parts[1])
		if ci < 0 || ci >= len(cells) {
			ci = len(cells) - 1
		}
		c := cells[ci]
		var off, w int
		switch parts[2] {
		case "kv":
			off, w = 0, 4
		case "key":
			off, w = 4, 4
		case "val":
			off, w = 8, 4
		case "row":
			off, w = 12, 2
		case "fam":
			off, w = 14+2, 1 // rows are 2 bytes ("rN")
		}
		var cur uint64
		for i := 0; i < w; i++ {
			cur = cur<<8 | uint64(c[off+i])
		}
		switch parts[3] {
		case "inc":
			cur++
		case "dec":
			cur--
		case "zero":
			cur = 0
		case "max":
			cur = 1<<(8*uint(w)) - 1
		case "big":
			cur += 1000
		}
		for i := w - 1; i >= 0; i-- {
			c[off+i] = byte(cur)
			cur >>= 8
		}
	}
	if parts[0] == "wrap" && len(cells) > 0 {
		// a cell whose KeyValue length is within a few bytes of 2^32 and whose inner lengths are
		// consistent with it: kvLen+4 wraps around in uint32
		ci, _ := strconv.Atoi(parts[1])
		if ci < 0 || ci >= len(cells) {
			ci = len(cells) - 1
		}
		k, _ := strconv.Atoi(parts[2])
		kv := uint32(0xFFFFFFFF) - uint32(k)
		cell := make([]byte, 24)
		binary.BigEndian.PutUint32(cell[0:], kv)
		binary.BigEndian.PutUint32(cell[4:], 12)
		binary.BigEndian.PutUint32(cell[8:], kv-20)
		cell[23] = 4
		cells[ci] = cell
	}
	var tail []byte
	for _, c := range cells {
		tail = append(tail, c...)
	}
	switch parts[0] {
	case "trunc":
		k, _ := strconv.Atoi(parts[1])
		if k > len(tail) {
			k = len(tail)
		}
		tail = tail[:len(tail)-k]
	case "extra":
		k, _ := strconv.Atoi(parts[1])
		for i := 0; i < k; i++ {
			tail = append(tail, byte(i))
		}
	}
	return tail
}

func c11PBCells(n int) []*pb.Cell {
	var out []*pb.Cell
	for i := 0; i < n; i++ {
		ts := uint64(7)
		out = append(out, &pb.Cell{Row: []byte(fmt.Sprintf("i%d", i)), Family: []byte("f"), Qualifier: []byte("q"),
			Timestamp: &ts, CellType: pb.CellType_PUT.Enum(), Value: []byte("x")})
	}
	return out
}

func (r c11Res) pb() *pb.Result {
	if !r.present {
		return nil
	}
	return &pb.Result{AssociatedCellCount: r.acc, Cell: c11PBCells(r.inline)}
}

func (n *c11NBP) pb() *pb.NameBytesPair {
	if n == nil {
		return nil
	}
	p := &pb.NameBytesPair{Name: n.name}
	if n.hasV {
		p.Value = n.value
		if p.Value == nil {
			p.Value = []byte{}
		}
	}
	return p
}

func optHex(s *string) string {
	if s == nil {
		return "_"
	}
	return hx([]byte(*s))
}

func resDesc(r *pb.Result) string {
	if r == nil {
		return "n"
	}
	a := "_"
	if r.AssociatedCellCount != nil {
		a = strconv.Itoa(int(*r.AssociatedCellCount))
	}
	return fmt.Sprintf("%s+%d", a, len(r.Cell))
}

func nbpDesc(e *pb.NameBytesPair) string {
	if e == nil {
		return "n"
	}
	v := "_"
	if e.Value != nil {
		v = hx(e.Value)
	}
	return fmt.Sprintf("e~%s~%s", optHex(e.Name), v)
}

func multiDesc(mr *pb.MultiResponse) string {
	var rs []string
	for _, rar := range mr.RegionActionResult {
		var roes []string
		for _, roe := range rar.ResultOrException {
			idx := "_"
			if roe.Index != nil {
				idx = strconv.FormatUint(uint64(*roe.Index), 10)
			}
			roes = append(roes, fmt.Sprintf("%s/%s/%s", idx, resDesc(roe.Result), nbpDesc(roe.Exception)))
		}
		rj := "-"
		if len(roes) > 0 {
			rj = strings.Join(roes, ",")
		}
		rs = append(rs, nbpDesc(rar.Exception)+"|"+rj)
	}
	if len(rs) == 0 {
		return "M:-"
	}
	return "M:" + strings.Join(rs, ";")
}

func scanDesc(sr *pb.ScanResponse) string {
	cpr := "-"
	if len(sr.CellsPerResult) > 0 {
		var s []string
		for _, c := range sr.CellsPerResult {
			s = append(s, strconv.FormatUint(uint64(c), 10))
		}
		cpr = strings.Join(s, ".")
	}
	fl := "-"
	if len(sr.PartialFlagPerResult) > 0 {
		fl = ""
		for _, b := range sr.PartialFlagPerResult {
			if b {
				fl += "t"
			} else {
				fl += "f"
			}
		}
	}
	return fmt.Sprintf("S:%s:%s:%s", cpr, fl, scanResultsStr(sr.Results))
}

func scanResultsStr(rs []*pb.Result) string {
	if len(rs) == 0 {
		return "-"
	}
	var s []string
	for _, r := range rs {
		p := "_"
		if r.Partial != nil {
			p = "f"
			if *r.Partial {
				p = "p"
			}
		}
		s = append(s, fmt.Sprintf("%d%s", len(r.GetCell()), p))
	}
	return strings.Join(s, ".")
}

// builtFrame is a response frame with its description in the driver's vocabulary.
type builtFrame struct {
	bytes []byte
	desc  string // "<id> <exc> <cbm> <hl> <rl> <resp> <tail>"
}

func (f *c11Frame) build(kind string, wireID uint32) builtFrame {
	// response part
	var resp proto.Message
	var respDesc string
	switch kind {
	case "get":
		m := &pb.GetResponse{Result: f.res.pb()}
		resp, respDesc = m, "R:"+resDesc(m.Result)
	case "app":
		m := &pb.MutateResponse{Result: f.res.pb()}
		resp, respDesc = m, "R:"+resDesc(m.Result)
	case "scan":
		m := &pb.ScanResponse{CellsPerResult: f.cpr, PartialFlagPerResult: f.flags}
		for _, in := range f.inl {
			m.Results = append(m.Results, &pb.Result{Cell: c11PBCells(in.cells), Partial: in.partial})
		}
		resp, respDesc = m, scanDesc(m)
	case "multi":
		m := &pb.MultiResponse{}
		for _, r := range f.rars {
			rar := &pb.RegionActionResult{Exception: r.exc.pb()}
			for _, ro := range r.roes {
				rar.ResultOrException = append(rar.ResultOrException,
					&pb.ResultOrException{Index: ro.idx, Result: ro.res.pb(), Exception: ro.exc.pb()})
			}
			m.RegionActionResult = append(m.RegionActionResult, rar)
		}
		resp, respDesc = m, multiDesc(m)
	}
	rb, err := proto.MarshalOptions{AllowPartial: true}.Marshal(resp)
	if err != nil {
		panic(err)
	}
	if proto.CheckInitialized(resp) != nil {
		respDesc = "undec" // a required field is missing: the client's Unmarshal rejects the message
	}
	var respPart []byte
	rl := 0
	tail := c11Tail(f.cbCells, f.cbMut)
	switch f.resp {
	case "ok":
		respPart = protowire.AppendVarint(nil, uint64(len(rb)))
		respPart = append(respPart, rb...)
		rl = len(respPart)
	case "absent":
		rl, respDesc, tail = -1, "absent", nil
	case "trunc":
		respPart = protowire.AppendVarint(nil, uint64(len(rb)+5))
		respPart = append(respPart, rb...)
		rl, respDesc, tail = -1, "absent", nil
	case "undec":
		junk := []byte{0x0a, 0x05, 0x01}
		if kind == "scan" {
			junk = []byte{0x2a, 0x05, 0x01} // field 5 (results), length runs past the message
		}
		respPart = protowire.AppendVarint(nil, uint64(len(junk)))
		respPart = append(respPart, junk...)
		rl, respDesc = len(respPart), "undec"
	}
	// header: the cell_block_meta value may depend on the header's own size; iterate to a fixpoint
	h := &pb.ResponseHeader{}
	idDesc := f.id
	switch f.id {
	case "own":
		h.CallId = u32(wireID)
	case "unk":
		h.CallId = u32(wireID + 1000)
	}
	excDesc := "n"
	if f.exc != nil {
		h.Exception = &pb.ExceptionResponse{ExceptionClassName: f.exc.cls, StackTrace: f.exc.stack}
		excDesc = fmt.Sprintf("e:%s:%s", optHex(f.exc.cls), optHex(f.exc.stack))
	}
	var hdrPart []byte
	cbmDesc := "n"
	for iter := 0; iter < 6; iter++ {
		hl := len(hdrPart)
		rest := len(respPart) + len(tail)
		var v uint64
		has := true
		switch f.cbm {
		case "n":
			has = false
		case "p":
		case "zero":
			v = 0
		case "exact":
			v = uint64(len(tail))
		case "plus1":
			v = uint64(len(tail)) + 1
		case "minus1":
			v = uint64(len(tail))
			if v > 0 {
				v--
			}
		case "cell":
			v = uint64(len(tail))
			if v >= 28 {
				v -= 28 // one cell of this generator
			}
		case "rest1":
			v = uint64(rest) + 1 // one byte more than what follows the header
		case "frame":
			v = uint64(hl + rest)
		case "frame1":
			v = uint64(hl+rest) + 1
		case "max":
			v = 1<<32 - 1
		}
		h.CellBlockMeta = nil
		cbmDesc = "n"
		if has {
			h.CellBlockMeta = &pb.CellBlockMeta{}
			cbmDesc = "p"
			if f.cbm != "p" {
				h.CellBlockMeta.Length = u32(uint32(v))
				cbmDesc = strconv.FormatUint(v, 10)
			}
		}
		hb, _ := proto.Marshal(h)
		np := protowire.AppendVarint(nil, uint64(len(hb)))
		np = append(np, hb...)
		same := len(np) == len(hdrPart)
		hdrPart = np
		if same {
			break
		}
	}
	body := append(append(append([]byte(nil), hdrPart...), respPart...), tail...)
	out := make([]byte, 4, 4+len(body))
	binary.BigEndian.PutUint32(out, uint32(len(body)))
	out = append(out, body...)
	return builtFrame{bytes: out, desc: fmt.Sprintf("%s %s %s %d %d %s %s", idDesc, excDesc, cbmDesc,
		len(hdrPart), rl, respDesc, hx(tail))}
}

// ------------------------------------------------------------------ running one case on the real client

type c11Call struct {
	spec    c11MC
	row     []byte
	call    hrpc.Call
	cancel  context.CancelFunc
	results []string
}

type c11Run struct {
	v      *VConn
	rc     hrpc.RegionClient
	calls  []*c11Call
	wireID uint32
	nreg   int
	regPos []int // per call: position of its region in the request (m.regions), -1 if dropped
	broken string
}

var c11RegInfos = func() []hrpc.RegionInfo {
	return []hrpc.RegionInfo{
		region.NewInfo(1, nil, []byte("t"), []byte("t,,1.aaaaaaaaaaaaaaaaaaaaaaaaaaaaaaaa."), nil, []byte("m")),
		region.NewInfo(2, nil, []byte("t"), []byte("t,m,2.bbbbbbbbbbbbbbbbbbbbbbbbbbbbbbbb."), []byte("m"), []byte("t")),
		region.NewInfo(3, nil, []byte("t"), []byte("t,t,3.cccccccccccccccccccccccccccccccc."), []byte("t"), nil),
	}
}

func c11Setup(kind string, q int, mcs []c11MC) *c11Run {
	r := &c11Run{v: newVConn()}
	dialer := func(ctx context.Context, network, addr string) (net.Conn, error) { return r.v, nil }
	r.rc = region.NewClient("vconn:0", region.RegionClient, q, 0, "verif", time.Hour, nil, dialer, discardLogger)
	if err := r.rc.Dial(context.Background()); err != nil {
		r.broken = "dial"
		return r
	}
	regs := c11RegInfos()
	mk := func(i int, spec c11MC, direct bool) *c11Call {
		ctx, cancel := context.WithCancel(context.Background())
		c := &c11Call{spec: spec, row: c11Row(spec.reg, i), cancel: cancel}
		var opts []func(hrpc.Call) error
		if direct {
			opts = append(opts, hrpc.SkipBatch())
		}
		switch spec.kind {
		case 'g':
			g, _ := hrpc.NewGet(ctx, c11Table, c.row, opts...)
			c.call = g
		case 'a':
			m, _ := hrpc.NewApp(ctx, c11Table, c.row, map[string]map[string][]byte{"f": {"q": []byte("x")}}, opts...)
			c.call = m
		case 's':
			s, _ := hrpc.NewScanRange(ctx, c11Table, c.row, nil)
			c.call = s
		}
		c.call.SetRegion(regs[spec.reg])
		return c
	}
	switch kind {
	case "get":
		r.calls = []*c11Call{mk(0, c11MC{kind: 'g'}, true)}
	case "app":
		r.calls = []*c11Call{mk(0, c11MC{kind: 'a'}, true)}
	case "scan":
		r.calls = []*c11Call{mk(0, c11MC{kind: 's'}, false)}
	case "multi":
		for i, s := range mcs {
			c := mk(i, s, false)
			if s.dropped {
				c.cancel()
			}
			r.calls = append(r.calls, c)
		}
	}
	if !c11Settle() {
		r.broken = "unsettled-after-dial"
		return r
	}
	if kind == "multi" {
		var cs []hrpc.Call
		for _, c := range r.calls {
			cs = append(cs, c.call)
		}
		go r.rc.QueueBatch(context.Background(), cs)
	} else {
		go r.rc.QueueRPC(r.calls[0].call)
	}
	if !c11Settle() {
		r.broken = "unsettled-after-send"
		return r
	}
	r.parseRequest(kind)
	return r
}

func (r *c11Run) parseRequest(kind string) {
	r.v.mu.Lock()
	units := append([][]byte(nil), r.v.written...)
	r.v.mu.Unlock()
	if len(units) < 2 {
		r.broken = "no-request-written"
		return
	}
	var fr []byte
	for _, u := range units[1:] {
		fr = append(fr, u...)
	}
	if len(fr) < 4 || int(binary.BigEndian.Uint32(fr))+4 != len(fr) {
		r.broken = "request-length"
		return
	}
	hb, n := protowire.ConsumeBytes(fr[4:])
	if n < 0 {
		r.broken = "request-header"
		return
	}
	var h pb.RequestHeader
	if proto.Unmarshal(hb, &h) != nil {
		r.broken = "request-header"
		return
	}
	r.wireID = h.GetCallId()
	r.regPos = make([]int, len(r.calls))
	for i := range r.regPos {
		r.regPos[i] = -1
	}
	want := map[string]string{"get": "Get", "app": "Mutate", "scan": "Scan", "multi": "Multi"}[kind]
	if h.GetMethodName() != want {
		r.broken = "request-method-" + h.GetMethodName()
		return
	}
	if kind != "multi" {
		r.nreg = 1
		r.regPos[0] = 0
		return
	}
	rb, n2 := protowire.ConsumeBytes(fr[4+n:])
	var mr pb.MultiRequest
	if n2 < 0 || proto.Unmarshal(rb, &mr) != nil {
		r.broken = "request-body"
		return
	}
	r.nreg = len(mr.GetRegionAction())
	for p, ra := range mr.GetRegionAction() {
		for _, a := range ra.GetAction() {
			var row []byte
			if a.GetGet() != nil {
				row = a.GetGet().GetRow()
			} else {
				row = a.GetMutation().GetRow()
			}
			found := false
			for i, c := range r.calls {
				if bytes.Equal(c.row, row) {
					found = true
					r.regPos[i] = p
					if a.GetIndex() != uint32(i)+1 {
						r.broken = "unexpected-action-index"
					}
				}
			}
			if !found {
				r.broken = "unknown-row-in-request"
			}
		}
	}
	for i, c := range r.calls {
		if c.spec.dropped != (r.regPos[i] < 0) {
			r.broken = "dropped-mismatch"
		}
	}
}

// canonical reports whether the regions appear in the request in the order of their first live call
// (Go map iteration order is random: the set-up is repeated until the order is the canonical one, so
// that a case index always denotes the same scenario).
func (r *c11Run) canonical() bool {
	next := 0
	for i := range r.calls {
		if r.regPos[i] < 0 {
			continue
		}
		if r.regPos[i] > next {
			return false
		}
		if r.regPos[i] == next {
			next++
		}
	}
	return true
}

func (r *c11Run) setupDesc(kind string) string {
	if kind != "multi" {
		return "-"
	}
	var cs []string
	for i, c := range r.calls {
		if c.spec.dropped {
			cs = append(cs, "x")
		} else {
			cs = append(cs, fmt.Sprintf("%c%d", c.spec.kind, r.regPos[i]))
		}
	}
	return fmt.Sprintf("%d:%s", r.nreg, strings.Join(cs, "."))
}

func (r *c11Run) readGate() *gate {
	for _, g := range r.v.Pending() {
		if g.kind == "read" {
			return g
		}
	}
	return nil
}

func (r *c11Run) feed(data []byte, err error) bool {
	g := r.readGate()
	if g == nil {
		return false
	}
	r.v.take(g)
	g.ch <- gateRes{data: exact(data), err: err}
	return true
}

func c11Payload(msg proto.Message) string {
	switch m := msg.(type) {
	case *pb.GetResponse:
		if m.Result == nil {
			return "n"
		}
		return strconv.Itoa(len(m.Result.Cell))
	case *pb.MutateResponse:
		if m.Result == nil {
			return "n"
		}
		return strconv.Itoa(len(m.Result.Cell))
	case *pb.ScanResponse:
		return "S" + strings.ReplaceAll(scanResultsStr(m.Results), ".", ",")
	case nil:
		return "nil"
	}
	return "other"
}

// c11Settle waits until every other goroutine is parked in a state it cannot leave by itself
// (channel operation, select, mutex, condition variable, network wait). Stricter than settle():
// any other state (running, runnable, syscall, GC assist, sleep, …) counts as still busy.
func c11Settle() bool {
	buf := make([]byte, 1<<20)
	me := curGID()
	quiet := 0
	deadline := time.Now().Add(5 * time.Second)
	for time.Now().Before(deadline) {
		runtime.Gosched()
		n := runtime.Stack(buf, true)
		busy := false
		for _, blk := range bytes.Split(buf[:n], []byte("\n\n")) {
			if !bytes.HasPrefix(blk, []byte("goroutine ")) {
				continue
			}
			line := blk
			if i := bytes.IndexByte(blk, '\n'); i >= 0 {
				line = blk[:i]
			}
			f := bytes.Fields(line)
			if len(f) < 3 {
				continue
			}
			id, _ := strconv.ParseInt(string(f[1]), 10, 64)
			if id == me {
				continue
			}
			st := string(bytes.Trim(bytes.Join(f[2:], []byte(" ")), "[]:"))
			parked := false
			// ("semacquire" is NOT in the list: it is the state of a goroutine that wants to start a
			// GC cycle while this function's own runtime.Stack holds the world semaphore)
			for _, p := range []string{"chan receive", "chan send", "select", "sync.", "IO wait"} {
				if strings.HasPrefix(st, p) {
					parked = true
				}
			}
			if !parked {
				busy = true
			}
		}
		if !busy {
			quiet++
			if quiet >= 3 {
				return true
			}
			if quiet == 2 {
				time.Sleep(150 * time.Microsecond) // one more look a little later
			}
		} else {
			quiet = 0
			if time.Until(deadline) < 4900*time.Millisecond {
				time.Sleep(200 * time.Microsecond)
			}
		}
	}
	return false
}

// goroutineStates: is the reader goroutine alive, and how many goroutines are inside the region package.
func c11Goroutines() (reader bool, inRegion int) {
	buf := make([]byte, 1<<20)
	n := runtime.Stack(buf, true)
	for _, blk := range bytes.Split(buf[:n], []byte("\n\n")) {
		if bytes.Contains(blk, []byte("gohbase/region.")) && !bytes.Contains(blk, []byte("main.c11")) {
			inRegion++
			if bytes.Contains(blk, []byte(").receiveRPCs")) {
				reader = true
			}
		}
	}
	return
}

// observe drains the result channels; returns "<per-call results> <d0|d1> <reader state>".
func (r *c11Run) observe(settled bool) string {
	// the reader's state first, before anything is taken out of the result channels: a real caller
	// takes exactly one result, so a reader blocked on a second send stays blocked
	st := "exited"
	for try := 0; ; try++ {
		alive, _ := c11Goroutines()
		st = "exited"
		switch {
		case !settled:
			st = "busy"
		case r.readGate() != nil:
			st = "parked"
		case alive:
			st = "blocked"
		}
		if st != "blocked" || try >= 10 {
			break
		}
		// make sure it is not a reader caught between two blocking points
		time.Sleep(20 * time.Millisecond)
		c11Settle()
	}
	d := "d0"
	if region.VerifIsDone(r.rc) {
		d = "d1"
	}
	for _, c := range r.calls {
		for {
			select {
			case res := <-c.call.ResultChan():
				s := errClass(res.Error)
				if res.Error == nil {
					s = "ok:" + c11Payload(res.Msg)
				}
				c.results = append(c.results, s)
				if st == "blocked" {
					c11Settle() // let a sender that was blocked on this channel proceed
				}
				continue
			default:
			}
			break
		}
	}
	var rs []string
	for _, c := range r.calls {
		if len(c.results) == 0 {
			rs = append(rs, "none")
		} else {
			rs = append(rs, strings.Join(c.results, "+"))
		}
	}
	return fmt.Sprintf("%s %s %s", strings.Join(rs, "."), d, st)
}

// finish closes the client and reports the total results per call and the goroutines left inside
// the region package.
func (r *c11Run) finish() (string, bool) {
	go r.rc.Close()
	ok := c11Settle()
	for try := 0; try < 100 && !region.VerifIsDone(r.rc); try++ {
		// Close closes c.done before anything else: "not done" here is the Close goroutine not
		// having run yet, not a property of the client
		time.Sleep(5 * time.Millisecond)
		ok = c11Settle()
	}
	obs := r.observe(ok)
	_, left := c11Goroutines()
	clean := ok && left == 0 && !strings.Contains(obs, "blocked") && !strings.Contains(obs, "busy")
	return fmt.Sprintf("%s left=%d", obs, left), clean
}

// c11RunWire runs a frame or raw case; returns the line and whether the process is still clean.
func c11RunWire(c *c11Case) (string, bool) {
	var r *c11Run
	for try := 0; ; try++ {
		r = c11Setup(c.kind, c.q, c.calls)
		// (two regions: the canonical order comes up every other time; three regions: one order in
		// six or eight, so the limit is generous)
		if r.broken != "" || r.canonical() || try > 400 {
			break
		}
		go r.rc.Close()
		c11Settle()
	}
	if r.broken != "" {
		return fmt.Sprintf("c11 broken %s %s", c.kind, r.broken), false
	}
	if !r.canonical() {
		return fmt.Sprintf("c11 broken %s region-order", c.kind), false
	}
	head := fmt.Sprintf("%s %d %s", c.kind, c.q, r.setupDesc(c.kind))
	if c.lateCancel {
		for _, cl := range r.calls {
			cl.cancel()
		}
	}
	if c.op == "frame" {
		bf := c.f.build(c.kind, r.wireID)
		if len(bf.bytes) > 4000 {
			return fmt.Sprintf("c11 broken %s frame-too-long", c.kind), true
		}
		if !r.feed(bf.bytes, nil) {
			return fmt.Sprintf("c11 broken %s no-read-gate", c.kind), false
		}
		ok := c11Settle()
		obs := r.observe(ok)
		fin, clean := r.finish()
		return fmt.Sprintf("c11 frame %s %s %s %s", head, bf.desc, obs, fin), clean && ok
	}
	data := c.rawBytes(r.wireID)
	if !r.feed(data, nil) {
		return fmt.Sprintf("c11 broken %s no-read-gate", c.kind), false
	}
	ok := c11Settle()
	obs1 := r.observe(ok)
	// the server goes away: EOF at the next read (if the reader is still reading)
	r.feed(nil, io.EOF)
	ok2 := c11Settle()
	obs2 := r.observe(ok2)
	fin, clean := r.finish()
	return fmt.Sprintf("c11 raw %s %s %s %s %s", head, hx(data), obs1, obs2, fin), clean && ok && ok2
}

// rawBytes derives the byte string of a raw case from a valid frame for this kind.
func (c *c11Case) rawBytes(wireID uint32) []byte {
	b := c.rawBytes0(wireID)
	// every length prefix the client will read stays within a sane frame size (16 MiB): the client
	// allocates make([]byte, size) before reading (not modelled). The stream ends before a larger one.
	for o := 0; o+4 <= len(b); {
		size := binary.BigEndian.Uint32(b[o:])
		if size > 1<<24 {
			return b[:o]
		}
		o += 4 + int(size)
	}
	return b
}

func (c *c11Case) rawBytes0(wireID uint32) []byte {
	base := c.f.build(c.kind, wireID).bytes
	parts := strings.Split(c.rawMode, ":")
	switch parts[0] {
	case "trunc":
		n, _ := strconv.Atoi(parts[1])
		if n > len(base) {
			n = len(base)
		}
		return base[:n]
	case "flip":
		rng := NewRNG(c.rawSeed, "c11flip")
		b := append([]byte(nil), base...)
		for k := 0; k < 8; k++ {
			pos := rng.Intn(len(b))
			old := b[pos]
			switch rng.Intn(4) {
			case 0:
				b[pos] ^= 1 << uint(rng.Intn(8))
			case 1:
				b[pos] = byte(rng.Intn(256))
			case 2:
				b[pos] = 0xff
			case 3:
				b[pos] = 0
			}
			// a sane frame size: the length prefix may lie, but not ask for more than 16 MiB
			if pos < 4 && binary.BigEndian.Uint32(b) > 1<<24 {
				b[pos] = old
				continue
			}
			if b[pos] != old {
				break
			}
		}
		return b
	case "rand":
		n, _ := strconv.Atoi(parts[1])
		rng := NewRNG(c.rawSeed, "c11rand")
		b := make([]byte, n)
		for i := range b {
			b[i] = byte(rng.Intn(256))
		}
		if n >= 4 {
			// mostly plausible length prefixes
			switch rng.Intn(3) {
			case 0:
				binary.BigEndian.PutUint32(b, uint32(n-4))
			case 1:
				binary.BigEndian.PutUint32(b, uint32(rng.Intn(n+8)))
			default:
				if binary.BigEndian.Uint32(b) > 1<<24 {
					b[0] = 0
				}
			}
			if n >= 8 && rng.Bool() {
				// a header that decodes: call id of the outstanding call
				hb, _ := proto.Marshal(&pb.ResponseHeader{CallId: u32(wireID)})
				if 5+len(hb) <= n {
					b[4] = byte(len(hb))
					copy(b[5:], hb)
				}
			}
		}
		return b
	}
	return base
}

// ------------------------------------------------------------------ region info, coalescing

// c11RunMetaRow: a meta row with the given key is parsed; if the client accepts it, the region it
// describes goes where such regions go next: into the location cache (next to another region of
// the table) and under a lookup.
func c11RunMetaRow(c *c11Case) string {
	row := exact(c.metaRow)
	cells := []*hrpc.Cell{
		{Row: row, Family: []byte("info"), Qualifier: []byte("regioninfo"), Value: exact(c.infoVal)},
		{Row: row, Family: []byte("info"), Qualifier: []byte("server"), Value: []byte("host:16020")},
	}
	impl := func() (res string) {
		defer func() {
			if r := recover(); r != nil {
				res = "panic"
			}
		}()
		reg, _, err := region.ParseRegionInfo(&hrpc.Result{Cells: cells})
		if err != nil {
			return "err"
		}
		cache := gohbase.VerifNewCache()
		cache.Put(region.NewInfo(1, nil, []byte("t"), []byte("t,,1.aaaa."), nil, []byte("a")))
		cache.Put(reg)
		cache.Get(gohbase.VerifSearchKey([]byte("t"), []byte("b")))
		cache.Get(gohbase.VerifSearchKey(gohbase.VerifFullyQualifiedTable(reg), reg.StartKey()))
		cache.GetOverlaps(reg)
		cache.Put(region.NewInfo(9, nil, []byte("t"), []byte("t,a,9.bbbb."), []byte("a"), []byte("c")))
		cache.Del(reg)
		return "ok"
	}()
	return fmt.Sprintf("c11 metarow %s %s", hx(row), impl)
}

type c11ExtraSrv struct{ resp *pb.ScanResponse }

func (f *c11ExtraSrv) SendRPC(call hrpc.Call) (proto.Message, error) {
	call.SetRegion(region.NewInfo(1, nil, []byte("t"), []byte("t,,1.x."), nil, nil))
	// as the region client does: the response is decoded from its wire form into NewResponse()
	b, _ := proto.Marshal(f.resp)
	m := call.NewResponse()
	if err := proto.Unmarshal(b, m); err != nil {
		return nil, err
	}
	return m, nil
}

// c11RunScanExtra: a structurally valid ScanResponse carrying optional parts the scan did not ask
// for (scan metrics without TrackScanMetrics, a scanner id equal to the client's sentinel, …) goes
// to the scanner; Next either yields rows / io.EOF or reports an error.
func c11RunScanExtra(c *c11Case) string {
	no, yes := false, true
	resp := &pb.ScanResponse{MoreResults: &no, MoreResultsInRegion: &no,
		Results: []*pb.Result{{Cell: []*pb.Cell{{Row: []byte("a"), Family: []byte("f"), Qualifier: []byte("q"), Value: []byte("v")}}}}}
	var opts []func(hrpc.Call) error
	switch c.rawMode {
	case "metrics-untracked":
		resp.ScanMetrics = &pb.ScanMetrics{Metrics: []*pb.NameInt64Pair{{Name: proto.String("ROWS_SCANNED"), Value: proto.Int64(1)}}}
	case "metrics-tracked":
		resp.ScanMetrics = &pb.ScanMetrics{Metrics: []*pb.NameInt64Pair{{Name: proto.String("ROWS_SCANNED"), Value: proto.Int64(1)}}}
		opts = append(opts, hrpc.TrackScanMetrics())
	case "metrics-noname":
		resp.ScanMetrics = &pb.ScanMetrics{Metrics: []*pb.NameInt64Pair{{Value: proto.Int64(1)}}}
		opts = append(opts, hrpc.TrackScanMetrics())
	case "sentinel-scanner-id":
		resp.ScannerId = proto.Uint64(1<<64 - 1)
		resp.MoreResultsInRegion = &yes
		resp.MoreResults = nil
	}
	scan, err := hrpc.NewScanStr(context.Background(), "t", opts...)
	if err != nil {
		return "c11 scanextra " + c.rawMode + " build-error"
	}
	sc := gohbase.VerifNewScanner(&c11ExtraSrv{resp: resp}, scan)
	impl := func() (res string) {
		defer func() {
			if r := recover(); r != nil {
				res = "panic"
			}
		}()
		done := make(chan string, 1)
		go func() {
			defer func() {
				if r := recover(); r != nil {
					done <- "panic"
				}
			}()
			n := 0
			for n < 50 {
				_, err := sc.Next()
				if err != nil {
					if err == io.EOF {
						done <- fmt.Sprintf("eof-after-%d", n)
					} else {
						done <- "err"
					}
					return
				}
				n++
			}
			done <- "no-end-after-50-rows"
		}()
		select {
		case r := <-done:
			return r
		case <-time.After(5 * time.Second):
			return "hang"
		}
	}()
	sc.Close()
	return fmt.Sprintf("c11 scanextra %s %s", c.rawMode, impl)
}

// c11RunIncr: the answer to an Increment carries one cell whose value has the given length.
func c11RunIncr(c *c11Case) string {
	cl := newSimCluster()
	r := cl.addRegion(nil, []byte("t"), nil, nil, "rs1:1")
	r.mutateValue = exact(c.infoVal)
	if r.mutateValue == nil {
		r.mutateValue = []byte{}
	}
	sc := newSimClient(cl)
	defer sc.cl.Close()
	impl := func() (res string) {
		defer func() {
			if rec := recover(); rec != nil {
				res = "panic"
			}
		}()
		ctx, cancel := context.WithTimeout(context.Background(), 5*time.Second)
		defer cancel()
		inc, err := hrpc.NewIncStrSingle(ctx, "t", "k", "f", "q", 1)
		if err != nil {
			return "build-" + err.Error()
		}
		if _, err := sc.cl.Increment(inc); err != nil {
			return "err"
		}
		return "ok"
	}()
	return fmt.Sprintf("c11 incr %d %s", len(c.infoVal), impl)
}

func c11RunInfo(c *c11Case) string {
	val := exact(c.infoVal)
	pbs := "short"
	if len(val) >= 4 {
		var ri pb.RegionInfo
		switch {
		case proto.Unmarshal(val[4:], &ri) != nil:
			pbs = "err"
		case ri.GetOffline():
			pbs = "offline"
		default:
			pbs = "ok"
		}
	}
	cells := []*hrpc.Cell{{Row: []byte("t,,1.aaaa."), Family: []byte("info"), Qualifier: []byte("regioninfo"), Value: val}}
	srv := "_"
	if c.infoSrv != nil {
		srv = hx([]byte(*c.infoSrv))
		cells = append(cells, &hrpc.Cell{Row: []byte("t,,1.aaaa."), Family: []byte("info"), Qualifier: []byte("server"),
			Value: exact([]byte(*c.infoSrv))})
	}
	cells = append(cells, &hrpc.Cell{Row: []byte("t,,1.aaaa."), Family: []byte("info"), Qualifier: []byte("seqnumDuringOpen"),
		Value: []byte{1}})
	impl := func() (res string) {
		defer func() {
			if r := recover(); r != nil {
				res = "panic"
			}
		}()
		reg, addr, err := region.ParseRegionInfo(&hrpc.Result{Cells: cells})
		if err != nil {
			return "err"
		}
		if reg == nil || addr == "" {
			return "bad"
		}
		return "ok"
	}()
	return fmt.Sprintf("c11 info %s %s %s %s", hx(val), srv, pbs, impl)
}

type c11FakeRPC struct {
	gohbase.RPCClient
	script [][]c11CoRes
	pos    int
	reg    hrpc.RegionInfo
}

func (f *c11FakeRPC) SendRPC(rpc hrpc.Call) (proto.Message, error) {
	rpc.SetRegion(f.reg)
	resp := &pb.ScanResponse{MoreResultsInRegion: bp(true)}
	if f.pos < len(f.script) {
		for _, r := range f.script[f.pos] {
			res := &pb.Result{}
			for i := 0; i < r.cells; i++ {
				ts := uint64(1)
				res.Cell = append(res.Cell, &pb.Cell{Row: []byte(fmt.Sprintf("row%d", r.row)), Family: []byte("f"),
					Qualifier: []byte(fmt.Sprintf("q%d", i)), Timestamp: &ts, CellType: pb.CellType_PUT.Enum(), Value: []byte("v")})
			}
			if r.partial {
				res.Partial = bp(true)
			}
			if r.stale {
				res.Stale = bp(true)
			}
			resp.Results = append(resp.Results, res)
		}
	}
	f.pos++
	if f.pos >= len(f.script) {
		resp.MoreResults = bp(false)
	}
	return resp, nil
}

func c11RunCoalesce(c *c11Case) string {
	var sc []string
	for _, resp := range c.script {
		var rs []string
		for _, r := range resp {
			fl := "f"
			if r.partial {
				fl = "p"
			}
			if r.stale {
				fl += "s"
			}
			rs = append(rs, fmt.Sprintf("%d:%d:%s", r.row, r.cells, fl))
		}
		if len(rs) == 0 {
			sc = append(sc, "-")
		} else {
			sc = append(sc, strings.Join(rs, ","))
		}
	}
	scs := "-"
	if len(sc) > 0 {
		scs = strings.Join(sc, ";")
	}
	impl := func() (res string) {
		defer func() {
			if r := recover(); r != nil {
				res = "panic"
			}
		}()
		var opts []func(hrpc.Call) error
		if c.allowPartial {
			opts = append(opts, hrpc.AllowPartialResults())
		}
		scan, err := hrpc.NewScanRange(context.Background(), c11Table, nil, nil, opts...)
		if err != nil {
			return "badscan"
		}
		fake := &c11FakeRPC{script: c.script, reg: c11RegInfos()[0]}
		s := gohbase.VerifNewScanner(fake, scan)
		var out []string
		for i := 0; i < 1000; i++ {
			r, err := s.Next()
			if err == io.EOF {
				out = append(out, "EOF")
				return strings.Join(out, ",")
			}
			if err != nil {
				out = append(out, "err")
				return strings.Join(out, ",")
			}
			row := "-"
			for _, cl := range r.Cells {
				if row == "-" {
					row = string(cl.Row[3:])
				} else if row != string(cl.Row[3:]) {
					row = "mixed"
				}
			}
			fl := "f"
			if r.Partial {
				fl = "p"
			}
			if r.Stale {
				fl += "s"
			}
			out = append(out, fmt.Sprintf("%s:%d:%s", row, len(r.Cells), fl))
		}
		return "spin"
	}()
	ap := 0
	if c.allowPartial {
		ap = 1
	}
	return fmt.Sprintf("c11 coalesce %d %s %s", ap, scs, impl)
}

// ------------------------------------------------------------------ static description (crash lines)

func (c *c11Case) desc() string {
	switch c.op {
	case "info":
		return "info " + hx(c.infoVal)
	case "metarow":
		return "metarow " + hx(c.metaRow)
	case "scanextra":
		return "scanextra " + c.rawMode
	case "incr":
		return fmt.Sprintf("incr %d", len(c.infoVal))
	case "coalesce":
		return fmt.Sprintf("coalesce %v %v", c.allowPartial, c.script)
	}
	var cs []string
	for _, m := range c.calls {
		s := string(m.kind) + strconv.Itoa(m.reg)
		if m.dropped {
			s += "x"
		}
		cs = append(cs, s)
	}
	calls := "-"
	if len(cs) > 0 {
		calls = strings.Join(cs, ".")
	}
	// the frame as it would be built for wire id 1 (the first call of a fresh client)
	bf := c.f.build(c.kind, 1)
	if c.op == "raw" {
		return fmt.Sprintf("%s q=%d calls=%s raw=%s bytes=%s", c.kind, c.q, calls, c.rawMode, hx(c.rawBytes(1)))
	}
	return fmt.Sprintf("%s q=%d calls=%s frame=[%s] bytes=%s", c.kind, c.q, calls, bf.desc, hx(bf.bytes))
}

func (c *c11Case) crashKind() string {
	switch c.op {
	case "info", "coalesce", "metarow", "incr", "scanextra":
		return c.op
	}
	return c.kind
}

// ------------------------------------------------------------------ child / parent

func c11RunOne(c *c11Case) (line string, clean bool) {
	switch c.op {
	case "info":
		return c11RunInfo(c), true
	case "metarow":
		return c11RunMetaRow(c), true
	case "scanextra":
		return c11RunScanExtra(c), true
	case "incr":
		return c11RunIncr(c), true
	case "coalesce":
		return c11RunCoalesce(c), true
	}
	return c11RunWire(c)
}

// child: runs the cases of its shard from position start on; prints B/R lines unbuffered.
func c11Child(cases []*c11Case, spec string) {
	// wire-declared allocation sizes (make([]*pb.Cell, count)) must not eat the machine's memory
	lim := syscall.Rlimit{Cur: 4 << 30, Max: 4 << 30}
	syscall.Setrlimit(syscall.RLIMIT_AS, &lim)
	var idxs []int
	if strings.HasPrefix(spec, "only:") {
		k, _ := strconv.Atoi(spec[5:])
		idxs = []int{k}
	} else {
		var s, n, start int
		fmt.Sscanf(spec, "shard:%d/%d:%d", &s, &n, &start)
		p := 0
		for i := range cases {
			if i%n == s {
				if p >= start {
					idxs = append(idxs, i)
				}
				p++
			}
		}
	}
	for _, i := range idxs {
		if i < 0 || i >= len(cases) {
			continue
		}
		fmt.Fprintf(os.Stdout, "B %d\n", i)
		line, clean := c11RunOne(cases[i])
		fmt.Fprintf(os.Stdout, "R %d %s\n", i, line)
		if !clean {
			os.Exit(0) // a goroutine is left blocked or spinning: start from a fresh process
		}
	}
}

func c11Sanitize(s string) string {
	s = strings.TrimSpace(s)
	s = strings.ReplaceAll(s, " ", "_")
	if len(s) > 160 {
		s = s[:160]
	}
	return s
}

// c11Parent runs the given case indices in child processes and returns one line per index.
func c11Parent(tier string, seed uint64, cases []*c11Case, idxs []int, nShards int) map[int]string {
	res := map[int]string{}
	var mu sync.Mutex
	put := func(i int, l string) {
		mu.Lock()
		res[i] = l
		mu.Unlock()
	}
	runChild := func(spec string, mine []int) {
		// mine: the case indices this spec covers, in order
		pos := 0
		for pos < len(mine) {
			sp := spec
			if strings.HasPrefix(spec, "shard:") {
				sp = fmt.Sprintf("%s:%d", spec, pos)
			}
			cmd := exec.Command(os.Args[0], "C11", tier, fmt.Sprint(seed))
			cmd.Env = append(os.Environ(), "VERIF_C11_CHILD="+sp, "GOMAXPROCS=2", "GOTRACEBACK=single")
			var stderr bytes.Buffer
			cmd.Stderr = &stderr
			stdout, err := cmd.StdoutPipe()
			if err != nil || cmd.Start() != nil {
				for _, i := range mine[pos:] {
					put(i, "c11 broken child cannot-start")
				}
				return
			}
			begun, progressed := -1, false
			lines := make(chan string, 16)
			go func() {
				sc := bufio.NewScanner(stdout)
				sc.Buffer(make([]byte, 1<<20), 1<<24)
				for sc.Scan() {
					lines <- sc.Text()
				}
				close(lines)
			}()
			hung := false
		loop:
			for {
				select {
				case l, ok := <-lines:
					if !ok {
						break loop
					}
					if strings.HasPrefix(l, "B ") {
						begun, _ = strconv.Atoi(l[2:])
					} else if strings.HasPrefix(l, "R ") {
						rest := l[2:]
						sp := strings.IndexByte(rest, ' ')
						i, _ := strconv.Atoi(rest[:sp])
						put(i, rest[sp+1:])
						begun = -1
						progressed = true
						for pos < len(mine) && mine[pos] <= i {
							pos++
						}
					}
				case <-time.After(60 * time.Second):
					hung = true
					cmd.Process.Kill() // our own child only
					break loop
				}
			}
			cmd.Wait()
			if begun >= 0 {
				c := cases[begun]
				first := ""
				for _, l := range strings.Split(stderr.String(), "\n") {
					if strings.HasPrefix(l, "panic:") || strings.HasPrefix(l, "fatal error:") ||
						strings.HasPrefix(l, "runtime: out of memory") {
						first = l
						break
					}
				}
				word := "crash"
				if hung {
					word = "hang"
				} else if strings.Contains(stderr.String(), "out of memory") || strings.Contains(stderr.String(), "cannot allocate") {
					word = "oom"
				}
				put(begun, fmt.Sprintf("c11 %s %s %s why=%s", word, c.crashKind(), c.desc(), c11Sanitize(first)))
				progressed = true
				for pos < len(mine) && mine[pos] <= begun {
					pos++
				}
			}
			if !progressed {
				for _, i := range mine[pos:] {
					put(i, "c11 broken child died-without-progress "+c11Sanitize(stderr.String()))
				}
				return
			}
		}
	}
	if len(idxs) == 1 {
		runChild(fmt.Sprintf("only:%d", idxs[0]), idxs)
		return res
	}
	var wg sync.WaitGroup
	for s := 0; s < nShards; s++ {
		var mine []int
		for i := range cases {
			if i%nShards == s {
				mine = append(mine, i)
			}
		}
		wg.Add(1)
		go func(s int, mine []int) {
			defer wg.Done()
			runChild(fmt.Sprintf("shard:%d/%d", s, nShards), mine)
		}(s, mine)
	}
	wg.Wait()
	return res
}

func runC11(tier string, seed uint64, out *Out) {
	// building the case list runs no code under test and, in the thorough tier on a loaded machine,
	// can take longer than the guard's no-output limit: say so while it lasts (harness/common.go
	// drops lines that start with '#')
	stopBeat := heartbeat("generating the C11 cases")
	cases := genC11(tier, seed)
	stopBeat()
	if spec := os.Getenv("VERIF_C11_CHILD"); spec != "" {
		c11Child(cases, spec)
		return
	}
	var res map[int]string
	if out.only >= 0 {
		if out.only < len(cases) {
			res = c11Parent(tier, seed, cases, []int{out.only}, 1)
		}
	} else {
		idxs := make([]int, len(cases))
		for i := range idxs {
			idxs[i] = i
		}
		res = c11Parent(tier, seed, cases, idxs, 12)
	}
	for i := range cases {
		if l, ok := res[i]; ok {
			out.Line("%s", l)
		} else if out.only >= 0 {
			out.n++
		} else {
			out.Line("c11 broken case-%d no-result", i)
		}
	}
}
