package main

// C01 (function level): a real *client (VerifNewClient, no ZooKeeper) — its location cache is
// driven with the C08 op sequences and after the ops the real getRegionFromCache is asked for
// every key of a small adversarial key set in every table; plus first-touch routing over random
// contiguous layouts (cache lookup, else meta answer, put, retry — the real cache pieces, with
// hbase:meta played by the harness).

import (
	"bytes"
	"fmt"
	"strconv"
	"strings"

	"github.com/tsuna/gohbase"
	"github.com/tsuna/gohbase/hrpc"
	"github.com/tsuna/gohbase/region"
)

func init() { props["C01"] = runC01 }

type clientCache struct{ c *gohbase.VerifClient }

func (cc clientCache) Put(r hrpc.RegionInfo) ([]hrpc.RegionInfo, bool) { return cc.c.RegionsPut(r) }
func (cc clientCache) Del(r hrpc.RegionInfo) bool                      { return cc.c.RegionsDel(r) }
func (cc clientCache) Dump() []hrpc.RegionInfo                         { return cc.c.CachedRegions() }

func safeLookup(c *gohbase.VerifClient, t, k []byte) (r hrpc.RegionInfo, panicked bool) {
	defer func() {
		if e := recover(); e != nil {
			panicked = true
		}
	}()
	r = c.GetRegionFromCache(t, k)
	return
}

func (s *seqRun) lookups(c *gohbase.VerifClient, tables [][]byte, keys [][]byte) string {
	p := make([]string, 0, len(tables)*len(keys))
	for _, t := range tables {
		for _, k := range keys {
			r, pan := safeLookup(c, t, k)
			switch {
			case pan:
				p = append(p, "p")
			case r == nil:
				p = append(p, "n")
			default:
				j, ok := s.byObj[r]
				if !ok {
					j = 999999
				}
				p = append(p, strconv.Itoa(j))
			}
		}
	}
	return strings.Join(p, ".")
}

func hxList(bs [][]byte) string {
	p := make([]string, len(bs))
	for i, b := range bs {
		p[i] = hx(b)
	}
	return strings.Join(p, ".")
}

// c01Line runs put/del ops on a fresh real client; lookups after every op (everyOp) or only
// after the last one (exhaustive enumerations are prefix-closed, so that loses nothing).
func c01Line(ops []cacheOp, tables, keys [][]byte, everyOp bool) string {
	s := newSeqRun()
	vc := gohbase.VerifNewClient(nil, false, nil)
	c := clientCache{vc}
	for n, op := range ops {
		i := s.add(op.d)
		o := s.objs[i]
		doLook := everyOp || n == len(ops)-1
		lk := ""
		switch op.kind {
		case 'd':
			ok, pan := safeDel(c, o)
			if pan {
				s.toks = append(s.toks, fmt.Sprintf("del:%d:panic", i))
				continue
			}
			if doLook {
				lk = s.lookups(vc, tables, keys)
			}
			s.toks = append(s.toks, fmt.Sprintf("del:%d:%s:%s:%s:%s", i, b01(ok), s.idxList(c.Dump()), s.deadList(), lk))
		default:
			ov, rep, pan := safePut(c, o)
			if pan {
				s.toks = append(s.toks, fmt.Sprintf("put:%d:panic", i))
				continue
			}
			if doLook {
				lk = s.lookups(vc, tables, keys)
			}
			s.toks = append(s.toks, fmt.Sprintf("put:%d:%s:%s:%s:%s:%s", i, s.idxList(ov), b01(rep),
				s.idxList(c.Dump()), s.deadList(), lk))
		}
	}
	var sb strings.Builder
	sb.WriteString("c01 seq")
	for _, d := range s.descs {
		sb.WriteByte(' ')
		sb.WriteString(d.tok())
	}
	sb.WriteString(" T:" + hxList(tables) + " K:" + hxList(keys))
	for _, t := range s.toks {
		sb.WriteByte(' ')
		sb.WriteString(t)
	}
	return sb.String()
}

func fqTables(ts []tableName) [][]byte {
	var o [][]byte
	for _, t := range ts {
		o = append(o, fqOf(t.ns, t.tbl))
	}
	return o
}

// ---------------------------------------------------------------- layouts and first touches

// metaAnswer plays hbase:meta (Env.Meta): greatest row ≤ search key among the table's regions,
// in region.Compare order; layout must be sorted.
func metaAnswer(layout []desc, t, k []byte) int {
	key := gohbase.VerifSearchKey(t, k)
	best := -1
	for i, d := range layout {
		if bytes.Equal(fqOf(d.ns, d.tbl), t) && region.Compare(d.name, key) < 0 {
			best = i
		}
	}
	return best
}

// routeLine: first touches on one fresh client. The loop below is getRegionForRpc/findRegion
// with the real getRegionFromCache and the real cache put; the two acceptance checks of
// metaLookup are re-stated here (no hook reaches them without a server).
func routeLine(layout []desc, touches [][2][]byte) string {
	s := newSeqRun()
	for _, d := range layout {
		s.add(d)
	}
	vc := gohbase.VerifNewClient(nil, false, nil)
	c := clientCache{vc}
	var toks []string
	for _, tk := range touches {
		t, k := tk[0], tk[1]
		res, nl := "n", 0
		func() {
			defer func() {
				if e := recover(); e != nil {
					res = "p"
				}
			}()
			for try := 0; try < gohbase.VerifMaxFindRegionTries; try++ {
				if r := vc.GetRegionFromCache(t, k); r != nil {
					res = strconv.Itoa(s.byObj[r])
					return
				}
				nl++
				mi := metaAnswer(layout, t, k)
				if mi < 0 {
					res = "e"
					return
				}
				m := layout[mi]
				if !bytes.Equal(t, gohbase.VerifFullyQualifiedTable(s.objs[mi])) ||
					(len(m.stop) != 0 && bytes.Compare(k, m.stop) >= 0) {
					res = "e"
					return
				}
				if _, replaced := c.Put(s.objs[mi]); replaced {
					res = strconv.Itoa(mi)
					return
				}
			}
		}()
		toks = append(toks, fmt.Sprintf("r:%s:%s:%s:%d:%s", hx(t), hx(k), res, nl, s.idxList(c.Dump())))
	}
	var sb strings.Builder
	sb.WriteString("c01 route")
	for _, d := range s.descs {
		sb.WriteByte(' ')
		sb.WriteString(d.tok())
	}
	for _, t := range toks {
		sb.WriteByte(' ')
		sb.WriteString(t)
	}
	return sb.String()
}

var layoutTableSets = [][]tableName{
	{{nil, []byte("t")}},
	{{nil, []byte("t")}, {nil, []byte("t2")}},
	{{nil, []byte("t")}, {[]byte("ns"), []byte("t")}},
	{{nil, []byte("t")}, {nil, []byte("t2")}, {[]byte("ns"), []byte("t")}},
	{{nil, []byte("ab")}, {nil, []byte("a")}, {[]byte("a"), []byte("b")}},
	{{[]byte("n"), []byte("t")}, {[]byte("n"), []byte("t.x")}, {nil, []byte("n")}},
	// same namespace, one qualifier a proper suffix / prefix of the other
	{{[]byte("ns"), []byte("t")}, {[]byte("ns"), []byte("xt")}, {[]byte("ns"), []byte("tx")}},
	{{[]byte("m"), []byte("events")}, {[]byte("m"), []byte("raw_events")}},
}

func randomLayout(rng *RNG) ([]desc, [][]byte, [][]byte) {
	ts := layoutTableSets[rng.Intn(len(layoutTableSets))]
	var layout []desc
	var bounds [][]byte
	ids := []uint64{11, 12, 50, 90, 99}
	if rng.Bool() {
		ids = []uint64{1400000000001, 9400000000001, 9999999999999}
	}
	for _, t := range ts {
		n := 1 + rng.Intn(5)
		// n-1 distinct sorted boundaries
		set := map[string]bool{}
		var bs [][]byte
		for len(bs) < n-1 {
			b := rng.Bytes(3, advAlphabet)
			if len(b) == 0 || set[string(b)] {
				continue
			}
			set[string(b)] = true
			bs = append(bs, b)
		}
		for i := range bs {
			for j := i + 1; j < len(bs); j++ {
				if bytes.Compare(bs[j], bs[i]) < 0 {
					bs[i], bs[j] = bs[j], bs[i]
				}
			}
		}
		prev := []byte{}
		for i := 0; i < n; i++ {
			stop := []byte{}
			if i < n-1 {
				stop = bs[i]
			}
			layout = append(layout, mkDesc(t.ns, t.tbl, prev, stop, ids[rng.Intn(len(ids))]))
			prev = stop
		}
		bounds = append(bounds, bs...)
	}
	sortDescs(layout)
	return layout, fqTables(ts), bounds
}

// boundaryKeys: keys equal / adjacent to the boundaries, plus generic ones.
func boundaryKeys(rng *RNG, bounds [][]byte) [][]byte {
	keys := [][]byte{{}, {0x00}, {0xff}, {','}, []byte("a")}
	for _, b := range bounds {
		keys = append(keys, b, succKey(b))
		if len(b) > 0 {
			keys = append(keys, b[:len(b)-1])
			p := append([]byte{}, b...)
			if p[len(p)-1] > 0 {
				p[len(p)-1]--
				keys = append(keys, append(p, 0xff))
			}
			keys = append(keys, append(append([]byte{}, b...), ','), append(append([]byte{}, b...), 0xff, 0xff))
		}
	}
	for i := 0; i < 4; i++ {
		keys = append(keys, rng.Bytes(4, advAlphabet))
	}
	return keys
}

// skLine: createRegionSearchKey on a table name that lives in a larger buffer (cap > len, as a name
// cut out of a request or a pooled buffer does): the key is what the model says, the bytes behind
// the table name stay what they were, and a key built earlier from the same slice stays intact.
func skLine(table, key, key2 []byte) string {
	buf := make([]byte, len(table), len(table)+len(key)+len(key2)+64)
	copy(buf, table)
	tail := buf[len(table):cap(buf)]
	for i := range tail {
		tail[i] = 0xA5
	}
	k1 := gohbase.VerifSearchKey(buf, key)
	k1copy := append([]byte{}, k1...)
	tailChanged := 0
	for _, b := range tail {
		if b != 0xA5 {
			tailChanged++
		}
	}
	gohbase.VerifSearchKey(buf, key2)
	shared := 0
	if !bytes.Equal(k1, k1copy) {
		shared = 1
	}
	return fmt.Sprintf("c01 sk %s %s %s tail=%d shared=%d table=%v", hx(table), hx(key), hx(k1copy), tailChanged, shared, bytes.Equal(buf, table))
}

func runC01(tier string, seed uint64, out *Out) {
	quietLogs()
	for _, t := range [][]byte{[]byte("t"), []byte("ns:tbl"), []byte("a,b")} {
		for _, k := range [][]byte{{}, []byte("k"), []byte("row,1"), bytes.Repeat([]byte{0xff}, 40)} {
			if !out.Want() {
				out.n++
				continue
			}
			out.Line("%s", skLine(t, k, []byte("zz-other")))
		}
	}
	lookTables := fqTables(stdTables)
	smallKeys := allStrings([]byte{0x00, ',', 'a', 'b', 0xff}, 2)
	abcKeys := allStrings([]byte{0x00, 'a', 'b', 'c', 0xff}, 2)
	emitSeq := func(ops []cacheOp, keys [][]byte, everyOp bool) {
		if !out.Want() {
			out.n++
			return
		}
		var po []cacheOp
		for _, o := range ops {
			if o.kind != 'g' {
				po = append(po, o)
			}
		}
		out.Line("%s", c01Line(po, lookTables, keys, everyOp))
	}
	// (1) exhaustive small scope (prefix-closed → lookups after the last op)
	keys4 := [][]byte{{}, []byte("a"), []byte("b"), []byte("c")}
	ranges := wfRanges(keys4)
	uA := descUniverse(stdTables[:1], ranges, []uint64{1, 2})
	maxA := 3
	for n := 1; n <= maxA; n++ {
		enumSeqs(putsOf(uA), nil, n, func(o []cacheOp) { emitSeq(o, abcKeys, false) })
	}
	four := [][2][]byte{{{}, {}}, {{}, []byte("b")}, {[]byte("b"), {}}, {[]byte("a"), []byte("c")}}
	uC := descUniverse(stdTables, four, []uint64{1, 2})
	maxC := 3
	if tier != "quick" {
		maxC = 4
	}
	for n := 1; n <= maxC; n++ {
		if n == 4 {
			k := 0
			enumSeqs(putsOf(uC), nil, n, func(o []cacheOp) {
				k++
				if (uint64(k)+seed)%4 == 0 {
					emitSeq(o, abcKeys, false)
				}
			})
			continue
		}
		enumSeqs(putsOf(uC), nil, n, func(o []cacheOp) { emitSeq(o, abcKeys, false) })
	}
	if tier != "quick" {
		uB := descUniverse(stdTables[:1], ranges, []uint64{1, 2})
		k := 0
		enumSeqs(putsOf(uB), nil, 4, func(o []cacheOp) {
			k++
			if (uint64(k)+seed)%2 == 0 {
				emitSeq(o, abcKeys, false)
			}
		})
	}
	// (2) random sequences over adversarial keys, lookups after every op
	rng := NewRNG(seed, "c01")
	n, nops := 600, 30
	if tier != "quick" {
		n, nops = 20000, 60
	}
	for i := 0; i < n; i++ {
		emitSeq(randomSeq(rng, nops, false), smallKeys, true)
	}
	// (3) first touches over random contiguous layouts
	rl := NewRNG(seed, "c01-layout")
	nl := 4000
	if tier != "quick" {
		nl = 200000
	}
	for i := 0; i < nl; i++ {
		layout, tabs, bounds := randomLayout(rl)
		keys := boundaryKeys(rl, bounds)
		nt := 5 + rl.Intn(20)
		var touches [][2][]byte
		for j := 0; j < nt; j++ {
			t := tabs[rl.Intn(len(tabs))]
			if rl.Intn(12) == 0 {
				// a table the layout does not have, prefix-related
				t = append(append([]byte{}, t...), '2')
			}
			touches = append(touches, [2][]byte{t, keys[rl.Intn(len(keys))]})
		}
		if !out.Want() {
			out.n++
			continue
		}
		out.Line("%s", routeLine(layout, touches))
	}
	// (4) keys around the MaxInt16 truncation of the search key
	long := func(n int, c byte) []byte { return bytes.Repeat([]byte{c}, n) }
	lkeys := [][]byte{long(32762, 'a'), long(32763, 'a'), long(32764, 'a'), long(40000, 'a'), long(32763, 'z'), long(40000, 'z'),
		append(long(32763, 'm'), 'a'), {}}
	ops := []cacheOp{{'p', mkDesc(nil, []byte("t"), []byte{}, []byte("m"), 11)}, {'p', mkDesc(nil, []byte("t"), []byte("m"), []byte{}, 12)},
		{'p', mkDesc(nil, []byte("t"), []byte("m"), long(32763, 'm'), 50)}, {'p', mkDesc(nil, []byte("t"), long(32763, 'm'), []byte{}, 50)}}
	for _, o := range [][]cacheOp{ops[:2], ops} { // the second line is out of domain (over-long start key)
		if out.Want() {
			out.Line("%s", c01Line(o, [][]byte{[]byte("t"), []byte("t2")}, lkeys, true))
		} else {
			out.n++
		}
	}
}
