package main

// C06 / C14: the real client-side scanner (gohbase.VerifNewScanner, build tag verif) is run over a
// fake RPCClient that plays a regionserver cluster according to Env.Scan (DESIGN §5): a sorted
// table split into contiguous regions; every open request gets a fresh region scanner whose rows
// are cut into responses / partial fragments / heartbeats by a chooser (exhaustive DFS over all
// decision sequences for small cases, seeded random beyond). One line per case carries the inputs,
// the replies the fake actually served, the user-level operations performed and everything
// observed: the (result, error) of each Next, the requests the fake saw and its open region
// scanners after the asynchronous close requests drained. The Lean driver (model `c06`) judges.

import (
	"bytes"
	"context"
	"errors"
	"fmt"
	"io"
	"os"
	"runtime"
	"sort"
	"strings"
	"sync"
	"time"

	"github.com/tsuna/gohbase"
	"github.com/tsuna/gohbase/hrpc"
	"github.com/tsuna/gohbase/pb"
	"github.com/tsuna/gohbase/region"
	"google.golang.org/protobuf/proto"
)

func init() {
	props["C06"] = runC06
	props["C14"] = runC14
}

// ---------------------------------------------------------------- chooser

// chooser resolves the fake server's decisions: first from a fixed prefix (exhaustive
// enumeration), then from the RNG if there is one, else 0.
type chooser struct {
	prefix []int
	trail  [][2]int
	rng    *RNG
}

func (c *chooser) pick(n int) int {
	if n <= 1 {
		return 0
	}
	v := 0
	if len(c.trail) < len(c.prefix) {
		v = c.prefix[len(c.trail)] % n
	} else if c.rng != nil {
		v = c.rng.Intn(n)
	}
	c.trail = append(c.trail, [2]int{v, n})
	return v
}

// nextPrefix is the DFS successor of a completed decision trail (nil: enumeration finished).
func nextPrefix(trail [][2]int) []int {
	for i := len(trail) - 1; i >= 0; i-- {
		if trail[i][0]+1 < trail[i][1] {
			p := make([]int, i+1)
			for j := 0; j < i; j++ {
				p[j] = trail[j][0]
			}
			p[i] = trail[i][0] + 1
			return p
		}
	}
	return nil
}

// ---------------------------------------------------------------- case and fake server

type srow struct {
	key []byte
	n   int
}

type scanCase struct {
	start, stop           []byte
	rev, partial, closing bool
	nrows                 uint32
	table                 []srow
	splits                [][]byte
}

type pend struct {
	key     []byte
	from, n int
}

type rscanner struct {
	id      uint64
	reg     int
	pending []pend
	last    bool
}

type sfrag struct {
	key         []byte
	from, count int
	partial     bool
}

type fakeSrv struct {
	mu       sync.Mutex
	c        *scanCase
	ch       *chooser
	chaos    *RNG
	scanners map[uint64]*rscanner
	nextID   uint64
	trace    []string
	replies  []string
	nsync    int
	errAt    int
	hbLeft   int
	maxFrags int
	renewals int           // renewal requests seen
	release  chan struct{} // non-nil: close requests are executed but not answered until it is closed
	noMore   bool          // a response said more_results = false
	maxSync  int           // cut-off for a scanner that does not make progress
	wire     bool          // responses reach the scanner decoded from their wire form (cellblock)
	prio     uint32        // the priority the user's scan was built with (0: none)
	slowOpen bool          // opening a region scanner (except the first) takes longer than the renew interval
	flyAt    int           // the answer to this request is lost: the scan's context ends while it is in flight
	cancelFn func()
	lostOpen bool   // the answer to an opening request was lost: that scanner stays open, nobody can close it
	expectX  string // scanner id the client is expected to close after a lost continuation
}

var errInjected = errors.New("injected rpc failure")
var errUnknownScanner = errors.New("UnknownScannerException")
var errPrioLost = errors.New("request of a prioritised scan without the priority")
var errMisrouted = errors.New("UnknownScannerException (request reached a server that does not hold this scanner)")
var errTooMany = errors.New("too many requests")

func (c *scanCase) regBounds(i int) (start, stop []byte) {
	if i > 0 {
		start = c.splits[i-1]
	}
	if i < len(c.splits) {
		stop = c.splits[i]
	}
	return
}

func (c *scanCase) regHas(i int, k []byte) bool {
	a, b := c.regBounds(i)
	return bytes.Compare(a, k) <= 0 && (len(b) == 0 || bytes.Compare(k, b) < 0)
}

// regionOf routes a request the way the real client does: by its key, whatever the direction
// (the empty key lies in the first region).
func (c *scanCase) regionOf(k []byte, rev bool) int {
	for i := 0; i <= len(c.splits); i++ {
		if c.regHas(i, k) {
			return i
		}
	}
	return 0
}

func inRangeKey(rev bool, start, stop, k []byte) bool {
	if rev {
		return (len(start) == 0 || bytes.Compare(k, start) <= 0) && (len(stop) == 0 || bytes.Compare(stop, k) < 0)
	}
	return bytes.Compare(start, k) <= 0 && (len(stop) == 0 || bytes.Compare(k, stop) < 0)
}

func (f *fakeSrv) info(i int) hrpc.RegionInfo {
	a, b := f.c.regBounds(i)
	name := []byte(fmt.Sprintf("t,%s,%d.x.", a, i))
	return region.NewInfo(uint64(i), nil, []byte("t"), name, a, b)
}

func (f *fakeSrv) SendRPC(call hrpc.Call) (proto.Message, error) {
	scan, ok := call.(*hrpc.Scan)
	if !ok {
		return nil, errors.New("fake: not a scan")
	}
	// like the real client: a request whose own context has ended is not sent at all (QueueRPC
	// drops it) and the caller gets the context error
	if err := call.Context().Err(); err != nil {
		if scan.RenewalScan() {
			return nil, err // a renewal whose renewer was stopped meanwhile: not part of the conversation
		}
		if scan.IsClosing() {
			// a close request built on a context that is already done: the client does not send it,
			// the server never sees it (the scanner it was meant for stays open there)
			return nil, err
		}
		f.mu.Lock()
		f.trace = append(f.trace, "D/-/-/-/0/0")
		f.mu.Unlock()
		return nil, err
	}
	if f.slowOpen && !scan.RenewalScan() {
		// a region that takes a while to open its scanner (busy server, region just moved): longer
		// than the renew interval of the scan
		scan.SetRegion(f.info(f.c.regionOf(scan.Key(), scan.Reversed())))
		if r := scan.ToProto().(*pb.ScanRequest); r.ScannerId == nil {
			f.mu.Lock()
			first := f.nsync == 0
			f.mu.Unlock()
			if !first {
				time.Sleep(3 * renewEvery)
			}
		}
	}
	f.mu.Lock()
	defer f.mu.Unlock()
	c := f.c
	// the request as it goes on the wire (scanner-id form or open form)
	scan.SetRegion(f.info(c.regionOf(scan.Key(), scan.Reversed())))
	req := scan.ToProto().(*pb.ScanRequest)
	if req.GetRenew() {
		// a lease renewal, as HBase treats it: no rows move. With a scanner id the lease of that
		// scanner is renewed; WITHOUT one the server first opens a region scanner (with a lease of
		// its own) and answers at once with its id — nobody will ever close that one.
		f.renewals++
		if req.ScannerId != nil {
			if _, ok := f.scanners[req.GetScannerId()]; !ok {
				return nil, errUnknownScanner
			}
			return &pb.ScanResponse{ScannerId: req.ScannerId, MoreResultsInRegion: proto.Bool(true)}, nil
		}
		id := f.nextID + 5000 + uint64(f.renewals)
		f.scanners[id] = &rscanner{id: id, reg: c.regionOf(scan.Key(), scan.Reversed())}
		return &pb.ScanResponse{ScannerId: proto.Uint64(id), MoreResultsInRegion: proto.Bool(true)}, nil
	}
	closeFlag := req.GetCloseScanner()
	kind := "O"
	idStr := "-"
	startRow, stopRow := scan.Key(), scan.StopRow()
	if req.ScannerId != nil {
		kind = "C"
		if closeFlag {
			kind = "X"
		}
		idStr = fmt.Sprint(req.GetScannerId())
		// (the region of a continuation is, as in the real client, the one its key routes to —
		// set above —, not the one the server-side scanner belongs to)
	} else {
		startRow, stopRow = req.Scan.StartRow, req.Scan.StopRow
	}
	cl := "0"
	if closeFlag {
		cl = "1"
	}
	f.trace = append(f.trace, fmt.Sprintf("%s/%s/%s/%s/%s/%d", kind, hx(startRow), hx(stopRow), idStr, cl, req.GetNumberOfRows()))
	if f.prio > 0 && kind != "X" && hrpc.GetPriority(scan) != f.prio {
		// every request of a scan built with hrpc.Priority(p) goes out with p in its header
		// (region/client.go takes it from the call); only the close request is sent without it
		f.replies = append(f.replies, "E/prioritylost")
		return nil, errPrioLost
	}
	if sc, ok := f.scanners[req.GetScannerId()]; ok && req.ScannerId != nil &&
		sc.reg != c.regionOf(scan.Key(), scan.Reversed()) {
		// the request went, by its key, to the server of another region: nobody there knows this
		// scanner id, and the scanner it means stays open where it is
		f.replies = append(f.replies, "E/misrouted")
		return nil, errMisrouted
	}
	if kind == "X" {
		delete(f.scanners, req.GetScannerId())
		if f.release != nil {
			// a regionserver that executes the close but never answers it (until the run is over)
			f.mu.Unlock()
			<-f.release
			f.mu.Lock()
		}
		return &pb.ScanResponse{}, nil
	}
	idx := f.nsync
	f.nsync++
	if idx == f.errAt {
		f.replies = append(f.replies, "E/rpcerr")
		return nil, errInjected
	}
	if idx >= f.maxSync {
		// a scanner that does not make progress (never the case for a correct one: the largest
		// legitimate conversation here stays far below) is cut off with an RPC error
		f.replies = append(f.replies, "E/toomany")
		return nil, errTooMany
	}
	var sc *rscanner
	isOpen := req.ScannerId == nil
	if isOpen {
		rev := req.Scan.GetReversed()
		ri := c.regionOf(startRow, rev)
		scan.SetRegion(f.info(ri))
		sc = &rscanner{id: f.nextID, reg: ri, last: true}
		f.nextID++
		a, _ := c.regBounds(ri)
		_, b := c.regBounds(ri)
		for j := range c.table {
			r := c.table[j]
			if rev {
				r = c.table[len(c.table)-1-j]
			}
			if !inRangeKey(rev, startRow, stopRow, r.key) {
				continue
			}
			if c.regHas(ri, r.key) {
				sc.pending = append(sc.pending, pend{r.key, 0, r.n})
			} else if (rev && bytes.Compare(r.key, a) < 0) || (!rev && len(b) != 0 && bytes.Compare(b, r.key) <= 0) {
				sc.last = false
			}
		}
	} else {
		sc = f.scanners[req.GetScannerId()]
		if sc == nil {
			f.replies = append(f.replies, "E/unknownscanner")
			return nil, errUnknownScanner
		}
	}
	frs, mi, mr := f.respond(sc)
	withID := true
	if f.chaos != nil {
		frs, mi, mr, withID = f.mutate(frs, mi, mr, isOpen)
	}
	if !mr {
		f.noMore = true
	}
	if mi && !closeFlag && withID {
		// (a region scanner whose id the client is never told is not kept: nobody could close it)
		f.scanners[sc.id] = sc
	} else {
		delete(f.scanners, sc.id)
	}
	// build the response
	resp := &pb.ScanResponse{MoreResultsInRegion: proto.Bool(mi)}
	if !mr {
		resp.MoreResults = proto.Bool(false)
	} else if sc.id%2 == 1 {
		resp.MoreResults = proto.Bool(true)
	}
	idOut := "-"
	if withID {
		resp.ScannerId = proto.Uint64(sc.id)
		idOut = fmt.Sprint(sc.id)
	}
	var fs []string
	for _, fr := range frs {
		res := &pb.Result{Partial: proto.Bool(fr.partial)}
		for q := fr.from; q < fr.from+fr.count; q++ {
			res.Cell = append(res.Cell, &pb.Cell{Row: fr.key, Family: []byte("f"), Qualifier: []byte{byte(q)}, Value: []byte{byte(q)}})
		}
		resp.Results = append(resp.Results, res)
		p := 0
		if fr.partial {
			p = 1
		}
		fs = append(fs, fmt.Sprintf("%s.%d.%d.%d", hx(fr.key), fr.from, fr.count, p))
	}
	if idx == f.flyAt {
		// the server has executed the request; the caller's context ends before the answer is back:
		// the client drops the response (region client: "context has expired, don't bother")
		_, kept := f.scanners[sc.id]
		if isOpen && kept {
			f.lostOpen = true
			f.replies = append(f.replies, "E/lostopen")
		} else {
			f.replies = append(f.replies, "E/canceled")
		}
		if !isOpen {
			// the client named this scanner in the lost request: it knows the id and owes it a close
			f.expectX = fmt.Sprint(req.GetScannerId())
		}
		f.cancelFn()
		return nil, context.Canceled
	}
	ra, rb := c.regBounds(sc.reg)
	f.replies = append(f.replies, fmt.Sprintf("R/%s~%s/%s/%s%s/%s", hx(ra), hx(rb), idOut, c06b01(mi), c06b01(mr), joinOrDash(fs, ",")))
	if f.wire {
		return c06ViaWire(scan, resp)
	}
	return resp, nil
}

// c06ViaWire hands the scanner the response in the form the region client produces: the message
// unmarshalled from its bytes, the results decoded from a cellblock by the Scan's own
// DeserializeCellBlocks (cells_per_result / partial_flag_per_result), not pb.Results built by hand.
func c06ViaWire(scan *hrpc.Scan, resp *pb.ScanResponse) (proto.Message, error) {
	var block []byte
	for _, r := range resp.Results {
		resp.CellsPerResult = append(resp.CellsPerResult, uint32(len(r.Cell)))
		resp.PartialFlagPerResult = append(resp.PartialFlagPerResult, r.GetPartial())
		for _, c := range r.Cell {
			block = hrpc.VerifAppendCellblock(c.Row, string(c.Family), string(c.Qualifier), c.Value, 42, 4, block)
		}
	}
	resp.Results = nil
	b, err := proto.Marshal(resp)
	if err != nil {
		return nil, err
	}
	m := scan.NewResponse()
	if err := proto.Unmarshal(b, m); err != nil {
		return nil, err
	}
	n, err := scan.DeserializeCellBlocks(m, block)
	if err != nil {
		return nil, err
	}
	if int(n) != len(block) {
		return nil, fmt.Errorf("cellblock: %d of %d bytes read", n, len(block))
	}
	return m, nil
}

func c06b01(b bool) string {
	if b {
		return "1"
	}
	return "0"
}

func joinOrDash(s []string, sep string) string {
	if len(s) == 0 {
		return "-"
	}
	return strings.Join(s, sep)
}

// respond cuts the next response out of a region scanner's pending rows (Env.Scan).
func (f *fakeSrv) respond(sc *rscanner) (frs []sfrag, mi, mr bool) {
	mi, mr = true, true
	if f.hbLeft > 0 && f.ch.pick(2) == 1 {
		f.hbLeft--
		return nil, true, true // heartbeat
	}
	if len(sc.pending) > 0 {
		total := 0
		for _, p := range sc.pending {
			total += p.n - p.from
		}
		maxk := f.maxFrags
		if total < maxk {
			maxk = total
		}
		k := 1 + f.ch.pick(maxk)
		for j := 0; j < k && len(sc.pending) > 0; j++ {
			p := &sc.pending[0]
			rem := p.n - p.from
			take := rem - f.ch.pick(rem)
			frs = append(frs, sfrag{p.key, p.from, take, take < rem})
			p.from += take
			if p.from == p.n {
				sc.pending = sc.pending[1:]
			}
		}
	}
	if len(sc.pending) == 0 {
		// 0: "no more in region" on this response; 1 (only if it carries rows): reported by a later
		// empty response; with nothing beyond: 2 = more_results=false, region scanner closed,
		// 3 = more_results=false with the region scanner left open.
		var opts []int
		opts = append(opts, 0)
		if len(frs) > 0 {
			opts = append(opts, 1)
		}
		if sc.last {
			opts = append(opts, 2, 3)
		}
		switch opts[f.ch.pick(len(opts))] {
		case 0:
			mi = false
		case 1:
		case 2:
			mi, mr = false, false
		case 3:
			mr = false
		}
	}
	return
}

// mutate makes a response non-conforming now and then (model fidelity outside Env.Scan).
func (f *fakeSrv) mutate(frs []sfrag, mi, mr, isOpen bool) ([]sfrag, bool, bool, bool) {
	r := f.chaos
	withID := true
	switch r.Intn(12) {
	case 0:
		if isOpen {
			withID = false
		}
	case 1:
		if len(frs) > 0 {
			i := r.Intn(len(frs))
			frs[i].partial = !frs[i].partial
		}
	case 2:
		i := r.Intn(len(frs) + 1)
		frs = append(frs[:i:i], append([]sfrag{{nil, 0, 0, r.Bool()}}, frs[i:]...)...)
	case 3:
		if len(frs) > 0 {
			i := r.Intn(len(frs))
			frs = append(frs[:i+1:i+1], frs[i:]...)
		}
	case 4:
		mi = false
	case 5:
		mr = false
	case 6:
		if len(frs) > 0 {
			frs[len(frs)-1].partial = true
		}
	case 7, 8:
		// every fragment flagged partial, also those that end their row (a server that cuts at a
		// size limit does not know the row is over): several rows in pieces in one response
		for i := range frs {
			frs[i].partial = true
		}
	}
	return frs, mi, mr, withID
}

// ---------------------------------------------------------------- running the real scanner

var closeWaitTimeouts int
var expectXTimeouts int

// renewEvery is the lease renewal interval of the renewing scans; their consumer pauses for a few
// intervals now and then, so that renewals happen in every state of the scan.
const renewEvery = 2 * time.Millisecond

type endPlan struct {
	kind string // full | close | cancel | err
	n    int    // Next calls before Close / cancel; request index for err
}

type runCfg struct {
	renew       bool          // the scan renews its scanner lease (RenewInterval) and the consumer is slow
	silentClose bool          // the server never answers close requests
	sharedHold  chan struct{} // with silentClose: the close answers of several scans are held back together
	hb          int
	maxFrags    int
	chaos       *RNG
	idBase      uint64
}

type runOut struct {
	line   string
	nNext  int // Next calls until the first error item (full runs)
	nSync  int
	trail  [][2]int
	failed bool
	hung   bool // a call did not return: the process has to stop after this line
}

func resStr(r *hrpc.Result) string {
	if r == nil {
		return "nil"
	}
	p := "0="
	if r.Partial {
		p = "1="
	}
	var segs []string
	i := 0
	for i < len(r.Cells) {
		c := r.Cells[i]
		q := 0
		if len(c.Qualifier) > 0 {
			q = int(c.Qualifier[0])
		}
		j := i + 1
		for j < len(r.Cells) && bytes.Equal(r.Cells[j].Row, c.Row) && len(r.Cells[j].Qualifier) > 0 &&
			int(r.Cells[j].Qualifier[0]) == q+(j-i) {
			j++
		}
		segs = append(segs, fmt.Sprintf("%s.%d.%d", hx(c.Row), q, j-i))
		i = j
	}
	return p + joinOrDash(segs, "+")
}

func errStr(err error) string {
	switch {
	case err == nil:
		return "-"
	case err == io.EOF:
		return "EOF"
	case errors.Is(err, context.Canceled), errors.Is(err, context.DeadlineExceeded):
		return "canceled"
	case err == errPrioLost:
		return "prioritylost"
	case err == errInjected:
		return "rpcerr"
	case err == errUnknownScanner:
		return "unknownscanner"
	case err == errMisrouted:
		return "misrouted"
	case err == errTooMany:
		return "toomany"
	}
	return "other"
}

// callTimeout bounds one Next / Close call: a call that neither returns nor panics within it is
// reported as the item HANG (a goroutine cannot be killed, so the run stops after that line).
const callTimeout = 5 * time.Second

func safeNext(sc hrpc.Scanner) (item string, isErr bool) {
	type res struct {
		item string
		err  bool
	}
	done := make(chan res, 1)
	go func() {
		defer func() {
			if r := recover(); r != nil {
				done <- res{"PANIC", true}
			}
		}()
		r, err := sc.Next()
		done <- res{resStr(r) + "/" + errStr(err), err != nil}
	}()
	select {
	case x := <-done:
		return x.item, x.err
	case <-time.After(callTimeout):
		return "HANG", true
	}
}

// safeClose reports "" (returned), "PANIC" or "HANG".
func safeClose(sc hrpc.Scanner) string {
	done := make(chan string, 1)
	go func() {
		defer func() {
			if recover() != nil {
				done <- "PANIC"
			} else {
				done <- ""
			}
		}()
		sc.Close()
	}()
	select {
	case p := <-done:
		return p
	case <-time.After(callTimeout):
		return "HANG"
	}
}

func (c *scanCase) flags() string {
	s := ""
	if c.rev {
		s += "r"
	}
	if c.partial {
		s += "p"
	}
	if c.closing {
		s += "c"
	}
	if s == "" {
		return "-"
	}
	return s
}

// deadlineCtx is a context with a deadline whose expiry the harness triggers itself.
type deadlineCtx struct {
	context.Context
	dl time.Time
}

func (d deadlineCtx) Deadline() (time.Time, bool) { return d.dl, true }

func runScan(c *scanCase, ch *chooser, plan endPlan, cfg runCfg) runOut {
	ctx, cancel := context.WithCancel(context.Background())
	defer cancel()
	if plan.kind == "deadline" {
		// the scan's context carries a deadline and the scan ends by its expiry: for the scanner
		// that is a context that reports a deadline (Deadline()) and is done from some moment on.
		// The harness decides the moment (so that it does not depend on a timer): the deadline the
		// context reports lies in the past, Done is closed when the plan says so.
		ctx = deadlineCtx{ctx, time.Now().Add(-time.Second)}
	}
	opts := []func(hrpc.Call) error{hrpc.NumberOfRows(c.nrows)}
	if c.rev {
		opts = append(opts, hrpc.Reversed())
	}
	if c.partial {
		opts = append(opts, hrpc.AllowPartialResults())
	}
	if c.closing {
		opts = append(opts, hrpc.CloseScanner())
	}
	if cfg.renew {
		opts = append(opts, hrpc.RenewInterval(renewEvery))
	}
	if cfg.idBase%3 == 1 {
		opts = append(opts, hrpc.Priority(uint32(100+cfg.idBase%50)))
	}
	scan, err := hrpc.NewScanRange(ctx, []byte("t"), c.start, c.stop, opts...)
	if err != nil {
		panic(err)
	}
	// the longest legitimate conversation: one response per cell, heartbeats, two per region
	bound := 30
	for _, r := range c.table {
		bound += r.n
	}
	f := &fakeSrv{c: c, ch: ch, chaos: cfg.chaos, scanners: map[uint64]*rscanner{}, nextID: cfg.idBase,
		errAt: -1, flyAt: -1, cancelFn: cancel, hbLeft: cfg.hb, maxFrags: cfg.maxFrags, maxSync: bound, wire: cfg.idBase%4 != 0}
	if plan.kind == "err" {
		f.errAt = plan.n
	}
	if plan.kind == "cancelfly" {
		f.flyAt = plan.n
	}
	f.slowOpen = cfg.renew && cfg.idBase%2 == 1
	if cfg.idBase%3 == 1 {
		f.prio = uint32(100 + cfg.idBase%50)
	}
	if cfg.silentClose && cfg.sharedHold != nil {
		f.release = cfg.sharedHold
	} else if cfg.silentClose {
		f.release = make(chan struct{})
		defer close(f.release)
	}
	sc := gohbase.VerifNewScanner(f, scan)
	var ops strings.Builder
	var items []string
	ended, dead, hung := false, false, false
	out := runOut{nNext: -1}
	nNext := 0
	next := func() bool { // returns true if the call reported an error / EOF
		if dead {
			return true
		}
		nNext++
		if cfg.renew && nNext%2 == 0 && nNext < 12 {
			time.Sleep(3 * renewEvery) // a slow consumer: the renewer ticks meanwhile
		}
		it, e := safeNext(sc)
		ops.WriteByte('N')
		items = append(items, it)
		if it == "PANIC" || it == "HANG" {
			dead = true
			hung = hung || it == "HANG"
		}
		if e {
			ended = true
		}
		return e
	}
	closeIt := func() {
		if dead {
			return
		}
		ops.WriteByte('C')
		ended = true
		if bad := safeClose(sc); bad != "" {
			items = append(items, bad)
			ops.WriteByte('N')
			dead = true
			hung = hung || bad == "HANG"
		}
	}
	untilErr := func() {
		for i := 0; i < bound; i++ {
			if next() {
				if out.nNext < 0 {
					out.nNext = i
				}
				return
			}
		}
	}
	switch plan.kind {
	case "close":
		for i := 0; i < plan.n; i++ {
			next()
		}
		closeIt()
		untilErr()
	case "cancel":
		for i := 0; i < plan.n; i++ {
			next()
		}
		cancel()
		ops.WriteByte('X')
		untilErr()
	case "deadline":
		for i := 0; i < plan.n; i++ {
			next()
		}
		cancel()
		ops.WriteByte('X')
		untilErr()
	case "open": // stop in the middle: nothing ends the scan
		for i := 0; i < plan.n; i++ {
			next()
		}
	default:
		untilErr()
	}
	if plan.kind != "open" {
		next()
		next()
		closeIt()
		next()
		closeIt()
	}
	if cfg.renew {
		time.Sleep(4 * renewEvery) // a renewer that outlives the scan shows itself now
	}
	// let the asynchronous close request(s) reach the fake
	f.mu.Lock()
	if f.noMore {
		ended = true
	}
	f.mu.Unlock()
	f.mu.Lock()
	lost := f.lostOpen
	f.mu.Unlock()
	if ended && !lost {
		// bounded wait for the asynchronous close; a tree that leaks scanners would cost the full
		// wait on every case, so after a number of time-outs the wait is cut short
		wait := 200 * time.Millisecond
		if closeWaitTimeouts < 3 {
			wait = time.Second // be generous before the first reports (loaded machine)
		} else if closeWaitTimeouts >= 20 {
			wait = 3 * time.Millisecond
		}
		deadline := time.Now().Add(wait)
		for {
			f.mu.Lock()
			n := len(f.scanners)
			f.mu.Unlock()
			if n == 0 {
				break
			}
			if time.Now().After(deadline) {
				closeWaitTimeouts++
				if os.Getenv("VERIF_DEBUG") != "" {
					fmt.Fprintln(os.Stderr, "close wait timed out:", c.flags(), plan.kind, plan.n, f.trace)
				}
				break
			}
			time.Sleep(20 * time.Microsecond)
		}
	}
	if plan.kind == "cancelfly" {
		// the server is ahead of what the client knows (the answer to a continuation was lost): the
		// client still owes the scanner it named a close request, which is sent asynchronously; wait
		// for it (bounded) so that the conversation is complete when it is judged
		f.mu.Lock()
		want := f.expectX
		f.mu.Unlock()
		if want != "" {
			// (a tree in which that close request never comes would cost the full wait on every
			// such case: after ten time-outs the wait is cut short — those cases are failures anyway)
			w := 500 * time.Millisecond
			if expectXTimeouts >= 10 {
				w = 5 * time.Millisecond
			}
			deadline := time.Now().Add(w)
			arrived := false
			for time.Now().Before(deadline) {
				f.mu.Lock()
				seen := false
				for _, t := range f.trace {
					if p := strings.Split(t, "/"); len(p) == 6 && p[0] == "X" && p[3] == want {
						seen = true
					}
				}
				f.mu.Unlock()
				if seen {
					arrived = true
					break
				}
				runtime.Gosched()
			}
			if !arrived {
				expectXTimeouts++
			}
		}
	}
	f.mu.Lock()
	var open []string
	var ids []uint64
	for id := range f.scanners {
		ids = append(ids, id)
	}
	sort.Slice(ids, func(i, j int) bool { return ids[i] < ids[j] })
	for _, id := range ids {
		open = append(open, fmt.Sprint(id))
	}
	var tb []string
	for _, r := range c.table {
		tb = append(tb, fmt.Sprintf("%s:%d", hx(r.key), r.n))
	}
	var sp []string
	for _, s := range c.splits {
		sp = append(sp, hx(s))
	}
	opsS := ops.String()
	if opsS == "" {
		opsS = "-"
	}
	out.line = fmt.Sprintf("c06 run %s %s %s %d %s %s %s %s %s %s %s", hx(c.start), hx(c.stop), c.flags(), c.nrows,
		joinOrDash(tb, ","), joinOrDash(sp, ","), joinOrDash(f.replies, ";"), opsS,
		joinOrDash(items, ";"), joinOrDash(f.trace, ";"), joinOrDash(open, ","))
	out.nSync = f.nsync
	out.trail = ch.trail
	out.failed = dead
	out.hung = hung
	f.mu.Unlock()
	return out
}

// ---------------------------------------------------------------- generators

var keyAlpha = []byte{0x00, 'a', 'b', 0xff}

func randKey(r *RNG) []byte {
	switch r.Intn(10) {
	case 0: // a run of 0xff shorter than the padding
		k := []byte{keyAlpha[1+r.Intn(2)]}
		for i := r.Intn(8); i > 0; i-- {
			k = append(k, 0xff)
		}
		return append(k, r.Bytes(1, keyAlpha)...)
	case 1:
		return append(r.Bytes(2, keyAlpha), 0x00)
	}
	k := r.Bytes(3, keyAlpha)
	if len(k) == 0 {
		k = []byte{'a'}
	}
	return k
}

func sortUniq(ks [][]byte) [][]byte {
	sort.Slice(ks, func(i, j int) bool { return bytes.Compare(ks[i], ks[j]) < 0 })
	var out [][]byte
	for _, k := range ks {
		if len(k) == 0 || (len(out) > 0 && bytes.Equal(out[len(out)-1], k)) {
			continue
		}
		out = append(out, k)
	}
	return out
}

// neighbours of a key that matter for boundaries: the key itself, key+0x00, its predecessor forms.
func near(r *RNG, k []byte) []byte {
	switch r.Intn(5) {
	case 0:
		return append(append([]byte{}, k...), 0x00)
	case 1:
		if len(k) > 0 && k[len(k)-1] == 0 {
			return append([]byte{}, k[:len(k)-1]...)
		}
	case 2:
		if len(k) > 0 && k[len(k)-1] > 0 {
			p := append([]byte{}, k...)
			p[len(p)-1]--
			return append(p, 0xff)
		}
	}
	return append([]byte{}, k...)
}

func randCase(r *RNG, maxRows, maxRegions int) *scanCase {
	c := &scanCase{nrows: uint32(1 + r.Intn(5))}
	var keys [][]byte
	for i := r.Intn(maxRows + 1); i > 0; i-- {
		keys = append(keys, randKey(r))
	}
	keys = sortUniq(keys)
	for _, k := range keys {
		c.table = append(c.table, srow{k, 1 + r.Intn(4)})
	}
	pool := func() []byte {
		if len(keys) > 0 && r.Intn(4) != 0 {
			return near(r, keys[r.Intn(len(keys))])
		}
		return randKey(r)
	}
	var sp [][]byte
	for i := r.Intn(maxRegions); i > 0; i-- {
		sp = append(sp, pool())
	}
	c.splits = sortUniq(sp)
	bound := func() []byte {
		switch r.Intn(6) {
		case 0:
			return nil
		case 1, 2:
			if len(c.splits) > 0 {
				return append([]byte{}, c.splits[r.Intn(len(c.splits))]...)
			}
		}
		return pool()
	}
	c.rev = r.Bool()
	c.partial = r.Intn(3) == 0
	c.start, c.stop = bound(), bound()
	if c.rev && len(c.start) == 0 {
		// the API documents reversed scans with an explicit start row
		c.start = []byte{0xff, 0xff, 0xff, 0xff}
	}
	if r.Intn(3) != 0 {
		// prefer non-empty ranges
		if len(c.start) != 0 && len(c.stop) != 0 && (bytes.Compare(c.start, c.stop) > 0) != c.rev {
			c.start, c.stop = c.stop, c.start
		}
	}
	return c
}

// put prints a case; after a hang the spinning goroutine cannot be stopped, so the run ends there
// (the line just printed is the finding).
func put(out *Out, ro runOut) {
	out.Line("%s", ro.line)
	if ro.hung {
		out.w.Flush()
		fmt.Fprintln(os.Stderr, "a Next/Close call did not return within", callTimeout, "- stopping after this case")
		os.Exit(3)
	}
}

func emit(out *Out, c *scanCase, ch *chooser, plan endPlan, cfg runCfg) runOut {
	if !out.Want() {
		out.n++
		return runOut{}
	}
	ro := runScan(c, ch, plan, cfg)
	put(out, ro)
	return ro
}

// smallCases: the bases of the exhaustive chunking enumeration.
func smallCases(tier string) []*scanCase {
	a, b, cc := []byte("a"), []byte("b"), []byte("c")
	tables := [][]srow{
		{},
		{{a, 1}},
		{{a, 3}},
		{{a, 2}, {b, 1}},
		{{a, 1}, {b, 2}, {cc, 1}},
	}
	layouts := [][][]byte{{}, {b}, {[]byte("aa"), cc}}
	type rng struct{ s, e []byte }
	var cases []*scanCase
	for _, t := range tables {
		for _, l := range layouts {
			for _, rev := range []bool{false, true} {
				ranges := []rng{{nil, nil}, {a, cc}, {b, nil}}
				if rev {
					ranges = []rng{{[]byte("z"), nil}, {cc, a}, {b, nil}, {[]byte{'b', 0}, a}}
				}
				for _, r := range ranges {
					for _, p := range []bool{false, true} {
						cases = append(cases, &scanCase{start: r.s, stop: r.e, rev: rev, partial: p, nrows: 2,
							table: t, splits: l})
					}
				}
			}
		}
	}
	return cases
}

// enumerate runs every decision sequence of the fake for one case (capped).
func enumerate(out *Out, c *scanCase, cfg runCfg, limit int) {
	var prefix []int
	for n := 0; n < limit; n++ {
		// the trail is needed to continue the enumeration, so these cases always run
		ro := runScan(c, &chooser{prefix: prefix}, endPlan{kind: "full"}, cfg)
		put(out, ro)
		prefix = nextPrefix(ro.trail)
		if prefix == nil {
			return
		}
	}
}

func runC06(tier string, seed uint64, out *Out) {
	quick := tier == "quick"
	// (1) every chunking of small cases
	limit := 150
	if !quick {
		limit = 1500
	}
	for _, c := range smallCases(tier) {
		enumerate(out, c, runCfg{hb: 1, maxFrags: 2, idBase: 7}, limit)
	}
	// (1b) a reversed scan crossing a region boundary below which a row ends in a long run of 0xff:
	// the client continues in the previous region from "the boundary's last byte lowered by one,
	// padded with 0xff" — a row above that padding lies in the previous region all the same
	{
		ff := func(n int) []byte { return bytes.Repeat([]byte{0xff}, n) }
		for _, tail := range []int{7, 8, 9, 12} {
			c := &scanCase{start: []byte("zzz"), rev: true, nrows: 2, splits: [][]byte{[]byte("foo")},
				table: []srow{{[]byte("bar"), 1}, {[]byte("fon"), 1}, {append([]byte("fon"), ff(tail)...), 2}, {[]byte("foo1"), 1}}}
			emit(out, c, &chooser{rng: NewRNG(seed, fmt.Sprintf("c06ff-%d", tail))}, endPlan{kind: "full"}, runCfg{hb: 0, maxFrags: 1, idBase: 3})
		}
	}
	// (1c) a reversed scan without a start row ("from the end of the table") over several regions
	{
		c := &scanCase{rev: true, nrows: 2, splits: [][]byte{[]byte("foo")},
			table: []srow{{[]byte("bar"), 1}, {[]byte("fon"), 1}, {[]byte("foo1"), 1}, {[]byte("zed"), 2}}}
		emit(out, c, &chooser{rng: NewRNG(seed, "c06revempty")}, endPlan{kind: "full"}, runCfg{hb: 0, maxFrags: 1, idBase: 3})
	}
	// (2) seeded random: bigger tables, up to 5 regions, random chunking
	rng := NewRNG(seed, "c06")
	n := 40000
	if !quick {
		n = 400000
	}
	for i := 0; i < n; i++ {
		c := randCase(rng, 12, 5)
		cfg := runCfg{hb: rng.Intn(4), maxFrags: 1 + rng.Intn(4), idBase: uint64(rng.Intn(1000))}
		cfg.renew = i%200 == 7
		sub := NewRNG(rng.Next(), "script")
		emit(out, c, &chooser{rng: sub}, endPlan{kind: "full"}, cfg)
	}
	// (3) stopping in the middle (no end): prefix of the rows, lease invariant
	for i := 0; i < n/6; i++ {
		c := randCase(rng, 8, 4)
		cfg := runCfg{hb: rng.Intn(3), maxFrags: 1 + rng.Intn(3), idBase: uint64(rng.Intn(1000))}
		sub := NewRNG(rng.Next(), "script")
		emit(out, c, &chooser{rng: sub}, endPlan{kind: "open", n: rng.Intn(8)}, cfg)
	}
	// (4) non-conforming servers and CloseScanner scans: model fidelity outside the property's scope
	for i := 0; i < n/4; i++ {
		c := randCase(rng, 8, 4)
		cfg := runCfg{hb: rng.Intn(3), maxFrags: 1 + rng.Intn(3), idBase: uint64(rng.Intn(1000))}
		if i%3 == 0 {
			c.closing = true
		} else {
			cfg.chaos = NewRNG(rng.Next(), "chaos")
		}
		sub := NewRNG(rng.Next(), "script")
		emit(out, c, &chooser{rng: sub}, endPlan{kind: "full"}, cfg)
	}
}

// allEnds replays one scripted scan with every way to end it.
func allEnds(out *Out, c *scanCase, mk func() *chooser, cfg runCfg) {
	base := runScan(c, mk(), endPlan{kind: "full"}, cfg)
	put(out, base)
	if base.failed {
		return
	}
	for n := 0; n <= base.nNext+1; n++ {
		emit(out, c, mk(), endPlan{kind: "close", n: n}, cfg)
		emit(out, c, mk(), endPlan{kind: "cancel", n: n}, cfg)
	}
	for n := 0; n <= base.nNext+1 && n <= 2; n++ {
		emit(out, c, mk(), endPlan{kind: "deadline", n: n}, cfg)
	}
	for i := 0; i < base.nSync; i++ {
		emit(out, c, mk(), endPlan{kind: "err", n: i}, cfg)
	}
	for i := 0; i < base.nSync; i++ {
		emit(out, c, mk(), endPlan{kind: "cancelfly", n: i}, cfg)
	}
}

func runC14(tier string, seed uint64, out *Out) {
	quick := tier == "quick"
	// (1) small cases: the default chunking (whole rows, no heartbeat, early "no more in region")
	// and a few seeded ones each, every end
	per := 3
	if !quick {
		per = 40
	}
	for ci, c := range smallCases(tier) {
		if quick && ci%2 == 1 {
			continue
		}
		cfg := runCfg{hb: 1, maxFrags: 2, idBase: 3}
		allEnds(out, c, func() *chooser { return &chooser{} }, cfg)
		for k := 1; k < per; k++ {
			s := seed*1000003 + uint64(ci)*131 + uint64(k)
			allEnds(out, c, func() *chooser { return &chooser{rng: NewRNG(s, "small")} }, cfg)
		}
	}
	// (2) seeded random scans, every end
	rng := NewRNG(seed, "c14")
	n := 3000
	if !quick {
		n = 40000
	}
	for i := 0; i < n; i++ {
		c := randCase(rng, 8, 5)
		cfg := runCfg{hb: rng.Intn(3), maxFrags: 1 + rng.Intn(3), idBase: uint64(rng.Intn(1000))}
		if i%10 == 9 {
			c.closing = true
		}
		cfg.silentClose = i%4 == 3
		cfg.renew = i%60 == 11
		s := rng.Next()
		allEnds(out, c, func() *chooser { return &chooser{rng: NewRNG(s, "script")} }, cfg)
	}
	// (3) many scans given up early while the servers are slow to answer close requests: every one
	// of them still sends its close (the requests pile up; none is dropped)
	hold := make(chan struct{})
	for i := 0; i < 60; i++ {
		c := randCase(rng, 8, 5)
		c.closing = false
		cfg := runCfg{hb: 0, maxFrags: 1, idBase: uint64(300 + i), silentClose: true, sharedHold: hold}
		plan := endPlan{kind: "close", n: 1}
		if i%2 == 1 {
			plan.kind = "cancel"
		}
		emit(out, c, &chooser{rng: NewRNG(rng.Next(), "script")}, plan, cfg)
	}
	close(hold)
}
