//go:build verif

package main

// A minimal ZooKeeper server (connect handshake, ping, getData, closeSession) over in-memory
// connections, for the client's own ZooKeeper reader (zk/client.go over the real go-zookeeper
// library): what LocateResource makes of the znodes HBase writes, and that its session ends.

import (
	"context"
	"encoding/binary"
	"fmt"
	"io"
	"net"
	"sync"
	"time"

	"github.com/tsuna/gohbase/pb"
	"github.com/tsuna/gohbase/zk"
	"google.golang.org/protobuf/proto"
)

type fakeZK struct {
	mu       sync.Mutex
	nodes    map[string][]byte
	accepted int
	ended    int
}

func (s *fakeZK) dial(ctx context.Context, network, addr string) (net.Conn, error) {
	a, b := net.Pipe()
	s.mu.Lock()
	s.accepted++
	s.mu.Unlock()
	go s.serve(b)
	return a, nil
}

func zkReadFrame(c net.Conn) ([]byte, error) {
	var sz [4]byte
	if _, err := io.ReadFull(c, sz[:]); err != nil {
		return nil, err
	}
	n := binary.BigEndian.Uint32(sz[:])
	if n > 1<<20 {
		return nil, fmt.Errorf("frame of %d bytes", n)
	}
	b := make([]byte, n)
	_, err := io.ReadFull(c, b)
	return b, err
}

func zkWriteFrame(c net.Conn, body []byte) error {
	b := make([]byte, 4, 4+len(body))
	binary.BigEndian.PutUint32(b, uint32(len(body)))
	_, err := c.Write(append(b, body...))
	return err
}

func zkReplyHeader(xid int32, zerr int32) []byte {
	b := make([]byte, 16)
	binary.BigEndian.PutUint32(b[0:], uint32(xid))
	binary.BigEndian.PutUint64(b[4:], 1)
	binary.BigEndian.PutUint32(b[12:], uint32(zerr))
	return b
}

func (s *fakeZK) serve(c net.Conn) {
	defer c.Close()
	defer func() {
		s.mu.Lock()
		s.ended++
		s.mu.Unlock()
	}()
	req, err := zkReadFrame(c)
	if err != nil || len(req) < 16 {
		return
	}
	resp := []byte{0, 0, 0, 0}
	resp = append(resp, req[12:16]...)                // negotiated timeout
	resp = append(resp, 0, 0, 0, 0, 0, 0, 0x12, 0x34) // session id
	resp = append(resp, 0, 0, 0, 16)
	resp = append(resp, make([]byte, 16)...)
	if zkWriteFrame(c, resp) != nil {
		return
	}
	for {
		req, err := zkReadFrame(c)
		if err != nil || len(req) < 8 {
			return
		}
		xid := int32(binary.BigEndian.Uint32(req[0:]))
		switch int32(binary.BigEndian.Uint32(req[4:])) {
		case 11: // ping
			if zkWriteFrame(c, zkReplyHeader(-2, 0)) != nil {
				return
			}
		case -11: // closeSession
			zkWriteFrame(c, zkReplyHeader(xid, 0))
			return
		case 4: // getData
			if len(req) < 12 {
				return
			}
			n := int(binary.BigEndian.Uint32(req[8:]))
			if 12+n > len(req) {
				return
			}
			s.mu.Lock()
			data, ok := s.nodes[string(req[12:12+n])]
			s.mu.Unlock()
			if !ok {
				if zkWriteFrame(c, zkReplyHeader(xid, -101)) != nil { // no node
					return
				}
				continue
			}
			b := zkReplyHeader(xid, 0)
			var l [4]byte
			binary.BigEndian.PutUint32(l[:], uint32(len(data)))
			b = append(append(append(b, l[:]...), data...), make([]byte, 68)...) // data, Stat
			if zkWriteFrame(c, b) != nil {
				return
			}
		default:
			if zkWriteFrame(c, zkReplyHeader(xid, -6)) != nil {
				return
			}
		}
	}
}

// znode builds what HBase stores: 0xFF, the length of an identifier, the identifier, "PBUF", the message.
func znode(id []byte, msg proto.Message) []byte {
	m, _ := proto.Marshal(msg)
	b := []byte{0xFF, 0, 0, 0, 0}
	binary.BigEndian.PutUint32(b[1:], uint32(len(id)))
	b = append(b, id...)
	b = append(b, "PBUF"...)
	return append(b, m...)
}

// zkLocateCase (C04): the address the client's ZooKeeper reader makes of a meta / master znode is
// the host and port the znode names, for any identifier length; a missing znode is an error; and
// the session opened for the lookup is ended either way.
func zkLocateCase(rng *RNG) string {
	s := &fakeZK{nodes: map[string][]byte{}}
	root := []string{"/hbase", "/hbase-unsecure", "/h/b"}[rng.Intn(3)]
	host := fmt.Sprintf("rs%d.example.org", rng.Intn(1000))
	if rng.Intn(4) == 0 {
		host = fmt.Sprintf("10.0.%d.%d", rng.Intn(256), rng.Intn(256))
	}
	port := uint32(1 + rng.Intn(65535))
	id := rng.Bytes(1+rng.Intn(60), []byte("abcdefgh,.0123456789"))
	if len(id) == 0 {
		id = []byte("x")
	}
	sn := &pb.ServerName{HostName: proto.String(host), Port: proto.Uint32(port), StartCode: proto.Uint64(rng.Next() >> 20)}
	which := []string{"meta", "master", "missing"}[rng.Intn(3)]
	res := zk.Meta
	switch which {
	case "meta":
		s.nodes[root+"/meta-region-server"] = znode(id, &pb.MetaRegionServer{Server: sn, RpcVersion: proto.Uint32(0)})
	case "master":
		res = zk.Master
		s.nodes[root+"/master"] = znode(id, &pb.Master{Master: sn, RpcVersion: proto.Uint32(0), InfoPort: proto.Uint32(16010)})
	}
	cl := zk.NewClient("127.0.0.1:2181", 2*time.Second, s.dial, discardLogger)
	type out struct {
		addr string
		err  error
	}
	ch := make(chan out, 1)
	go func() {
		defer func() {
			if r := recover(); r != nil {
				ch <- out{"", fmt.Errorf("panic: %v", r)}
			}
		}()
		a, err := cl.LocateResource(res.Prepend(root))
		ch <- out{a, err}
	}()
	var o out
	select {
	case o = <-ch:
	case <-time.After(5 * time.Second):
		return "sim check zk-locate-" + which + " blocked"
	}
	want := net.JoinHostPort(host, fmt.Sprint(port))
	verdict := "ok"
	switch {
	case which == "missing" && o.err == nil:
		verdict = "address-for-a-missing-znode-" + o.addr
	case which != "missing" && o.err != nil:
		verdict = "error-for-a-good-znode"
	case which != "missing" && o.addr != want:
		verdict = "got-" + o.addr + "-znode-says-" + want
	}
	if verdict == "ok" {
		// the session ends (close request or connection end) shortly after the lookup returned
		deadline := time.Now().Add(2 * time.Second)
		for {
			s.mu.Lock()
			acc, end := s.accepted, s.ended
			s.mu.Unlock()
			if acc > 0 && acc == end {
				break
			}
			if time.Now().After(deadline) {
				verdict = fmt.Sprintf("session-left-open-%d-of-%d", acc-end, acc)
				break
			}
			time.Sleep(5 * time.Millisecond)
		}
	}
	return "sim check zk-locate-" + which + " " + verdict
}
