package main

// C11 case generator: a structured-malformed stream (valid protobufs whose optional fields, counts,
// lengths and indices are inconsistent with the data, enumerated as deviations from a valid
// response in up to D dimensions, plus seeded random combinations) and a raw stream (every
// truncation, seeded byte mutations of valid frames, random bytes), region-info values and
// scanner coalescing scripts. Deterministic in (tier, seed).

import (
	"bytes"
	"encoding/binary"
	"fmt"
	"math"

	"github.com/tsuna/gohbase/pb"
	"google.golang.org/protobuf/encoding/protowire"
	"google.golang.org/protobuf/proto"
)

type c11Dim struct {
	n     int
	apply func(f *c11Frame, k int)
}

var c11ExcList = []*c11Exc{
	nil,
	{sp(excClass["retryable"]), sp("stack")},
	{sp(excClass["nsre"]), sp("stack")},
	{sp(excClass["connErr"]), sp("stack")},
	{sp(excClass["fatal"]), sp("stack")},
	{nil, sp("stack")},
	{sp(excClass["nsre"]), nil},
	{nil, nil},
	{sp("java.io.IOException"), sp("x Cannot append; log is closed y")},
	{sp("java.io.IOException"), sp("other")},
	{sp("java.io.IOException"), nil},
	{sp(""), sp("")},
}

var c11CbmList = []string{"exact", "n", "p", "zero", "plus1", "minus1", "cell", "rest1", "frame", "frame1", "max"}
var c11RespList = []string{"ok", "absent", "trunc", "undec"}
var c11CbMutList = []string{"none", "trunc:1", "trunc:27", "trunc:28", "extra:1", "extra:30",
	"lie:0:kv:inc", "lie:0:kv:dec", "lie:0:kv:zero", "lie:0:kv:max", "lie:9:kv:big", "lie:9:kv:dec",
	"lie:0:key:inc", "lie:0:key:dec", "lie:0:key:max", "lie:0:key:zero", "lie:0:val:inc", "lie:0:val:dec", "lie:0:val:max",
	"lie:0:row:inc", "lie:0:row:max", "lie:0:row:zero", "lie:0:fam:inc", "lie:0:fam:max", "lie:9:fam:max",
	"wrap:0:0", "wrap:0:3", "wrap:9:3", "wrap:9:4"}

func dimID() c11Dim {
	return c11Dim{3, func(f *c11Frame, k int) { f.id = []string{"own", "none", "unk"}[k] }}
}
func dimExc(list []*c11Exc) c11Dim {
	return c11Dim{len(list), func(f *c11Frame, k int) { f.exc = list[k] }}
}
func dimCbm(list []string) c11Dim {
	return c11Dim{len(list), func(f *c11Frame, k int) { f.cbm = list[k] }}
}
func dimResp() c11Dim {
	return c11Dim{len(c11RespList), func(f *c11Frame, k int) { f.resp = c11RespList[k] }}
}
func dimCbCells() c11Dim {
	return c11Dim{4, func(f *c11Frame, k int) { f.cbCells = []int{2, 0, 1, 3}[k] }}
}
func dimCbMut(list []string) c11Dim {
	return c11Dim{len(list), func(f *c11Frame, k int) { f.cbMut = list[k] }}
}

func singleDims() []c11Dim {
	return []c11Dim{
		dimID(), dimExc(c11ExcList), dimCbm(c11CbmList), dimResp(), dimCbCells(),
		{2, func(f *c11Frame, k int) { f.res.present = k == 0 }},
		{9, func(f *c11Frame, k int) {
			n := int32(f.cbCells)
			switch k {
			case 0:
				f.res.acc = i32(n)
			case 1:
				f.res.acc = nil
			case 2:
				f.res.acc = i32(0)
			case 3:
				f.res.acc = i32(n + 1)
			case 4:
				f.res.acc = i32(n - 1) // -1 when there are no cells
			case 5:
				f.res.acc = i32(-1)
			case 6:
				f.res.acc = i32(math.MinInt32)
			case 7:
				f.res.acc = i32(math.MaxInt32)
			case 8:
				f.res.acc = i32(100000)
			}
		}},
		{3, func(f *c11Frame, k int) { f.res.inline = k }},
		dimCbMut(c11CbMutList),
	}
}

func scanDims() []c11Dim {
	return []c11Dim{
		dimID(), dimExc(c11ExcList[:6]), dimCbm(c11CbmList), dimResp(), dimCbCells(),
		{15, func(f *c11Frame, k int) {
			n := uint32(f.cbCells)
			switch k {
			case 0:
				if n >= 1 {
					f.cpr = []uint32{1, n - 1}
				} else {
					f.cpr = []uint32{0}
				}
			case 1:
				f.cpr = []uint32{n}
			case 2:
				f.cpr = []uint32{0, n}
			case 3:
				f.cpr = []uint32{n, 0}
			case 4:
				f.cpr = []uint32{n + 1}
			case 5:
				f.cpr = []uint32{1, n}
			case 6:
				f.cpr = []uint32{math.MaxUint32}
			case 7:
				f.cpr = nil
			case 8:
				f.cpr = []uint32{0, 0, 0}
			case 9:
				f.cpr = []uint32{1, 1, 1}
			case 10:
				f.cpr = []uint32{n, math.MaxUint32}
			case 11:
				f.cpr = []uint32{0, 1, 0, n}
			// counts whose 32-bit sum wraps around to the number of cells the cellblock really holds
			case 12:
				f.cpr = []uint32{math.MaxUint32, n + 1}
			case 13:
				f.cpr = []uint32{0x80000000, 0x80000000 + n}
			case 14:
				f.cpr = []uint32{1, math.MaxUint32 - 1, n + 1}
			}
		}},
		{7, func(f *c11Frame, k int) {
			l := len(f.cpr)
			mk := func(n int, fn func(i int) bool) []bool {
				var o []bool
				for i := 0; i < n; i++ {
					o = append(o, fn(i))
				}
				return o
			}
			switch k {
			case 0:
				f.flags = mk(l, func(i int) bool { return i%2 == 0 })
			case 1:
				f.flags = mk(l, func(int) bool { return false })
			case 2:
				f.flags = mk(l, func(int) bool { return true })
			case 3:
				if l > 0 {
					f.flags = mk(l-1, func(int) bool { return true })
				} else {
					f.flags = nil
				}
			case 4:
				f.flags = mk(l+1, func(int) bool { return true })
			case 5:
				f.flags = nil
			case 6:
				f.flags = mk(l+5, func(i int) bool { return i%2 == 1 })
			}
		}},
		{4, func(f *c11Frame, k int) {
			switch k {
			case 0:
				f.inl = nil
			case 1:
				f.inl = []c11Inl{{1, bp(true)}}
			case 2:
				f.inl = []c11Inl{{0, bp(true)}, {2, nil}}
			case 3:
				f.inl = []c11Inl{{0, nil}}
			}
		}},
		dimCbMut([]string{"none", "trunc:1", "trunc:28", "extra:1", "lie:0:kv:inc", "lie:0:kv:dec", "lie:9:kv:big",
			"lie:0:key:dec", "lie:0:val:inc", "lie:0:row:max", "lie:9:fam:max", "wrap:9:3"}),
	}
}

func baseFrame() *c11Frame {
	return &c11Frame{id: "own", cbm: "exact", resp: "ok", cbMut: "none"}
}

// enumDims enumerates all index tuples with at most maxDev non-zero entries.
func enumDims(dims []c11Dim, maxDev int, emit func(tuple []int)) {
	t := make([]int, len(dims))
	var rec func(pos, dev int)
	rec = func(pos, dev int) {
		if pos == len(dims) {
			emit(append([]int(nil), t...))
			return
		}
		t[pos] = 0
		rec(pos+1, dev)
		if dev < maxDev {
			for k := 1; k < dims[pos].n; k++ {
				t[pos] = k
				rec(pos+1, dev+1)
			}
			t[pos] = 0
		}
	}
	rec(0, 0)
}

func frameFromTuple(dims []c11Dim, t []int) *c11Frame {
	f := baseFrame()
	for i, d := range dims {
		d.apply(f, t[i])
	}
	return f
}

func randTuple(dims []c11Dim, rng *RNG, devProb int) []int {
	t := make([]int, len(dims))
	for i, d := range dims {
		if rng.Intn(100) < devProb {
			t[i] = rng.Intn(d.n)
		}
	}
	return t
}

// ------------------------------------------------------------------ multi

var c11Setups = [][]c11MC{
	{{'g', 0, false}, {'g', 1, false}},
	{{'a', 0, false}, {'g', 0, false}},
	{{'g', 0, false}, {'a', 1, false}, {'g', 0, false}},
	{{'g', 0, false}, {'a', 1, false}, {'a', 0, false}, {'g', 1, false}},
	{{'g', 0, false}, {'g', 1, true}, {'g', 0, false}},
	{{'g', 0, false}, {'a', 0, true}, {'g', 1, false}},
	{{'a', 0, true}, {'a', 1, false}, {'g', 1, false}},
	{{'g', 1, false}, {'g', 0, false}},
}

// canonical region positions for a set-up (order of first live call).
func c11RegPositions(mcs []c11MC) (pos []int, nreg int) {
	seen := map[int]int{}
	for _, m := range mcs {
		if m.dropped {
			pos = append(pos, -1)
			continue
		}
		p, ok := seen[m.reg]
		if !ok {
			p = len(seen)
			seen[m.reg] = p
		}
		pos = append(pos, p)
	}
	return pos, len(seen)
}

func multiBase(mcs []c11MC) *c11Frame {
	f := baseFrame()
	pos, nreg := c11RegPositions(mcs)
	f.rars = make([]c11Rar, nreg)
	for i := range mcs {
		if pos[i] < 0 {
			continue
		}
		f.rars[pos[i]].roes = append(f.rars[pos[i]].roes,
			c11Roe{idx: u32(uint32(i) + 1), res: c11Res{present: true, acc: i32(1)}})
		f.cbCells++
	}
	return f
}

type c11Mut struct {
	name string
	fn   func(f *c11Frame)
}

func nbpFor(kind string) *c11NBP {
	return &c11NBP{name: sp(excClass[kind]), value: []byte("stack"), hasV: true}
}

func multiMuts(mcs []c11MC) []c11Mut {
	var ms []c11Mut
	base := multiBase(mcs)
	n := uint32(len(mcs))
	add := func(name string, fn func(f *c11Frame)) { ms = append(ms, c11Mut{name, fn}) }
	roe := func(f *c11Frame, ri, oi int) *c11Roe {
		if ri < len(f.rars) && oi < len(f.rars[ri].roes) {
			return &f.rars[ri].roes[oi]
		}
		return nil
	}
	dropped := uint32(0)
	for i, m := range mcs {
		if m.dropped {
			dropped = uint32(i) + 1
		}
	}
	for ri := range base.rars {
		ri := ri
		for oi := range base.rars[ri].roes {
			oi := oi
			own := *base.rars[ri].roes[oi].idx
			other := uint32(0)
			for _, r := range base.rars {
				for _, o := range r.roes {
					if *o.idx != own {
						other = *o.idx
					}
				}
			}
			setIdx := func(name string, v *uint32) {
				add(fmt.Sprintf("roe%d.%d-idx-%s", ri, oi, name), func(f *c11Frame) {
					if r := roe(f, ri, oi); r != nil {
						r.idx = v
					}
				})
			}
			setIdx("0", u32(0))
			setIdx("nil", nil)
			setIdx("n+1", u32(n+1))
			setIdx("max", u32(math.MaxUint32))
			if other != 0 {
				setIdx("dup", u32(other))
			}
			if dropped != 0 {
				setIdx("dropped", u32(dropped))
			}
			add(fmt.Sprintf("roe%d.%d-remove", ri, oi), func(f *c11Frame) {
				if ri < len(f.rars) && oi < len(f.rars[ri].roes) {
					f.rars[ri].roes = append(append([]c11Roe(nil), f.rars[ri].roes[:oi]...), f.rars[ri].roes[oi+1:]...)
				}
			})
			add(fmt.Sprintf("roe%d.%d-repeat", ri, oi), func(f *c11Frame) {
				if r := roe(f, ri, oi); r != nil {
					f.rars[ri].roes = append(f.rars[ri].roes, *r)
				}
			})
			add(fmt.Sprintf("roe%d.%d-neither", ri, oi), func(f *c11Frame) {
				if r := roe(f, ri, oi); r != nil {
					r.res.present = false
				}
			})
			add(fmt.Sprintf("roe%d.%d-both", ri, oi), func(f *c11Frame) {
				if r := roe(f, ri, oi); r != nil {
					r.exc = nbpFor("fatal")
				}
			})
			for _, k := range []string{"retryable", "nsre", "connErr", "fatal"} {
				k := k
				add(fmt.Sprintf("roe%d.%d-exc-%s", ri, oi, k), func(f *c11Frame) {
					if r := roe(f, ri, oi); r != nil {
						r.res.present = false
						r.exc = nbpFor(k)
					}
				})
			}
			add(fmt.Sprintf("roe%d.%d-exc-novalue", ri, oi), func(f *c11Frame) {
				if r := roe(f, ri, oi); r != nil {
					r.res.present = false
					r.exc = &c11NBP{name: sp("java.io.IOException")}
				}
			})
			add(fmt.Sprintf("roe%d.%d-exc-append", ri, oi), func(f *c11Frame) {
				if r := roe(f, ri, oi); r != nil {
					r.res.present = false
					r.exc = &c11NBP{name: sp("java.io.IOException"), value: []byte("Cannot append; log is closed"), hasV: true}
				}
			})
			add(fmt.Sprintf("roe%d.%d-exc-noname", ri, oi), func(f *c11Frame) {
				if r := roe(f, ri, oi); r != nil {
					r.res.present = false
					r.exc = &c11NBP{value: []byte("v"), hasV: true}
				}
			})
			for _, a := range []struct {
				name string
				acc  *int32
				inl  int
			}{{"nil+1", nil, 1}, {"0", i32(0), 0}, {"2", i32(2), 0}, {"-1", i32(-1), 0}, {"1+1", i32(1), 1}} {
				a := a
				add(fmt.Sprintf("roe%d.%d-acc-%s", ri, oi, a.name), func(f *c11Frame) {
					if r := roe(f, ri, oi); r != nil {
						r.res.acc, r.res.inline = a.acc, a.inl
					}
				})
			}
			add(fmt.Sprintf("roe%d.%d-move", ri, oi), func(f *c11Frame) {
				if r := roe(f, ri, oi); r != nil && len(f.rars) > 1 {
					x := *r
					f.rars[ri].roes = append(append([]c11Roe(nil), f.rars[ri].roes[:oi]...), f.rars[ri].roes[oi+1:]...)
					to := (ri + 1) % len(f.rars)
					f.rars[to].roes = append(f.rars[to].roes, x)
				}
			})
		}
		add(fmt.Sprintf("rar%d-exc-with-results", ri), func(f *c11Frame) {
			if ri < len(f.rars) {
				f.rars[ri].exc = nbpFor("nsre")
			}
		})
		for _, k := range []string{"retryable", "nsre", "connErr", "fatal"} {
			k := k
			add(fmt.Sprintf("rar%d-exc-%s", ri, k), func(f *c11Frame) {
				if ri < len(f.rars) {
					f.cbCells -= len(f.rars[ri].roes)
					if f.cbCells < 0 {
						f.cbCells = 0
					}
					f.rars[ri] = c11Rar{exc: nbpFor(k)}
				}
			})
		}
		add(fmt.Sprintf("rar%d-exc-novalue", ri), func(f *c11Frame) {
			if ri < len(f.rars) {
				f.rars[ri] = c11Rar{exc: &c11NBP{name: sp(excClass["retryable"])}}
			}
		})
		add(fmt.Sprintf("rar%d-exc-noname", ri), func(f *c11Frame) {
			if ri < len(f.rars) {
				f.rars[ri] = c11Rar{exc: &c11NBP{hasV: true}}
			}
		})
		add(fmt.Sprintf("rar%d-remove", ri), func(f *c11Frame) {
			if ri < len(f.rars) {
				f.rars = append(append([]c11Rar(nil), f.rars[:ri]...), f.rars[ri+1:]...)
			}
		})
		add(fmt.Sprintf("rar%d-empty", ri), func(f *c11Frame) {
			if ri < len(f.rars) {
				f.rars[ri] = c11Rar{}
			}
		})
	}
	add("extra-rar-exc", func(f *c11Frame) { f.rars = append(f.rars, c11Rar{exc: nbpFor("nsre")}) })
	add("extra-rar-exc-front", func(f *c11Frame) { f.rars = append([]c11Rar{{exc: nbpFor("fatal")}}, f.rars...) })
	add("extra-rar-dup1", func(f *c11Frame) {
		f.rars = append(f.rars, c11Rar{roes: []c11Roe{{idx: u32(1), res: c11Res{present: true, acc: i32(0)}}}})
	})
	add("extra-rar-empty", func(f *c11Frame) { f.rars = append(f.rars, c11Rar{}) })
	add("extra-rars-3", func(f *c11Frame) {
		f.rars = append(f.rars, c11Rar{exc: nbpFor("retryable")}, c11Rar{}, c11Rar{exc: nbpFor("connErr")})
	})
	add("no-rars", func(f *c11Frame) { f.rars = nil })
	add("rars-swapped", func(f *c11Frame) {
		if len(f.rars) > 1 {
			f.rars[0], f.rars[1] = f.rars[1], f.rars[0]
		}
	})
	add("all-inline", func(f *c11Frame) {
		for ri := range f.rars {
			for oi := range f.rars[ri].roes {
				f.rars[ri].roes[oi].res.acc = nil
				f.rars[ri].roes[oi].res.inline = 1
			}
		}
		f.cbCells = 0
	})
	for _, id := range []string{"none", "unk"} {
		id := id
		add("id-"+id, func(f *c11Frame) { f.id = id })
	}
	for k, e := range c11ExcList[1:8] {
		e := e
		add(fmt.Sprintf("hdr-exc-%d", k+1), func(f *c11Frame) { f.exc = e })
	}
	for _, c := range c11CbmList[1:] {
		c := c
		add("cbm-"+c, func(f *c11Frame) { f.cbm = c })
	}
	for _, r := range c11RespList[1:] {
		r := r
		add("resp-"+r, func(f *c11Frame) { f.resp = r })
	}
	for _, m := range []string{"trunc:1", "trunc:28", "extra:1", "lie:0:kv:inc", "lie:0:kv:dec", "lie:9:kv:big", "lie:0:key:dec",
		"lie:9:val:inc", "lie:0:row:max", "lie:9:fam:max", "wrap:9:3"} {
		m := m
		add("cb-"+m, func(f *c11Frame) { f.cbMut = m })
	}
	add("cb-one-less", func(f *c11Frame) {
		if f.cbCells > 0 {
			f.cbCells--
		}
	})
	add("cb-one-more", func(f *c11Frame) { f.cbCells++ })
	return ms
}

// ------------------------------------------------------------------ multi: "the server is not in service"

// Multis over one, two and three regions for the explicit server-exception cases (not part of
// c11Setups, which C07 / C12 share).
var c11SrvSetups = [][]c11MC{
	{{'g', 0, false}},
	{{'g', 0, false}, {'a', 0, false}},
	{{'a', 0, false}, {'g', 0, false}, {'g', 0, false}},
	{{'g', 0, false}, {'g', 1, false}},
	{{'g', 0, false}, {'a', 1, false}, {'g', 0, false}},
	{{'g', 0, false}, {'a', 1, false}, {'g', 2, false}},
	{{'g', 0, false}, {'g', 1, false}, {'a', 2, false}, {'g', 0, false}},
	{{'a', 0, false}, {'g', 1, true}, {'g', 2, false}, {'g', 1, false}},
}

// the classes of javaServerExceptions (region/client.go); excClass["connErr"] is the first
var c11ServerClasses = []string{
	"org.apache.hadoop.hbase.regionserver.RegionServerStoppedException",
	"org.apache.hadoop.hbase.regionserver.RegionServerAbortedException",
	"org.apache.hadoop.hbase.exceptions.MasterStoppedException",
	"org.apache.hadoop.hbase.ipc.ServerNotRunningYetException",
}

func nbpClass(class, value string) *c11NBP {
	return &c11NBP{name: sp(class), value: []byte(value), hasV: true}
}

// c11ExcFrame: a well-formed response for the set-up in which the region at (canonical) position p
// fails as a whole with regs[p] (nil: its calls are answered one by one) and call i is answered with
// the exception acts[i] (nil: success, one cell in the cellblock).
func c11ExcFrame(mcs []c11MC, acts map[int]*c11NBP, regs map[int]*c11NBP) *c11Frame {
	f := baseFrame()
	pos, nreg := c11RegPositions(mcs)
	f.rars = make([]c11Rar, nreg)
	for p := range f.rars {
		f.rars[p].exc = regs[p]
	}
	for i := range mcs {
		if pos[i] < 0 || f.rars[pos[i]].exc != nil {
			continue
		}
		if e := acts[i]; e != nil {
			f.rars[pos[i]].roes = append(f.rars[pos[i]].roes, c11Roe{idx: u32(uint32(i) + 1), exc: e})
			continue
		}
		f.rars[pos[i]].roes = append(f.rars[pos[i]].roes,
			c11Roe{idx: u32(uint32(i) + 1), res: c11Res{present: true, acc: i32(1)}})
		f.cbCells++
	}
	return f
}

// c11ServerExcCases: a server-class exception inside a multi response — for a whole region or for one
// action, alone, next to successes and next to exceptions that are not server-class
// (java.io.IOException with and without the "log is closed" text, NotServingRegion, retryable,
// fatal) — plus the same shapes without it (the connection must stay) and responses that mention it
// but are not accepted (short read, bad cell_block_meta, header exception, refused indices).
func c11ServerExcCases() []*c11Case {
	var cases []*c11Case
	srv := func() *c11NBP { return nbpFor("connErr") }
	others := []func() *c11NBP{
		func() *c11NBP { return nbpClass("java.io.IOException", "x Cannot append; log is closed y") },
		func() *c11NBP { return nbpClass("java.io.IOException", "other") },
		func() *c11NBP { return nbpFor("nsre") },
		func() *c11NBP { return nbpFor("retryable") },
		func() *c11NBP { return nbpFor("fatal") },
	}
	for si, mcs := range c11SrvSetups {
		pos, nreg := c11RegPositions(mcs)
		var live []int
		for i := range mcs {
			if pos[i] >= 0 {
				live = append(live, i)
			}
		}
		n := 0
		add := func(f *c11Frame) {
			n++
			cases = append(cases, &c11Case{op: "frame", kind: "multi", q: []int{1, 5}[(si+n)%2], calls: mcs, f: f})
		}
		allBut := func(skip int, e func() *c11NBP) map[int]*c11NBP {
			m := map[int]*c11NBP{}
			for _, i := range live {
				if i != skip {
					m[i] = e()
				}
			}
			return m
		}
		regsBut := func(skip int, e func() *c11NBP) map[int]*c11NBP {
			m := map[int]*c11NBP{}
			for p := 0; p < nreg; p++ {
				if p != skip {
					m[p] = e()
				}
			}
			return m
		}
		first, last := live[0], live[len(live)-1]
		// per action: one call, every other call succeeds
		for _, i := range live {
			add(c11ExcFrame(mcs, map[int]*c11NBP{i: srv()}, nil))
		}
		// … every class of the table, with a value, with an empty value, without value
		for _, cl := range c11ServerClasses {
			add(c11ExcFrame(mcs, map[int]*c11NBP{first: nbpClass(cl, "s")}, nil))
			add(c11ExcFrame(mcs, nil, map[int]*c11NBP{nreg - 1: nbpClass(cl, "")}))
		}
		add(c11ExcFrame(mcs, map[int]*c11NBP{last: {name: sp(excClass["connErr"])}}, nil))
		add(c11ExcFrame(mcs, nil, map[int]*c11NBP{0: {name: sp(excClass["connErr"])}}))
		// … next to exceptions that are not server-class
		for _, o := range others {
			for _, i := range []int{first, last} {
				acts := allBut(i, o)
				acts[i] = srv()
				add(c11ExcFrame(mcs, acts, nil))
			}
		}
		// every action
		add(c11ExcFrame(mcs, allBut(-1, srv), nil))
		// region-level: one region, the others succeed / fail as a whole / have every action fail
		for p := 0; p < nreg; p++ {
			add(c11ExcFrame(mcs, nil, map[int]*c11NBP{p: srv()}))
			for _, o := range others[:3] {
				regs := regsBut(p, o)
				regs[p] = srv()
				add(c11ExcFrame(mcs, nil, regs))
			}
			for _, o := range others[:2] {
				add(c11ExcFrame(mcs, allBut(-1, o), map[int]*c11NBP{p: srv()}))
			}
		}
		// every region
		add(c11ExcFrame(mcs, nil, regsBut(-1, srv)))
		// one action and the last region
		add(c11ExcFrame(mcs, map[int]*c11NBP{first: srv()}, map[int]*c11NBP{nreg - 1: srv()}))
		// a region result beyond the regions of the request
		{
			f := c11ExcFrame(mcs, nil, nil)
			f.rars = append(f.rars, c11Rar{exc: srv()})
			add(f)
			f = c11ExcFrame(mcs, allBut(-1, others[1]), nil)
			f.rars = append(f.rars, c11Rar{}, c11Rar{exc: srv()})
			add(f)
		}
		// controls: the same shapes without a server-class exception
		ioNoValue := func() *c11NBP { return &c11NBP{name: sp("java.io.IOException")} }
		for _, o := range append(append([]func() *c11NBP(nil), others...), ioNoValue) {
			add(c11ExcFrame(mcs, allBut(-1, o), nil))
			add(c11ExcFrame(mcs, map[int]*c11NBP{first: o()}, nil))
			add(c11ExcFrame(mcs, nil, regsBut(-1, o)))
			add(c11ExcFrame(mcs, nil, map[int]*c11NBP{nreg - 1: o()}))
		}
		// mentioned, but the response is not accepted
		for k := 0; k < 8; k++ {
			f := c11ExcFrame(mcs, map[int]*c11NBP{first: srv()}, nil)
			if k%2 == 1 {
				f = c11ExcFrame(mcs, nil, map[int]*c11NBP{nreg - 1: srv()})
			}
			switch k / 2 {
			case 0:
				f.cbCells++ // a cell nobody reads: short read
			case 1:
				f.cbm = "plus1"
			case 2:
				f.exc = c11ExcList[2] // a NotServingRegion exception in the header decides
			case 3:
				// an index DeserializeCellBlocks refuses
				f.rars[0].roes = append(f.rars[0].roes, c11Roe{idx: u32(uint32(len(mcs)) + 1), exc: srv()})
			}
			add(f)
		}
		{
			// a region exception that comes with results
			f := c11ExcFrame(mcs, nil, nil)
			f.rars[0].exc = srv()
			add(f)
		}
	}
	return cases
}

// ------------------------------------------------------------------ region info, coalescing

func c11InfoValues(tier string, rng *RNG) [][]byte {
	good, _ := proto.Marshal(&pb.RegionInfo{RegionId: proto.Uint64(7),
		TableName: &pb.TableName{Namespace: []byte("default"), Qualifier: []byte("t")},
		StartKey:  []byte("a"), EndKey: []byte("m")})
	offline, _ := proto.Marshal(&pb.RegionInfo{RegionId: proto.Uint64(7),
		TableName: &pb.TableName{Namespace: []byte("ns"), Qualifier: []byte("t")}, Offline: proto.Bool(true)})
	noTable, _ := proto.MarshalOptions{AllowPartial: true}.Marshal(&pb.RegionInfo{RegionId: proto.Uint64(7)})
	noNs, _ := proto.MarshalOptions{AllowPartial: true}.Marshal(&pb.RegionInfo{RegionId: proto.Uint64(7),
		TableName: &pb.TableName{Qualifier: []byte("t")}})
	noID, _ := proto.MarshalOptions{AllowPartial: true}.Marshal(&pb.RegionInfo{
		TableName: &pb.TableName{Namespace: []byte("default"), Qualifier: []byte("t")}})
	pbuf := []byte("PBUF")
	var vals [][]byte
	vals = append(vals, nil, []byte("P"), []byte("PB"), []byte("PBU"), pbuf, []byte("X"), []byte("XBUF"), []byte("PBUG"),
		[]byte("PBUGxyz"), []byte("P\x00\x00"), []byte{0}, []byte{0xff, 0xff, 0xff, 0xff, 0xff})
	for _, body := range [][]byte{good, offline, noTable, noNs, noID} {
		full := append(append([]byte(nil), pbuf...), body...)
		vals = append(vals, full)
		for n := 0; n <= len(full); n++ {
			vals = append(vals, full[:n])
		}
		nm := 40
		if tier != "quick" {
			nm = 600
		}
		for k := 0; k < nm; k++ {
			b := append([]byte(nil), full...)
			pos := rng.Intn(len(b))
			switch rng.Intn(3) {
			case 0:
				b[pos] ^= 1 << uint(rng.Intn(8))
			case 1:
				b[pos] = byte(rng.Intn(256))
			case 2:
				b[pos] = 0xff
			}
			vals = append(vals, b)
		}
	}
	nr := 100
	if tier != "quick" {
		nr = 2000
	}
	for k := 0; k < nr; k++ {
		n := rng.Intn(24)
		b := make([]byte, n)
		for i := range b {
			b[i] = byte(rng.Intn(256))
		}
		if n > 0 && rng.Intn(4) != 0 {
			copy(b, pbuf[:min(n, 1+rng.Intn(4))])
		}
		vals = append(vals, b)
	}
	return vals
}

func c11CoScripts(tier string, rng *RNG) [][][]c11CoRes {
	// all flat sequences of up to L results over a small alphabet, split into responses in a few ways
	alpha := []c11CoRes{
		{row: 1, cells: 1, partial: true}, {row: 1, cells: 2, partial: false}, {row: 2, cells: 1, partial: true},
		{row: -1, cells: 0, partial: true}, {row: -1, cells: 0, partial: false}, {row: 2, cells: 1, partial: false},
		{row: 1, cells: 1, partial: true, stale: true},
	}
	var out [][][]c11CoRes
	L := 3
	if tier != "quick" {
		L = 4
	}
	var rec func(cur []c11CoRes)
	rec = func(cur []c11CoRes) {
		// splits: all in one response; one result per response; empty responses interleaved
		one := [][]c11CoRes{append([]c11CoRes(nil), cur...)}
		out = append(out, one)
		if len(cur) > 1 {
			var each [][]c11CoRes
			for _, r := range cur {
				each = append(each, []c11CoRes{r})
			}
			out = append(out, each)
			var gaps [][]c11CoRes
			for _, r := range cur {
				gaps = append(gaps, nil, []c11CoRes{r})
			}
			out = append(out, append(gaps, nil))
		}
		if len(cur) == L {
			return
		}
		for _, a := range alpha {
			rec(append(append([]c11CoRes(nil), cur...), a))
		}
	}
	rec(nil)
	nr := 200
	if tier != "quick" {
		nr = 5000
	}
	for k := 0; k < nr; k++ {
		var sc [][]c11CoRes
		for i, n := 0, 1+rng.Intn(4); i < n; i++ {
			var resp []c11CoRes
			for j, m := 0, rng.Intn(4); j < m; j++ {
				r := c11CoRes{row: 1 + rng.Intn(3), cells: rng.Intn(3), partial: rng.Intn(3) != 0, stale: rng.Intn(5) == 0}
				if r.cells == 0 {
					r.row = -1
				}
				resp = append(resp, r)
			}
			sc = append(sc, resp)
		}
		out = append(out, sc)
	}
	return out
}

// ------------------------------------------------------------------ the case list

func genC11(tier string, seed uint64) []*c11Case {
	quick := tier == "quick"
	var cases []*c11Case
	rng := NewRNG(seed, "c11")
	frame := func(kind string, q int, mcs []c11MC, f *c11Frame) {
		cases = append(cases, &c11Case{op: "frame", kind: kind, q: q, calls: mcs, f: f})
	}
	// (1) structured-malformed, single calls
	for ki, kind := range []string{"get", "app", "scan"} {
		dims := singleDims()
		if kind == "scan" {
			dims = scanDims()
		}
		dev := 2
		if !quick {
			dev = 3
		}
		n := 0
		enumDims(dims, dev, func(t []int) {
			n++
			nd := 0
			for _, x := range t {
				if x != 0 {
					nd++
				}
			}
			if quick && nd == 2 && (n+ki+int(seed))%3 != 0 {
				return // quick: every single deviation, a third of the pairs (rotating with the seed)
			}
			if !quick && nd == 3 && (n+ki+int(seed))%4 != 0 {
				return
			}
			q := []int{1, 5}[(n+ki)%2]
			frame(kind, q, nil, frameFromTuple(dims, t))
		})
		nr := 300
		if !quick {
			nr = 6000
		}
		for k := 0; k < nr; k++ {
			frame(kind, []int{1, 5}[rng.Intn(2)], nil, frameFromTuple(dims, randTuple(dims, rng, 40)))
		}
	}
	// (2) structured-malformed, multi
	for si, mcs := range c11Setups {
		muts := multiMuts(mcs)
		frame("multi", []int{1, 5}[si%2], mcs, multiBase(mcs))
		for _, m := range muts {
			f := multiBase(mcs)
			m.fn(f)
			frame("multi", []int{5, 1}[si%2], mcs, f)
		}
		np := 0
		for i := range muts {
			for j := i + 1; j < len(muts); j++ {
				np++
				keep := 12
				if !quick {
					keep = 2
				}
				if (np+si+int(seed))%keep != 0 {
					continue
				}
				f := multiBase(mcs)
				muts[i].fn(f)
				muts[j].fn(f)
				frame("multi", []int{1, 5}[np%2], mcs, f)
			}
		}
		nr := 100
		if !quick {
			nr = 2500
		}
		for k := 0; k < nr; k++ {
			f := multiBase(mcs)
			for i, n := 0, 3+rng.Intn(3); i < n; i++ {
				muts[rng.Intn(len(muts))].fn(f)
			}
			frame("multi", []int{1, 5}[rng.Intn(2)], mcs, f)
		}
	}
	// (3) raw: truncations, mutations, random bytes
	rawBases := []struct {
		kind string
		mcs  []c11MC
		f    *c11Frame
	}{}
	{
		g := baseFrame()
		g.cbCells, g.res = 2, c11Res{present: true, acc: i32(2), inline: 1}
		rawBases = append(rawBases, struct {
			kind string
			mcs  []c11MC
			f    *c11Frame
		}{"get", nil, g})
		a := g.clone()
		rawBases = append(rawBases, struct {
			kind string
			mcs  []c11MC
			f    *c11Frame
		}{"app", nil, a})
		e := baseFrame()
		e.exc = c11ExcList[1]
		rawBases = append(rawBases, struct {
			kind string
			mcs  []c11MC
			f    *c11Frame
		}{"get", nil, e})
		s := baseFrame()
		s.cbCells, s.cpr, s.flags = 3, []uint32{1, 0, 2}, []bool{true, true, false}
		rawBases = append(rawBases, struct {
			kind string
			mcs  []c11MC
			f    *c11Frame
		}{"scan", nil, s})
		si := baseFrame()
		si.cbm, si.inl = "n", []c11Inl{{1, bp(true)}, {0, nil}}
		rawBases = append(rawBases, struct {
			kind string
			mcs  []c11MC
			f    *c11Frame
		}{"scan", nil, si})
		for _, k := range []int{0, 3, 5} {
			rawBases = append(rawBases, struct {
				kind string
				mcs  []c11MC
				f    *c11Frame
			}{"multi", c11Setups[k], multiBase(c11Setups[k])})
		}
		mx := multiBase(c11Setups[2])
		mx.rars[1] = c11Rar{exc: nbpFor("nsre")}
		mx.rars[0].roes[1].res.present = false
		mx.rars[0].roes[1].exc = nbpFor("retryable")
		mx.cbCells = 1
		rawBases = append(rawBases, struct {
			kind string
			mcs  []c11MC
			f    *c11Frame
		}{"multi", c11Setups[2], mx})
	}
	for bi, b := range rawBases {
		full := b.f.build(b.kind, 1).bytes
		q := []int{1, 5}[bi%2]
		cases = append(cases, &c11Case{op: "raw", kind: b.kind, q: q, calls: b.mcs, f: b.f, rawMode: "whole"})
		step := 1
		if quick && len(full) > 80 {
			step = 2
		}
		for n := (bi + int(seed)) % step; n < len(full); n += step {
			cases = append(cases, &c11Case{op: "raw", kind: b.kind, q: q, calls: b.mcs, f: b.f,
				rawMode: fmt.Sprintf("trunc:%d", n)})
		}
		nm := 150
		if !quick {
			nm = 4000
		}
		for k := 0; k < nm; k++ {
			cases = append(cases, &c11Case{op: "raw", kind: b.kind, q: []int{1, 5}[k%2], calls: b.mcs, f: b.f,
				rawMode: "flip", rawSeed: rng.Next()})
		}
		nr := 40
		if !quick {
			nr = 800
		}
		for k := 0; k < nr; k++ {
			cases = append(cases, &c11Case{op: "raw", kind: b.kind, q: []int{1, 5}[k%2], calls: b.mcs, f: b.f,
				rawMode: fmt.Sprintf("rand:%d", rng.Intn(120)), rawSeed: rng.Next()})
		}
	}
	// (4) region info values
	for i, v := range c11InfoValues(tier, rng) {
		var srv *string
		switch i % 5 {
		case 0, 1, 2:
			srv = sp("host:16020")
		case 3:
			srv = sp("")
		}
		cases = append(cases, &c11Case{op: "info", infoVal: v, infoSrv: srv})
	}
	// (4b) hbase:meta rows whose *key* is not a region name (the value is a good region info), and
	// Increment answers whose value is not an 8-byte counter
	goodInfo, _ := proto.Marshal(&pb.RegionInfo{RegionId: proto.Uint64(7),
		TableName: &pb.TableName{Namespace: []byte("default"), Qualifier: []byte("t")},
		StartKey:  []byte("a"), EndKey: []byte("m")})
	goodInfo = append([]byte("PBUF"), goodInfo...)
	rows := [][]byte{nil, []byte("t"), []byte(","), []byte("t,"), []byte(",,"), []byte("t,a"), []byte("t,a,"), []byte("t,,7"),
		[]byte("t,a,7.abcdef."), []byte("nocomma-at-all"), []byte("\x00"), []byte("t\x00,"), []byte("zz,a")}
	for k := 0; k < 40; k++ {
		rows = append(rows, rng.Bytes(12, []byte{',', 't', 'a', 0, 0xff, '.', '7'}))
	}
	// names shaped like the client's own search keys (`table,key,:`), ids that do not start with a digit
	rows = append(rows, []byte("t,b,:"), []byte("t,a,:"), []byte("t,,:"), []byte("t,a,:7"), []byte("t,a,x7"), []byte("t,a,;"), []byte("t,a,/"))
	for _, row := range rows {
		cases = append(cases, &c11Case{op: "metarow", infoVal: goodInfo, metaRow: row})
	}
	// a region info whose table name is longer than a row key can be (the search key for it cannot be built)
	for _, n := range []int{32700, 32764, 32765, 32766, 40000, 70000} {
		long := bytes.Repeat([]byte("x"), n)
		li, _ := proto.Marshal(&pb.RegionInfo{RegionId: proto.Uint64(7),
			TableName: &pb.TableName{Namespace: []byte("default"), Qualifier: long},
			StartKey:  []byte("a"), EndKey: []byte("m")})
		cases = append(cases, &c11Case{op: "metarow", infoVal: append([]byte("PBUF"), li...), metaRow: append(append([]byte{}, long...), []byte(",a,7")...)})
	}
	// … the same around the limit with a non-default namespace (the name is namespace:qualifier)
	for _, total := range []int{32761, 32762, 32763, 32764, 32765, 32766, 32767, 32768} {
		for _, ns := range []string{"n", "namespace"} {
			qual := bytes.Repeat([]byte("y"), total-len(ns)-1)
			fq := append(append([]byte(ns), ':'), qual...)
			li, _ := proto.Marshal(&pb.RegionInfo{RegionId: proto.Uint64(7),
				TableName: &pb.TableName{Namespace: []byte(ns), Qualifier: qual},
				StartKey:  []byte("a"), EndKey: []byte("m")})
			cases = append(cases, &c11Case{op: "metarow", infoVal: append([]byte("PBUF"), li...), metaRow: append(append([]byte{}, fq...), []byte(",a,7")...)})
		}
	}
	for n := 0; n <= 12; n++ {
		cases = append(cases, &c11Case{op: "incr", infoVal: make([]byte, n)})
	}
	for _, m := range []string{"plain", "metrics-untracked", "metrics-tracked", "metrics-noname", "sentinel-scanner-id"} {
		cases = append(cases, &c11Case{op: "scanextra", rawMode: m})
	}
	// (5) coalescing of partial results
	for i, sc := range c11CoScripts(tier, rng) {
		cases = append(cases, &c11Case{op: "coalesce", script: sc, allowPartial: i%7 == 6})
	}
	// (6) a server-class exception inside a multi response, spelled out
	cases = append(cases, c11ServerExcCases()...)
	// every other multi case: the calls' own contexts end after the request has been written and
	// before the response is read (a caller that gave up): the response is decoded all the same
	nm := 0
	for _, c := range cases {
		if c.kind == "multi" && (c.op == "frame" || c.op == "raw") {
			c.lateCancel = nm%2 == 1
			nm++
		}
	}
	return c11OrderAlloc(cases, quick)
}

// allocProne: the response carries a cell count for which deserializeCellBlocks allocates more than
// the child's address-space limit (make([]*pb.Cell, count)): the runtime dies with "out of memory"
// (known finding alloc-<kind>). The runner keeps only the first 200 failing lines of a run, so these
// cases are sampled down and moved to the end of the list, where they cannot hide anything else.
func (c *c11Case) allocProne() bool {
	if c.f == nil {
		return false
	}
	big := func(a *int32) bool { return a != nil && (*a < 0 || *a >= 1<<26) }
	if c.op == "raw" {
		// decode the mutated bytes the way the client will (the first call of a fresh client has wire id 1)
		b := c.rawBytes(1)
		if len(b) < 4 || int(binary.BigEndian.Uint32(b))+4 > len(b) {
			return false
		}
		b = b[4 : 4+int(binary.BigEndian.Uint32(b))]
		hb, n := protowire.ConsumeBytes(b)
		if n < 0 {
			return false
		}
		var h pb.ResponseHeader
		if proto.Unmarshal(hb, &h) != nil || h.CallId == nil || *h.CallId != 1 || h.Exception != nil {
			return false
		}
		rb, n2 := protowire.ConsumeBytes(b[n:])
		if n2 < 0 {
			return false
		}
		bigRes := func(r *pb.Result) bool { return r != nil && big(r.AssociatedCellCount) }
		switch c.kind {
		case "get":
			var m pb.GetResponse
			return proto.Unmarshal(rb, &m) == nil && bigRes(m.Result)
		case "app":
			var m pb.MutateResponse
			return proto.Unmarshal(rb, &m) == nil && bigRes(m.Result)
		case "scan":
			var m pb.ScanResponse
			if proto.Unmarshal(rb, &m) != nil {
				return false
			}
			for _, n := range m.CellsPerResult {
				if n >= 1<<26 {
					return true
				}
			}
		case "multi":
			var m pb.MultiResponse
			if proto.Unmarshal(rb, &m) != nil {
				return false
			}
			for _, rar := range m.RegionActionResult {
				for _, roe := range rar.ResultOrException {
					if bigRes(roe.Result) {
						return true
					}
				}
			}
		}
		return false
	}
	switch c.kind {
	case "get", "app":
		return c.f.res.present && big(c.f.res.acc)
	case "scan":
		for _, n := range c.f.cpr {
			if n >= 1<<26 {
				return true
			}
		}
	case "multi":
		for _, r := range c.f.rars {
			for _, o := range r.roes {
				if o.res.present && big(o.res.acc) {
					return true
				}
			}
		}
	}
	return false
}

func c11OrderAlloc(cases []*c11Case, quick bool) []*c11Case {
	var rest, prone []*c11Case
	for _, c := range cases {
		if c.allocProne() {
			prone = append(prone, c)
		} else {
			rest = append(rest, c)
		}
	}
	limit := 40
	if !quick {
		limit = 120
	}
	step := 1
	if len(prone) > limit {
		step = (len(prone) + limit - 1) / limit
	}
	for i := 0; i < len(prone); i += step {
		rest = append(rest, prone[i])
	}
	return rest
}
