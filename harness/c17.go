package main

import (
	"context"
	"sync"
	"time"

	"github.com/tsuna/gohbase"
)

func init() { props["C17"] = runC17 }

// runC17: the real sleepAndIncreaseBackoff, value by value along the schedule (all waits run
// concurrently, so the wall time is the largest wait), plus cancellation during the wait.
func runC17(tier string, seed uint64, out *Out) {
	type res struct {
		b, next, elapsed time.Duration
		err              error
	}
	// values along the schedule and around the two knees of the formula
	ms := time.Millisecond
	vals := []time.Duration{0, 1, 16 * ms, 32 * ms, 64 * ms, 100 * ms, 128 * ms, 256 * ms, 512 * ms, 1024 * ms}
	limit := 1100 * ms
	if tier != "quick" {
		limit = 40 * time.Second
		vals = append(vals, 2048*ms, 4096*ms, 4999*ms, 5000*ms, 5001*ms, 8192*ms, 13192*ms, 18192*ms,
			23192*ms, 28192*ms, 29999*ms, 30000*ms, 33192*ms)
	}
	rng := NewRNG(seed, "c17")
	for i := 0; i < 6; i++ {
		vals = append(vals, time.Duration(rng.Intn(int(limit/ms)))*ms+time.Duration(rng.Intn(1000))*time.Microsecond)
	}
	results := make([]res, len(vals))
	var wg sync.WaitGroup
	for i, b := range vals {
		if b > limit {
			continue
		}
		wg.Add(1)
		go func(i int, b time.Duration) {
			defer wg.Done()
			t0 := time.Now()
			n, err := gohbase.VerifSleepAndIncreaseBackoff(context.Background(), b)
			results[i] = res{b, n, time.Since(t0), err}
		}(i, b)
	}
	// cancellation while waiting: long waits, cancelled after 5 ms
	cvals := []time.Duration{16 * ms, 512 * ms, 8192 * ms, 33192 * ms}
	cres := make([]res, len(cvals))
	for i, b := range cvals {
		wg.Add(1)
		go func(i int, b time.Duration) {
			defer wg.Done()
			ctx, cancel := context.WithCancel(context.Background())
			go func() { time.Sleep(5 * ms); cancel() }()
			t0 := time.Now()
			n, err := gohbase.VerifSleepAndIncreaseBackoff(ctx, b)
			cres[i] = res{b, n, time.Since(t0), err}
		}(i, b)
	}
	// deadline expiry
	dres := make([]res, 2)
	for i, b := range []time.Duration{1024 * ms, 33192 * ms} {
		wg.Add(1)
		go func(i int, b time.Duration) {
			defer wg.Done()
			ctx, cancel := context.WithTimeout(context.Background(), 10*ms)
			defer cancel()
			t0 := time.Now()
			n, err := gohbase.VerifSleepAndIncreaseBackoff(ctx, b)
			dres[i] = res{b, n, time.Since(t0), err}
		}(i, b)
	}
	wg.Wait()
	for i, r := range results {
		if vals[i] > limit {
			continue
		}
		if r.err != nil {
			out.Line("c17 step %d %d -1", int64(r.b), int64(r.next))
			continue
		}
		out.Line("c17 step %d %d %d", int64(r.b), int64(r.next), int64(r.elapsed))
	}
	errStr := func(e error) string {
		switch e {
		case nil:
			return "nil"
		case context.Canceled, context.DeadlineExceeded:
			return "ctx"
		}
		return "other"
	}
	for _, r := range append(cres, dres...) {
		out.Line("c17 cancel %d %d %s %d", int64(r.b), int64(r.next), errStr(r.err), int64(r.elapsed))
	}
}
