package main

import (
	"context"
	"fmt"
	"strings"
	"sync"
	"sync/atomic"
	"time"

	"github.com/tsuna/gohbase"
	"github.com/tsuna/gohbase/hrpc"
)

// gapScenario runs one request (or one batch) against a region that keeps answering with the
// given class n times (real sleeps) and reports the gaps between consecutive attempts of the
// given kind as seen by the simulated servers.
func gapScenario(kind string, n int, batch bool) string {
	gohbase.VerifSetSleepOverride(nil)
	c := newSimCluster()
	r := c.addRegion(nil, []byte("t"), nil, nil, "rs1:1")
	if strings.HasPrefix(kind, "BOUNCE:") {
		// the region is reported on rs1 and rs2 in turn; both accept it and then fail the request
		kind = strings.TrimPrefix(kind, "BOUNCE:")
		r.bounce = []string{"rs2:1", "rs1:1"}
		defer func() { _ = 0 }()
	}
	sc := newSimClient(c)
	defer sc.cl.Close()
	g0, _ := hrpc.NewGet(context.Background(), []byte("t"), []byte("warm"))
	sc.cl.Get(g0) // establish the region first
	// PART:<class>: a batch of n+1 calls of which one more gets through in every round (the server
	// throttles the rest): the call that is answered <class> n times must still see growing waits
	partial := strings.HasPrefix(kind, "PART:")
	kind = strings.TrimPrefix(kind, "PART:")
	c.mu.Lock()
	if partial {
		r.keyFaults = map[string][]string{}
		for j := 0; j <= n; j++ {
			for i := 0; i < j; i++ {
				r.keyFaults[fmt.Sprintf("p%d", j)] = append(r.keyFaults[fmt.Sprintf("p%d", j)], kind)
			}
		}
	} else {
		for i := 0; i < n; i++ {
			r.faults = append(r.faults, kind)
		}
	}
	m0 := len(c.serves)
	c.mu.Unlock()
	var times []time.Time
	ctx, cancel := context.WithTimeout(context.Background(), 20*time.Second)
	defer cancel()
	t0 := time.Now()
	res := "ok"
	if partial {
		var calls []hrpc.Call
		for j := 0; j <= n; j++ {
			g, _ := hrpc.NewGet(ctx, []byte("t"), []byte(fmt.Sprintf("p%d", j)))
			calls = append(calls, g)
		}
		if _, ok := sc.cl.SendBatch(ctx, calls); !ok {
			res = "failed"
		}
	} else if batch {
		g1, _ := hrpc.NewGet(ctx, []byte("t"), []byte("k1"))
		_, ok := sc.cl.SendBatch(ctx, []hrpc.Call{g1})
		if !ok {
			res = "failed"
		}
	} else {
		g1, _ := hrpc.NewGet(ctx, []byte("t"), []byte("k1"))
		if _, err := sc.cl.Get(g1); err != nil {
			res = classOf(err)
		}
	}
	_ = t0
	_ = times
	c.mu.Lock()
	var atts []string
	for _, s := range c.serves[m0:] {
		if s.kind == "meta" || (partial && string(s.key) != fmt.Sprintf("p%d", n)) {
			continue
		}
		atts = append(atts, fmt.Sprintf("%s.%s.%d", s.kind, s.outcome, s.at.Sub(t0).Microseconds()))
	}
	c.mu.Unlock()
	api := "rpc"
	if batch {
		api = "batch"
	}
	label := strings.Replace(kind, "REQ:", "req-", 1)
	if len(r.bounce) > 0 {
		label = "bounce-" + label
	}
	if partial {
		label = "partial-" + label
	}
	return fmt.Sprintf("c17 gaps %s %s %d %s %s", api, label, n, res, strings.Join(atts, ";"))
}

// lookupRateScenario: the thing a request needs keeps failing in a way that is not an answer —
// ZooKeeper accepts the question and stays silent (each lookup attempt runs into the lookup
// timeout), or the region's server refuses connections. The attempts the environment sees must
// thin out along the schedule (lower bounds on the gaps), however each attempt ended.
func lookupRateScenario(kind string) string {
	gohbase.VerifSetSleepOverride(nil)
	c := newSimCluster()
	r := c.addRegion(nil, []byte("t"), nil, nil, "rs1:1")
	_ = r
	sc := newSimClient(c, gohbase.RegionLookupTimeout(20*time.Millisecond))
	defer sc.cl.Close()
	switch kind {
	case "zk-silent":
		atomic.StoreInt32(&c.zkSilent, 1)
	case "server-refuses":
		c.mu.Lock()
		c.down["rs1:1"] = true
		c.mu.Unlock()
	}
	ctx, cancel := context.WithTimeout(context.Background(), 1500*time.Millisecond)
	defer cancel()
	t0 := time.Now()
	g, _ := hrpc.NewGet(ctx, []byte("t"), []byte("k"))
	sc.cl.Get(g)
	c.mu.Lock()
	var ts []time.Time
	if kind == "zk-silent" {
		ts = append(ts, c.zkTimes...)
	} else {
		ts = append(ts, c.dialTimes["rs1:1"]...)
	}
	c.mu.Unlock()
	var atts []string
	for _, t := range ts {
		atts = append(atts, fmt.Sprintf("x.%s.%d", kind, t.Sub(t0).Microseconds()))
	}
	if len(atts) == 0 {
		atts = []string{"-"}
	}
	return fmt.Sprintf("c17 rate %s %s", kind, strings.Join(atts, ";"))
}

// cacheRegionsRateScenario: CacheRegions (the lookup of all regions of a table) against an
// hbase:meta that does not answer: its attempts are spaced by the schedule, too. (CacheRegions
// takes no context: hbase:meta is healed after 1.5 s so that the call returns.)
func cacheRegionsRateScenario() string {
	gohbase.VerifSetSleepOverride(nil)
	c := newSimCluster()
	c.addRegion(nil, []byte("t"), nil, nil, "rs1:1")
	sc := newSimClient(c, gohbase.RegionLookupTimeout(20*time.Millisecond))
	defer sc.cl.Close()
	ctx, cancel := context.WithTimeout(context.Background(), 3*time.Second)
	g, _ := hrpc.NewGet(ctx, []byte("t"), []byte("warm"))
	_, werr := sc.cl.Get(g)
	cancel()
	c.mu.Lock()
	c.metaSil = true
	m0 := len(c.serves)
	c.mu.Unlock()
	t0 := time.Now()
	done := make(chan error, 1)
	go func() { done <- sc.cl.CacheRegions([]byte("t")) }()
	time.Sleep(1500 * time.Millisecond)
	c.mu.Lock()
	var ts []time.Time
	for _, s := range c.serves[m0:] {
		if s.kind == "meta" {
			ts = append(ts, s.at)
		}
	}
	c.metaSil = false
	c.mu.Unlock()
	select {
	case <-done:
	case <-time.After(5 * time.Second):
	}
	var atts []string
	for _, t := range ts {
		atts = append(atts, fmt.Sprintf("x.cacheregions.%d", t.Sub(t0).Microseconds()))
	}
	if len(atts) == 0 || werr != nil {
		atts = []string{"-"}
	}
	return fmt.Sprintf("c17 rate cacheregions %s", strings.Join(atts, ";"))
}

// establisherRateScenario: a region that stays offline (its probes keep being refused) while the
// connection its last requests went over breaks: a request on that connection was answered
// NotServingRegion (the re-establishment starts), another one, still in flight, then fails with a
// connection error. However many of its requests fail, and in whatever order, the region has one
// re-establishment going, and its probes are spaced by the schedule.
func establisherRateScenario() string {
	gohbase.VerifSetSleepOverride(nil)
	c := newSimCluster()
	r := c.addRegion(nil, []byte("t"), nil, nil, "rs1:1")
	c.keyRelease = make(chan struct{})
	sc := newSimClient(c)
	defer sc.cl.Close()
	get := func(ctx context.Context, k string) error {
		g, _ := hrpc.NewGet(ctx, []byte("t"), []byte(k))
		_, err := sc.cl.Get(g)
		return err
	}
	ctx, cancel := context.WithTimeout(context.Background(), 3*time.Second)
	defer cancel()
	werr := get(ctx, "warm")
	c.mu.Lock()
	r.keyFaults = map[string][]string{"held": {"HOLD:connErr"}}
	r.faults = append(r.faults, "REQ:nsre")
	r.probeAlways = "nsre"
	m0 := len(c.serves)
	c.mu.Unlock()
	t0 := time.Now()
	var wg sync.WaitGroup
	wg.Add(2)
	go func() { defer wg.Done(); get(ctx, "held") }()
	for i := 0; i < 200; i++ { // until the held request has reached the server
		c.mu.Lock()
		n := len(c.serves) - m0
		c.mu.Unlock()
		if n >= 1 {
			break
		}
		time.Sleep(time.Millisecond)
	}
	go func() { defer wg.Done(); get(ctx, "k") }() // told NotServingRegion: the establisher starts
	time.Sleep(60 * time.Millisecond)
	close(c.keyRelease) // the held request fails with a connection error now
	time.Sleep(1300 * time.Millisecond)
	c.mu.Lock()
	var ts []time.Time
	for _, s := range c.serves[m0:] {
		if s.kind == "probe" {
			ts = append(ts, s.at)
		}
	}
	r.probeAlways = ""
	c.mu.Unlock()
	wg.Wait()
	var atts []string
	for _, t := range ts {
		atts = append(atts, fmt.Sprintf("x.establisher.%d", t.Sub(t0).Microseconds()))
	}
	if len(atts) == 0 || werr != nil {
		atts = []string{"-"}
	}
	return fmt.Sprintf("c17 rate establisher %s", strings.Join(atts, ";"))
}

func init() { props["C17"] = runC17 }

// runC17: the real sleepAndIncreaseBackoff, value by value along the schedule (all waits run
// concurrently, so the wall time is the largest wait), plus cancellation during the wait.
func runC17(tier string, seed uint64, out *Out) {
	type res struct {
		b, next, elapsed time.Duration
		err              error
	}
	// values along the schedule and around the two knees of the formula
	ms := time.Millisecond
	vals := []time.Duration{0, 1, 16 * ms, 32 * ms, 64 * ms, 100 * ms, 128 * ms, 256 * ms, 512 * ms, 1024 * ms}
	limit := 1100 * ms
	if tier != "quick" {
		limit = 40 * time.Second
		vals = append(vals, 2048*ms, 4096*ms, 4999*ms, 5000*ms, 5001*ms, 8192*ms, 13192*ms, 18192*ms,
			23192*ms, 28192*ms, 29999*ms, 30000*ms, 33192*ms)
	}
	rng := NewRNG(seed, "c17")
	for i := 0; i < 6; i++ {
		vals = append(vals, time.Duration(rng.Intn(int(limit/ms)))*ms+time.Duration(rng.Intn(1000))*time.Microsecond)
	}
	results := make([]res, len(vals))
	var wg sync.WaitGroup
	for i, b := range vals {
		if b > limit {
			continue
		}
		wg.Add(1)
		go func(i int, b time.Duration) {
			defer wg.Done()
			t0 := time.Now()
			n, err := gohbase.VerifSleepAndIncreaseBackoff(context.Background(), b)
			results[i] = res{b, n, time.Since(t0), err}
		}(i, b)
	}
	// cancellation while waiting: long waits, cancelled after 5 ms
	cvals := []time.Duration{16 * ms, 512 * ms, 8192 * ms, 33192 * ms}
	cres := make([]res, len(cvals))
	for i, b := range cvals {
		wg.Add(1)
		go func(i int, b time.Duration) {
			defer wg.Done()
			ctx, cancel := context.WithCancel(context.Background())
			go func() { time.Sleep(5 * ms); cancel() }()
			t0 := time.Now()
			n, err := gohbase.VerifSleepAndIncreaseBackoff(ctx, b)
			cres[i] = res{b, n, time.Since(t0), err}
		}(i, b)
	}
	// deadline expiry
	dres := make([]res, 2)
	for i, b := range []time.Duration{1024 * ms, 33192 * ms} {
		wg.Add(1)
		go func(i int, b time.Duration) {
			defer wg.Done()
			ctx, cancel := context.WithTimeout(context.Background(), 10*ms)
			defer cancel()
			t0 := time.Now()
			n, err := gohbase.VerifSleepAndIncreaseBackoff(ctx, b)
			dres[i] = res{b, n, time.Since(t0), err}
		}(i, b)
	}
	wg.Wait()
	for i, r := range results {
		if vals[i] > limit {
			continue
		}
		if r.err != nil {
			out.Line("c17 step %d %d -1", int64(r.b), int64(r.next))
			continue
		}
		out.Line("c17 step %d %d %d", int64(r.b), int64(r.next), int64(r.elapsed))
	}
	errStr := func(e error) string {
		switch e {
		case nil:
			return "nil"
		case context.Canceled, context.DeadlineExceeded:
			return "ctx"
		}
		return "other"
	}
	for _, r := range append(cres, dres...) {
		out.Line("c17 cancel %d %d %s %d", int64(r.b), int64(r.next), errStr(r.err), int64(r.elapsed))
	}
	// whole retry loops against the simulated cluster, real time
	n := 5
	if tier != "quick" {
		n = 8
	}
	type job struct {
		kind  string
		batch bool
	}
	jobs := []job{{"retryable", false}, {"connErr", false}, {"nsre", false}, {"retryable", true}, {"connErr", true}, {"nsre", true},
		{"REQ:connErr", false}, {"REQ:connErr", true}, {"REQ:nsre", true}, {"REQ:nsre", false},
		{"BOUNCE:REQ:connErr", false}, {"BOUNCE:REQ:connErr", true}, {"PART:retryable", true}}
	lines := make([]string, len(jobs))
	var wg2 sync.WaitGroup
	for i, j := range jobs {
		wg2.Add(1)
		go func(i int, j job) {
			defer wg2.Done()
			lines[i] = gapScenario(j.kind, n, j.batch)
		}(i, j)
	}
	wg2.Wait()
	for _, l := range lines {
		out.Line("%s", l)
	}
	out.Line("%s", lookupRateScenario("zk-silent"))
	out.Line("%s", lookupRateScenario("server-refuses"))
	out.Line("%s", cacheRegionsRateScenario())
	out.Line("%s", establisherRateScenario())
	out.Line("%s", adminPollRateScenario())
	nAdmin := 40
	if tier != "quick" {
		nAdmin = 400
	}
	for i := 0; i < nAdmin; i++ {
		out.Line("%s", adminScriptCase(NewRNG(seed, fmt.Sprintf("c17admin-%d", i))))
	}
}
