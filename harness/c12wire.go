package main

// C12, wire level, second part: a MultiResponse in which the first region of the request reports a
// region-level exception of the server class (RegionServerStoppedException: the calls of that
// region are failed with a connection-level error and will be sent again) and every other region
// reports success. The calls of the other regions have been executed and their success has been
// received: they must be completed with it — a call that is told to retry would be executed twice.

import (
	"fmt"
	"os"
	"strings"
)

func init() {
	prev := props["C12"]
	props["C12"] = func(tier string, seed uint64, out *Out) {
		prev(tier, seed, out)
		if os.Getenv("VERIF_SHARD") != "" {
			return
		}
		for _, setup := range c11Setups {
			for _, cls := range []string{"connErr", "nsre", "fatal"} {
				if !out.Want() {
					out.n++
					continue
				}
				out.Line("%s", c12RegionExcCase(setup, cls))
			}
		}
		// what the server is shown under a region's action is that call's own payload: mutations of
		// two or three regions interleaved in one multi (c10batch.go; judged per action like a single
		// mutation, Drive/C10.lean)
		nb := 150
		if tier != "quick" {
			nb = 6000
		}
		rngB := NewRNG(seed, "c12-batch-cells")
		for i := 0; i < nb; i++ {
			c10Batch(out, rngB)
		}
	}
}

func c12RegionExcCase(setup []c11MC, cls string) string {
	f := multiBase(setup)
	if len(f.rars) < 2 {
		return fmt.Sprintf("c12r regionexc %s single-region -", cls)
	}
	// region 0 of the request fails as a whole; its cells are not in the cellblock
	f.cbCells -= len(f.rars[0].roes)
	f.rars[0] = c11Rar{exc: nbpFor(cls)}
	c := &c11Case{op: "frame", kind: "multi", q: 5, calls: setup, f: f}
	line, _ := c11RunWire(c)
	t := strings.Fields(line)
	if len(t) < 13 || t[1] != "frame" {
		return "c12r broken " + strings.Join(t, "_")
	}
	return fmt.Sprintf("c12r regionexc %s %s %s", cls, t[4], t[12])
}
