package main

// C07 / C12: (*client).SendBatch as a function of per-call outcome scripts.
//
// A real gohbase client (VerifNewClient, no ZooKeeper) gets its location cache pre-populated with
// regions whose RegionInfo is wrapped (vinfo) so that the harness plays the part of the
// re-establishing goroutine: MarkUnavailable really marks the region but reports "somebody else is
// already re-establishing it"; when SendBatch locates a call in the region again the harness makes
// the region available on the scripted server, or leaves it unavailable and cancels the batch
// context / closes the client. Region clients are fakes (vserver) that record every QueueBatch
// and put the scripted answer on each call's result channel. The calls are real *hrpc.Get wrapped
// (vcall) to intercept ResultChan()/Region()/Context(), and the batch context is a custom
// context.Context (vctx): all scripted cancellations happen synchronously inside these callbacks
// on the SendBatch goroutine, so every case is deterministic except for Go's map iteration order,
// which is observed and reported (the model takes it as an input).
//
// vctx wraps a real cancel context (Done/Value are the inner context's), so contexts that the code
// under test derives from it (context.WithCancel, context.AfterFunc) are registered as children of
// the inner context: cancellation reaches them synchronously and no watcher goroutine is started.
// The probes behind Done()/Err() of the batch context act on harness state only (armed / inWait,
// reset by every other callback) and ignore calls that are not made on the SendBatch goroutine
// (e.g. a derived context's cancel function run by context.AfterFunc in its own goroutine).
//
// The back-off sleep of SendBatch (sleepAndIncreaseBackoff, and contextOfCalls which builds the
// context it sleeps under) is recognised by the probes from the call stack (inBackoffSleep): inside
// it the batch context is cancelled (cancel 's') and/or the own contexts listed in bRound.sleepOwn
// are (at the first probe there, at the batch context's Done(), or one by one). The harness records
// in which round every own context was cancelled (ownAt) and reports, per round, the calls whose own
// context is done by the time that round's back-off sleep is under way ('gone': the model ends the
// sleep, and SendBatch, when all calls about to be retried are among them). A call with noOwn has
// no context of its own (Context() is context.Background()).
//
// A call that is located while its region is unavailable AND its own context is done (done before
// SendBatch, or cancelled at a wait in an earlier round) is expected to be given up on alone: for
// it the harness neither cancels the batch context nor closes the client, and reports the location
// outcome 'O' (model: locate = error (ownCtx id)); see onLocate.

import (
	"context"
	"errors"
	"fmt"
	"io"
	"log/slog"
	"os"
	"runtime"
	"strconv"
	"strings"
	"sync"
	"sync/atomic"
	"time"

	"github.com/tsuna/gohbase"
	"github.com/tsuna/gohbase/hrpc"
	"github.com/tsuna/gohbase/pb"
	"github.com/tsuna/gohbase/region"
	"google.golang.org/protobuf/proto"
)

func init() {
	props["C07"] = func(tier string, seed uint64, out *Out) {
		runBatchProp("C07", tier, seed, out)
		// on the simulated cluster: a batch mixing a call with and a call without a context of its own
		out.Line("%s", batchMixedContexts())
	}
	props["C12"] = func(tier string, seed uint64, out *Out) {
		if os.Getenv("VERIF_SHARD") == "" {
			runBatchProp("C12", tier, seed, out)
		}
		// wire level: batches on the simulated cluster; every call that reaches a regionserver names
		// a region hosted there whose range contains the call's key
		n := 160
		if tier != "quick" {
			n = 3000
		}
		runSharded("C12", tier, seed, out, 16, func(shard, nsh int, emit func(string)) {
			for i := shard; i < n; i += nsh {
				emit(seqScenario(NewRNG(seed, fmt.Sprintf("c12w-%d", i)), "c12w"))
			}
			// real region client, well-formed all-success multi responses (cells in the cellblock),
			// with and without the calls' contexts ending between request and response
			k := 0
			for _, setup := range c11Setups {
				for _, late := range []bool{false, true} {
					for _, q := range []int{1, 2, 5} {
						if k%nsh == shard {
							emit(c12WireCase(setup, late, q))
						}
						k++
					}
				}
			}
			// ... and right after a malformed response for another batch on another connection (what
			// one bad frame leaves behind must not touch the batches that follow)
			for si, setup := range c11Setups {
				if si%nsh != shard {
					continue
				}
				bad := multiBase(setup)
				if len(bad.rars) == 0 || len(bad.rars[0].roes) < 2 {
					continue
				}
				bad.rars[0].roes[1].idx = bad.rars[0].roes[0].idx // duplicate index
				for rep := 0; rep < 6; rep++ {
					c11RunWire(&c11Case{op: "frame", kind: "multi", q: 5, calls: setup, f: bad})
					for _, s2 := range c11Setups[:3] {
						emit(strings.Replace(c12WireCase(s2, false, 5), "c12r frame 0 ", "c12r frame m ", 1))
					}
				}
			}
		})
	}
}

// ---------------------------------------------------------------- case description

type bAns struct {
	kind byte // 'k' ok, 'r' retryable, 'n' not serving, 's' server, 'f' fatal, 'o' none+own ctx done, '_' none
	own  bool // the call's own context is cancelled when the wait reaches it (in addition to the answer)
}

type bRound struct {
	regSrv   []int // region -> server, -1: region stays unavailable (location blocks)
	locFail  byte  // how a blocked location ends: 'C' batch context cancelled, 'L' client closed
	ans      []bAns
	cancel   byte // 0 | 'w' at the wait on cancelID | 'e' after the error of cancelID was handled | 'a' | 's'
	cancelID int
	// own contexts cancelled inside the back-off sleep after this round (if there is one):
	// mode 0: all at the first probe inside the sleep (a call's Context() in contextOfCalls, or the
	// batch context's Done()); 1: all at the batch context's Done() inside the sleep; 2: the first
	// one at the batch context's Done(), then one more at every later Context() inside the sleep
	sleepOwn     []int
	sleepOwnMode int
}

type bCase struct {
	batch     []int // call id per position
	table     []int // per id
	batchable []bool
	region    []int
	ownPre    []bool // own context already done before SendBatch
	noOwn     []bool // the call has no context of its own (nil: none)
	nReg      int
	nSrv      int
	rounds    []bRound
}

func (c *bCase) nIDs() int { return len(c.table) }

// ---------------------------------------------------------------- contexts

type vctx struct {
	inner context.Context
	stop  context.CancelFunc
	err   error
	run   *bRun // non-nil for the batch context
}

func newVctx(err error, run *bRun) *vctx {
	in, stop := context.WithCancel(context.Background())
	return &vctx{inner: in, stop: stop, err: err, run: run}
}

func (c *vctx) cancel()                     { c.stop() }
func (c *vctx) isDone() bool                { return c.inner.Err() != nil }
func (c *vctx) Deadline() (time.Time, bool) { return time.Time{}, false }

// Value: the inner context answers the context package's private key, which makes vctx (also
// behind a context.WithValue wrapper such as the span context) a cancelCtx parent for the stdlib.
func (c *vctx) Value(k any) any { return c.inner.Value(k) }
func (c *vctx) Done() <-chan struct{} {
	if c.run != nil {
		c.run.onCtxDone()
	}
	return c.inner.Done()
}
func (c *vctx) Err() error {
	if c.run != nil {
		c.run.onCtxErr()
	}
	if c.inner.Err() != nil {
		return c.err
	}
	return nil
}

// goid: the current goroutine's id ("goroutine 123 [running]:").
func goid() uint64 {
	var buf [40]byte
	n := runtime.Stack(buf[:], false)
	f := strings.Fields(string(buf[:n]))
	if len(f) < 2 {
		return 0
	}
	id, _ := strconv.ParseUint(f[1], 10, 64)
	return id
}

// ---------------------------------------------------------------- wrappers

type vcall struct {
	*hrpc.Get
	run     *bRun
	id      int
	own     *vctx
	noOwn   bool // Context() is context.Background(): never done
	rcRound int  // round of the last ResultChan() call
	rcCount int  // ResultChan() calls in that round
}

func (v *vcall) Context() context.Context {
	v.run.onCallCtx()
	if v.noOwn {
		return context.Background()
	}
	return v.own
}

// Key is what region location asks a call first: the harness learns which call is being located.
func (v *vcall) Key() []byte {
	v.run.onKey(v)
	return v.Get.Key()
}
func (v *vcall) ResultChan() chan hrpc.RPCResult {
	v.run.onResultChan(v)
	return v.Get.ResultChan()
}
func (v *vcall) Region() hrpc.RegionInfo {
	r := v.Get.Region()
	v.run.onRegion(v)
	return r
}

type vinfo struct {
	hrpc.RegionInfo
	run *bRun
	idx int // region index; -1: the single region of the second table
}

// MarkUnavailable really marks the region, but answers "already being re-established": the
// harness is the re-establisher.
func (v *vinfo) MarkUnavailable() bool             { v.RegionInfo.MarkUnavailable(); return false }
func (v *vinfo) AvailabilityChan() <-chan struct{} { return v.run.onLocate(v) }
func (v *vinfo) Client() hrpc.RegionClient         { return v.run.clientFor(v) }
func (v *vinfo) SetClient(hrpc.RegionClient)       {}

type vserver struct {
	run *bRun
	id  int
}

func (s *vserver) Dial(context.Context) error { return nil }
func (s *vserver) Close()                     {}
func (s *vserver) Addr() string               { return fmt.Sprintf("srv%d:1", s.id) }
func (s *vserver) String() string             { return s.Addr() }
func (s *vserver) QueueRPC(c hrpc.Call)       { s.run.anomaly("QueueRPC") }
func (s *vserver) QueueBatch(ctx context.Context, rpcs []hrpc.Call) {
	s.run.onQueue(s, rpcs)
}

// ---------------------------------------------------------------- one run

type qrec struct {
	round int
	srv   int
	ids   []int
	calls []hrpc.Call
}

type bRun struct {
	c      *bCase
	mu     sync.Mutex
	round  int
	inWait bool
	calls  []*vcall
	infos  []*vinfo
	srvs   []*vserver
	ctx    *vctx
	vc     *gohbase.VerifClient
	qlog   []qrec
	armed  atomic.Bool // cancel the batch context inside the next back-off sleep
	// own contexts to cancel inside the next back-off sleep (rd.sleepOwn) and how many of them were
	ownArmed atomic.Bool
	ownFired int
	ownAt    []int // per call id: round in which its own context was cancelled (-1: before SendBatch; ownNever)
	anom     []string
	closed   bool
	gid      atomic.Uint64 // goroutine running SendBatch (0: not started)
	// region location
	locating *vcall          // the call region location last asked for its key
	locTok   map[[2]int]byte // (round, call id) -> how a location that found the region unavailable ended
}

// onSendBatchGoroutine: is the caller the goroutine that runs SendBatch? (runtime.Stack is slow:
// only asked when the answer matters, i.e. when a probe is about to act.)
func (r *bRun) onSendBatchGoroutine() bool {
	g := r.gid.Load()
	return g != 0 && g == goid()
}

const ownNever = 1 << 30

// inBackoffSleep: is the caller inside SendBatch's back-off sleep, i.e. is sleepAndIncreaseBackoff
// or contextOfCalls (which prepares the context the sleep watches) on the call stack?
func inBackoffSleep() bool {
	var pcs [64]uintptr
	n := runtime.Callers(2, pcs[:])
	fr := runtime.CallersFrames(pcs[:n])
	for {
		f, more := fr.Next()
		if strings.HasSuffix(f.Function, ".sleepAndIncreaseBackoff") ||
			strings.HasSuffix(f.Function, ".contextOfCalls") {
			return true
		}
		if !more {
			return false
		}
	}
}

func (r *bRun) disarm() {
	r.armed.Store(false)
	r.ownArmed.Store(false)
}

// cancelOwn cancels a call's own context as scripted and remembers in which round.
func (r *bRun) cancelOwn(v *vcall) {
	if !v.own.isDone() && v.id < len(r.ownAt) {
		r.ownAt[v.id] = r.round
	}
	v.own.cancel()
}

// fireSleepOwn: a probe inside the back-off sleep (atDone: the batch context's Done()).
func (r *bRun) fireSleepOwn(atDone bool) {
	rd := r.rd()
	if rd == nil {
		r.ownArmed.Store(false)
		return
	}
	n := 0
	switch rd.sleepOwnMode {
	case 0:
		n = len(rd.sleepOwn)
	case 1:
		if atDone {
			n = len(rd.sleepOwn)
		}
	default:
		if atDone || r.ownFired > 0 {
			n = 1
		}
	}
	for ; n > 0 && r.ownFired < len(rd.sleepOwn); n-- {
		r.cancelOwn(r.calls[rd.sleepOwn[r.ownFired]])
		r.ownFired++
	}
	if r.ownFired >= len(rd.sleepOwn) {
		r.ownArmed.Store(false)
	}
}

// the methods of a call are only used by the SendBatch goroutine (and, after the run, by multiView).
// Context() is asked for by findClients, by the waits and by contextOfCalls (inside the sleep).
func (r *bRun) onCallCtx() {
	if r.ownArmed.Load() && r.onSendBatchGoroutine() && inBackoffSleep() {
		r.fireSleepOwn(false)
	}
}

func (r *bRun) onKey(v *vcall) {
	r.disarm()
	r.locating = v
}

var errBatchCtx = errors.New("verif: batch context cancelled")

func (r *bRun) anomaly(s string) {
	r.mu.Lock()
	r.anom = append(r.anom, s)
	r.mu.Unlock()
}

func (r *bRun) rd() *bRound {
	if r.round < len(r.c.rounds) {
		return &r.c.rounds[r.round]
	}
	return nil
}

func (r *bRun) onLocate(v *vinfo) <-chan struct{} {
	r.disarm()
	if r.inWait {
		r.inWait = false
		r.round++
	}
	rd := r.rd()
	srv := 0
	fail := byte('C')
	if rd == nil {
		srv = -1 // script exhausted: end the run instead of looping
		r.anomaly("script-exhausted")
	} else if v.idx >= 0 {
		srv = rd.regSrv[v.idx]
		fail = rd.locFail
	}
	if srv >= 0 {
		if v.RegionInfo.IsUnavailable() {
			v.RegionInfo.MarkAvailable()
		}
		return nil
	}
	v.RegionInfo.MarkUnavailable()
	lc := r.locating
	tok := fail
	switch {
	case r.ctx.isDone():
		// the batch context was cancelled at an earlier location of this round: the wait ends at once
		tok = 'C'
	case lc != nil && lc.own.isDone():
		// only this call has given up: its own context ends the wait; the batch goes on
		tok = 'O'
	case fail == 'L':
		if !r.closed {
			r.closed = true
			r.vc.Client().Close()
		}
	default:
		r.ctx.cancel()
	}
	if lc != nil {
		if r.locTok == nil {
			r.locTok = map[[2]int]byte{}
		}
		r.locTok[[2]int{r.round, lc.id}] = tok
	} else {
		r.anomaly("locate-without-key")
	}
	return v.RegionInfo.AvailabilityChan()
}

func (r *bRun) clientFor(v *vinfo) hrpc.RegionClient {
	rd := r.rd()
	if rd == nil || v.idx < 0 {
		return r.srvs[0]
	}
	s := rd.regSrv[v.idx]
	if s < 0 {
		s = 0
	}
	return r.srvs[s]
}

func tagOf(id, round int) int { return id*16 + round + 1 }

func (r *bRun) result(id int, a bAns) (hrpc.RPCResult, bool) {
	t := tagOf(id, r.round)
	stack := fmt.Sprintf("tag=%d;", t)
	switch a.kind {
	case 'k':
		return hrpc.RPCResult{Msg: &pb.GetResponse{Result: &pb.Result{
			AssociatedCellCount: proto.Int32(int32(t))}}}, true
	case 'r':
		return hrpc.RPCResult{Error: region.VerifExceptionToError(
			"org.apache.hadoop.hbase.RegionTooBusyException", stack)}, true
	case 'n':
		return hrpc.RPCResult{Error: region.VerifExceptionToError(
			"org.apache.hadoop.hbase.NotServingRegionException", stack)}, true
	case 's':
		return hrpc.RPCResult{Error: region.VerifExceptionToError(
			"org.apache.hadoop.hbase.regionserver.RegionServerStoppedException", stack)}, true
	case 'f':
		return hrpc.RPCResult{Error: region.VerifExceptionToError(
			"java.lang.IllegalArgumentException", stack)}, true
	}
	return hrpc.RPCResult{}, false
}

func (r *bRun) deliver(v *vcall, a bAns) {
	res, ok := r.result(v.id, a)
	if !ok {
		return
	}
	select {
	case v.Get.ResultChan() <- res:
	default:
		r.anomaly("result-channel-full")
	}
}

func (r *bRun) onQueue(s *vserver, rpcs []hrpc.Call) {
	r.disarm()
	r.inWait = true
	rd := r.rd()
	rec := qrec{round: r.round, srv: s.id, calls: append([]hrpc.Call(nil), rpcs...)}
	for _, rpc := range rpcs {
		v, ok := rpc.(*vcall)
		if !ok {
			r.anomaly("foreign-call")
			continue
		}
		rec.ids = append(rec.ids, v.id)
		if rd == nil {
			continue
		}
		a := rd.ans[v.id]
		if rd.cancel == 'w' && rd.cancelID == v.id {
			continue // its answer (if any) only arrives once the select has taken <-ctx.Done()
		}
		r.deliver(v, a)
	}
	r.qlog = append(r.qlog, rec)
}

func (r *bRun) onResultChan(v *vcall) {
	r.disarm()
	if v.rcRound != r.round {
		v.rcRound = r.round
		v.rcCount = 0
	}
	v.rcCount++
	rd := r.rd()
	if rd == nil {
		return
	}
	a := rd.ans[v.id]
	if v.rcCount == 1 {
		if a.own || a.kind == 'o' {
			r.cancelOwn(v)
		}
		if rd.cancel == 'w' && rd.cancelID == v.id {
			r.ctx.cancel()
		}
	} else if v.rcCount == 2 && rd.cancel == 'w' && rd.cancelID == v.id {
		r.deliver(v, a)
	}
}

func (r *bRun) onRegion(v *vcall) {
	rd := r.rd()
	if rd != nil && rd.cancel == 'e' && rd.cancelID == v.id {
		r.ctx.cancel()
	}
}

// onCtxErr: the check after a wait is the first evaluation of Err() on the SendBatch goroutine
// while a wait is on (inWait is reset by the next location) and the context is not yet cancelled.
func (r *bRun) onCtxErr() {
	if r.ctx.isDone() {
		return
	}
	rd := r.rd()
	if rd == nil || !r.inWait || (rd.cancel != 'a' && rd.cancel != 's' && len(rd.sleepOwn) == 0) ||
		!r.onSendBatchGoroutine() {
		return
	}
	switch rd.cancel {
	case 'a':
		r.ctx.cancel()
		return
	case 's':
		r.armed.Store(true)
	}
	if len(rd.sleepOwn) > 0 {
		r.ownFired = 0
		r.ownArmed.Store(true)
	}
}

// onCtxDone: armed (by the check after the wait) and not disarmed by any other callback since
// (a call's Key()/ResultChan(), a location, a QueueBatch), and the SendBatch goroutine asks for
// Done() inside the back-off sleep: the select of sleepAndIncreaseBackoff, or context.WithCancel in
// contextOfCalls registering the context the sleep watches with the batch context (findClients
// derives contexts from the batch context in the same way: hence the look at the stack). Done() is
// also called by other goroutines (a derived context that is cancelled by context.AfterFunc asks
// its parent for Done() to unregister).
func (r *bRun) onCtxDone() {
	if (!r.armed.Load() && !r.ownArmed.Load()) || !r.onSendBatchGoroutine() || !inBackoffSleep() {
		return
	}
	if r.ownArmed.Load() {
		r.fireSleepOwn(true)
	}
	if r.armed.CompareAndSwap(true, false) {
		r.ctx.cancel()
	}
}

type bObs struct {
	res   []string
	ok    string
	q     string
	ms    int64
	mp    string
	ords  [][]int // per round: servers in QueueBatch order
	ownAt []int   // per call id: round in which its own context was cancelled (nil: unknown)
	qr    [][]int // per round: the ids handed to QueueBatch
	alive []bool
	anom  []string
	loc   map[[2]int]byte // (round, id) -> observed end of a location that found the region unavailable
}

func classifyErr(err error, run *bRun) string {
	if err == nil {
		return "-"
	}
	tag := func(s string) string {
		i := strings.Index(s, "tag=")
		if i < 0 {
			return "?"
		}
		j := strings.IndexByte(s[i:], ';')
		if j < 0 {
			return "?"
		}
		return s[i+4 : i+j]
	}
	if err == errBatchCtx || err == context.Canceled {
		// context.Canceled: the error of a context derived from the batch context (the merged
		// context region location waits on); findClients stores it only when the batch context is done
		return "C"
	}
	if err == gohbase.ErrClientClosed {
		return "L"
	}
	if err == gohbase.NotExecutedError {
		return "X"
	}
	for _, v := range run.calls {
		if err == v.own.err {
			return "O" + strconv.Itoa(v.id)
		}
	}
	switch err.(type) {
	case region.RetryableError:
		return "R" + tag(err.Error())
	case region.NotServingRegionError:
		return "N" + tag(err.Error())
	case region.ServerError:
		return "S" + tag(err.Error())
	}
	s := err.Error()
	switch {
	case strings.HasPrefix(s, "duplicate call in batch at index "):
		return "D" + strings.TrimPrefix(s, "duplicate call in batch at index ")
	case strings.HasPrefix(s, "multiple tables in batch request"):
		return "T"
	case strings.HasPrefix(s, "non-batchable call"):
		return "B"
	case strings.Contains(s, "tag="):
		return "F" + tag(s)
	}
	return "?"
}

func dotInts(a []int) string {
	if len(a) == 0 {
		return "-"
	}
	var sb strings.Builder
	for i, x := range a {
		if i > 0 {
			sb.WriteByte('.')
		}
		sb.WriteString(strconv.Itoa(x))
	}
	return sb.String()
}

func runBatchCase(c *bCase) (obs bObs) {
	run := &bRun{c: c}
	run.ctx = newVctx(errBatchCtx, run)
	run.vc = gohbase.VerifNewClient(nil, false, nil)
	defer run.vc.Client().Close()
	for s := 0; s < c.nSrv; s++ {
		run.srvs = append(run.srvs, &vserver{run: run, id: s})
	}
	start := func(g int) []byte {
		if g == 0 {
			return nil
		}
		return []byte{byte('a' + g)}
	}
	for g := 0; g < c.nReg; g++ {
		var stop []byte
		if g+1 < c.nReg {
			stop = start(g + 1)
		}
		name := []byte(fmt.Sprintf("t,%s,%d.", start(g), g+1))
		ri := &vinfo{RegionInfo: region.NewInfo(uint64(g+1), nil, []byte("t"), name, start(g), stop),
			run: run, idx: g}
		run.infos = append(run.infos, ri)
		run.vc.RegionsPut(ri)
	}
	other := &vinfo{RegionInfo: region.NewInfo(99, nil, []byte("u"), []byte("u,,99."), nil, nil),
		run: run, idx: -1}
	run.vc.RegionsPut(other)
	for id := 0; id < c.nIDs(); id++ {
		own := newVctx(fmt.Errorf("verif: own context of call %d", id), nil)
		run.ownAt = append(run.ownAt, ownNever)
		if c.ownPre[id] {
			own.cancel()
			run.ownAt[id] = -1
		}
		tbl := "t"
		if c.table[id] != 0 {
			tbl = "u"
		}
		key := []byte{byte('a' + c.region[id]), byte('0' + id/10), byte('0' + id%10)}
		var opts []func(hrpc.Call) error
		if !c.batchable[id] {
			opts = append(opts, hrpc.SkipBatch())
		}
		g, err := hrpc.NewGet(own, []byte(tbl), key, opts...)
		if err != nil {
			panic(err)
		}
		run.calls = append(run.calls, &vcall{Get: g, run: run, id: id, own: own, rcRound: -1,
			noOwn: id < len(c.noOwn) && c.noOwn[id]})
	}
	batch := make([]hrpc.Call, len(c.batch))
	for i, id := range c.batch {
		batch[i] = run.calls[id]
	}

	type ret struct {
		res   []hrpc.RPCResult
		ok    bool
		panic any
	}
	ch := make(chan ret, 1)
	t0 := time.Now()
	go func() {
		var rt ret
		defer func() {
			if p := recover(); p != nil {
				rt.panic = p
			}
			run.gid.Store(0)
			ch <- rt
		}()
		run.gid.Store(goid())
		rt.res, rt.ok = run.vc.Client().SendBatch(run.ctx, batch)
	}()
	var rt ret
	hang := false
	returned := true
	select {
	case rt = <-ch:
	case <-time.After(1500 * time.Millisecond):
		hang = true
		run.ctx.cancel()
		for _, v := range run.calls {
			v.own.cancel()
		}
		select {
		case rt = <-ch:
		case <-time.After(1500 * time.Millisecond):
			returned = false
		}
	}
	obs.ms = time.Since(t0).Milliseconds()
	switch {
	case hang:
		obs.ok = "hang"
	case rt.panic != nil:
		obs.ok = "panic"
	case rt.ok:
		obs.ok = "1"
	default:
		obs.ok = "0"
	}
	for _, r := range rt.res {
		m := "-"
		if r.Msg != nil {
			if g, ok := r.Msg.(*pb.GetResponse); ok {
				m = strconv.Itoa(int(g.GetResult().GetAssociatedCellCount()))
			} else {
				m = "999999"
			}
		}
		obs.res = append(obs.res, m+"|"+classifyErr(r.Error, run))
	}
	// queue log, group orders, and what a real multi shows a region server for each QueueBatch
	run.mu.Lock()
	obs.anom = append(obs.anom, run.anom...)
	run.mu.Unlock()
	obs.ords = make([][]int, len(c.rounds))
	var qs, mps []string
	if len(run.qlog)%2 == 0 {
		// (the run is over.) In half of the cases the regions have meanwhile been replaced in the
		// location cache: what a multi shows the server for a slice it was handed does not depend on it
		for _, ri := range run.infos {
			ri.RegionInfo.MarkDead()
		}
	}
	for _, rec := range run.qlog {
		for len(obs.qr) <= rec.round {
			obs.qr = append(obs.qr, nil)
		}
		obs.qr[rec.round] = append(obs.qr[rec.round], rec.ids...)
		qs = append(qs, fmt.Sprintf("%d:%d:%s", rec.round, rec.srv, dotInts(rec.ids)))
		if rec.round < len(obs.ords) {
			obs.ords[rec.round] = append(obs.ords[rec.round], rec.srv)
		}
		mps = append(mps, multiView(run, rec))
	}
	obs.q, obs.mp = "-", "-"
	if len(qs) > 0 {
		obs.q = strings.Join(qs, "/")
		obs.mp = strings.Join(mps, "/")
	}
	for _, v := range run.calls {
		obs.alive = append(obs.alive, !v.own.isDone())
	}
	if returned {
		obs.loc = run.locTok
		obs.ownAt = run.ownAt
	}
	return obs
}

// multiView feeds one QueueBatch'ed slice to a real region.multi and lists its RegionActions.
func multiView(run *bRun, rec qrec) (out string) {
	defer func() {
		if p := recover(); p != nil {
			out = "9=9"
		}
	}()
	m := region.VerifNewMulti(1 << 20)
	m.Add(rec.calls)
	req, ok := m.ToProto().(*pb.MultiRequest)
	if !ok {
		return "9=9"
	}
	var ras []string
	for _, ra := range req.RegionAction {
		reg := -1
		for _, ri := range run.infos {
			if string(ri.Name()) == string(ra.Region.Value) {
				reg = ri.idx
			}
		}
		if reg < 0 {
			reg = 8 // the region of the second table
		}
		var ids []int
		for _, a := range ra.Action {
			row := a.GetGet().GetRow()
			if len(row) == 3 {
				ids = append(ids, int(row[1]-'0')*10+int(row[2]-'0'))
			} else {
				ids = append(ids, 99)
			}
		}
		ras = append(ras, fmt.Sprintf("%d=%s", reg, dotInts(ids)))
	}
	if len(ras) == 0 {
		return "~"
	}
	return strings.Join(ras, ",")
}

func (c *bCase) line(o bObs) string {
	var metas []string
	for id := 0; id < c.nIDs(); id++ {
		b := "b"
		if !c.batchable[id] {
			b = "n"
		}
		a := "a"
		if !o.alive[id] {
			a = "d"
		}
		reg := c.region[id]
		if c.table[id] != 0 {
			reg = 8
		}
		metas = append(metas, fmt.Sprintf("%d:%s:%d:%s", c.table[id], b, reg, a))
	}
	var rounds []string
	for r, rd := range c.rounds {
		var locs, anss []string
		for id := 0; id < c.nIDs(); id++ {
			switch {
			case c.table[id] != 0:
				locs = append(locs, "0")
			case rd.regSrv[c.region[id]] >= 0:
				locs = append(locs, strconv.Itoa(rd.regSrv[c.region[id]]))
			default:
				// unavailable region: what the harness did when the call was located in this round
				// (own context done: 'O'); a call that was not located in this round: the script
				if t, ok := o.loc[[2]int{r, id}]; ok {
					locs = append(locs, string(t))
				} else {
					locs = append(locs, string(rd.locFail))
				}
			}
			a := rd.ans[id]
			switch a.kind {
			case 'o', '_':
				anss = append(anss, string(a.kind))
			default:
				anss = append(anss, fmt.Sprintf("%c%d", a.kind, tagOf(id, r)))
			}
		}
		cs := "-"
		switch rd.cancel {
		case 'w', 'e':
			cs = fmt.Sprintf("%c%d", rd.cancel, rd.cancelID)
		case 'a', 's':
			cs = string(rd.cancel)
		}
		var ord []int
		if r < len(o.ords) {
			ord = o.ords[r]
		}
		// own contexts done by the time this round's back-off sleep is under way
		var gone []int
		for id := 0; id < c.nIDs() && id < len(o.ownAt); id++ {
			if o.ownAt[id] <= r {
				gone = append(gone, id)
			}
		}
		rounds = append(rounds, strings.Join(locs, ".")+";"+strings.Join(anss, ".")+";"+dotInts(ord)+";"+cs+
			";"+dotInts(gone))
	}
	rs := "-"
	if len(rounds) > 0 {
		rs = strings.Join(rounds, "/")
	}
	res := "-"
	if len(o.res) > 0 {
		res = strings.Join(o.res, ".")
	}
	ok := o.ok
	if len(o.anom) > 0 {
		ok = "anomaly:" + strings.Join(o.anom, "+")
	}
	return fmt.Sprintf("c07 run %s %s %s %s %s %s %d %s", dotInts(c.batch), strings.Join(metas, "."),
		rs, res, ok, o.q, o.ms, o.mp)
}

// ---------------------------------------------------------------- generators

func simpleCase(n, nReg, nSrv int) *bCase {
	c := &bCase{nReg: nReg, nSrv: nSrv}
	for i := 0; i < n; i++ {
		c.batch = append(c.batch, i)
		c.table = append(c.table, 0)
		c.batchable = append(c.batchable, true)
		c.region = append(c.region, i%nReg)
		c.ownPre = append(c.ownPre, false)
	}
	return c
}

func (c *bCase) addRound() *bRound {
	rd := bRound{locFail: 'C', cancelID: -1}
	for g := 0; g < c.nReg; g++ {
		rd.regSrv = append(rd.regSrv, g%c.nSrv)
	}
	for i := 0; i < c.nIDs(); i++ {
		rd.ans = append(rd.ans, bAns{kind: '_'})
	}
	c.rounds = append(c.rounds, rd)
	return &c.rounds[len(c.rounds)-1]
}

// scripts: all outcome sequences of at most maxRounds rounds: retry-class outcomes followed by a
// terminal one (the last possible round is always terminal).
func allScripts(maxRounds int) [][]byte {
	var out [][]byte
	var rec func(prefix []byte)
	rec = func(prefix []byte) {
		for _, t := range []byte{'k', 'f'} {
			out = append(out, append(append([]byte{}, prefix...), t))
		}
		if len(prefix)+1 < maxRounds {
			for _, x := range []byte{'r', 'n', 's'} {
				rec(append(append([]byte{}, prefix...), x))
			}
		}
	}
	rec(nil)
	return out
}

func isRetryKind(k byte) bool { return k == 'r' || k == 'n' || k == 's' }

// fromScripts builds a case from one outcome script per call.
func fromScripts(scripts [][]byte, nReg, nSrv int) *bCase {
	c := simpleCase(len(scripts), nReg, nSrv)
	maxLen := 0
	for _, s := range scripts {
		if len(s) > maxLen {
			maxLen = len(s)
		}
	}
	for r := 0; r < maxLen; r++ {
		rd := c.addRound()
		for i, s := range scripts {
			if r < len(s) {
				rd.ans[i] = bAns{kind: s[r]}
			}
		}
	}
	return c
}

func (c *bCase) clone() *bCase {
	d := *c
	d.batch = append([]int(nil), c.batch...)
	d.table = append([]int(nil), c.table...)
	d.batchable = append([]bool(nil), c.batchable...)
	d.region = append([]int(nil), c.region...)
	d.ownPre = append([]bool(nil), c.ownPre...)
	d.noOwn = append([]bool(nil), c.noOwn...)
	d.rounds = nil
	for _, rd := range c.rounds {
		e := rd
		e.regSrv = append([]int(nil), rd.regSrv...)
		e.ans = append([]bAns(nil), rd.ans...)
		e.sleepOwn = append([]int(nil), rd.sleepOwn...)
		d.rounds = append(d.rounds, e)
	}
	return &d
}

// inRound reports whether call id is still being sent in round r (all earlier answers retryable).
func (c *bCase) inRound(id, r int) bool {
	for q := 0; q < r; q++ {
		if !isRetryKind(c.rounds[q].ans[id].kind) {
			return false
		}
	}
	return true
}

// withCancels: every cancellation point of a base case (which must not have one).
func withCancels(base *bCase) []*bCase {
	var out []*bCase
	for r := range base.rounds {
		live := 0
		for id := 0; id < base.nIDs(); id++ {
			if base.inRound(id, r) {
				live++
			}
		}
		if live == 0 {
			break
		}
		for _, k := range []byte{'a', 's'} {
			d := base.clone()
			d.rounds[r].cancel = k
			out = append(out, d)
		}
		for id := 0; id < base.nIDs(); id++ {
			if !base.inRound(id, r) {
				continue
			}
			a := base.rounds[r].ans[id]
			// at the wait on id: without an answer, and with each answer arriving just too late
			for _, k := range []byte{'_', a.kind} {
				if k == 'o' {
					continue
				}
				d := base.clone()
				d.rounds[r].cancel = 'w'
				d.rounds[r].cancelID = id
				d.rounds[r].ans[id] = bAns{kind: k}
				out = append(out, d)
			}
			if a.kind == 'r' || a.kind == 'n' || a.kind == 's' || a.kind == 'f' {
				d := base.clone()
				d.rounds[r].cancel = 'e'
				d.rounds[r].cancelID = id
				out = append(out, d)
			}
		}
	}
	return out
}

func layoutFor(n, k int) (nReg, nSrv int) {
	switch k % 3 {
	case 0:
		return 1, 1
	case 1:
		return n, n // every call its own region and server (n <= 3)
	}
	if n == 1 {
		return 1, 1
	}
	return 2, 1
}

func genExhaustiveScripts(maxCalls, maxRounds int, cases *[]*bCase) {
	scripts := allScripts(maxRounds)
	for _, s0 := range scripts {
		*cases = append(*cases, fromScripts([][]byte{s0}, 1, 1))
	}
	if maxCalls >= 2 {
		for _, s0 := range scripts {
			for _, s1 := range scripts {
				for k := 0; k < 3; k++ {
					nr, ns := layoutFor(2, k)
					*cases = append(*cases, fromScripts([][]byte{s0, s1}, nr, ns))
				}
			}
		}
	}
	if maxCalls >= 3 {
		i := 0
		for _, s0 := range scripts {
			for _, s1 := range scripts {
				for _, s2 := range scripts {
					nr, ns := layoutFor(3, i)
					i++
					*cases = append(*cases, fromScripts([][]byte{s0, s1, s2}, nr, ns))
				}
			}
		}
	}
}

func genCancels(cases *[]*bCase, rng *RNG, sample int) {
	scripts := allScripts(3)
	short := allScripts(2)
	for _, s0 := range scripts {
		*cases = append(*cases, withCancels(fromScripts([][]byte{s0}, 1, 1))...)
	}
	for _, s0 := range short {
		for _, s1 := range short {
			for k := 0; k < 3; k++ {
				nr, ns := layoutFor(2, k)
				*cases = append(*cases, withCancels(fromScripts([][]byte{s0, s1}, nr, ns))...)
			}
		}
	}
	for i := 0; i < sample; i++ {
		n := 2 + rng.Intn(2)
		var ss [][]byte
		for j := 0; j < n; j++ {
			ss = append(ss, scripts[rng.Intn(len(scripts))])
		}
		nr, ns := layoutFor(n, rng.Intn(3))
		all := withCancels(fromScripts(ss, nr, ns))
		if len(all) > 0 {
			*cases = append(*cases, all[rng.Intn(len(all))])
		}
	}
}

// genOwnCtx: calls with their own context already done / cancelled when the wait reaches them.
func genOwnCtx(cases *[]*bCase) {
	kinds := []bAns{{kind: 'o'}, {kind: 'k', own: true}, {kind: 'f', own: true}, {kind: 'r', own: true},
		{kind: 'n', own: true}, {kind: 'k'}, {kind: 'r'}, {kind: 'f'}}
	for n := 1; n <= 2; n++ {
		for _, pre := range []bool{false, true} {
			for _, a0 := range kinds {
				for _, a1 := range kinds {
					if n == 1 && a1.kind != 'k' {
						continue
					}
					for k := 0; k < 3; k++ {
						nr, ns := layoutFor(n, k)
						if n == 1 && k > 0 {
							continue
						}
						c := simpleCase(n, nr, ns)
						as := []bAns{a0, a1}
						rd := c.addRound()
						for i := 0; i < n; i++ {
							rd.ans[i] = as[i]
							if pre && (as[i].own || as[i].kind == 'o') {
								c.ownPre[i] = true
							}
						}
						// retry round: the retried calls then succeed (or end on their own context)
						rd2 := c.addRound()
						for i := 0; i < n; i++ {
							if as[i].own {
								rd2.ans[i] = bAns{kind: 'o'}
							} else {
								rd2.ans[i] = bAns{kind: 'k'}
							}
						}
						*cases = append(*cases, c)
					}
				}
			}
		}
	}
}

// genLocate: region location failing (batch context cancelled while it blocks / client closed) in
// round 0 or in a retry round, next to calls that already succeeded.
func genLocate(cases *[]*bCase) {
	firsts := [][]byte{{'k', 'n'}, {'n', 'k'}, {'n', 'n'}, {'k', 's'}, {'s', 'n'}, {'r', 'n'}, {'f', 'n'},
		{'n', 'f'}, {'k', 'k'}, {'n', 'r'}}
	for _, lf := range []byte{'C', 'L'} {
		for _, f := range firsts {
			for layout := 0; layout < 2; layout++ {
				for blockRound := 0; blockRound < 2; blockRound++ {
					for mask := 1; mask < 4; mask++ {
						nr := 2
						if layout == 1 {
							nr = 1
							if mask != 1 {
								continue
							}
						}
						c := simpleCase(2, nr, 1)
						rd := c.addRound()
						rd.ans[0], rd.ans[1] = bAns{kind: f[0]}, bAns{kind: f[1]}
						rd2 := c.addRound()
						rd2.ans[0], rd2.ans[1] = bAns{kind: 'k'}, bAns{kind: 'k'}
						b := &c.rounds[blockRound]
						b.locFail = lf
						for g := 0; g < nr; g++ {
							if mask&(1<<g) != 0 {
								b.regSrv[g] = -1
							}
						}
						*cases = append(*cases, c)
					}
				}
			}
		}
	}
	// three calls, the middle one succeeds, the outer ones are re-located and fail
	for _, lf := range []byte{'C', 'L'} {
		c := simpleCase(3, 3, 2)
		rd := c.addRound()
		rd.ans[0], rd.ans[1], rd.ans[2] = bAns{kind: 'n'}, bAns{kind: 'k'}, bAns{kind: 's'}
		rd2 := c.addRound()
		rd2.locFail = lf
		rd2.regSrv[0], rd2.regSrv[2] = -1, -1
		rd2.ans[0], rd2.ans[2] = bAns{kind: 'k'}, bAns{kind: 'k'}
		*cases = append(*cases, c)
	}
}

// genOwnLocate: calls whose own context is done when they are located while their region is
// unavailable (done before SendBatch: round 0; cancelled at the wait of round 0 next to a retryable
// answer: retry round) - alone, next to calls that are located, and next to calls of unavailable
// regions whose own context is alive (the batch context is cancelled / the client closed there),
// before and after them in batch order.
func genOwnLocate(cases *[]*bCase) {
	for n := 1; n <= 3; n++ {
		for dead := 1; dead < 1<<n; dead++ {
			for blocked := 1; blocked < 1<<n; blocked++ {
				if dead&blocked == 0 {
					continue
				}
				for _, lf := range []byte{'C', 'L'} {
					if blocked&^dead == 0 && lf == 'L' {
						continue // no call that could trigger the failure
					}
					for _, first := range []byte{'k', 'n', 'f', 'r'} {
						c := simpleCase(n, n, 1+n%2)
						rd := c.addRound()
						rd.locFail = lf
						rd2 := c.addRound()
						for i := 0; i < n; i++ {
							if blocked&(1<<i) != 0 {
								rd.regSrv[i] = -1
							}
							if dead&(1<<i) != 0 {
								c.ownPre[i] = true
								// located all the same (region available): no answer, or one that is used
								if i%2 == 0 {
									rd.ans[i] = bAns{kind: 'o'}
								} else {
									rd.ans[i] = bAns{kind: 'k'}
								}
								rd2.ans[i] = bAns{kind: 'o'}
							} else {
								rd.ans[i] = bAns{kind: first}
								rd2.ans[i] = bAns{kind: 'k'}
							}
						}
						*cases = append(*cases, c)
					}
				}
			}
		}
	}
	// retry rounds: the own context is cancelled at the wait of round 0, the answer is retryable,
	// and the region is unavailable when the call is located again
	for _, k0 := range []byte{'n', 'r', 's'} {
		for _, k1 := range []byte{'k', 'n', 'f', 'r', 's'} {
			for blk := 1; blk < 4; blk++ {
				for _, lf := range []byte{'C', 'L'} {
					for _, swap := range []bool{false, true} {
						for nSrv := 1; nSrv <= 2; nSrv++ {
							d, l := 0, 1 // d: the call that gives up, l: the other one
							if swap {
								d, l = 1, 0
							}
							if blk&(1<<l) == 0 && lf == 'L' {
								continue
							}
							c := simpleCase(2, 2, nSrv)
							rd := c.addRound()
							rd.ans[d] = bAns{kind: k0, own: true}
							rd.ans[l] = bAns{kind: k1}
							rd2 := c.addRound()
							rd2.locFail = lf
							for g := 0; g < 2; g++ {
								if blk&(1<<g) != 0 {
									rd2.regSrv[g] = -1
								}
							}
							rd2.ans[d] = bAns{kind: 'o'}
							rd2.ans[l] = bAns{kind: 'k'}
							*cases = append(*cases, c)
						}
					}
				}
			}
		}
	}
	// three calls on three regions: the middle one succeeds, the outer ones are retried; one of them
	// has given up by then and its region is unavailable, the other one is located / is not
	for _, lf := range []byte{'C', 'L'} {
		for d := 0; d <= 2; d += 2 {
			for _, otherBlocked := range []bool{false, true} {
				c := simpleCase(3, 3, 2)
				rd := c.addRound()
				rd.ans[0], rd.ans[1], rd.ans[2] = bAns{kind: 'n'}, bAns{kind: 'k'}, bAns{kind: 's'}
				rd.ans[d].own = true
				rd2 := c.addRound()
				rd2.locFail = lf
				rd2.regSrv[d] = -1
				if otherBlocked {
					rd2.regSrv[2-d] = -1
				}
				rd2.ans[d] = bAns{kind: 'o'}
				rd2.ans[2-d] = bAns{kind: 'k'}
				*cases = append(*cases, c)
			}
		}
	}
}

// genInvalid: batches of 1..maxN calls with invalid entries (other table, repeated call,
// non-batchable call) at every position, alone and in pairs.
func genInvalid(maxN int, cases *[]*bCase) {
	mk := func(n int, kinds []byte) *bCase {
		c := simpleCase(n, 2, 2)
		for i, k := range kinds {
			switch k {
			case 'T':
				c.table[i] = 1
			case 'B':
				c.batchable[i] = false
			case 'D':
				if i > 0 {
					c.batch[i] = c.batch[(i-1)/2]
				}
			}
		}
		rd := c.addRound()
		for i := range rd.ans {
			rd.ans[i] = bAns{kind: 'k'}
		}
		return c
	}
	for n := 1; n <= maxN; n++ {
		for p := 0; p < n; p++ {
			for _, k := range []byte{'T', 'B', 'D'} {
				if k == 'D' && p == 0 {
					continue
				}
				kinds := make([]byte, n)
				kinds[p] = k
				*cases = append(*cases, mk(n, kinds))
				for p2 := p + 1; p2 < n; p2++ {
					for _, k2 := range []byte{'T', 'B', 'D'} {
						kinds2 := append([]byte(nil), kinds...)
						kinds2[p2] = k2
						*cases = append(*cases, mk(n, kinds2))
					}
				}
			}
		}
		// every call of the other table except one (table of batch[0] decides)
		if n >= 2 {
			kinds := make([]byte, n)
			for i := 1; i < n; i++ {
				kinds[i] = 'T'
			}
			*cases = append(*cases, mk(n, kinds))
		}
	}
}

// genLayouts: all assignments of n calls to regions and of regions to servers, one retry round.
func genLayouts(maxN int, cases *[]*bCase) {
	for n := 1; n <= maxN; n++ {
		for nReg := 1; nReg <= 3 && nReg <= n; nReg++ {
			total := 1
			for i := 0; i < n; i++ {
				total *= nReg
			}
			for code := 0; code < total; code++ {
				for nSrv := 1; nSrv <= nReg && nSrv <= 3; nSrv++ {
					for first := 0; first < 3; first++ {
						c := simpleCase(n, nReg, nSrv)
						x := code
						for i := 0; i < n; i++ {
							c.region[i] = x % nReg
							x /= nReg
						}
						rd := c.addRound()
						for i := 0; i < n; i++ {
							switch (i + first) % 3 {
							case 0:
								rd.ans[i] = bAns{kind: 'k'}
							case 1:
								rd.ans[i] = bAns{kind: 'n'}
							default:
								rd.ans[i] = bAns{kind: 's'}
							}
						}
						rd2 := c.addRound()
						for g := range rd2.regSrv {
							rd2.regSrv[g] = (g + 1) % nSrv // regions moved
						}
						for i := 0; i < n; i++ {
							rd2.ans[i] = bAns{kind: 'k'}
						}
						*cases = append(*cases, c)
					}
				}
			}
		}
	}
}

func genRandom(rng *RNG, count, maxRounds int, lateAnswers bool, cases *[]*bCase) {
	for i := 0; i < count; i++ {
		n := 1 + rng.Intn(9)
		nReg := 1 + rng.Intn(4)
		nSrv := 1 + rng.Intn(3)
		c := simpleCase(n, nReg, nSrv)
		for id := 0; id < n; id++ {
			c.region[id] = rng.Intn(nReg)
		}
		if rng.Intn(12) == 0 { // an invalid entry
			p := rng.Intn(n)
			switch rng.Intn(3) {
			case 0:
				c.table[p] = 1
			case 1:
				c.batchable[p] = false
			default:
				if p > 0 {
					c.batch[p] = c.batch[rng.Intn(p)]
				} else {
					c.batchable[p] = false
				}
			}
		}
		rounds := 1 + rng.Intn(maxRounds)
		ended := make([]bool, n)
		ownUsed := false
		if rng.Intn(10) == 0 { // own contexts already done (whatever answer there is is used)
			for k := 1 + rng.Intn(2); k > 0; k-- {
				c.ownPre[rng.Intn(n)] = true
			}
			ownUsed = true
		}
		for r := 0; r < rounds; r++ {
			rd := c.addRound()
			for g := range rd.regSrv {
				rd.regSrv[g] = rng.Intn(nSrv)
			}
			last := r == rounds-1
			for id := 0; id < n; id++ {
				if ended[id] {
					continue
				}
				x := rng.Intn(100)
				switch {
				case last || x < 35:
					rd.ans[id] = bAns{kind: 'k'}
				case x < 45:
					rd.ans[id] = bAns{kind: 'f'}
				case x < 60:
					rd.ans[id] = bAns{kind: 'r'}
				case x < 76:
					rd.ans[id] = bAns{kind: 'n'}
				case x < 78:
					// retried although its own context is cancelled at this wait
					rd.ans[id] = bAns{kind: 'n', own: true}
					ownUsed = true
				case x < 94:
					rd.ans[id] = bAns{kind: 's'}
				case x < 97:
					rd.ans[id] = bAns{kind: 'o'}
					ownUsed = true
				default:
					rd.ans[id] = bAns{kind: 'k', own: true}
					ownUsed = true
				}
				if last && rng.Intn(6) == 0 {
					rd.ans[id] = bAns{kind: 'f'}
				}
				if c.ownPre[id] && r > 0 && !last && rng.Intn(2) == 0 {
					rd.ans[id] = bAns{kind: 'o'}
				}
				if !isRetryKind(rd.ans[id].kind) {
					ended[id] = true
				}
			}
		}
		// at most one disturbance
		switch x := rng.Intn(10); {
		case x < 3 && !ownUsed: // cancellation
			r := rng.Intn(rounds)
			var live []int
			for id := 0; id < n; id++ {
				if c.inRound(id, r) {
					live = append(live, id)
				}
			}
			if len(live) > 0 {
				id := live[rng.Intn(len(live))]
				rd := &c.rounds[r]
				switch rng.Intn(5) {
				case 0:
					rd.cancel = 'a'
				case 1:
					rd.cancel = 's'
				case 2:
					rd.cancel, rd.cancelID = 'w', id
					rd.ans[id] = bAns{kind: '_'}
				case 3:
					// the answer arrives just too late for the select and is found by the sweep
					if lateAnswers && rd.ans[id].kind != 'o' && !rd.ans[id].own {
						rd.cancel, rd.cancelID = 'w', id
					}
				default:
					if k := rd.ans[id].kind; (isRetryKind(k) || k == 'f') && !rd.ans[id].own {
						rd.cancel, rd.cancelID = 'e', id
					}
				}
			}
		case x < 5: // a region that cannot be located
			r := rng.Intn(rounds)
			rd := &c.rounds[r]
			rd.regSrv[rng.Intn(nReg)] = -1
			if rng.Bool() {
				rd.locFail = 'L'
			}
		}
		*cases = append(*cases, c)
	}
}

// genSleepOwn: own contexts cancelled inside a back-off sleep. 1..3 calls; every assignment of
// first answers over {retryable, not serving, ok, fatal} with at least one call to retry; the own
// contexts of every subset of the calls are cancelled inside the sleep that follows (all of the calls
// about to be retried: the sleep must end at once and SendBatch return with the errors of this round;
// only some of them: the sleep runs to its end and the next round proceeds, the cancelled calls ending
// with their answer or their own-context error); without and with one call that has no context of its
// own, inside or outside the set of calls to retry; at the first probe inside the sleep, at the batch
// context's Done(), or one by one; in the first back-off (when 0), in a later one (when 1: after a
// round in which every call got a retryable error and the sleep completed) and in the back-off that
// follows two immediate retries (when 2; with not-serving/server errors only it is the third
// immediate retry in a row that asks for it).
func genSleepOwn(maxCalls int, cases *[]*bCase) {
	idx := 0
	build := func(n int, kinds []byte, sub, noOwn, mode, when int) {
		nr, ns := layoutFor(n, idx)
		idx++
		c := simpleCase(n, nr, ns)
		c.noOwn = make([]bool, n)
		if noOwn >= 0 {
			c.noOwn[noOwn] = true
		}
		switch when {
		case 1:
			rd := c.addRound()
			for i := 0; i < n; i++ {
				rd.ans[i] = bAns{kind: 'r'}
			}
		case 2:
			for q := 0; q < 2; q++ {
				rd := c.addRound()
				for i := 0; i < n; i++ {
					rd.ans[i] = bAns{kind: 'n'}
				}
			}
		}
		rd := c.addRound()
		for i := 0; i < n; i++ {
			rd.ans[i] = bAns{kind: kinds[i]}
			if sub&(1<<i) != 0 {
				rd.sleepOwn = append(rd.sleepOwn, i)
			}
		}
		if mode == 2 && len(rd.sleepOwn) > 1 && idx%2 == 0 {
			// the other order: the first retried call's context ends after its AfterFunc was registered
			for a, b := 0, len(rd.sleepOwn)-1; a < b; a, b = a+1, b-1 {
				rd.sleepOwn[a], rd.sleepOwn[b] = rd.sleepOwn[b], rd.sleepOwn[a]
			}
		}
		rd.sleepOwnMode = mode
		// the round after the sleep (if the sleep completes): a retried call whose own context is done
		// gets no answer, or one (which is used all the same); the others succeed
		rd2 := c.addRound()
		for i := 0; i < n; i++ {
			switch {
			case !isRetryKind(kinds[i]):
			case sub&(1<<i) != 0 && (i+idx)%3 != 0:
				rd2.ans[i] = bAns{kind: 'o'}
			case (i+idx)%5 == 0:
				rd2.ans[i] = bAns{kind: 'f'}
			default:
				rd2.ans[i] = bAns{kind: 'k'}
			}
		}
		*cases = append(*cases, c)
	}
	for n := 1; n <= maxCalls; n++ {
		total := 1
		for i := 0; i < n; i++ {
			total *= 4
		}
		for code := 0; code < total; code++ {
			kinds := make([]byte, n)
			x, retry, backoff := code, 0, false
			for i := 0; i < n; i++ {
				kinds[i] = "rnkf"[x%4]
				x /= 4
				if isRetryKind(kinds[i]) {
					retry |= 1 << i
				}
				backoff = backoff || kinds[i] == 'r'
			}
			if retry == 0 {
				continue
			}
			for sub := 1; sub < 1<<n; sub++ {
				for noOwn := -1; noOwn < n; noOwn++ {
					if noOwn >= 0 && sub&(1<<noOwn) != 0 {
						continue // a context that does not exist cannot be cancelled
					}
					for mode := 0; mode < 3; mode++ {
						for when := 0; when < 3; when++ {
							if !backoff && when != 2 {
								continue // immediate retry: no sleep (covered by genRandom's own cancels)
							}
							if n == 3 && (code+sub+mode+when)%2 == 1 && sub != retry {
								continue // thin out the three-call cases that do not end the sleep
							}
							build(n, kinds, sub, noOwn, mode, when)
						}
					}
				}
			}
		}
	}
	// the own contexts are done already when the sleep begins: cancelled before SendBatch or at the
	// wait of the round (next to the retryable answer), for all calls to retry / all but one
	for n := 1; n <= maxCalls; n++ {
		for pre := 0; pre < 2; pre++ {
			for keep := -1; keep < n; keep++ {
				for noOwn := -1; noOwn < n; noOwn++ {
					if noOwn >= 0 && noOwn != keep {
						continue
					}
					nr, ns := layoutFor(n, idx)
					idx++
					c := simpleCase(n, nr, ns)
					c.noOwn = make([]bool, n)
					if noOwn >= 0 {
						c.noOwn[noOwn] = true
					}
					rd := c.addRound()
					rd2 := c.addRound()
					for i := 0; i < n; i++ {
						rd.ans[i] = bAns{kind: 'r'}
						rd2.ans[i] = bAns{kind: 'k'}
						if i == keep {
							continue
						}
						rd2.ans[i] = bAns{kind: 'o'}
						if pre == 1 {
							c.ownPre[i] = true
						} else {
							rd.ans[i].own = true
						}
					}
					*cases = append(*cases, c)
				}
			}
		}
	}
}

// genRandomSleepOwn: copies of random cases with own contexts cancelled inside a back-off sleep.
func genRandomSleepOwn(rng *RNG, from []*bCase, every int, cases *[]*bCase) {
	for _, b := range from {
		if rng.Intn(every) != 0 || len(b.rounds) < 2 {
			continue
		}
		c := b.clone()
		r := rng.Intn(len(c.rounds) - 1)
		rd := &c.rounds[r]
		if rd.cancel != 0 {
			continue
		}
		for id := 0; id < c.nIDs(); id++ {
			if c.inRound(id, r) && isRetryKind(rd.ans[id].kind) && rng.Intn(4) != 0 {
				rd.sleepOwn = append(rd.sleepOwn, id)
			} else if rng.Intn(8) == 0 {
				rd.sleepOwn = append(rd.sleepOwn, id)
			}
		}
		if len(rd.sleepOwn) == 0 {
			continue
		}
		rd.sleepOwnMode = rng.Intn(3)
		*cases = append(*cases, c)
	}
}

// genBackoffLadder: enough consecutive immediate retries to reach the back-off, then success.
func genBackoffLadder(cases *[]*bCase) {
	for _, seq := range []string{"nnnnk", "sssnk", "nsnsk", "nnrnk", "rnnnk", "nnnnf", "ssssk"} {
		for n := 1; n <= 2; n++ {
			var ss [][]byte
			ss = append(ss, []byte(seq))
			if n == 2 {
				ss = append(ss, []byte("k"))
			}
			*cases = append(*cases, fromScripts(ss, n, 1))
		}
	}
}

// sleptThroughGiveUp: the one observation that depends on timing. When the own context of every call
// about to be retried is done, what ends the back-off sleep is a goroutine (context.AfterFunc) that
// has to run before the sleep's timer (16 ms for the first back-off) fires; on a loaded machine it
// may lose that race, and SendBatch legitimately goes on with the next round. The harness cannot see
// which of the two the select took, so a run that shows a next round after a round in which (as
// scripted) every queued call with a retry-class answer had its own context done, and a back-off may
// have been due, is repeated with little else running (see runBatchProp); an implementation that does
// not watch the own contexts shows the next round every time.
func (c *bCase) sleptThroughGiveUp(o bObs) bool {
	if o.ownAt == nil {
		return false
	}
	// rounds that were begun: something was queued, or a location found its region unavailable
	begun := map[int]bool{}
	for r, q := range o.qr {
		if len(q) > 0 {
			begun[r] = true
		}
	}
	for k := range o.loc {
		begun[k[0]] = true
	}
	for r := 0; r < len(o.qr) && r < len(c.rounds); r++ {
		rd := &c.rounds[r]
		if rd.cancel != 0 || !begun[r+1] {
			continue
		}
		retry, backoff, allGone := 0, r >= 2, true
		for _, id := range o.qr[r] {
			k := rd.ans[id].kind
			if !isRetryKind(k) {
				continue
			}
			retry++
			backoff = backoff || k == 'r'
			if o.ownAt[id] > r || (id < len(c.noOwn) && c.noOwn[id]) {
				allGone = false
			}
		}
		if retry > 0 && backoff && allGone {
			return true
		}
	}
	return false
}

func genBlocked(cases *[]*bCase) {
	// no answer at all and nobody cancels: SendBatch blocks (model: fault)
	c := simpleCase(2, 1, 1)
	rd := c.addRound()
	rd.ans[0] = bAns{kind: 'k'}
	*cases = append(*cases, c)
}

func runBatchProp(prop, tier string, seed uint64, out *Out) {
	slog.SetDefault(slog.New(slog.NewTextHandler(io.Discard, nil)))
	quick := tier == "quick"
	var cases []*bCase
	rng := NewRNG(seed, "c07-"+prop)
	if prop == "C07" {
		genExhaustiveScripts(3, 3, &cases)
		if quick {
			genCancels(&cases, rng, 1500)
		} else {
			genCancels(&cases, rng, 20000)
		}
		genOwnCtx(&cases)
		genLocate(&cases)
		genOwnLocate(&cases)
		genBackoffLadder(&cases)
		genBlocked(&cases)
		genInvalid(3, &cases)
		n0 := len(cases)
		if quick {
			genRandom(rng, 30000, 4, true, &cases)
		} else {
			genRandom(rng, 300000, 5, true, &cases)
		}
		// (after the existing cases) own contexts ending inside a back-off sleep
		n1 := len(cases)
		genSleepOwn(3, &cases)
		genRandomSleepOwn(NewRNG(seed, "c07-sleepown"), cases[n0:n1], 8, &cases)
	} else if prop == "C13" {
		// C13 at the SendBatch level: a call whose own context ends (before the batch, during the
		// wait, while its region is located) is reported failed — its slot and allOK agree
		genOwnCtx(&cases)
		genOwnLocate(&cases)
		genCancels(&cases, rng, 400)
		// ... or ends inside a back-off sleep: when nobody waits for the calls to be retried any more
		// SendBatch returns, each of them reported failed with the error it was given
		genSleepOwn(2, &cases)
	} else if prop == "C02" {
		// C02 at the SendBatch level: the slot of a call carries that call's own answer, also when
		// other calls of the batch are retried or cannot be located in a retry round
		genExhaustiveScripts(2, 3, &cases)
		genLocate(&cases)
		genOwnLocate(&cases)
		if quick {
			genRandom(rng, 3000, 4, true, &cases)
		} else {
			genRandom(rng, 60000, 5, true, &cases)
		}
	} else {
		genInvalid(5, &cases)
		if quick {
			genLayouts(4, &cases)
			genExhaustiveScripts(2, 3, &cases)
		} else {
			genLayouts(5, &cases)
			genExhaustiveScripts(3, 3, &cases)
		}
		genLocate(&cases)
		genOwnLocate(&cases)
		genBackoffLadder(&cases)
		if quick {
			genRandom(rng, 30000, 4, false, &cases)
		} else {
			genRandom(rng, 300000, 5, false, &cases)
		}
	}
	lines := make([]string, len(cases))
	again := make([]bool, len(cases))
	sem := make(chan struct{}, 192)
	var wg sync.WaitGroup
	for i, c := range cases {
		if !out.WantAt(i) {
			continue
		}
		wg.Add(1)
		sem <- struct{}{}
		go func(i int, c *bCase) {
			defer wg.Done()
			defer func() { <-sem }()
			o := runBatchCase(c)
			lines[i] = c.line(o)
			again[i] = c.sleptThroughGiveUp(o)
		}(i, c)
	}
	wg.Wait()
	// the runs whose outcome may have been decided by the scheduler (see sleptThroughGiveUp): again,
	// a few at a time, up to three times; the last observation counts. Bounded: when very many runs
	// show it, it is not the scheduler.
	sem = make(chan struct{}, 6)
	budget := 1500
	for i, c := range cases {
		if !again[i] {
			continue
		}
		if budget--; budget < 0 {
			break
		}
		wg.Add(1)
		sem <- struct{}{}
		go func(i int, c *bCase) {
			defer wg.Done()
			defer func() { <-sem }()
			for k := 0; k < 3; k++ {
				o := runBatchCase(c)
				lines[i] = c.line(o)
				if !c.sleptThroughGiveUp(o) {
					return
				}
			}
		}(i, c)
	}
	wg.Wait()
	for i := range cases {
		if out.Want() {
			out.Line("%s", lines[i])
		} else {
			out.n++
		}
	}
}

// c12WireCase feeds one well-formed all-success MultiResponse to the real region client.
func c12WireCase(setup []c11MC, late bool, q int) string {
	c := &c11Case{op: "frame", kind: "multi", q: q, calls: setup, f: multiBase(setup), lateCancel: late}
	line, _ := c11RunWire(c)
	t := strings.Fields(line)
	l := "0"
	if late {
		l = "1"
	}
	if len(t) < 13 || t[1] != "frame" {
		return "c12r broken " + strings.Join(t, "_")
	}
	return fmt.Sprintf("c12r frame %s %s %s", l, t[4], t[12])
}
