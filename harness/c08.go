package main

// C08: the location cache (keyRegionCache: real b.Tree, real region.Compare) driven with whole
// op sequences; every observation after every op goes to the Lean driver (Drive/C08.lean).

import (
	"bytes"
	"context"
	"fmt"
	"io"
	"log/slog"
	"sort"
	"strconv"
	"strings"
	"sync"
	"time"

	"github.com/tsuna/gohbase"
	"github.com/tsuna/gohbase/hrpc"
	"github.com/tsuna/gohbase/region"
)

func init() { props["C08"] = runC08 }

const fakeMD5 = "0123456789abcdef0123456789abcdef"

func quietLogs() {
	slog.SetDefault(slog.New(slog.NewTextHandler(io.Discard, &slog.HandlerOptions{Level: slog.Level(100)})))
}

// desc is a region descriptor; one Go object exists per distinct descriptor in a sequence.
type desc struct {
	ns, tbl, start, stop, name []byte
	id                         uint64
}

func (d desc) key() string {
	return fmt.Sprintf("%x/%x/%x/%x/%x/%d", d.ns, d.tbl, d.start, d.stop, d.name, d.id)
}

func (d desc) tok() string {
	return fmt.Sprintf("d:%s:%s:%s:%s:%s:%d", hx(d.ns), hx(d.tbl), hx(d.start), hx(d.stop), hx(d.name), d.id)
}

func fqOf(ns, tbl []byte) []byte {
	if len(ns) == 0 {
		return tbl
	}
	return append(append(append([]byte{}, ns...), ':'), tbl...)
}

// hbaseName builds `fqtable,start,<id>.<md5>.` like HBase does.
func hbaseName(fq, start []byte, idstr string, md5 string) []byte {
	n := append([]byte{}, fq...)
	n = append(n, ',')
	n = append(n, start...)
	n = append(n, ',')
	n = append(n, idstr...)
	n = append(n, '.')
	n = append(n, md5...)
	return append(n, '.')
}

// mkDesc: a well-formed descriptor (decimal id embedded in the name).
func mkDesc(ns, tbl, start, stop []byte, id uint64) desc {
	return desc{ns: ns, tbl: tbl, start: start, stop: stop, id: id,
		name: hbaseName(fqOf(ns, tbl), start, strconv.FormatUint(id, 10), fakeMD5)}
}

type tableName struct{ ns, tbl []byte }

var stdTables = []tableName{{nil, []byte("t")}, {nil, []byte("t2")}, {[]byte("ns"), []byte("t")}}

// seqRun accumulates one line.
type seqRun struct {
	descs []desc
	objs  []hrpc.RegionInfo
	byKey map[string]int
	byObj map[hrpc.RegionInfo]int
	toks  []string
}

func newSeqRun() *seqRun {
	return &seqRun{byKey: map[string]int{}, byObj: map[hrpc.RegionInfo]int{}}
}

func (s *seqRun) add(d desc) int {
	k := d.key()
	if i, ok := s.byKey[k]; ok {
		return i
	}
	var ns []byte
	if len(d.ns) != 0 {
		ns = d.ns
	}
	o := region.NewInfo(d.id, ns, d.tbl, d.name, d.start, d.stop)
	i := len(s.descs)
	s.descs = append(s.descs, d)
	s.objs = append(s.objs, o)
	s.byKey[k] = i
	s.byObj[o] = i
	return i
}

func (s *seqRun) idxList(rs []hrpc.RegionInfo) string {
	if len(rs) == 0 {
		return "-"
	}
	p := make([]string, len(rs))
	for i, r := range rs {
		j, ok := s.byObj[r]
		if !ok {
			j = 999999
		}
		p[i] = strconv.Itoa(j)
	}
	return strings.Join(p, ".")
}

func (s *seqRun) deadList() string {
	var p []string
	for i, o := range s.objs {
		if o.Context().Err() != nil {
			p = append(p, strconv.Itoa(i))
		}
	}
	if len(p) == 0 {
		return "-"
	}
	return strings.Join(p, ".")
}

func b01(b bool) string {
	if b {
		return "1"
	}
	return "0"
}

type cacheOp struct {
	kind byte // 'p' put, 'd' del, 'g' getOverlaps
	d    desc
}

// cacheLike is implemented by the bare cache and by a real client's cache.
type cacheLike interface {
	Put(r hrpc.RegionInfo) ([]hrpc.RegionInfo, bool)
	Del(r hrpc.RegionInfo) bool
	Dump() []hrpc.RegionInfo
}

func safePut(c cacheLike, r hrpc.RegionInfo) (ov []hrpc.RegionInfo, rep bool, panicked bool) {
	defer func() {
		if e := recover(); e != nil {
			panicked = true
		}
	}()
	ov, rep = c.Put(r)
	return
}

func safeDel(c cacheLike, r hrpc.RegionInfo) (ok bool, panicked bool) {
	defer func() {
		if e := recover(); e != nil {
			panicked = true
		}
	}()
	ok = c.Del(r)
	return
}

func safeGetOverlaps(c *gohbase.VerifCache, r hrpc.RegionInfo) (ov []hrpc.RegionInfo, panicked bool) {
	defer func() {
		if e := recover(); e != nil {
			panicked = true
		}
	}()
	ov = c.GetOverlaps(r)
	return
}

// c08Line runs the ops on a fresh real cache and returns the driver line.
func c08Line(ops []cacheOp) string {
	s := newSeqRun()
	c := gohbase.VerifNewCache()
	for _, op := range ops {
		i := s.add(op.d)
		o := s.objs[i]
		switch op.kind {
		case 'p':
			ov, rep, pan := safePut(c, o)
			if pan {
				s.toks = append(s.toks, fmt.Sprintf("put:%d:panic", i))
			} else {
				s.toks = append(s.toks, fmt.Sprintf("put:%d:%s:%s:%s:%s", i, s.idxList(ov), b01(rep),
					s.idxList(c.Dump()), s.deadList()))
			}
		case 'd':
			ok, pan := safeDel(c, o)
			if pan {
				s.toks = append(s.toks, fmt.Sprintf("del:%d:panic", i))
			} else {
				s.toks = append(s.toks, fmt.Sprintf("del:%d:%s:%s:%s", i, b01(ok), s.idxList(c.Dump()), s.deadList()))
			}
		case 'g':
			ov, pan := safeGetOverlaps(c, o)
			if pan {
				s.toks = append(s.toks, fmt.Sprintf("get:%d:panic", i))
			} else {
				s.toks = append(s.toks, fmt.Sprintf("get:%d:%s", i, s.idxList(ov)))
			}
		}
	}
	var sb strings.Builder
	sb.WriteString("c08 seq")
	for _, d := range s.descs {
		sb.WriteByte(' ')
		sb.WriteString(d.tok())
	}
	for _, t := range s.toks {
		sb.WriteByte(' ')
		sb.WriteString(t)
	}
	return sb.String()
}

// wfRanges: all [start, stop) over the given keys (sorted, first may be empty = unbounded)
// with start < stop or stop unbounded.
func wfRanges(keys [][]byte) [][2][]byte {
	var out [][2][]byte
	for _, s := range keys {
		for _, e := range keys {
			if len(e) == 0 || bytes.Compare(s, e) < 0 {
				out = append(out, [2][]byte{s, e})
			}
		}
	}
	return out
}

func descUniverse(tables []tableName, ranges [][2][]byte, ids []uint64) []desc {
	var u []desc
	for _, t := range tables {
		for _, r := range ranges {
			for _, id := range ids {
				u = append(u, mkDesc(t.ns, t.tbl, r[0], r[1], id))
			}
		}
	}
	return u
}

// enumSeqs calls f with every op sequence of exactly n ops over `ops`; first restricts the
// first op (nil = unrestricted).
func enumSeqs(ops []cacheOp, first []cacheOp, n int, f func([]cacheOp)) {
	cur := make([]cacheOp, n)
	var rec func(i int)
	rec = func(i int) {
		if i == n {
			f(cur)
			return
		}
		src := ops
		if i == 0 && first != nil {
			src = first
		}
		for _, o := range src {
			cur[i] = o
			rec(i + 1)
		}
	}
	rec(0)
}

func putsOf(u []desc) []cacheOp {
	o := make([]cacheOp, len(u))
	for i, d := range u {
		o[i] = cacheOp{'p', d}
	}
	return o
}

func allOpsOf(u []desc) []cacheOp {
	var o []cacheOp
	for _, k := range []byte{'p', 'd', 'g'} {
		for _, d := range u {
			o = append(o, cacheOp{k, d})
		}
	}
	return o
}

// exhaustiveC08 enumerates the small-scope sequences (pruned to about 2·10^5 in the quick tier):
//
//	A  table t only, 10 ranges over {∅,a,b,c}, ids {1,2,3}, puts only, length ≤ 3
//	B  table t only, same ranges, ids {1,2}, puts only, length 4 (quick) / ids {1,2,3} (thorough, sampled 1/2) and length 5 over ids {1,2} × 6 ranges
//	C  tables {t, t2, ns:t} × 4 ranges × ids {1,2}, puts only, length ≤ 3 (thorough ≤ 4)
//	D  put/del/getOverlaps mixes on table t, 6 ranges × ids {1,2}, first op a put, length ≤ 3 (thorough ≤ 4, sampled)
//
// Symmetric cases pruned: table names are interchangeable when only one table occurs (A, B, D use
// `t` only; cross-table interference is C's job); del/get as a first op act on an empty cache.
func exhaustiveC08(tier string, seed uint64, emit func([]cacheOp)) {
	keys := [][]byte{{}, []byte("a"), []byte("b"), []byte("c")}
	ranges := wfRanges(keys)
	tT := stdTables[:1]
	uA := descUniverse(tT, ranges, []uint64{1, 2, 3})
	for n := 1; n <= 3; n++ {
		enumSeqs(putsOf(uA), nil, n, emit)
	}
	uB := descUniverse(tT, ranges, []uint64{1, 2})
	enumSeqs(putsOf(uB), nil, 4, emit)
	six := [][2][]byte{{{}, {}}, {{}, []byte("b")}, {[]byte("a"), []byte("c")}, {[]byte("b"), {}},
		{[]byte("a"), []byte("b")}, {[]byte("b"), []byte("c")}}
	if tier != "quick" {
		u5 := descUniverse(tT, six, []uint64{1, 2})
		enumSeqs(putsOf(u5), nil, 5, emit)
	}
	four := [][2][]byte{{{}, {}}, {{}, []byte("b")}, {[]byte("b"), {}}, {[]byte("a"), []byte("c")}}
	uC := descUniverse(stdTables, four, []uint64{1, 2})
	maxC := 3
	if tier != "quick" {
		maxC = 4
	}
	for n := 1; n <= maxC; n++ {
		enumSeqs(putsOf(uC), nil, n, emit)
	}
	uD := descUniverse(tT, six, []uint64{1, 2})
	for n := 1; n <= 3; n++ {
		enumSeqs(allOpsOf(uD), putsOf(uD), n, emit)
	}
	if tier != "quick" {
		k := 0
		enumSeqs(allOpsOf(uD), putsOf(uD), 4, func(o []cacheOp) {
			k++
			if (uint64(k)+seed)%3 == 0 {
				emit(o)
			}
		})
	}
}

// ---------------------------------------------------------------- random sequences

var advAlphabet = []byte{',', 0x00, 0xff, 'a', 'b'}

type randGen struct {
	rng    *RNG
	tables []tableName
	ids    []uint64
	pool   []desc // descriptors used so far (for derived regions)
	maxKey int
}

func (g *randGen) key() []byte {
	if g.rng.Intn(6) == 0 {
		return []byte{}
	}
	k := g.rng.Bytes(g.maxKey, advAlphabet)
	return k
}

// rangeWF returns start < stop or stop = ∅.
func (g *randGen) rangeWF() ([]byte, []byte) {
	a, b := g.key(), g.key()
	c := bytes.Compare(a, b)
	switch {
	case len(b) == 0:
		return a, b
	case c < 0:
		return a, b
	case c > 0:
		if len(a) == 0 {
			return b, a
		}
		if len(b) == 0 {
			return a, b
		}
		return b, a
	default:
		return a, []byte{}
	}
}

func succKey(k []byte) []byte { return append(append([]byte{}, k...), 0x00) }

// next produces a descriptor, often derived from earlier ones: same range with another id,
// spanning several, nested, touching neighbours, daughters of a split.
func (g *randGen) next() desc {
	t := g.tables[g.rng.Intn(len(g.tables))]
	id := g.ids[g.rng.Intn(len(g.ids))]
	if len(g.pool) > 0 && g.rng.Intn(10) < 6 {
		p := g.pool[g.rng.Intn(len(g.pool))]
		q := g.pool[g.rng.Intn(len(g.pool))]
		var d desc
		ok := true
		switch g.rng.Intn(8) {
		case 0: // identical range, other id
			d = mkDesc(p.ns, p.tbl, p.start, p.stop, id)
		case 1: // spanning from p.start to q.stop
			d = mkDesc(p.ns, p.tbl, p.start, q.stop, id)
		case 2: // touching: starts where p stops
			if len(p.stop) == 0 {
				ok = false
			} else {
				d = mkDesc(p.ns, p.tbl, p.stop, []byte{}, id)
				if g.rng.Bool() {
					e := append(append([]byte{}, p.stop...), g.rng.Bytes(2, advAlphabet)...)
					e = append(e, 'a')
					d = mkDesc(p.ns, p.tbl, p.stop, e, id)
				}
			}
		case 3: // touching: stops where p starts
			if len(p.start) == 0 {
				ok = false
			} else {
				d = mkDesc(p.ns, p.tbl, []byte{}, p.start, id)
			}
		case 4: // nested: strictly inside p
			s := succKey(p.start)
			if len(p.stop) == 0 || bytes.Compare(s, p.stop) < 0 {
				d = mkDesc(p.ns, p.tbl, s, p.stop, id)
			} else {
				ok = false
			}
		case 5: // first daughter of a split at start+"a"
			m := append(append([]byte{}, p.start...), 'a')
			if len(p.stop) == 0 || bytes.Compare(m, p.stop) < 0 {
				if g.rng.Bool() {
					d = mkDesc(p.ns, p.tbl, p.start, m, id)
				} else {
					d = mkDesc(p.ns, p.tbl, m, p.stop, id)
				}
			} else {
				ok = false
			}
		case 6: // same range in another table
			d = mkDesc(t.ns, t.tbl, p.start, p.stop, id)
		case 7: // whole table
			d = mkDesc(p.ns, p.tbl, []byte{}, []byte{}, id)
		}
		if ok && (len(d.stop) == 0 || bytes.Compare(d.start, d.stop) < 0) {
			return d
		}
	}
	s, e := g.rangeWF()
	return mkDesc(t.ns, t.tbl, s, e, id)
}

func randomSeq(rng *RNG, nops int, ill bool) []cacheOp {
	g := &randGen{rng: rng, tables: stdTables, maxKey: 3}
	switch rng.Intn(4) {
	case 0:
		g.ids = []uint64{11, 12, 50, 90, 99}
	case 1:
		g.ids = []uint64{1, 2, 3}
	case 2: // HBase-like millisecond timestamps, some leading 9
		g.ids = []uint64{1400000000001, 1400000000002, 1500000000000, 9400000000001, 9999999999999}
	default: // different lengths
		g.ids = []uint64{5, 9, 10, 99, 100}
	}
	if rng.Intn(3) == 0 {
		g.tables = stdTables[:1+rng.Intn(2)]
	}
	var ops []cacheOp
	for i := 0; i < nops; i++ {
		var d desc
		if ill && rng.Intn(4) == 0 {
			// outside the property's domain: start ≥ stop ≠ ∅
			a := rng.Bytes(2, advAlphabet)
			a = append(a, 'a')
			b := a
			if rng.Bool() {
				b = a[:1+rng.Intn(len(a))]
			}
			t := g.tables[rng.Intn(len(g.tables))]
			d = mkDesc(t.ns, t.tbl, a, b, g.ids[rng.Intn(len(g.ids))])
		} else {
			d = g.next()
		}
		r := rng.Intn(20)
		switch {
		case r < 15:
			ops = append(ops, cacheOp{'p', d})
			g.pool = append(g.pool, d)
		case r < 18:
			if len(g.pool) > 0 && rng.Intn(4) != 0 {
				d = g.pool[rng.Intn(len(g.pool))]
			}
			ops = append(ops, cacheOp{'d', d})
		default:
			ops = append(ops, cacheOp{'g', d})
		}
	}
	return ops
}

func runC08(tier string, seed uint64, out *Out) {
	quietLogs()
	emit := func(ops []cacheOp) {
		if !out.Want() {
			out.n++
			return
		}
		out.Line("%s", c08Line(ops))
	}
	exhaustiveC08(tier, seed, emit)
	// the descriptor that shows why well-formedness is a hypothesis (Props/C08.lean,
	// `illformed_needed`): out of domain, compared with the model only
	t := stdTables[0]
	emit([]cacheOp{{'p', mkDesc(t.ns, t.tbl, []byte("a"), []byte{}, 1)},
		{'p', mkDesc(t.ns, t.tbl, []byte("a"), []byte("a"), 2)},
		{'p', mkDesc(t.ns, t.tbl, []byte("a"), []byte("b"), 3)}})
	rng := NewRNG(seed, "c08")
	n, maxOps := 2000, 40
	if tier != "quick" {
		n, maxOps = 100000, 200
	}
	for i := 0; i < n; i++ {
		nops := maxOps
		if tier != "quick" {
			nops = 20 + rng.Intn(maxOps-19)
		}
		ops := randomSeq(rng, nops, false)
		emit(ops)
	}
	// separate malformed stream (out of the property's domain; model = implementation only)
	rill := NewRNG(seed, "c08-ill")
	nill := 300
	if tier != "quick" {
		nill = 5000
	}
	for i := 0; i < nill; i++ {
		emit(randomSeq(rill, 12, true))
	}
	// discoveries made at the same instant by different goroutines
	nc := 8
	if tier != "quick" {
		nc = 60
	}
	for i := 0; i < nc; i++ {
		if !out.Want() {
			out.n++
			continue
		}
		out.Line("%s", c08Concurrent(NewRNG(seed, fmt.Sprintf("c08c-%d", i))))
	}
	// the cache of a client in use (scans walking the table both ways, gets)
	ne := 40
	if tier != "quick" {
		ne = 600
	}
	for i := 0; i < ne; i++ {
		if !out.Want() {
			out.n++
			continue
		}
		out.Line("%s", c08EndToEnd(NewRNG(seed, fmt.Sprintf("c08e-%d", i))))
	}
}

// c08Concurrent: in every round two or three goroutines put pairwise intersecting regions of one
// table into the same cache at the same instant (as concurrent lookups of neighbouring keys do
// after a split or merge). Whatever the interleaving, no two cached regions may intersect when
// they have all returned.
func c08Concurrent(rng *RNG) string {
	rounds := 1500
	bad := 0
	first := ""
	for round := 0; round < rounds; round++ {
		cache := gohbase.VerifNewCache()
		// [a,m) id 5 ; [f,z) id 6 ; [c,h) id 7 : all pairwise intersecting
		specs := []struct {
			start, stop string
			id          uint64
		}{{"a", "m", 5}, {"f", "z", 6}, {"c", "h", 7}}
		k := 2 + rng.Intn(2)
		start := make(chan struct{})
		var wg sync.WaitGroup
		for i := 0; i < k; i++ {
			sp := specs[i]
			r := region.NewInfo(sp.id, nil, []byte("t"), []byte(fmt.Sprintf("t,%s,%d.x.", sp.start, sp.id)), []byte(sp.start), []byte(sp.stop))
			wg.Add(1)
			go func() {
				defer wg.Done()
				<-start
				cache.Put(r)
			}()
		}
		close(start)
		wg.Wait()
		d := cache.Dump()
		for i := 0; i < len(d); i++ {
			for j := i + 1; j < len(d); j++ {
				if gohbase.VerifIsRegionOverlap(d[i], d[j]) {
					bad++
					if first == "" {
						first = fmt.Sprintf("%s+%s", hx(d[i].Name()), hx(d[j].Name()))
					}
				}
			}
		}
	}
	if first == "" {
		first = "-"
	}
	return fmt.Sprintf("c08 conc rounds=%d overlapping=%d first=%s", rounds, bad, first)
}

// sortDescs orders descriptors like the cache does (region.Compare on names).
func sortDescs(ds []desc) {
	sort.SliceStable(ds, func(i, j int) bool { return region.Compare(ds[i].name, ds[j].name) < 0 })
}

// c08EndToEnd: the invariant on the cache of a real client that is being used: a table of several
// regions (seeded split keys, also ones ending in 0x00 / 0x01 / 0xff) is read with Gets, forward
// and reversed scans that walk all regions, regions split in between; afterwards the cached regions
// are compared with the regions the cluster ever defined (name, start, stop) and with each other.
func c08EndToEnd(rng *RNG) string {
	setSleepOverride(fastBackoff)
	defer setSleepOverride(nil)
	c := newSimCluster()
	c.scanWalk = true
	n := 2 + rng.Intn(4)
	var splits [][]byte
	for len(splits) < n-1 {
		k := make([]byte, 1+rng.Intn(3))
		for i := range k {
			k[i] = byte('a' + rng.Intn(20))
		}
		switch rng.Intn(5) {
		case 0:
			k[len(k)-1] = 0
		case 1:
			k[len(k)-1] = 1
		case 2:
			k[len(k)-1] = 0xff
		}
		dup := false
		for _, x := range splits {
			if bytes.Equal(x, k) {
				dup = true
			}
		}
		if !dup {
			splits = append(splits, k)
		}
	}
	sort.Slice(splits, func(i, j int) bool { return bytes.Compare(splits[i], splits[j]) < 0 })
	defined := map[string]string{}
	def := func(r *simRegion) { defined[hx(r.name)] = hx(r.start) + ":" + hx(r.stop) }
	var prev []byte
	for i := 0; i < n; i++ {
		var stop []byte
		if i < n-1 {
			stop = splits[i]
		}
		def(c.addRegion(nil, []byte("t"), prev, stop, fmt.Sprintf("rs%d:1", i%2)))
		prev = stop
	}
	sc := newSimClient(c)
	defer sc.cl.Close()
	ops := ""
	scanAll := func(rev bool) string {
		ctx, cancel := context.WithTimeout(context.Background(), 5*time.Second)
		defer cancel()
		var opts []func(hrpc.Call) error
		if rev {
			opts = append(opts, hrpc.Reversed())
		}
		var s *hrpc.Scan
		if rev {
			// (a reversed scan starts at its start row and walks down)
			s, _ = hrpc.NewScanRange(ctx, []byte("t"), []byte{0xff, 0xff, 0xff, 0xff}, nil, opts...)
		} else {
			s, _ = hrpc.NewScan(ctx, []byte("t"), opts...)
		}
		scn := sc.cl.Scan(s)
		defer scn.Close()
		rows := 0
		for {
			_, err := scn.Next()
			if err == io.EOF {
				return fmt.Sprint(rows)
			}
			if err != nil {
				return "err"
			}
			if rows++; rows > 100 {
				return "endless"
			}
		}
	}
	steps := 3 + rng.Intn(5)
	for i := 0; i < steps; i++ {
		switch rng.Intn(4) {
		case 0:
			ops += "F" + scanAll(false)
		case 1, 2:
			ops += "R" + scanAll(true)
		default:
			ctx, cancel := context.WithTimeout(context.Background(), 5*time.Second)
			k := []byte{byte('a' + rng.Intn(20)), byte(rng.Intn(256))}
			g, _ := hrpc.NewGet(ctx, []byte("t"), k)
			_, err := sc.cl.Get(g)
			cancel()
			ops += "G" + classOf(err)
		}
	}
	var cached []string
	for _, r := range sc.v.CachedRegions() {
		cached = append(cached, hx(r.Name())+":"+hx(r.StartKey())+":"+hx(r.StopKey()))
	}
	var defs []string
	for k, v := range defined {
		defs = append(defs, k+":"+v)
	}
	sort.Strings(defs)
	return fmt.Sprintf("c08 e2e regions=%d ops=%s cached=%s defined=%s", n, ops, joinOrDash(cached, ","), strings.Join(defs, ","))
}
