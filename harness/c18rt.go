package main

// C18, configuration glue: the read timeout a connection arms its deadline with is the one the
// user configured (RegionReadTimeout), for every kind of connection the client creates: to the
// server of hbase:meta, to a region server, and (admin client) to the master.

import (
	"context"
	"fmt"
	"sync"
	"time"

	"github.com/tsuna/gohbase"
	"github.com/tsuna/gohbase/hrpc"
	"github.com/tsuna/gohbase/region"
)

func c18ReadTimeoutCases() []string {
	var out []string
	// (read timeout, lookup timeout, flush interval — 0: the default; the third configuration has a
	// flush interval far above the read timeout: how long a call may wait in the batching queue has
	// nothing to do with how long a written request may stay unanswered)
	cfgs := [][3]time.Duration{{1500 * time.Millisecond, 7 * time.Second, 0}, {9 * time.Second, 2 * time.Second, 0},
		{300 * time.Millisecond, 4 * time.Second, 3 * time.Second}}
	for _, cfg := range cfgs {
		rt, lt := cfg[0], cfg[1]
		extra := []gohbase.Option{}
		if cfg[2] > 0 {
			extra = append(extra, gohbase.FlushInterval(cfg[2]))
		}
		// regular client: meta connection and a region-server connection
		func() {
			c := newSimCluster()
			c.metaAddr = "rs0:0"
			c.addRegion(nil, []byte("t"), nil, nil, "rs1:1")
			var mu sync.Mutex
			got := map[string]time.Duration{}
			wrap := func(real hrpc.RegionClient) hrpc.RegionClient {
				mu.Lock()
				got[real.Addr()] = region.VerifReadTimeout(real)
				mu.Unlock()
				return c.newConn(real.Addr())
			}
			v := gohbase.VerifNewClient(c, false, wrap, append([]gohbase.Option{gohbase.Logger(discardLogger),
				gohbase.RegionReadTimeout(rt), gohbase.RegionLookupTimeout(lt)}, extra...)...)
			ctx, cancel := context.WithTimeout(context.Background(), 5*time.Second)
			g, _ := hrpc.NewGetStr(ctx, "t", "k")
			_, err := v.Client().Get(g)
			cancel()
			v.Client().Close()
			mu.Lock()
			defer mu.Unlock()
			if err != nil || len(got) < 2 {
				out = append(out, fmt.Sprintf("c18 script read-timeout regular setup-failed:%v conns=%d", err != nil, len(got)))
				return
			}
			for _, a := range []string{"rs0:0", "rs1:1"} {
				kind := "regionserver"
				if a == c.metaAddr {
					kind = "meta"
				}
				out = append(out, fmt.Sprintf("c18 script read-timeout %s configured=%d got=%d lookup=%d", kind,
					rt.Milliseconds(), got[a].Milliseconds(), lt.Milliseconds()))
			}
		}()
		// admin client: the connection to the master
		func() {
			c := newSimCluster()
			var mu sync.Mutex
			var got []time.Duration
			wrap := func(real hrpc.RegionClient) hrpc.RegionClient {
				mu.Lock()
				got = append(got, region.VerifReadTimeout(real))
				mu.Unlock()
				return c.newConn(real.Addr())
			}
			v := gohbase.VerifNewClient(c, true, wrap, append([]gohbase.Option{gohbase.Logger(discardLogger),
				gohbase.RegionReadTimeout(rt), gohbase.RegionLookupTimeout(lt)}, extra...)...)
			ctx, cancel := context.WithTimeout(context.Background(), 2*time.Second)
			g, _ := hrpc.NewGetStr(ctx, "t", "k")
			// any call of a master client goes to the master connection; what it answers is irrelevant here
			done := make(chan struct{})
			go func() { defer close(done); defer func() { recover() }(); v.C.SendRPC(g) }()
			deadline := time.After(3 * time.Second)
			for {
				mu.Lock()
				n := len(got)
				mu.Unlock()
				if n > 0 {
					break
				}
				select {
				case <-deadline:
				case <-time.After(time.Millisecond):
					continue
				}
				break
			}
			cancel()
			v.Client().Close()
			select {
			case <-done:
			case <-time.After(3 * time.Second):
			}
			mu.Lock()
			defer mu.Unlock()
			if len(got) == 0 {
				out = append(out, "c18 script read-timeout master setup-failed:no-connection conns=0")
				return
			}
			out = append(out, fmt.Sprintf("c18 script read-timeout master configured=%d got=%d lookup=%d",
				rt.Milliseconds(), got[0].Milliseconds(), lt.Milliseconds()))
		}()
	}
	return out
}
