package main

// Client-level scenarios on the simulated cluster (sim.go): C04 (requests survive faults),
// C20 (one connection per regionserver), C09 (concurrent failures), C13 (cancellation),
// C19 (Close). The Lean driver evaluates the property monitors on the observations.

import (
	"bytes"
	"context"
	"encoding/binary"
	"errors"
	"fmt"
	"github.com/tsuna/gohbase/zk"
	"io"
	"net"
	"os"
	"os/exec"
	"path/filepath"
	"runtime"
	"sort"
	"strings"
	"sync"
	"sync/atomic"
	"time"

	"github.com/tsuna/gohbase"
	"github.com/tsuna/gohbase/hrpc"
	"github.com/tsuna/gohbase/region"
)

var simAddrs = []string{"rs1:1", "rs2:1", "rs3:1"}

var dbgCluster *simCluster

func buildCluster(rng *RNG) *simCluster {
	c := newSimCluster()
	dbgCluster = c
	pick := func() string { return simAddrs[rng.Intn(len(simAddrs))] }
	// table t: 1..4 regions
	bounds := [][]byte{nil}
	for _, b := range [][]byte{[]byte("g"), []byte("p"), []byte("p,")} {
		if rng.Intn(3) != 0 {
			bounds = append(bounds, b)
		}
	}
	for i, b := range bounds {
		var stop []byte
		if i+1 < len(bounds) {
			stop = bounds[i+1]
		}
		c.addRegion(nil, []byte("t"), b, stop, pick())
	}
	c.addRegion(nil, []byte("t2"), nil, nil, pick())
	c.addRegion([]byte("ns"), []byte("t"), nil, []byte("m"), pick())
	c.addRegion([]byte("ns"), []byte("t"), []byte("m"), nil, pick())
	// same namespace, qualifier "t" is a proper suffix of "xt"
	c.addRegion([]byte("ns"), []byte("xt"), nil, nil, pick())
	// another namespace of the same length with the same qualifier
	c.addRegion([]byte("nt"), []byte("t"), nil, nil, pick())
	// namespaces whose names are a beginning of, and begin with, the default namespace's name
	c.addRegion([]byte("def"), []byte("t"), nil, nil, simAddrs[0])
	c.addRegion([]byte("default2"), []byte("t"), nil, nil, simAddrs[len(simAddrs)-1])
	return c
}

var simKeys = [][]byte{{}, []byte("a"), []byte("f\xff"), []byte("g"), []byte("g\x00"), []byte("h,x"), []byte("o"),
	[]byte("p"), []byte("p+"), []byte("p,"), []byte("p,a"), []byte("z"), {0xff, 0xff}, {0}}

func addrIdx(a string) int {
	for i, x := range simAddrs {
		if x == a {
			return i
		}
	}
	if a == "meta:1" {
		return 9
	}
	if a == "meta:2" {
		return 10
	}
	return 8
}

func attStr(svs []simServe) string {
	var out []string
	for _, s := range svs {
		if s.kind == "meta" {
			continue
		}
		b := func(x bool) int {
			if x {
				return 1
			}
			return 0
		}
		cur := ""
		if s.notCurrent {
			cur = ".stale"
		}
		if s.specMismatch {
			cur = ".wrongspec"
		}
		out = append(out, fmt.Sprintf("%s.%d.%d.%d.%s%s", s.kind, addrIdx(s.addr), b(s.hosted), b(s.inRange), s.outcome, cur))
	}
	if len(out) == 0 {
		return "-"
	}
	return strings.Join(out, ";")
}

func (c *simCluster) connInfo() string {
	c.mu.Lock()
	defer c.mu.Unlock()
	var out []string
	for _, s := range c.conns {
		out = append(out, fmt.Sprintf("%d.%d.%d.%d.%d", addrIdx(s.addr), s.id, atomic.LoadInt32(&s.deadOK),
			atomic.LoadInt32(&s.closed), atomic.LoadInt32(&s.dials)))
	}
	if len(out) == 0 {
		return "-"
	}
	return strings.Join(out, ",")
}

// seqScenario: one request at a time; cluster events between requests; back-off is virtual.
func seqScenario(rng *RNG, model string) string {
	setSleepOverride(fastBackoff)
	c := buildCluster(rng)
	sc := newSimClient(c)
	defer sc.cl.Close()
	var steps []string
	nSteps := 6 + rng.Intn(14)
	tables := []string{"t", "t", "t", "t2", "ns:t", "ns:xt", "nt:t", "def:t", "default2:t"}
	mark := func() int { c.mu.Lock(); defer c.mu.Unlock(); return len(c.serves) }
	for i := 0; i < nSteps; i++ {
		if rng.Intn(3) == 0 {
			// a cluster event
			c.mu.Lock()
			ev := ""
			upAddr := func() string {
				var up []string
				for _, x := range simAddrs {
					if !c.down[x] {
						up = append(up, x)
					}
				}
				return up[rng.Intn(len(up))]
			}
			doScan := ""
			switch rng.Intn(11) {
			case 9:
				doScan = "revscan"
			case 10:
				doScan = "fwdscan"
			case 0:
				r := c.regions[rng.Intn(len(c.regions))]
				old := r.addr
				r.addr = upAddr()
				ev = "move"
				if rng.Intn(3) == 0 && old != r.addr && !c.down[old] {
					// hbase:meta lags behind: it reports the previous (live) server once or twice more
					r.staleAddr, r.staleN = old, 1+rng.Intn(2)
					ev = "movestale"
				}
			case 1:
				rs := c.tableRegions("t")
				r := rs[rng.Intn(len(rs))]
				at := append(append([]byte{}, r.start...), 'k')
				if len(r.stop) == 0 || bytes.Compare(at, r.stop) < 0 {
					c.split(r, at, upAddr(), upAddr())
					ev = "split"
				}
			case 2:
				rs := c.tableRegions("t")
				if len(rs) >= 2 {
					j := rng.Intn(len(rs) - 1)
					c.merge(rs[j], rs[j+1], upAddr())
					ev = "merge"
				}
			case 3, 4:
				r := c.regions[rng.Intn(len(c.regions))]
				kinds := []string{"nsre", "retryable", "retryable", "connErr"}
				n := 1 + rng.Intn(3)
				for k := 0; k < n; k++ {
					r.faults = append(r.faults, kinds[rng.Intn(len(kinds))])
				}
				ev = "transient" + fmt.Sprint(n)
			case 5:
				a := simAddrs[rng.Intn(3)]
				nd := 0
				for _, d := range c.down {
					if d {
						nd++
					}
				}
				if !c.down[a] && nd < 2 {
					c.down[a] = true
					// the master reassigns its regions
					var up []string
					for _, x := range simAddrs {
						if !c.down[x] {
							up = append(up, x)
						}
					}
					for _, r := range c.regions {
						if r.addr == a {
							r.addr = up[rng.Intn(len(up))]
						}
					}
					ev = "stop"
				}
			case 6:
				for a, d := range c.down {
					if d {
						c.down[a] = false
						ev = "start"
						break
					}
				}
			case 7:
				if c.metaAddr == "meta:1" {
					c.metaAddr = "meta:2"
				} else {
					c.metaAddr = "meta:1"
				}
				ev = "metamove"
			case 8:
				atomic.StoreInt32(&c.zkErr, int32(1+rng.Intn(2)))
				ev = "zkerr"
			}
			if ev == "move" && rng.Intn(2) == 0 {
				// ... and while the region is in transition its row is missing from hbase:meta
				for _, r := range c.regions {
					if len(r.start) > 0 && r.hiddenN == 0 && rng.Intn(3) == 0 {
						r.hiddenN = 1 + rng.Intn(2)
						ev = "move+metahole"
						break
					}
				}
			}
			c.scanWalk = true
			c.mu.Unlock()
			if doScan != "" {
				// the application walks table t with a scanner, region by region (what it gets is not
				// judged here; what the scan leaves behind in the client is: the requests that follow)
				ctx, cancel := context.WithTimeout(context.Background(), 4*time.Second)
				var scn hrpc.Scanner
				if doScan == "revscan" {
					s, _ := hrpc.NewScanRange(ctx, []byte("t"), []byte{0xff, 0xff, 0xff}, nil, hrpc.Reversed())
					scn = sc.cl.Scan(s)
				} else {
					s, _ := hrpc.NewScan(ctx, []byte("t"))
					scn = sc.cl.Scan(s)
				}
				for n := 0; n < 40; n++ {
					if _, err := scn.Next(); err != nil {
						break
					}
				}
				scn.Close()
				cancel()
				settle()
				ev = doScan
			}
			if ev != "" {
				steps = append(steps, "E:"+ev)
			}
			continue
		}
		// a request
		table := tables[rng.Intn(len(tables))]
		key := simKeys[rng.Intn(len(simKeys))]
		if model == "c12w" {
			// a batch of 2..4 single-row calls over any tables and keys (boundary keys included)
			m0 := mark()
			ctx, cancel := context.WithTimeout(context.Background(), 8*time.Second)
			var calls []hrpc.Call
			for j, n := 0, 2+rng.Intn(3); j < n; j++ {
				t, k := table, simKeys[rng.Intn(len(simKeys))] // (one table per batch: SendBatch insists)
				if rng.Bool() {
					g, _ := hrpc.NewGet(ctx, []byte(t), k)
					calls = append(calls, g)
				} else {
					p, _ := hrpc.NewPut(ctx, []byte(t), k, map[string]map[string][]byte{"f": {"q": []byte("v")}})
					calls = append(calls, p)
				}
			}
			res, ok := sc.cl.SendBatch(ctx, calls)
			cancel()
			settle()
			result := "ok"
			for _, r := range res {
				if r.Error != nil {
					result = classOf(r.Error)
					break
				}
			}
			if result == "ok" && !ok {
				result = "notallok"
			}
			c.mu.Lock()
			svs := append([]simServe(nil), c.serves[m0:]...)
			c.mu.Unlock()
			steps = append(steps, fmt.Sprintf("R:batch:ok:%s:%s", result, attStr(svs)))
			continue
		}
		expect := "ok"
		switch rng.Intn(12) {
		case 0:
			table = "nope"
			expect = "tablenotfound"
		case 1:
			// an application exception at the owner: returned unchanged, not retried
			c.mu.Lock()
			for _, r := range c.regions {
				if string(r.fq()) == table && r.contains(key) {
					r.faults = append(r.faults, "FATALMARK")
				}
			}
			c.mu.Unlock()
			expect = "fatal"
		}
		m0 := mark()
		ctx, cancel := context.WithTimeout(context.Background(), 8*time.Second)
		var err error
		kind := "get"
		if rng.Bool() {
			g, _ := hrpc.NewGet(ctx, []byte(table), key)
			_, err = sc.cl.Get(g)
		} else {
			// every kind of mutation in turn (no draw: the scripts stay what they were)
			vals := map[string]map[string][]byte{"f": {"q": []byte("v")}}
			switch len(steps) % 5 {
			case 0:
				kind = "put"
				p, _ := hrpc.NewPut(ctx, []byte(table), key, vals)
				_, err = sc.cl.Put(p)
			case 1:
				kind = "cas"
				p, _ := hrpc.NewPut(ctx, []byte(table), key, vals)
				_, err = sc.cl.CheckAndPut(p, "f", "q", []byte("old"))
			case 2:
				kind = "del"
				p, _ := hrpc.NewDel(ctx, []byte(table), key, vals)
				_, err = sc.cl.Delete(p)
			case 3:
				kind = "app"
				p, _ := hrpc.NewApp(ctx, []byte(table), key, vals)
				_, err = sc.cl.Append(p)
			default:
				kind = "inc"
				p, _ := hrpc.NewInc(ctx, []byte(table), key, map[string]map[string][]byte{"f": {"q": {0, 0, 0, 0, 0, 0, 0, 1}}})
				var got int64
				got, err = sc.cl.Increment(p)
				if want := int64(binary.BigEndian.Uint64(simCounterValue(key))); err == nil && got != want {
					err = fmt.Errorf("increment delivered %d, the server answered %d", got, want)
				}
			}
		}
		cancel()
		settle()
		c.mu.Lock()
		svs := append([]simServe(nil), c.serves[m0:]...)
		c.mu.Unlock()
		steps = append(steps, fmt.Sprintf("R:%s:%s:%s:%s", kind, expect, classOf(err), attStr(svs)))
		if model == "c20" {
			cache := sc.v.ConnCacheAddrs()
			sort.Strings(cache)
			var ci []string
			for _, a := range cache {
				ci = append(ci, fmt.Sprint(addrIdx(a)))
			}
			if len(ci) == 0 {
				ci = []string{"-"}
			}
			steps = append(steps, "K:"+c.connInfo()+":"+strings.Join(ci, ","))
		}
	}
	// final: every cached region must be available once everything has settled
	settle()
	unavailable := 0
	for _, ok := range sc.v.VerifAvailability() {
		if !ok {
			unavailable++
		}
	}
	steps = append(steps, fmt.Sprintf("F:%d", unavailable))
	return model + " seq " + strings.Join(steps, " ")
}

// firstUseScenario (C20): n regions, all on one regionserver, are used for the first time by n
// goroutines at once (and the connection factory takes a moment, as a real dial set-up does);
// then more regions of the same server are discovered. The server must have been dialled once.
func firstUseScenario(rng *RNG) string {
	setSleepOverride(fastBackoff)
	c := newSimCluster()
	c.slowNew = time.Duration(200+rng.Intn(1500)) * time.Microsecond
	n := 2 + rng.Intn(8)
	keys := []string{"", "b", "d", "f", "h", "j", "l", "n", "p", "r", "t"}
	for i := 0; i < n+2; i++ {
		var stop []byte
		if i+1 < n+2 {
			stop = []byte(keys[i+1])
		}
		c.addRegion(nil, []byte("t"), []byte(keys[i]), stop, "rs1:1")
	}
	sc := newSimClient(c)
	defer sc.cl.Close()
	// meta first, so that the n first uses really start together
	g0, _ := hrpc.NewGet(context.Background(), []byte("nope"), []byte("x")) // touches hbase:meta only
	sc.cl.Get(g0)
	start := make(chan struct{})
	var wg sync.WaitGroup
	for i := 0; i < n; i++ {
		wg.Add(1)
		go func(i int) {
			defer wg.Done()
			<-start
			ctx, cancel := context.WithTimeout(context.Background(), 10*time.Second)
			defer cancel()
			g, _ := hrpc.NewGet(ctx, []byte("t"), []byte(keys[i]+"x"))
			sc.cl.Get(g)
		}(i)
	}
	close(start)
	wg.Wait()
	g1, _ := hrpc.NewGet(context.Background(), []byte("t"), []byte(keys[n]+"x"))
	sc.cl.Get(g1)
	settle()
	cache := sc.v.ConnCacheAddrs()
	sort.Strings(cache)
	var ci []string
	for _, a := range cache {
		ci = append(ci, fmt.Sprint(addrIdx(a)))
	}
	return fmt.Sprintf("c20 seq E:firstuse%d K:%s:%s F:0", n, c.connInfo(), strings.Join(ci, ","))
}

// lateBatchErrorScenario (C20): a connection delivers server-class errors to two calls of one
// batch; the second error reaches the client only after the first one has been handled and the
// region has been re-established on a new connection. The late error belongs to the old
// connection: the healthy new one stays in use.
func lateBatchErrorScenario() string {
	setSleepOverride(fastBackoff)
	c := newSimCluster()
	r := c.addRegion(nil, []byte("t"), nil, nil, "rs1:1")
	c.keyRelease = make(chan struct{})
	sc := newSimClient(c)
	defer sc.cl.Close()
	ctx, cancel := context.WithTimeout(context.Background(), 8*time.Second)
	defer cancel()
	g0, _ := hrpc.NewGet(ctx, []byte("t"), []byte("warm"))
	sc.cl.Get(g0)
	c.mu.Lock()
	r.keyFaults = map[string][]string{"k1": {"connErr"}, "k2": {"HOLD:connErr"}}
	c.mu.Unlock()
	done := make(chan bool, 1)
	go func() {
		g1, _ := hrpc.NewGet(ctx, []byte("t"), []byte("k1"))
		g2, _ := hrpc.NewGet(ctx, []byte("t"), []byte("k2"))
		_, ok := sc.cl.SendBatch(ctx, []hrpc.Call{g1, g2})
		done <- ok
	}()
	// wait until the region is available again on a new connection
	for i := 0; i < 400; i++ {
		time.Sleep(5 * time.Millisecond)
		c.mu.Lock()
		n := len(c.conns)
		c.mu.Unlock()
		regs := sc.v.CachedRegions()
		if n >= 3 && len(regs) > 0 && !regs[0].IsUnavailable() && regs[0].Client() != nil { // meta + old + new
			break
		}
	}
	close(c.keyRelease)
	res := "blocked"
	select {
	case ok := <-done:
		res = "failed"
		if ok {
			res = "ok"
		}
	case <-time.After(8 * time.Second):
	}
	settle()
	cache := sc.v.ConnCacheAddrs()
	sort.Strings(cache)
	var ci []string
	for _, a := range cache {
		ci = append(ci, fmt.Sprint(addrIdx(a)))
	}
	if len(ci) == 0 {
		ci = []string{"-"}
	}
	return fmt.Sprintf("c20 seq E:late-batch-error-%s K:%s:%s F:0", res, c.connInfo(), strings.Join(ci, ","))
}

// FATALMARK is translated by the sim into the fatal exception; keep excClass in sync.
func init() { excClass["FATALMARK"] = "org.apache.hadoop.hbase.DoNotRetryIOException" }

// concScenario (C09): G callers and a fault injector run concurrently; then the cluster is left
// alone and everything must complete and become available again.
func concScenario(rng *RNG) string {
	setSleepOverride(fastBackoff)
	c := buildCluster(rng)
	sc := newSimClient(c)
	defer sc.cl.Close()
	G := 2 + rng.Intn(10)
	var wg sync.WaitGroup
	var okN, failN, hungN int32
	stop := make(chan struct{})
	seeds := make([]uint64, G)
	for i := range seeds {
		seeds[i] = rng.Next()
	}
	for gI := 0; gI < G; gI++ {
		wg.Add(1)
		go func(seed uint64) {
			defer wg.Done()
			r := &RNG{s: seed}
			for i := 0; i < 12; i++ {
				key := simKeys[r.Intn(len(simKeys))]
				ctx, cancel := context.WithTimeout(context.Background(), 15*time.Second)
				g, _ := hrpc.NewGet(ctx, []byte("t"), key)
				_, err := sc.cl.Get(g)
				cancel()
				switch classOf(err) {
				case "ok":
					atomic.AddInt32(&okN, 1)
				case "ctx":
					atomic.AddInt32(&hungN, 1)
				default:
					atomic.AddInt32(&failN, 1)
				}
			}
		}(seeds[gI])
	}
	injected := 0
	go func() {
		r := &RNG{s: rng.Next()}
		for {
			select {
			case <-stop:
				return
			default:
			}
			c.mu.Lock()
			switch r.Intn(5) {
			case 0:
				x := c.regions[r.Intn(len(c.regions))]
				x.addr = simAddrs[r.Intn(3)]
			case 1:
				rs := c.tableRegions("t")
				x := rs[r.Intn(len(rs))]
				at := append(append([]byte{}, x.start...), 'k')
				if (len(x.stop) == 0 || bytes.Compare(at, x.stop) < 0) && len(rs) < 8 {
					c.split(x, at, simAddrs[r.Intn(3)], simAddrs[r.Intn(3)])
				}
			case 2:
				x := c.regions[r.Intn(len(c.regions))]
				x.faults = append(x.faults, []string{"nsre", "nsre", "retryable", "connErr"}[r.Intn(4)])
			case 3:
				// connection loss shared by all regions of a server: fail every connection to it once
				a := simAddrs[r.Intn(3)]
				for _, s := range c.conns {
					if s.addr == a {
						atomic.StoreInt32(&s.closed, 1)
						atomic.StoreInt32(&s.failed, 1)
						atomic.StoreInt32(&s.deadOK, 1)
					}
				}
			case 4:
				rs := c.tableRegions("t")
				if len(rs) >= 2 {
					j := r.Intn(len(rs) - 1)
					c.merge(rs[j], rs[j+1], simAddrs[r.Intn(3)])
				}
			}
			injected++
			c.mu.Unlock()
			time.Sleep(time.Duration(r.Intn(300)) * time.Microsecond)
		}
	}()
	done := make(chan struct{})
	go func() { wg.Wait(); close(done) }()
	hung := 0
	select {
	case <-done:
	case <-time.After(40 * time.Second):
		hung = 1
	}
	close(stop)
	time.Sleep(2 * time.Millisecond)
	// stable now: one more request per key must succeed, then all cached regions are available
	postFail := 0
	for _, key := range simKeys {
		ctx, cancel := context.WithTimeout(context.Background(), 10*time.Second)
		g, _ := hrpc.NewGet(ctx, []byte("t"), key)
		if _, err := sc.cl.Get(g); err != nil {
			postFail++
		}
		cancel()
	}
	settle()
	unavailable := 0
	for _, ok := range sc.v.VerifAvailability() {
		if !ok {
			unavailable++
		}
	}
	cache := sc.v.ConnCacheAddrs()
	dup := 0
	seen := map[string]bool{}
	for _, a := range cache {
		if seen[a] {
			dup++
		}
		seen[a] = true
	}
	c.mu.Lock()
	wrong := 0
	for _, s := range c.serves {
		if s.hosted && !s.inRange {
			wrong++
		}
	}
	c.mu.Unlock()
	return fmt.Sprintf("c09 conc G=%d injected=%d ok=%d failed=%d hungcalls=%d hung=%d postfail=%d unavailable=%d dupaddr=%d wrongregion=%d",
		G, injected, okN, failN, hungN, hung, postFail, unavailable, dup, wrong)
}

// probeAfterDeath (C09): region B is being established on connection C (its probe is in flight)
// when C dies; a request on region A (also on C) declares C dead; then B's probe answer, sent
// before the death, arrives and B becomes available on the dead connection. Requests on B must
// still get through (the client has to notice and re-establish B).
func probeAfterDeath() string {
	setSleepOverride(fastBackoff)
	defer setSleepOverride(nil)
	c := newSimCluster()
	c.probeHold = map[string]chan struct{}{}
	c.addRegion(nil, []byte("t"), nil, []byte("m"), "rs1:1")
	c.addRegion(nil, []byte("t"), []byte("m"), nil, "rs1:1")
	sc := newSimClient(c)
	defer sc.cl.Close()
	get := func(k string, d time.Duration) string {
		ctx, cancel := context.WithTimeout(context.Background(), d)
		defer cancel()
		g, _ := hrpc.NewGet(ctx, []byte("t"), []byte(k))
		_, err := sc.cl.Get(g)
		return classOf(err)
	}
	r1 := get("a", 5*time.Second) // A established on the first connection to rs1
	c.mu.Lock()
	hold := make(chan struct{})
	c.probeHold["rs1:1"] = hold
	c.mu.Unlock()
	bRes := make(chan string, 1)
	go func() { bRes <- get("x", 10*time.Second) }() // B: lookup, same connection, probe parked
	time.Sleep(20 * time.Millisecond)
	c.mu.Lock()
	for _, s := range c.conns {
		if s.addr == "rs1:1" {
			atomic.StoreInt32(&s.closed, 1) // the connection dies
			atomic.StoreInt32(&s.failed, 1)
			atomic.StoreInt32(&s.deadOK, 1)
		}
	}
	delete(c.probeHold, "rs1:1") // probes on new connections are answered normally
	c.mu.Unlock()
	r2 := get("b", 5*time.Second) // a request on A notices, declares the connection dead, recovers
	close(hold)                   // B's probe answer arrives now
	r3 := "blocked"
	select {
	case r3 = <-bRes:
	case <-time.After(12 * time.Second):
	}
	r4 := get("y", 5*time.Second)
	settle()
	unavailable := 0
	for _, ok := range sc.v.VerifAvailability() {
		if !ok {
			unavailable++
		}
	}
	return fmt.Sprintf("c09 script probe-after-death %s,%s,%s,%s unavailable=%d", r1, r2, r3, r4, unavailable)
}

// metaColocatedScenario (C09): hbase:meta and a user region are served through the same
// connection; the connection is lost and the loss is noticed through a request on the user region.
// Re-establishing the user region needs hbase:meta, which has to be re-established too — neither
// may wait for the other.
func metaColocatedScenario() string {
	setSleepOverride(fastBackoff)
	defer setSleepOverride(nil)
	c := newSimCluster()
	c.metaAddr = "rs1:1"
	r := c.addRegion(nil, []byte("t"), nil, nil, "rs1:1")
	c.addRegion(nil, []byte("u"), nil, nil, "rs1:1")
	sc := newSimClient(c)
	defer sc.cl.Close()
	get := func(t, k string) string {
		ctx, cancel := context.WithTimeout(context.Background(), 6*time.Second)
		defer cancel()
		g, _ := hrpc.NewGet(ctx, []byte(t), []byte(k))
		_, err := sc.cl.Get(g)
		return classOf(err)
	}
	r1, r2 := get("t", "a"), get("u", "a")
	c.mu.Lock()
	for _, s := range c.conns {
		if s.addr == "rs1:1" {
			atomic.StoreInt32(&s.closed, 1) // the shared connection dies (the server itself is fine)
			atomic.StoreInt32(&s.failed, 1)
			atomic.StoreInt32(&s.deadOK, 1)
		}
	}
	_ = r
	c.mu.Unlock()
	r3 := get("t", "b")
	r4 := get("u", "b")
	r5 := get("v-unknown", "b") // needs a fresh meta lookup
	if r5 == "tablenotfound" {
		r5 = "ok"
	}
	settle()
	unavailable := 0
	for _, ok := range sc.v.VerifAvailability() {
		if !ok {
			unavailable++
		}
	}
	if sc.v.MetaRegionInfo().IsUnavailable() {
		unavailable++
	}
	return fmt.Sprintf("c09 script meta-colocated %s,%s,%s,%s,%s unavailable=%d", r1, r2, r3, r4, r5, unavailable)
}

// mergeRaceScenario (C04 / C09): two neighbouring regions are merged while a request is in flight
// on each of them; both re-establishments look the merged region up at the same moment, one of them
// puts it into the location cache and the other finds it already there. Both waiting requests
// must be released and served by the merged region.
func mergeRaceScenario() string { return mergeScenario(false) }

// mergeOrderedScenario: the same, with the order scripted instead of raced: the location cache is
// locked while both lookups are answered, and released only once both re-establishments stand
// in front of it with the merged region in hand (the loser finds it already there).
func mergeOrderedScenario() string {
	return strings.Replace(mergeScenario(true), "merge-race", "merge-ordered", 1)
}

func goroutinesIn(fn string) int {
	buf := make([]byte, 1<<20)
	n := runtime.Stack(buf, true)
	cnt := 0
	for _, blk := range bytes.Split(buf[:n], []byte("\n\n")) {
		if bytes.Contains(blk, []byte(fn)) {
			cnt++
		}
	}
	return cnt
}

func mergeScenario(ordered bool) string {
	setSleepOverride(fastBackoff)
	defer setSleepOverride(nil)
	c := newSimCluster()
	a := c.addRegion(nil, []byte("t"), nil, []byte("m"), "rs1:1")
	b := c.addRegion(nil, []byte("t"), []byte("m"), nil, "rs1:1")
	sc := newSimClient(c)
	defer sc.cl.Close()
	get := func(k string) string {
		ctx, cancel := context.WithTimeout(context.Background(), 4*time.Second)
		defer cancel()
		g, _ := hrpc.NewGet(ctx, []byte("t"), []byte(k))
		_, err := sc.cl.Get(g)
		return classOf(err)
	}
	w1, w2 := get("a"), get("x")
	c.mu.Lock()
	var keep []*simRegion
	for _, r := range c.regions {
		if r != a && r != b {
			keep = append(keep, r)
		}
	}
	c.regions = keep
	c.metaHold = make(chan struct{})
	hold := c.metaHold
	c.mu.Unlock()
	c.addRegion(nil, []byte("t"), nil, nil, "rs2:1") // the merged region
	res := make(chan string, 2)
	go func() { res <- get("b") }()
	go func() { res <- get("y") }()
	for i := 0; i < 400; i++ {
		c.mu.Lock()
		n := c.metaParked
		c.mu.Unlock()
		if n >= 2 {
			break
		}
		time.Sleep(2 * time.Millisecond)
	}
	c.mu.Lock()
	c.metaHold = nil
	c.mu.Unlock()
	if ordered {
		sc.v.Cache().Lock()
	}
	close(hold)
	if ordered {
		for i := 0; i < 1000 && goroutinesIn("(*keyRegionCache).put") < 2; i++ {
			time.Sleep(2 * time.Millisecond)
		}
		sc.v.Cache().Unlock()
	}
	r1, r2 := "blocked", "blocked"
	select {
	case r1 = <-res:
	case <-time.After(5 * time.Second):
	}
	select {
	case r2 = <-res:
	case <-time.After(5 * time.Second):
	}
	settle()
	unavailable := 0
	for _, ok := range sc.v.VerifAvailability() {
		if !ok {
			unavailable++
		}
	}
	if w1 != "ok" || w2 != "ok" {
		r1 = "setup-" + w1 + w2
	}
	return fmt.Sprintf("c04 script merge-race %s,%s unavailable=%d", r1, r2, unavailable)
}

// probeFatalScenario (C04): the availability probe of a region is answered with an application
// exception that is none of the classes the client knows (e.g. the user may not read the table).
// That says nothing against the region being there: requests go through and get their own answers.
func probeFatalScenario() string {
	setSleepOverride(fastBackoff)
	defer setSleepOverride(nil)
	c := newSimCluster()
	r := c.addRegion(nil, []byte("t"), nil, nil, "rs1:1")
	c.mu.Lock()
	r.probeAlways = "fatal"
	c.mu.Unlock()
	sc := newSimClient(c)
	defer sc.cl.Close()
	ctx, cancel := context.WithTimeout(context.Background(), 5*time.Second)
	defer cancel()
	p, _ := hrpc.NewPut(ctx, []byte("t"), []byte("k"), map[string]map[string][]byte{"f": {"q": []byte("v")}})
	_, err := sc.cl.Put(p)
	r1 := classOf(err)
	settle()
	unavailable := 0
	for _, ok := range sc.v.VerifAvailability() {
		if !ok {
			unavailable++
		}
	}
	return fmt.Sprintf("c04 script probe-answered-with-application-exception %s unavailable=%d", r1, unavailable)
}

// ---- C13 / C19: wait states with real time ------------------------------------------------

type waitState struct {
	name  string
	setup func(c *simCluster)
}

// fresh: no traffic before the state is set up (first use of the client)
func (w waitState) fresh() bool {
	return strings.HasPrefix(w.name, "first-call") || strings.HasPrefix(w.name, "unused")
}

// idle: no call is in flight when Close is called
func (w waitState) idle() bool { return strings.HasPrefix(w.name, "unused") }

var waitStates = []waitState{
	{"zk-silent", func(c *simCluster) { atomic.StoreInt32(&c.zkSilent, 1) }},
	{"meta-silent", func(c *simCluster) { c.metaSil = true }},
	{"region-reestablishing", func(c *simCluster) {
		for _, r := range c.regions {
			for i := 0; i < 1000; i++ {
				r.faults = append(r.faults, "nsre")
			}
		}
	}},
	{"retry-backoff", func(c *simCluster) {
		for _, r := range c.regions {
			r.faults = append(r.faults, "ok-probe")
			for i := 0; i < 1000; i++ {
				r.faults = append(r.faults, "retryable")
			}
		}
	}},
	{"server-silent", func(c *simCluster) {
		for _, a := range simAddrs {
			c.silent[a] = true
		}
	}},
	{"dial-blocked", func(c *simCluster) { c.dialHold = make(chan struct{}) }},
}

// closeOnlyStates are used by the Close scenarios only.
var closeOnlyStates = []waitState{
	// the very first call of a client: it is the caller itself that marks hbase:meta unavailable
	// and starts its establishment, and ZooKeeper has not answered when Close is called
	{"first-call-zk-slow", func(c *simCluster) { c.zkHold = make(chan struct{}) }},
	// a request is answered with a server-class exception (e.g. RegionServerStoppedException)
	// over a connection that itself stays healthy; the retry then succeeds on a new connection
	{"after-server-exception", func(c *simCluster) {
		for _, r := range c.regions {
			if string(r.fq()) == "ns:t" {
				r.faults = append(r.faults, "REQ:connErr")
			}
		}
	}},
	// the first call of a client is looking for hbase:meta while ZooKeeper keeps failing (errors,
	// not silence): Close must end that search
	{"first-call-zk-down", func(c *simCluster) { atomic.StoreInt32(&c.zkErr, 1<<20) }},
	// a client that was never used is closed while ZooKeeper is unreachable; a call made afterwards
	// is refused and must not leave anything behind that keeps looking for hbase:meta
	{"unused-zk-down", func(c *simCluster) { atomic.StoreInt32(&c.zkErr, 1<<20) }},
	// the connection object for a regionserver is still being constructed (the factory has not
	// returned) when Close is called; it completes a moment later
	{"first-call-factory-slow", func(c *simCluster) { c.slowNew = 300 * time.Millisecond }},
	// ZooKeeper answers the pending "where is meta" lookup only after Close has returned
	{"zk-slow", func(c *simCluster) {
		c.zkHold = make(chan struct{})
		c.metaAddr = "meta:2" // the cached meta connection now answers NotServing: meta is re-resolved
	}},
}

func init() { excClass["ok-probe"] = "" }

// apiCall runs one API entry point and returns its error class.
func apiCall(sc *simClient, api string, ctx context.Context) string {
	switch api {
	case "get":
		g, _ := hrpc.NewGet(ctx, []byte("t"), []byte("h"))
		_, err := sc.cl.Get(g)
		return classOf(err)
	case "batch":
		g1, _ := hrpc.NewGet(ctx, []byte("t"), []byte("a"))
		g2, _ := hrpc.NewGet(ctx, []byte("t"), []byte("z"))
		res, ok := sc.cl.SendBatch(ctx, []hrpc.Call{g1, g2})
		if ok {
			return "ok"
		}
		cls := []string{}
		for _, r := range res {
			cls = append(cls, classOf(r.Error))
		}
		sort.Strings(cls)
		return strings.Join(cls, "+")
	case "batchbg", "batchown1":
		// contexts distinct between the batch and its calls: either the batch's context ends and the
		// calls have none of their own, or the batch has none and its only call's context ends
		bctx, cctx := ctx, context.Background()
		calls := 2
		if api == "batchown1" {
			bctx, cctx, calls = context.Background(), ctx, 1
		}
		var cs []hrpc.Call
		for _, k := range []string{"a", "z"}[:calls] {
			g, _ := hrpc.NewGet(cctx, []byte("t"), []byte(k))
			cs = append(cs, g)
		}
		res, ok := sc.cl.SendBatch(bctx, cs)
		if ok {
			return "ok"
		}
		cls := []string{}
		for _, r := range res {
			cls = append(cls, classOf(r.Error))
		}
		sort.Strings(cls)
		return strings.Join(cls, "+")
	case "scan":
		s, _ := hrpc.NewScanRange(ctx, []byte("t"), []byte("a"), []byte("z"))
		sn := sc.cl.Scan(s)
		_, err := sn.Next()
		if err == io.EOF {
			return "eof"
		}
		return classOf(err)
	}
	return "?"
}

// sleepFnScenario: the retry back-off sleep itself (sleepAndIncreaseBackoff, shared by SendRPC,
// SendBatch, the lookups and the establisher) with a back-off that has grown to seconds: the
// context ends 30 ms into the sleep.
func sleepFnScenario(mode string) string {
	setSleepOverride(nil)
	ctx, cancel := context.WithCancel(context.Background())
	switch mode {
	case "deadline":
		ctx, cancel = context.WithTimeout(context.Background(), 30*time.Millisecond)
	case "cancelwd":
		ctx, cancel = context.WithTimeout(context.Background(), time.Hour)
	}
	defer cancel()
	resCh := make(chan error, 1)
	go func() {
		_, err := gohbase.VerifSleepAndIncreaseBackoff(ctx, 8*time.Second)
		resCh <- err
	}()
	time.Sleep(30 * time.Millisecond)
	t0 := time.Now()
	if mode != "deadline" {
		cancel()
	}
	select {
	case err := <-resCh:
		res := "ctx"
		if err == nil {
			res = "ok"
		} else if !errors.Is(err, context.Canceled) && !errors.Is(err, context.DeadlineExceeded) {
			res = "other"
		}
		return fmt.Sprintf("c13 wait backoff-sleep sleepfn %s %d %s", mode, time.Since(t0).Microseconds(), res)
	case <-time.After(2 * time.Second):
		return fmt.Sprintf("c13 wait backoff-sleep sleepfn %s 2000000 blocked", mode)
	}
}

// raceRun runs the C09 scenarios in the -race build of this harness and summarises the detector's
// reports.
func raceRun(bin, tier string, seed uint64) string {
	dir, err := os.MkdirTemp("", "verif-race")
	if err != nil {
		return "c09 race skipped=no-tempdir"
	}
	defer os.RemoveAll(dir)
	cmd := exec.Command(bin, "C09", tier, fmt.Sprint(seed))
	cmd.Env = append(os.Environ(), "VERIF_RACE_CHILD=1", "VERIF_GUARDED=1",
		"GORACE=log_path="+filepath.Join(dir, "r")+" halt_on_error=0 exitcode=0")
	outb, err := cmd.Output()
	lines := 0
	crashed := 0
	for _, l := range strings.Split(string(outb), "\n") {
		if l != "" {
			lines++
		}
		if strings.Contains(l, " crash ") {
			crashed++
		}
	}
	if err != nil || lines == 0 {
		return fmt.Sprintf("c09 race skipped=run-failed lines=%d", lines)
	}
	files, _ := filepath.Glob(filepath.Join(dir, "r.*"))
	reports := 0
	at := "-"
	for _, f := range files {
		b, _ := os.ReadFile(f)
		txt := string(b)
		reports += strings.Count(txt, "WARNING: DATA RACE")
		if at == "-" {
			for _, l := range strings.Split(txt, "\n") {
				l = strings.TrimSpace(l)
				if strings.HasPrefix(l, "github.com/tsuna/gohbase") && strings.HasSuffix(l, ")") {
					at = l[:strings.IndexByte(l, '(')+1] + "…)"
					if i := strings.LastIndex(l, "gohbase"); i >= 0 {
						at = strings.ReplaceAll(l[i:], " ", "_")
					}
					break
				}
			}
		}
	}
	return fmt.Sprintf("c09 race scenarios=%d crashed=%d reports=%d at=%s", lines, crashed, reports, at)
}

func waitScenario(state waitState, api, mode string) string {
	return waitScenarioAfter(state, api, mode, 40*time.Millisecond)
}

// waitScenarioAfter: the context ends `wait` after the call was started (later = deeper into the
// retry schedule: the back-off has grown).
func waitScenarioAfter(state waitState, api, mode string, wait time.Duration) string {
	setSleepOverride(nil)
	rng := NewRNG(1, "c13")
	c := buildCluster(rng)
	state.setup(c)
	sc := newSimClient(c, gohbase.RegionLookupTimeout(time.Second), gohbase.RegionReadTimeout(time.Second))
	defer sc.cl.Close()
	ctx, cancel := context.WithCancel(context.Background())
	if mode == "deadline" {
		ctx, cancel = context.WithTimeout(context.Background(), wait)
	} else if mode == "cancelwd" {
		// cancelled explicitly although it also carries a (far) deadline
		ctx, cancel = context.WithTimeout(context.Background(), time.Hour)
	}
	defer cancel()
	resCh := make(chan string, 1)
	go func() { resCh <- apiCall(sc, api, ctx) }()
	early := ""
	select {
	case r := <-resCh:
		early = r
	case <-time.After(wait):
	}
	t0 := time.Now()
	if mode == "cancel" || mode == "cancelwd" {
		cancel()
	}
	res := early
	lat := time.Duration(0)
	if early == "" {
		select {
		case res = <-resCh:
			lat = time.Since(t0)
		case <-time.After(2 * time.Second):
			res = "blocked"
			lat = 2 * time.Second
		}
	} else {
		res = "early:" + early
	}
	name := state.name
	if wait != 40*time.Millisecond {
		name = fmt.Sprintf("%s@%dms", name, wait.Milliseconds())
	}
	return fmt.Sprintf("c13 wait %s %s %s %d %s", name, api, mode, lat.Microseconds(), res)
}

// scanOpenScenario (C13): a scan has a region scanner open at the server (the first Next returned a
// row); then every regionserver goes silent. The scan's context is cancelled either while the
// second Next is blocked or between two Next calls; Next must return the context error promptly
// (and not wait for the server while releasing the region scanner).
func scanOpenScenario(between bool) string {
	setSleepOverride(nil)
	c := buildCluster(NewRNG(3, "c13scan"))
	c.scanRows = true
	sc := newSimClient(c, gohbase.RegionLookupTimeout(time.Second))
	defer sc.cl.Close()
	ctx, cancel := context.WithCancel(context.Background())
	defer cancel()
	s, _ := hrpc.NewScanRange(ctx, []byte("t"), []byte("a"), []byte("z"), hrpc.NumberOfRows(1))
	sn := sc.cl.Scan(s)
	name := "scan-open-blocked"
	if between {
		name = "scan-open-between"
	}
	if _, err := sn.Next(); err != nil {
		return fmt.Sprintf("c13 wait %s scan cancel 0 early:%s", name, classOf(err))
	}
	c.mu.Lock()
	for _, a := range simAddrs {
		c.silent[a] = true
	}
	c.mu.Unlock()
	resCh := make(chan string, 1)
	var t0 time.Time
	if between {
		cancel()
		t0 = time.Now()
		go func() { _, err := sn.Next(); resCh <- classOf(err) }()
	} else {
		go func() { _, err := sn.Next(); resCh <- classOf(err) }()
		time.Sleep(40 * time.Millisecond)
		t0 = time.Now()
		cancel()
	}
	select {
	case r := <-resCh:
		return fmt.Sprintf("c13 wait %s scan cancel %d %s", name, time.Since(t0).Microseconds(), r)
	case <-time.After(2 * time.Second):
		return fmt.Sprintf("c13 wait %s scan cancel 2000000 blocked", name)
	}
}

// closeWithRenewingScan (C19): a scan that renews its scanner lease is open in the middle of a
// region (the application is between two Next calls) when the client is closed. The renewer must
// not outlive the client.
func closeWithRenewingScan() string {
	setSleepOverride(nil)
	c := buildCluster(NewRNG(3, "c19scan"))
	c.scanRows = true
	sc := newSimClient(c, gohbase.RegionLookupTimeout(time.Second))
	s, _ := hrpc.NewScanRange(context.Background(), []byte("t"), []byte("a"), []byte("z"), hrpc.NumberOfRows(1),
		hrpc.RenewInterval(5*time.Millisecond))
	sn := sc.cl.Scan(s)
	inflight := "none"
	if _, err := sn.Next(); err != nil {
		inflight = "setup-failed"
	}
	time.Sleep(30 * time.Millisecond) // a few renewals
	t0 := time.Now()
	sc.cl.Close()
	closeLat := time.Since(t0)
	g, _ := hrpc.NewGet(context.Background(), []byte("t"), []byte("b"))
	_, err := sc.cl.Get(g)
	later := classOf(err)
	time.Sleep(100 * time.Millisecond)
	buf := make([]byte, 1<<20)
	n := runtime.Stack(buf, true)
	renewers := strings.Count(string(buf[:n]), "renewLoop")
	c.mu.Lock()
	open := 0
	for _, x := range c.conns {
		if atomic.LoadInt32(&x.closed) == 0 && atomic.LoadInt32(&x.failed) == 0 {
			open++
		}
	}
	c.mu.Unlock()
	return fmt.Sprintf("c19 close open-renewing-scan %d %s 0 %s 0 open=%d late=0 gor=%d second=ok renewers=%d",
		closeLat.Microseconds(), inflight, later, open, 3*renewers, renewers)
}

// busyQueueScenario (C13): at the level of one region connection. The batching goroutine is stuck
// inside a Write (the peer does not read); a second batchable call is handed to the connection and
// waits for the send queue; its context ends: QueueRPC must return promptly.
func busyQueueScenario(mode string) string { return busyQueueScenarioKind(mode, false) }

// busyQueueScenarioKind(mode, true): the second call is one the connection writes from the caller's
// own goroutine (a scan request, SkipBatch, any call on a connection with queue size 1): it waits for
// the write lock, or inside conn.Write, behind the stuck flush.
func busyQueueScenarioKind(mode string, direct bool) string {
	api := "queue"
	if direct {
		api = "direct"
	}
	s := newConnScn(NewRNG(4, "c13busy"), 5)
	if s.broken != "" {
		return "c13 wait busy-send-queue " + api + " " + mode + " 0 early:" + s.broken
	}
	first := s.newCall(false, false)
	go s.rc.QueueRPC(first.call)
	settle() // the writer is now parked inside conn.Write with the first multi
	ctx, cancel := context.WithCancel(context.Background())
	if mode == "deadline" {
		ctx, cancel = context.WithTimeout(context.Background(), 40*time.Millisecond)
	}
	defer cancel()
	var gopts []func(hrpc.Call) error
	if direct {
		gopts = append(gopts, hrpc.SkipBatch())
	}
	g, _ := hrpc.NewGet(ctx, []byte("t"), []byte("a-second"), gopts...)
	g.SetRegion(s.regs[0])
	done := make(chan struct{})
	go func() { s.rc.QueueRPC(g); close(done) }()
	early := false
	select {
	case <-done:
		early = true
	case <-time.After(40 * time.Millisecond):
	}
	t0 := time.Now()
	if mode == "cancel" {
		cancel()
	}
	res, lat := "ctx", time.Duration(0)
	if early {
		res = "early:returned"
	} else {
		select {
		case <-done:
			lat = time.Since(t0)
		case <-time.After(2 * time.Second):
			res, lat = "blocked", 2*time.Second
		}
	}
	// let everything go
	go s.rc.Close()
	for i := 0; i < 20; i++ {
		for _, p := range s.v.Pending() {
			if p.kind != "read" {
				s.v.take(p)
				p.ch <- gateRes{err: errVClosed}
			}
		}
		time.Sleep(time.Millisecond)
	}
	return fmt.Sprintf("c13 wait busy-send-queue %s %s %d %s", api, mode, lat.Microseconds(), res)
}

// batchBusyQueueScenario (C13): a batch under a context without deadline, whose one call has a
// context of its own, is handed to a connection whose batching goroutine is stuck inside a Write
// (the peer does not read): SendBatch waits for the send queue. When the call's own context ends,
// SendBatch returns with that call marked failed. (Real client, location cache filled by hand with
// a region whose client is a real region client on a gated connection.)
func batchBusyQueueScenario(mode string) string {
	s := newConnScn(NewRNG(5, "c13batchbusy"), 5)
	if s.broken != "" {
		return "c13 wait busy-send-queue batchown1 " + mode + " 0 early:" + s.broken
	}
	zkDown := newSimCluster() // (never needed: the region is in the cache; answers with errors if asked)
	atomic.StoreInt32(&zkDown.zkErr, 1<<30)
	vc := gohbase.VerifNewClient(zkDown, false, nil, gohbase.Logger(discardLogger))
	reg := region.NewInfo(7, nil, []byte("t"), []byte("t,,7.cccccccccccccccccccccccccccccccc."), nil, nil)
	reg.SetClient(s.rc)
	vc.RegionsPut(reg)
	cl := vc.Client()
	if vc.GetRegionFromCache([]byte("t"), []byte("first")) == nil {
		return "c13 wait busy-send-queue batchown1 " + mode + " 0 early:region-not-in-cache"
	}
	p1, _ := hrpc.NewPutStr(context.Background(), "t", "first", map[string]map[string][]byte{"f": {"q": []byte("v")}})
	go cl.SendBatch(context.Background(), []hrpc.Call{p1})
	settle() // the writer is parked inside conn.Write with the first multi
	ctx, cancel := context.WithCancel(context.Background())
	if mode == "deadline" {
		ctx, cancel = context.WithTimeout(context.Background(), 40*time.Millisecond)
	}
	defer cancel()
	g, _ := hrpc.NewGetStr(ctx, "t", "second")
	type out struct {
		res []hrpc.RPCResult
		ok  bool
	}
	done := make(chan out, 1)
	go func() {
		r, ok := cl.SendBatch(context.Background(), []hrpc.Call{g})
		done <- out{r, ok}
	}()
	early := false
	var o out
	select {
	case o = <-done:
		early = true
	case <-time.After(40 * time.Millisecond):
	}
	t0 := time.Now()
	if mode == "cancel" {
		cancel()
	}
	res, lat := "ctx", time.Duration(0)
	if early {
		res = "early:returned"
	} else {
		select {
		case o = <-done:
			lat = time.Since(t0)
			if len(o.res) != 1 || o.res[0].Error == nil || o.ok {
				res = "notfailed"
			} else {
				res = classOf(o.res[0].Error)
			}
		case <-time.After(2 * time.Second):
			res, lat = "blocked", 2*time.Second
		}
	}
	cl.Close()
	go s.rc.Close()
	for i := 0; i < 20; i++ {
		for _, p := range s.v.Pending() {
			if p.kind != "read" {
				s.v.take(p)
				p.ch <- gateRes{err: errVClosed}
			}
		}
		time.Sleep(time.Millisecond)
	}
	return fmt.Sprintf("c13 wait busy-send-queue batchown1 %s %d %s", mode, lat.Microseconds(), res)
}

// batchOwnCtx: a batch under a background context; one call's own context ends while its server
// is silent, the other call is answered: the batch must return with that call marked failed.
func batchOwnCtx() string {
	setSleepOverride(nil)
	c := newSimCluster()
	c.addRegion(nil, []byte("t"), nil, []byte("m"), "rs1:1")
	c.addRegion(nil, []byte("t"), []byte("m"), nil, "rs2:1")
	sc := newSimClient(c)
	defer sc.cl.Close()
	// warm up both regions
	for _, k := range []string{"a", "z"} {
		g, _ := hrpc.NewGet(context.Background(), []byte("t"), []byte(k))
		sc.cl.Get(g)
	}
	c.mu.Lock()
	c.silent["rs1:1"] = true
	c.mu.Unlock()
	own, cancelOwn := context.WithCancel(context.Background())
	g1, _ := hrpc.NewGet(own, []byte("t"), []byte("a"))
	g2, _ := hrpc.NewGet(context.Background(), []byte("t"), []byte("z"))
	type out struct {
		res []hrpc.RPCResult
		ok  bool
	}
	ch := make(chan out, 1)
	go func() {
		r, ok := sc.cl.SendBatch(context.Background(), []hrpc.Call{g1, g2})
		ch <- out{r, ok}
	}()
	time.Sleep(40 * time.Millisecond)
	t0 := time.Now()
	cancelOwn()
	select {
	case o := <-ch:
		return fmt.Sprintf("c13 batchown %d %s %s %v", time.Since(t0).Microseconds(), classOf(o.res[0].Error),
			classOf(o.res[1].Error), o.ok)
	case <-time.After(2 * time.Second):
		return "c13 batchown 2000000 blocked blocked false"
	}
}

func closeScenario(state *waitState) string {
	return closeScenarioAfter(state, 40*time.Millisecond)
}

func closeScenarioAfter(state *waitState, wait time.Duration) string {
	setSleepOverride(nil)
	rng := NewRNG(2, "c19")
	c := buildCluster(rng)
	sc := newSimClient(c, gohbase.RegionLookupTimeout(time.Second))
	base := runtime.NumGoroutine()
	// some traffic first so that connections and cached regions exist
	for _, k := range []string{"a", "h", "q", "z"} {
		if state != nil && state.fresh() {
			break
		}
		g, _ := hrpc.NewGet(context.Background(), []byte("t"), []byte(k))
		sc.cl.Get(g)
	}
	name := "idle"
	inflight := "none"
	lat := time.Duration(0)
	var resCh chan string
	if state != nil {
		name = state.name
		c.mu.Lock()
		state.setup(c)
		// force re-resolution so that the wait state is actually entered
		c.mu.Unlock()
		if !state.idle() {
			resCh = make(chan string, 1)
			go func() {
				g, _ := hrpc.NewGet(context.Background(), []byte("ns:t"), []byte("k"))
				_, err := sc.cl.Get(g)
				resCh <- classOf(err)
			}()
		}
		time.Sleep(wait)
		if wait > time.Second {
			name = "long-" + name
		}
	}
	t0 := time.Now()
	sc.cl.Close()
	closeLat := time.Since(t0)
	c.mu.Lock()
	c.closedAt = c.seq + 1
	c.mu.Unlock()
	if resCh != nil {
		select {
		case inflight = <-resCh:
			lat = time.Since(t0)
		case <-time.After(2 * time.Second):
			inflight = "blocked"
			lat = 2 * time.Second
		}
	}
	// later calls
	t1 := time.Now()
	g, _ := hrpc.NewGet(context.Background(), []byte("t"), []byte("b"))
	lc := make(chan string, 1)
	go func() { _, err := sc.cl.Get(g); lc <- classOf(err) }()
	later := "blocked"
	select {
	case later = <-lc:
	case <-time.After(2 * time.Second):
	}
	// ... and the other entry points: a scan, a batch, the region pre-fetch
	for _, api := range []string{"scan", "batch", "cacheregions"} {
		api := api
		ac := make(chan string, 1)
		go func() {
			if api == "cacheregions" {
				ac <- classOf(sc.cl.CacheRegions([]byte("t")))
				return
			}
			ac <- apiCall(sc, api, context.Background())
		}()
		select {
		case r := <-ac:
			refused := true
			for _, part := range strings.Split(r, "+") {
				refused = refused && part == "clientclosed"
			}
			if later == "clientclosed" && !refused {
				later = api + "-" + r
			}
		case <-time.After(2 * time.Second):
			later = api + "-blocked"
		}
	}
	laterLat := time.Since(t1)
	// release anything the environment was holding so that goroutines can finish
	c.mu.Lock()
	if c.dialHold != nil {
		close(c.dialHold)
		c.dialHold = nil
	}
	if c.zkHold != nil {
		close(c.zkHold)
		c.zkHold = nil
	}
	c.mu.Unlock()
	time.Sleep(150 * time.Millisecond)
	c.mu.Lock()
	seqAfter := c.seq
	zkAfter := atomic.LoadInt32(&c.zkCalls)
	c.mu.Unlock()
	time.Sleep(300 * time.Millisecond)
	second := "ok"
	func() {
		defer func() {
			if r := recover(); r != nil {
				second = "panic"
			}
		}()
		sc.cl.Close()
	}()
	c.mu.Lock()
	open := 0
	for _, s := range c.conns {
		if atomic.LoadInt32(&s.closed) == 0 && atomic.LoadInt32(&s.failed) == 0 {
			open++
		}
	}
	late := c.seq - seqAfter + int(atomic.LoadInt32(&c.zkCalls)-zkAfter)
	c.mu.Unlock()
	gor := runtime.NumGoroutine() - base
	if state != nil && (state.name == "zk-silent" || state.name == "server-silent" || state.name == "meta-silent") {
		// the fake environment itself parks goroutines forever in these states
		gor = 0
	}
	if gor < 0 {
		gor = 0 // goroutines of an earlier scenario of this process have ended meanwhile
	}
	avail := 0
	for _, ok := range sc.v.VerifAvailability() {
		if ok {
			avail++
		}
	}
	return fmt.Sprintf("c19 close %s %d %s %d %s %d open=%d late=%d gor=%d second=%s cachesize=%d",
		name, closeLat.Microseconds(), inflight, lat.Microseconds(), later, laterLat.Microseconds(), open, late, gor,
		second, sc.v.ConnCacheSize())
}

// closeAfterReplacedRegion: the only region a regionserver hosts for this client is replaced in
// the location cache by its split daughters on other servers; the connection to the old server
// has no region left but is still the client's to close.
func closeAfterReplacedRegion() string {
	setSleepOverride(fastBackoff)
	defer setSleepOverride(nil)
	c := newSimCluster()
	old := c.addRegion(nil, []byte("u"), nil, nil, "rs9:1")
	sc := newSimClient(c)
	get := func(k string) string {
		ctx, cancel := context.WithTimeout(context.Background(), 5*time.Second)
		defer cancel()
		g, _ := hrpc.NewGet(ctx, []byte("u"), []byte(k))
		_, err := sc.cl.Get(g)
		return classOf(err)
	}
	r1 := get("a")
	c.mu.Lock()
	c.split(old, []byte("m"), "rs1:1", "rs2:1")
	c.mu.Unlock()
	r2 := get("a")
	r3 := get("x")
	settle()
	t0 := time.Now()
	sc.cl.Close()
	closeLat := time.Since(t0)
	later := get("b")
	time.Sleep(20 * time.Millisecond)
	c.mu.Lock()
	open := 0
	for _, s := range c.conns {
		if atomic.LoadInt32(&s.closed) == 0 && atomic.LoadInt32(&s.failed) == 0 {
			open++
		}
	}
	c.mu.Unlock()
	inflight := "none"
	if r1 != "ok" || r2 != "ok" || r3 != "ok" {
		inflight = "setup-failed"
	}
	return fmt.Sprintf("c19 close after-only-region-replaced %d %s 0 %s 0 open=%d late=0 gor=0 second=ok cachesize=%d",
		closeLat.Microseconds(), inflight, later, open, sc.v.ConnCacheSize())
}

// setSleepOverride installs the retry-sleep replacement. The hook is a plain package variable (the
// project's own test seam), so changing it while goroutines of an earlier scenario are still
// running is a data race of the harness's making: it is written only when the value changes
// between "set" and "unset", and never in the race-detector run, where it is set once.
var sleepOverrideSet, sleepOverrideInit bool

func setSleepOverride(f func(ctx context.Context, backoff time.Duration) (time.Duration, error)) {
	if os.Getenv("VERIF_RACE_CHILD") != "" {
		if !sleepOverrideInit {
			sleepOverrideInit = true
			gohbase.VerifSetSleepOverride(fastBackoff)
		}
		return
	}
	if want := f != nil; want != sleepOverrideSet || !sleepOverrideInit {
		sleepOverrideInit, sleepOverrideSet = true, want
		gohbase.VerifSetSleepOverride(f)
	}
}

// metaSlowScenario (C04): hbase:meta fails to answer exactly one lookup within the client's
// region lookup timeout (it is restarting, or being moved) and answers the next one. The caller's
// own context is alive throughout, so (a) a first request for an uncached region and (b) a request
// whose cached region has to be re-established after a NotServingRegion answer both succeed.
func metaSlowScenario(reestablish bool) string {
	setSleepOverride(nil)
	c := newSimCluster()
	r := c.addRegion(nil, []byte("t"), nil, nil, "rs1:1")
	sc := newSimClient(c, gohbase.RegionLookupTimeout(300*time.Millisecond))
	defer sc.cl.Close()
	get := func(k string) string {
		ctx, cancel := context.WithTimeout(context.Background(), 8*time.Second)
		defer cancel()
		g, _ := hrpc.NewGet(ctx, []byte("t"), []byte(k))
		_, err := sc.cl.Get(g)
		return classOf(err)
	}
	name := "meta-slow-first-lookup"
	var results []string
	if reestablish {
		name = "meta-slow-reestablish"
		results = append(results, get("warm"))
		c.mu.Lock()
		r.addr = "rs2:1" // the region moves: the cached location answers NotServingRegion
		c.mu.Unlock()
	}
	c.mu.Lock()
	c.metaSwallow = 1
	c.mu.Unlock()
	results = append(results, get("k"))
	results = append(results, get("k2"))
	unavailable := 0
	for _, ok := range sc.v.VerifAvailability() {
		if !ok {
			unavailable++
		}
	}
	return fmt.Sprintf("c04 script %s %s unavailable=%d", name, strings.Join(results, ","), unavailable)
}

// moveDuringBackoffScenario (C01 / C04): a request is answered retry-later; while it waits, the
// region moves (or splits) and the client learns the new location through another request. The
// first request's next attempt must be routed from what the client now knows.
func moveDuringBackoffScenario(split bool) string {
	setSleepOverride(fastBackoff)
	c := newSimCluster()
	r := c.addRegion(nil, []byte("t"), nil, nil, "rs1:1")
	sc := newSimClient(c)
	defer sc.cl.Close()
	get := func(k string) string {
		ctx, cancel := context.WithTimeout(context.Background(), 8*time.Second)
		defer cancel()
		g, _ := hrpc.NewGet(ctx, []byte("t"), []byte(k))
		_, err := sc.cl.Get(g)
		return classOf(err)
	}
	warm := get("warm")
	c.mu.Lock()
	r.faults = append(r.faults, "REQ:retryable")
	m0 := len(c.serves)
	c.mu.Unlock()
	var armed int32 = 1
	other := "-"
	backoffHook.Store(func() {
		if !atomic.CompareAndSwapInt32(&armed, 1, 0) {
			return
		}
		c.mu.Lock()
		if split {
			c.split(r, []byte("m"), "rs2:1", "rs3:1")
		} else {
			r.addr = "rs2:1"
		}
		c.mu.Unlock()
		other = get("z-other") // this request is told NotServingRegion and finds the new location
	})
	res := get("zk")
	backoffHook.Store(func() {})
	settle()
	c.mu.Lock()
	var mine []simServe
	for _, s := range c.serves[m0:] {
		if string(s.key) == "zk" || s.kind == "probe" {
			mine = append(mine, s)
		}
	}
	c.mu.Unlock()
	ev := "move-during-backoff"
	if split {
		ev = "split-during-backoff"
	}
	if warm != "ok" || other != "ok" {
		res = "setup-" + warm + "-" + other
	}
	return fmt.Sprintf("c01w seq E:%s R:get:ok:%s:%s F:0", ev, res, attStr(mine))
}

// probeRefusedThenMoved (C04 / C09): a region is in transition: it is closed on its old server (a
// request and then the availability probe are told NotServingRegion there while hbase:meta still
// names that server), and while the re-establishment backs off it opens on another server. The
// next attempt has to find it there; the waiting request is served and the region is available.
func probeRefusedThenMoved() string {
	setSleepOverride(fastBackoff)
	c := newSimCluster()
	r := c.addRegion(nil, []byte("t"), nil, nil, "rs1:1")
	sc := newSimClient(c)
	defer sc.cl.Close()
	get := func(k string) string {
		ctx, cancel := context.WithTimeout(context.Background(), 6*time.Second)
		defer cancel()
		g, _ := hrpc.NewGet(ctx, []byte("t"), []byte(k))
		_, err := sc.cl.Get(g)
		return classOf(err)
	}
	warm := get("warm")
	c.mu.Lock()
	r.faults = append(r.faults, "REQ:nsre")
	r.probeAlways = "nsre"
	c.mu.Unlock()
	backoffHook.Store(func() {
		// the first back-off after a probe was refused
		c.mu.Lock()
		defer c.mu.Unlock()
		if r.probeAlways == "" {
			return
		}
		for _, s := range c.serves {
			if s.kind == "probe" && s.outcome == "nsre" {
				r.addr = "rs2:1"
				r.probeAlways = ""
				return
			}
		}
	})
	res := get("k")
	backoffHook.Store(func() {})
	res2 := get("k2")
	settle()
	unavailable := 0
	for _, ok := range sc.v.VerifAvailability() {
		if !ok {
			unavailable++
		}
	}
	if warm != "ok" {
		res = "setup-" + warm
	}
	return fmt.Sprintf("c04 script probe-refused-then-moved %s,%s unavailable=%d", res, res2, unavailable)
}

// sameRegionFirstUse (C04): two requests for keys of one region that is not cached yet; both miss
// the cache, both look the region up in hbase:meta (the answers are held until both lookups are
// there), one of them puts it into the cache, the other finds it there. Both succeed.
func sameRegionFirstUse() string {
	setSleepOverride(fastBackoff)
	c := newSimCluster()
	c.addRegion(nil, []byte("t"), nil, nil, "rs1:1")
	sc := newSimClient(c)
	defer sc.cl.Close()
	get := func(t, k string) string {
		ctx, cancel := context.WithTimeout(context.Background(), 4*time.Second)
		defer cancel()
		g, _ := hrpc.NewGet(ctx, []byte(t), []byte(k))
		_, err := sc.cl.Get(g)
		return classOf(err)
	}
	get("nope", "x") // hbase:meta is known now
	c.mu.Lock()
	c.metaHold = make(chan struct{})
	hold := c.metaHold
	c.metaParked = 0
	c.mu.Unlock()
	res := make(chan string, 2)
	go func() { res <- get("t", "a") }()
	go func() { res <- get("t", "b") }()
	for i := 0; i < 400; i++ {
		c.mu.Lock()
		n := c.metaParked
		c.mu.Unlock()
		if n >= 2 {
			break
		}
		time.Sleep(2 * time.Millisecond)
	}
	c.mu.Lock()
	c.metaHold = nil
	c.mu.Unlock()
	close(hold)
	r1, r2 := "blocked", "blocked"
	select {
	case r1 = <-res:
	case <-time.After(5 * time.Second):
	}
	select {
	case r2 = <-res:
	case <-time.After(5 * time.Second):
	}
	settle()
	unavailable := 0
	for _, ok := range sc.v.VerifAvailability() {
		if !ok {
			unavailable++
		}
	}
	return fmt.Sprintf("c04 script same-region-first-use %s,%s unavailable=%d", r1, r2, unavailable)
}

// batchMixedContexts (C07 / C13 on the simulated cluster): a batch of a call with a context of its
// own (alive throughout) followed by a call without one, whose region is being re-established and
// comes back after a moment. Nothing is cancelled: both calls succeed.
func batchMixedContexts() string {
	setSleepOverride(fastBackoff)
	c := newSimCluster()
	c.addRegion(nil, []byte("t"), nil, []byte("m"), "rs1:1")
	b := c.addRegion(nil, []byte("t"), []byte("m"), nil, "rs2:1")
	sc := newSimClient(c)
	defer sc.cl.Close()
	get := func(k string) string {
		ctx, cancel := context.WithTimeout(context.Background(), 6*time.Second)
		defer cancel()
		g, _ := hrpc.NewGet(ctx, []byte("t"), []byte(k))
		_, err := sc.cl.Get(g)
		return classOf(err)
	}
	w1, w2 := get("a"), get("x")
	hold := make(chan struct{})
	c.mu.Lock()
	c.probeHold = map[string]chan struct{}{"rs2:1": hold}
	b.faults = append(b.faults, "REQ:nsre")
	m0 := len(c.serves)
	c.mu.Unlock()
	first := make(chan string, 1)
	go func() { first <- get("x2") }() // told NotServingRegion: region B is being re-established
	for i := 0; i < 500; i++ {
		c.mu.Lock()
		parked := false
		for _, s := range c.serves[m0:] {
			if s.kind == "probe" {
				parked = true
			}
		}
		c.mu.Unlock()
		if parked {
			break
		}
		time.Sleep(time.Millisecond)
	}
	bctx, bcancel := context.WithTimeout(context.Background(), 6*time.Second)
	defer bcancel()
	own, ownCancel := context.WithCancel(context.Background())
	defer ownCancel()
	g1, _ := hrpc.NewGet(own, []byte("t"), []byte("a2"))
	g2, _ := hrpc.NewGet(context.Background(), []byte("t"), []byte("x3"))
	type bres struct{ r1, r2 string }
	done := make(chan bres, 1)
	go func() {
		res, _ := sc.cl.SendBatch(bctx, []hrpc.Call{g1, g2})
		done <- bres{classOf(res[0].Error), classOf(res[1].Error)}
	}()
	time.Sleep(80 * time.Millisecond)
	c.mu.Lock()
	delete(c.probeHold, "rs2:1")
	c.mu.Unlock()
	close(hold)
	r := bres{"blocked", "blocked"}
	select {
	case r = <-done:
	case <-time.After(7 * time.Second):
	}
	select {
	case <-first:
	case <-time.After(7 * time.Second):
	}
	settle()
	unavailable := 0
	for _, ok := range sc.v.VerifAvailability() {
		if !ok {
			unavailable++
		}
	}
	if w1 != "ok" || w2 != "ok" {
		r.r1 = "setup-" + w1 + w2
	}
	return fmt.Sprintf("c04 script batch-mixed-contexts %s,%s unavailable=%d", r.r1, r.r2, unavailable)
}

// overlappingCloses (C19): Close is called while another Close is still tearing the connections
// down (one of them takes its time). "After Close returns … every regionserver connection the
// client holds is closed" holds for the second caller as well: it returns only once that is so.
func overlappingCloses() string {
	setSleepOverride(fastBackoff)
	c := newSimCluster()
	c.addRegion(nil, []byte("t"), nil, nil, "rs1:1")
	sc := newSimClient(c)
	ctx, cancel := context.WithTimeout(context.Background(), 4*time.Second)
	g, _ := hrpc.NewGet(ctx, []byte("t"), []byte("k"))
	_, werr := sc.cl.Get(g)
	cancel()
	hold := make(chan struct{})
	c.mu.Lock()
	c.closeHold = hold
	c.mu.Unlock()
	firstDone := make(chan struct{})
	go func() { sc.cl.Close(); close(firstDone) }()
	for i := 0; i < 1000; i++ { // until the first Close stands inside a connection's Close
		c.mu.Lock()
		n := c.closeParked
		c.mu.Unlock()
		if n > 0 {
			break
		}
		time.Sleep(time.Millisecond)
	}
	secondDone := make(chan struct{})
	go func() { sc.cl.Close(); close(secondDone) }()
	verdict := "ok"
	select {
	case <-secondDone:
		c.mu.Lock()
		open := 0
		for _, s := range c.conns {
			if atomic.LoadInt32(&s.closed) == 0 {
				open++
			}
		}
		c.mu.Unlock()
		if open > 0 {
			verdict = fmt.Sprintf("second-close-returned-with-%d-connections-open", open)
		}
	case <-time.After(300 * time.Millisecond):
		// still waiting for the first one: as it should
	}
	c.mu.Lock()
	c.closeHold = nil
	c.mu.Unlock()
	close(hold)
	for _, ch := range []chan struct{}{firstDone, secondDone} {
		select {
		case <-ch:
		case <-time.After(3 * time.Second):
			if verdict == "ok" {
				verdict = "close-blocked"
			}
		}
	}
	if werr != nil {
		verdict = "setup-failed"
	}
	return "c19 check close-returned-before-the-connections-were-closed " + verdict
}

// publishWindowScenario (C09): a freshly looked-up region has just been put into the location cache
// (replacing an older overlapping one) and the goroutine that put it there is held at its next
// step (removing the old region from the connection cache; held through the connection cache's
// lock). A request for a key of the new region arrives in exactly that window. The region was
// published marked unavailable, so the request waits for the one establisher; everybody is served.
func publishWindowScenario(api string) string {
	setSleepOverride(fastBackoff)
	c := newSimCluster()
	old := c.addRegion(nil, []byte("t"), nil, []byte("m"), "rs1:1")
	c.addRegion(nil, []byte("t"), []byte("m"), nil, "rs1:1")
	sc := newSimClient(c)
	defer sc.cl.Close()
	get := func(k string) string {
		ctx, cancel := context.WithTimeout(context.Background(), 5*time.Second)
		defer cancel()
		g, _ := hrpc.NewGet(ctx, []byte("t"), []byte(k))
		_, err := sc.cl.Get(g)
		return classOf(err)
	}
	warm := get("a") // only the left region is cached
	// the two regions are merged into a newer one on another server
	c.mu.Lock()
	var keep []*simRegion
	for _, r := range c.regions {
		if string(r.fq()) != "t" {
			keep = append(keep, r)
		}
	}
	c.regions = keep
	c.mu.Unlock()
	_ = old
	c.addRegion(nil, []byte("t"), nil, nil, "rs2:1")
	sc.v.ConnCacheLock()
	first := make(chan string, 1)
	go func() {
		if api == "cacheregions" {
			if err := sc.cl.CacheRegions([]byte("t")); err != nil {
				first <- classOf(err)
				return
			}
			first <- "ok"
			return
		}
		first <- get("x") // a cache miss: findRegion publishes the merged region
	}()
	held := false
	for i := 0; i < 1500; i++ {
		if goroutinesIn("(*clientRegionCache).del") > 0 {
			held = true
			break
		}
		time.Sleep(time.Millisecond)
	}
	second := make(chan string, 1)
	go func() { second <- get("y") }()
	time.Sleep(30 * time.Millisecond)
	sc.v.ConnCacheUnlock()
	r1, r2 := "blocked", "blocked"
	select {
	case r1 = <-first:
	case <-time.After(6 * time.Second):
	}
	select {
	case r2 = <-second:
	case <-time.After(6 * time.Second):
	}
	settle()
	unavailable := 0
	for _, ok := range sc.v.VerifAvailability() {
		if !ok {
			unavailable++
		}
	}
	if warm != "ok" || !held {
		r1 = fmt.Sprintf("setup-%s-held%v", warm, held)
	}
	return fmt.Sprintf("c04 script publish-window-%s %s,%s unavailable=%d", api, r1, r2, unavailable)
}

type zkFixed string

func (z zkFixed) LocateResource(zk.ResourceName) (string, error) { return string(z), nil }

// closeDuringDialReal: a real region client (region.NewClient over a custom dialer) is being
// dialled for hbase:meta when Close is called; the dial completes just afterwards. The connection
// the dialer handed out has to be closed.
func closeDuringDialReal() string {
	setSleepOverride(nil)
	started := make(chan struct{}, 8)
	release := make(chan struct{})
	var mu sync.Mutex
	var conns []*VConn
	dialer := func(ctx context.Context, network, addr string) (net.Conn, error) {
		started <- struct{}{}
		<-release
		v := newVConn()
		mu.Lock()
		conns = append(conns, v)
		mu.Unlock()
		return v, nil
	}
	v := gohbase.VerifNewClient(zkFixed("rs1:1"), false, nil, gohbase.RegionDialer(dialer), gohbase.Logger(discardLogger))
	cl := v.Client()
	res := make(chan string, 1)
	go func() {
		ctx, cancel := context.WithTimeout(context.Background(), 5*time.Second)
		defer cancel()
		g, _ := hrpc.NewGet(ctx, []byte("t"), []byte("k"))
		_, err := cl.Get(g)
		res <- classOf(err)
	}()
	select {
	case <-started:
	case <-time.After(3 * time.Second):
		return "c19 close dial-in-flight-real 0 setup-failed 0 clientclosed 0 open=0 late=0 gor=0 second=ok"
	}
	t0 := time.Now()
	cl.Close()
	closeLat := time.Since(t0)
	close(release)
	inflight, lat := "blocked", time.Duration(0)
	select {
	case inflight = <-res:
		lat = time.Since(t0)
	case <-time.After(2 * time.Second):
		lat = 2 * time.Second
	}
	deadline := time.Now().Add(time.Second)
	open := 0
	for {
		mu.Lock()
		open = 0
		for _, c := range conns {
			if !c.Closed() {
				open++
			}
		}
		n := len(conns)
		mu.Unlock()
		if (n > 0 && open == 0) || time.Now().After(deadline) {
			break
		}
		time.Sleep(5 * time.Millisecond)
	}
	return fmt.Sprintf("c19 close dial-in-flight-real %d %s %d clientclosed 0 open=%d late=0 gor=0 second=ok",
		closeLat.Microseconds(), inflight, lat.Microseconds(), open)
}

func init() {
	props["C04"] = func(tier string, seed uint64, out *Out) {
		n := 300
		if tier != "quick" {
			n = 5000
		}
		runSharded("C04", tier, seed, out, 16, func(shard, nsh int, emit func(string)) {
			for i := shard; i < n; i += nsh {
				emit(seqScenario(NewRNG(seed, fmt.Sprintf("c04-%d", i)), "c04"))
			}
			if shard == 0 {
				emit(metaSlowScenario(false))
			}
			// where hbase:meta and the master are: the client's own ZooKeeper reader on a fake ZooKeeper
			for i := shard; i < 24; i += nsh {
				emit(zkLocateCase(NewRNG(seed, fmt.Sprintf("c04zk-%d", i))))
			}
			if shard == 1%nsh {
				emit(metaSlowScenario(true))
			}
			if shard == 2%nsh {
				emit(probeFatalScenario())
			}
			if shard == 3%nsh {
				emit(strings.Replace(probeAfterDeath(), "c09 script", "c04 script", 1))
			}
			if shard == 4%nsh {
				emit(probeRefusedThenMoved())
			}
			if shard == 5%nsh {
				// a connection dying while a request is being written on it: the request ends (C03's
				// gated scripts) — otherwise the caller, or the region whose probe it was, waits for ever
				emit(strings.Replace(slowCloseScenario(), "c03 script", "c09c script", 1))
			}
			if shard == 6%nsh {
				emit(sameRegionFirstUse())
			}
			for i := shard; i < 24; i += nsh {
				emit(mergeRaceScenario())
			}
			for i := shard; i < 4; i += nsh {
				emit(mergeOrderedScenario())
			}
		})
	}
	// C01, wire level: the same sequential scenarios; the monitor checks that every request that
	// reaches a regionserver names a region hosted there whose range contains the key, and that
	// the answer comes from the owner. (The function-level part of C01 is in c01.go.)
	c01fn := props["C01"]
	props["C01"] = func(tier string, seed uint64, out *Out) {
		if os.Getenv("VERIF_SHARD") == "" && c01fn != nil {
			c01fn(tier, seed, out)
		}
		n := 200
		if tier != "quick" {
			n = 4000
		}
		runSharded("C01", tier, seed, out, 16, func(shard, nsh int, emit func(string)) {
			for i := shard; i < n; i += nsh {
				emit(seqScenario(NewRNG(seed, fmt.Sprintf("c01w-%d", i)), "c01w"))
			}
			if shard == 2%nsh {
				emit(moveDuringBackoffScenario(false))
			}
			if shard == 3%nsh {
				emit(moveDuringBackoffScenario(true))
			}
		})
	}
	props["C20"] = func(tier string, seed uint64, out *Out) {
		c20ConnLines(out)
		n := 300
		if tier != "quick" {
			n = 5000
		}
		runSharded("C20", tier, seed, out, 16, func(shard, nsh int, emit func(string)) {
			for i := shard; i < n; i += nsh {
				emit(seqScenario(NewRNG(seed, fmt.Sprintf("c20-%d", i)), "c20"))
			}
			for i := shard; i < n/2; i += nsh {
				emit(firstUseScenario(NewRNG(seed, fmt.Sprintf("c20f-%d", i))))
			}
			for i := shard; i < 4*n; i += nsh {
				emit(ccScenario(NewRNG(seed, fmt.Sprintf("cc-%d", i))))
			}
			for i := shard; i < 16; i += nsh {
				emit(ccConcurrent(NewRNG(seed, fmt.Sprintf("ccc-%d", i))))
			}
			for i := shard; i < 32; i += nsh {
				emit(dialOnceScenario(NewRNG(seed, fmt.Sprintf("dial-%d", i))))
			}
			if shard == 3%nsh {
				emit(lateBatchErrorScenario())
			}
			if shard == 4%nsh {
				emit(dialCloseScenario("close"))
				emit(dialCloseScenario("close-peer-gone"))
				emit(dialCloseScenario("ctx"))
			}
		})
	}
	props["C09"] = func(tier string, seed uint64, out *Out) {
		n := 48
		if tier != "quick" {
			n = 800
		}
		raceChild := os.Getenv("VERIF_RACE_CHILD") != ""
		if raceChild {
			n = n / 3 // the race detector slows everything down several times
		}
		runSharded("C09", tier, seed, out, 8, func(shard, nsh int, emit func(string)) {
			for i := shard; i < n; i += nsh {
				emit(concScenario(NewRNG(seed, fmt.Sprintf("c09-%d", i))))
			}
			if shard == 0 && !raceChild {
				emit(probeAfterDeath())
			}
			if shard == 1%nsh && !raceChild {
				emit(metaColocatedScenario())
			}
			if shard == 2%nsh && !raceChild {
				emit(strings.Replace(probeRefusedThenMoved(), "c04 script", "c09 script", 1))
				emit(strings.Replace(probeFatalScenario(), "c04 script", "c09 script", 1))
				emit(strings.Replace(metaSlowScenario(true), "c04 script", "c09 script", 1))
			}
			if shard == 4%nsh && !raceChild {
				emit(strings.Replace(publishWindowScenario("cacheregions"), "c04 script", "c09 script", 1))
				emit(strings.Replace(publishWindowScenario("get"), "c04 script", "c09 script", 1))
			}
			if shard == 3%nsh && !raceChild {
				// a connection dies while a request is being written on it (gated connection, C03's
				// scripts): the request — an establisher's probe as much as a user's call — must end,
				// or the region it serves stays unavailable for ever
				emit(strings.Replace(slowCloseScenario(), "c03 script", "c09c script", 1))
				emit(strings.Replace(blockedWriteCloseScenario(), "c03 script", "c09c script", 1))
			}
			if !raceChild {
				for i := shard; i < 24; i += nsh {
					emit(strings.Replace(mergeRaceScenario(), "c04 script", "c09 script", 1))
				}
				for i := shard; i < 4; i += nsh {
					emit(strings.Replace(mergeOrderedScenario(), "c04 script", "c09 script", 1))
				}
			}
			if !raceChild {
				for i := shard; i < 20*n; i += nsh {
					emit(riScenario(NewRNG(seed, fmt.Sprintf("ri-%d", i))))
				}
			}
			for i := shard; i < 16; i += nsh {
				emit(ccConcurrent(NewRNG(seed, fmt.Sprintf("ccc9-%d", i))))
			}
			for i := shard; i < 16; i += nsh {
				emit(riConcurrent(NewRNG(seed, fmt.Sprintf("ric-%d", i))))
			}
			for i := shard; i < 8; i += nsh {
				emit(riMarshalScenario(NewRNG(seed, fmt.Sprintf("rim-%d", i))))
			}
			for i := shard; i < 6; i += nsh {
				for _, l := range debugStateScenario(NewRNG(seed, fmt.Sprintf("dbg-%d", i))) {
					emit(l)
				}
			}
			if raceChild {
				// scans that renew their lease (a goroutine of the client running next to the caller's
				// Next / Close): only their memory accesses matter here, the rows are judged by C06/C14
				rr := NewRNG(seed, fmt.Sprintf("c09-renew-%d", shard))
				for i := shard; i < 48; i += nsh {
					c := randCase(rr, 8, 5)
					cfg := runCfg{hb: rr.Intn(3), maxFrags: 1 + rr.Intn(3), idBase: uint64(rr.Intn(1000)), renew: true}
					for _, plan := range []endPlan{{kind: "full"}, {kind: "close", n: 2}, {kind: "cancel", n: 2}} {
						runScan(c, &chooser{rng: NewRNG(rr.Next(), "script")}, plan, cfg)
					}
					emit("c09 script renewing-scans ok unavailable=0")
				}
			}
		})
		// the same concurrent scenarios once more under Go's race detector (a second harness binary
		// built with -race by ./check): every report is a race on shared state
		if bin := os.Getenv("VERIF_RACE_BIN"); bin != "" && os.Getenv("VERIF_SHARD") == "" && !raceChild {
			out.Line("%s", raceRun(bin, tier, seed))
		}
	}
	props["C13"] = func(tier string, seed uint64, out *Out) {
		if os.Getenv("VERIF_SHARD") == "" {
			runBatchProp("C13", tier, seed, out)
		}
		var jobs []func() string
		for _, st := range waitStates {
			for _, api := range []string{"get", "batch", "scan", "batchbg", "batchown1"} {
				for _, mode := range []string{"cancel", "deadline", "cancelwd"} {
					if strings.HasPrefix(api, "batchb") || strings.HasPrefix(api, "batcho") {
						if mode == "cancelwd" {
							continue
						}
					}
					st, api, mode := st, api, mode
					jobs = append(jobs, func() string { return waitScenario(st, api, mode) })
					if tier != "quick" {
						for _, w := range []time.Duration{5 * time.Millisecond, 150 * time.Millisecond, 1200 * time.Millisecond} {
							w := w
							jobs = append(jobs, func() string { return waitScenarioAfter(st, api, mode, w) })
						}
					} else if st.name == "retry-backoff" && api == "batchown1" && mode == "cancel" {
						// (also in the quick tier: the one state in which the wait itself grows — a batch in
						// a back-off sleep of about a second; the SendBatch-level cases of C07 accept either
						// outcome of the race between the sleep's timer and the cancellation)
						jobs = append(jobs, func() string { return waitScenarioAfter(st, api, mode, 1200*time.Millisecond) })
					}
				}
			}
		}
		jobs = append(jobs, batchOwnCtx)
		for _, mode := range []string{"cancel", "deadline", "cancelwd"} {
			mode := mode
			jobs = append(jobs, func() string { return sleepFnScenario(mode) })
		}
		jobs = append(jobs, func() string { return scanOpenScenario(false) }, func() string { return scanOpenScenario(true) })
		jobs = append(jobs, func() string { return busyQueueScenario("cancel") }, func() string { return busyQueueScenario("deadline") })
		jobs = append(jobs, func() string { return busyQueueScenarioKind("cancel", true) }, func() string { return busyQueueScenarioKind("deadline", true) })
		jobs = append(jobs, func() string { return batchBusyQueueScenario("cancel") }, func() string { return batchBusyQueueScenario("deadline") })
		// table administration over the master connection: request, then state polls with back-off
		jobs = append(jobs, adminWaitJobs(tier)...)
		runSharded("C13", tier, seed, out, 8, func(shard, nsh int, emit func(string)) {
			for i := shard; i < len(jobs); i += nsh {
				emit(jobs[i]())
			}
		})
	}
	props["C19"] = func(tier string, seed uint64, out *Out) {
		var jobs []func() string
		jobs = append(jobs, func() string { return closeScenario(nil) })
		jobs = append(jobs, closeAfterReplacedRegion)
		jobs = append(jobs, closeDuringDialReal)
		jobs = append(jobs, closeWithRenewingScan)
		jobs = append(jobs, closeZooKeeperDownReal)
		for _, st := range append(append([]waitState{}, waitStates...), closeOnlyStates...) {
			st := st
			jobs = append(jobs, func() string { return closeScenario(&st) })
		}
		if tier != "quick" {
			// Close while the caller sleeps in a back-off that has grown past a second
			st := waitStates[3]
			jobs = append(jobs, func() string { return closeScenarioAfter(&st, 2200*time.Millisecond) })
		}
		// Close of a real region client (what the client's Close does to every connection it holds)
		// with requests queued, being written and awaiting answers: gated schedules in which Close is
		// the only thing that goes wrong; every call ends, exactly once (monitors of C03)
		nConn := 64
		if tier != "quick" {
			nConn = 1500
		}
		for i := 0; i < nConn; i++ {
			i := i
			jobs = append(jobs, func() string {
				rng := NewRNG(seed, fmt.Sprintf("c19c-%d", i))
				q := []int{1, 2, 3, 5, 100}[rng.Intn(5)]
				s := newConnScn(rng, q)
				if s.broken == "" {
					s.run(6+rng.Intn(25), 1+rng.Intn(6), "close")
				}
				return s.line("c19c")
			})
		}
		jobs = append(jobs, overlappingCloses, c19DialClosed)
		jobs = append(jobs, func() string { return dialCloseScenario("close") }, func() string { return dialCloseScenario("close-peer-gone") })
		jobs = append(jobs,
			func() string { return strings.Replace(slowCloseScenario(), "c03 script", "c19c script", 1) },
			func() string { return strings.Replace(blockedWriteCloseScenario(), "c03 script", "c19c script", 1) })
		runSharded("C19", tier, seed, out, 8, func(shard, nsh int, emit func(string)) {
			for i := shard; i < len(jobs); i += nsh {
				emit(jobs[i]())
			}
			ncc := 600
			if tier != "quick" {
				ncc = 20000
			}
			for i := shard; i < ncc; i += nsh {
				emit(ccScenario(NewRNG(seed, fmt.Sprintf("cc19-%d", i))))
			}
		})
	}
}
