package main

// Scenario engine for the region connection (C03, C18, C02): drives a real region client over a
// VConn one observable event at a time, logs each event in the vocabulary of the Lean model
// (Model/Conn.lean) together with what is observable after the system has settled.

import (
	"bytes"
	"context"
	"encoding/binary"
	"errors"
	"fmt"
	"io"
	"log/slog"
	"net"
	"os"
	"os/exec"
	"runtime"
	"sort"
	"strings"
	"sync/atomic"
	"time"

	"github.com/tsuna/gohbase/hrpc"
	"github.com/tsuna/gohbase/pb"
	"github.com/tsuna/gohbase/region"
	"google.golang.org/protobuf/encoding/protowire"
	"google.golang.org/protobuf/proto"
)

var excClass = map[string]string{
	"retryable": "org.apache.hadoop.hbase.RegionTooBusyException",
	"nsre":      "org.apache.hadoop.hbase.NotServingRegionException",
	"connErr":   "org.apache.hadoop.hbase.regionserver.RegionServerStoppedException",
	"fatal":     "org.apache.hadoop.hbase.DoNotRetryIOException",
}

func errClass(err error) string {
	switch err.(type) {
	case nil:
		return "ok"
	case region.ServerError:
		return "connErr"
	case region.RetryableError:
		return "retryable"
	case region.NotServingRegionError:
		return "nsre"
	}
	return "fatal"
}

type connCall struct {
	idx        int
	row        []byte
	direct     bool
	app        bool // an Append (request carries a cellblock: several Write units)
	call       hrpc.Call
	cancel     context.CancelFunc
	cancelled  bool
	unsendable bool
	results    []string
	foreign    []string // rows of cells that are not this call's row
	msgs       []proto.Message
}

type wireInfo struct {
	id       uint32
	method   string
	calls    []int    // call indices in request order
	indices  []uint32 // multi: action indices, parallel to calls
	regions  [][]int  // multi: positions (into calls) per RegionAction, in request order
	answered bool
	total    int // bytes expected after the 4-byte prefix
	seen     int // bytes written so far (after the prefix)
	lastSeen bool
}

type connScn struct {
	baseCtx      context.Context // parent of the calls' contexts (nil: Background)
	rng          *RNG
	v            *VConn
	rc           hrpc.RegionClient
	q            int
	calls        []*connCall
	rowIdx       map[string]int
	gidWire      map[int64]*wireInfo // frame being written by this goroutine
	gidWho       map[int64]string
	wires        map[uint32]*wireInfo
	steps        []string
	closedBy     bool
	regs         []hrpc.RegionInfo
	broken       string
	misdelivered []string // call:hex(what) — completed by a response frame of another request, or with
	// something else than its answer
	seenResults []int
	expect      map[int]string // call → what the response frame fed for its request says about it
	hasPoison   bool           // a batchable call that cannot be marshalled has been queued
	inQueue     int32          // QueueRPC calls that have not returned yet
	profile     string
	forceExc    string // scripted scenarios: the next multi response carries a server exception for its
	// first "action" / for the "region" of its first action
}

var discardLogger = slog.New(slog.NewTextHandler(io.Discard, nil))

func newConnScn(rng *RNG, q int) *connScn {
	s := &connScn{rng: rng, q: q, rowIdx: map[string]int{}, expect: map[int]string{}, gidWire: map[int64]*wireInfo{},
		gidWho: map[int64]string{}, wires: map[uint32]*wireInfo{}}
	s.v = newVConn()
	dialer := func(ctx context.Context, network, addr string) (net.Conn, error) { return s.v, nil }
	s.rc = region.NewClient("vconn:0", region.RegionClient, q, 0, "verif", time.Hour, nil, dialer, discardLogger)
	// (dialled with a deadline, as the client does: whatever deadline the set-up puts on the connection
	// must be gone once it is in service)
	dctx, dcancel := context.WithTimeout(context.Background(), time.Hour)
	defer dcancel()
	if err := s.rc.Dial(dctx); err != nil {
		s.broken = "dial: " + err.Error()
		return s
	}
	s.v.SetAuto(false)
	if rng.Intn(3) == 0 {
		// a connection whose Close tears it down and still reports an error (a TLS connection whose
		// peer is gone does)
		s.v.closeErr = errors.New("vconn: failed to send close notify (but connection was closed anyway)")
	}
	s.regs = []hrpc.RegionInfo{
		region.NewInfo(1, nil, []byte("t"), []byte("t,,1.aaaaaaaaaaaaaaaaaaaaaaaaaaaaaaaa."), nil, []byte("m")),
		region.NewInfo(2, nil, []byte("t"), []byte("t,m,2.bbbbbbbbbbbbbbbbbbbbbbbbbbbbbbbb."), []byte("m"), nil),
	}
	if !settle() {
		s.broken = "no quiescence after dial"
	}
	return s
}

// frameHead parses the first unit of a request frame (length prefix, header, request) and
// returns the registered description of that wire id (no progress is recorded).
func (s *connScn) frameHead(b []byte) *wireInfo {
	if len(b) < 4 {
		return nil
	}
	total := int(binary.BigEndian.Uint32(b))
	hb, n := protowire.ConsumeBytes(b[4:])
	if n < 0 {
		return nil
	}
	var h pb.RequestHeader
	if err := proto.Unmarshal(hb, &h); err != nil {
		return nil
	}
	if w, ok := s.wires[h.GetCallId()]; ok {
		return w
	}
	w := &wireInfo{total: total, id: h.GetCallId(), method: h.GetMethodName()}
	rb, n2 := protowire.ConsumeBytes(b[4+n:])
	if n2 < 0 {
		return nil
	}
	switch w.method {
	case "Get":
		var r pb.GetRequest
		if proto.Unmarshal(rb, &r) == nil {
			w.calls = []int{s.rowIdx[string(r.GetGet().GetRow())]}
		}
	case "Mutate":
		var r pb.MutateRequest
		if proto.Unmarshal(rb, &r) == nil {
			w.calls = []int{s.rowIdx[string(r.GetMutation().GetRow())]}
		}
	case "Multi":
		var r pb.MultiRequest
		if proto.Unmarshal(rb, &r) == nil {
			for _, ra := range r.GetRegionAction() {
				var pos []int
				for _, a := range ra.GetAction() {
					var row []byte
					if a.GetGet() != nil {
						row = a.GetGet().GetRow()
					} else {
						row = a.GetMutation().GetRow()
					}
					pos = append(pos, len(w.calls))
					w.calls = append(w.calls, s.rowIdx[string(row)])
					w.indices = append(w.indices, a.GetIndex())
				}
				w.regions = append(w.regions, pos)
			}
		}
	}
	s.wires[w.id] = w
	return w
}

// parseUnit inspects a Write unit being released: attributes it to a frame / wire id, records
// the progress of that frame and tells whether this is the frame's last unit.
func (s *connScn) parseUnit(g *gate) (w *wireInfo, last bool) {
	if cur, ok := s.gidWire[g.gid]; ok && cur.seen < cur.total {
		cur.seen += len(g.data)
		return cur, cur.seen >= cur.total
	}
	w = s.frameHead(g.data)
	if w == nil {
		return nil, true
	}
	w.seen = len(g.data) - 4
	s.gidWire[g.gid] = w
	if w.method == "Multi" {
		s.gidWho[g.gid] = "W"
	} else if len(w.calls) == 1 {
		s.gidWho[g.gid] = fmt.Sprintf("D%d", w.calls[0])
	}
	return w, w.seen >= w.total
}

func cellFor(row []byte) *pb.Cell {
	ts := uint64(42)
	return &pb.Cell{Row: row, Family: []byte("f"), Qualifier: []byte("q"), Timestamp: &ts,
		CellType: pb.CellType_PUT.Enum(), Value: append([]byte("v-"), row...)}
}

func cellblockFor(row []byte) []byte {
	return hrpc.VerifAppendCellblock(row, "f", "q", append([]byte("v-"), row...), 42, 4, nil)
}

func frameBytes(h *pb.ResponseHeader, resp proto.Message, cellblock []byte) []byte {
	var body []byte
	hb, _ := proto.Marshal(h)
	body = protowire.AppendVarint(body, uint64(len(hb)))
	body = append(body, hb...)
	if resp != nil {
		rb, _ := proto.Marshal(resp)
		body = protowire.AppendVarint(body, uint64(len(rb)))
		body = append(body, rb...)
	}
	body = append(body, cellblock...)
	out := make([]byte, 4, 4+len(body))
	binary.BigEndian.PutUint32(out, uint32(len(body)))
	return append(out, body...)
}

// buildFrame produces the bytes of a response frame and its description in the model vocabulary.
func (s *connScn) buildFrame(w *wireInfo, kind string) ([]byte, string) {
	id := w.id
	h := &pb.ResponseHeader{CallId: &id}
	switch kind {
	case "badhdr":
		if s.rng.Bool() {
			// a well-formed delimiter whose bytes are not a ResponseHeader
			return []byte{0, 0, 0, 3, 0x02, 0xff, 0xff}, "badhdr"
		}
		return []byte{0, 0, 0, 3, 0x0a, 0x7f, 0x01}, "badhdr" // header length runs past the frame
	case "undec":
		// valid header, response part does not decode
		hb, _ := proto.Marshal(h)
		var body []byte
		body = protowire.AppendVarint(body, uint64(len(hb)))
		body = append(body, hb...)
		body = append(body, 0x05, 0xff, 0xff) // announces 5 bytes, has 2
		out := make([]byte, 4)
		binary.BigEndian.PutUint32(out, uint32(len(body)))
		return append(out, body...), "undec"
	case "retryable", "nsre", "connErr", "fatal":
		cls := excClass[kind]
		st := "stack"
		h.Exception = &pb.ExceptionResponse{ExceptionClassName: &cls, StackTrace: &st}
		return frameBytes(h, nil, nil), "exc-" + kind
	}
	// a result
	useCB := s.rng.Bool() || s.profile == "corr"
	if w.method != "Multi" {
		row := []byte(nil)
		if len(w.calls) == 1 {
			row = s.calls[w.calls[0]].row
		}
		res := &pb.Result{}
		var cb []byte
		if useCB {
			n := int32(1)
			res.AssociatedCellCount = &n
			cb = cellblockFor(row)
			l := uint32(len(cb))
			h.CellBlockMeta = &pb.CellBlockMeta{Length: &l}
		} else {
			res.Cell = []*pb.Cell{cellFor(row)}
		}
		var resp proto.Message
		if w.method == "Get" {
			resp = &pb.GetResponse{Result: res}
		} else {
			resp = &pb.MutateResponse{Result: res}
		}
		return frameBytes(h, resp, cb), "res"
	}
	// multi: per region, a permutation of per-action results / exceptions, or a region exception.
	// An exception of the "server is not in service" class (connErr) anywhere in a multi response —
	// for a region or for one action — fails the connection once every call of the multi has its
	// own result (receive / serverErrorIn), exactly like such an exception in a response header.
	// So, like the header-level "connErr" frame kind, it is produced only by the profile in which
	// the connection may be failed by what the server says ("fail", C03); in the other profiles
	// ("idle", "corr", "write", "close": see the `kinds` of run) the draw is kept and the class is
	// replaced by a retryable one.
	serverExc := func(k string) string {
		if k == "connErr" && s.profile != "fail" {
			return "retryable"
		}
		return k
	}
	mr := &pb.MultiResponse{}
	var cb []byte
	var desc []string
	allFail := len(w.regions) > 1 && s.rng.Intn(5) == 0 // every region fails, each with its own class
	failKinds := []string{"retryable", "nsre", "fatal", "connErr"}
	s.rng.Shuffle(failKinds)
	// "fail" profile: in a third of the multi responses one action (chosen here) carries the server
	// exception, so that this way of failing the connection is exercised about as often as the
	// others (multi responses are a sixth of the frames fed)
	forced := -1
	if s.profile == "fail" && len(w.calls) > 0 && s.rng.Intn(3) == 0 {
		forced = s.rng.Intn(len(w.calls))
	}
	// scripted scenarios: the server exception is the answer to the first action, or to the whole
	// region of the first action
	scripted := s.forceExc
	s.forceExc = ""
	forcedRegion := -1
	switch scripted {
	case "action":
		allFail, forced = false, 0
	case "region":
		allFail, forced, forcedRegion = false, -1, 0
	}
	for ri, pos := range w.regions {
		rar := &pb.RegionActionResult{}
		regionFails := len(pos) > 0 && (allFail || ri == forcedRegion || s.rng.Intn(6) == 0)
		if scripted == "action" && len(pos) > 0 && pos[0] == 0 {
			regionFails = false // the region of the forced action answers action by action
		}
		if regionFails {
			k := serverExc([]string{"retryable", "nsre", "connErr", "fatal"}[s.rng.Intn(4)])
			if allFail {
				k = serverExc(failKinds[ri%len(failKinds)])
			}
			if ri == forcedRegion {
				k = "connErr"
			}
			cls := excClass[k]
			rar.Exception = &pb.NameBytesPair{Name: &cls, Value: []byte("stack")}
			for _, p := range pos {
				desc = append(desc, fmt.Sprintf("%d.%s", w.calls[p], k))
			}
			mr.RegionActionResult = append(mr.RegionActionResult, rar)
			continue
		}
		perm := append([]int(nil), pos...)
		for i := len(perm) - 1; i > 0; i-- {
			j := s.rng.Intn(i + 1)
			perm[i], perm[j] = perm[j], perm[i]
		}
		for _, p := range perm {
			idx := w.indices[p]
			roe := &pb.ResultOrException{Index: &idx}
			k := "ok"
			if s.rng.Intn(5) == 0 {
				k = serverExc([]string{"retryable", "nsre", "connErr", "fatal"}[s.rng.Intn(4)])
			}
			if p == forced {
				k = "connErr"
			}
			if k == "ok" {
				row := s.calls[w.calls[p]].row
				if s.rng.Bool() || s.profile == "corr" {
					n := int32(1)
					roe.Result = &pb.Result{AssociatedCellCount: &n}
					cb = append(cb, cellblockFor(row)...)
				} else {
					roe.Result = &pb.Result{Cell: []*pb.Cell{cellFor(row)}}
				}
			} else {
				cls := excClass[k]
				msg := fmt.Sprintf("stack of call %d;", w.calls[p])
				// java.io.IOException is a region exception only with one particular message: the
				// class alone does not decide what the caller is told
				if (k == "nsre" || k == "fatal") && s.rng.Intn(3) == 0 {
					cls = "java.io.IOException"
					if k == "nsre" {
						msg += " Cannot append; log is closed"
					} else {
						msg += " disk on fire"
					}
				}
				roe.Exception = &pb.NameBytesPair{Name: &cls, Value: []byte(msg)}
			}
			desc = append(desc, fmt.Sprintf("%d.%s", w.calls[p], k))
			rar.ResultOrException = append(rar.ResultOrException, roe)
		}
		mr.RegionActionResult = append(mr.RegionActionResult, rar)
	}
	if len(cb) > 0 {
		l := uint32(len(cb))
		h.CellBlockMeta = &pb.CellBlockMeta{Length: &l}
	}
	d := "pc-" + strings.Join(desc, "+")
	if len(desc) == 0 {
		d = "pc-none"
	}
	return frameBytes(h, mr, cb), d
}

// unsendableCall is a direct (not batchable) call whose request cannot be marshalled: its
// GetRequest lacks the required `get` field.
type unsendableCall struct{ *hrpc.Get }

func (u unsendableCall) ToProto() proto.Message {
	return &pb.GetRequest{Region: &pb.RegionSpecifier{Type: pb.RegionSpecifier_REGION_NAME.Enum(), Value: []byte("r")}}
}

// batchedUnsendableCall is a batchable call whose action cannot be marshalled (its Get lacks the
// required row): the MultiRequest that contains it fails to marshal as a whole.
type batchedUnsendableCall struct{ *hrpc.Get }

func (u batchedUnsendableCall) ToProto() proto.Message {
	return &pb.GetRequest{Region: &pb.RegionSpecifier{Type: pb.RegionSpecifier_REGION_NAME.Enum(), Value: []byte("r")},
		Get: &pb.Get{}}
}

// closingCall is a direct call during whose serialisation (ToProto runs after QueueRPC's liveness
// check and before the call is registered) the connection is closed from outside.
type closingCall struct {
	*hrpc.Get
	rc hrpc.RegionClient
}

func (u closingCall) ToProto() proto.Message {
	u.rc.Close()
	return u.Get.ToProto()
}

func (s *connScn) newCall(direct, app bool) *connCall {
	idx := len(s.calls)
	row := []byte(fmt.Sprintf("%c-row%d", "am"[idx%2], idx))
	base := context.Background()
	if s.baseCtx != nil {
		base = s.baseCtx
	}
	ctx, cancel := context.WithCancel(base)
	c := &connCall{idx: idx, row: row, direct: direct, app: app, cancel: cancel}
	var opts []func(hrpc.Call) error
	if direct {
		opts = append(opts, hrpc.SkipBatch())
	}
	if app {
		m, _ := hrpc.NewApp(ctx, []byte("t"), row, map[string]map[string][]byte{"f": {"q": []byte("x")}}, opts...)
		c.call = m
	} else {
		g, _ := hrpc.NewGet(ctx, []byte("t"), row, opts...)
		c.call = g
	}
	c.call.SetRegion(s.regs[idx%2])
	if s.profile != "" && s.rng.Intn(8) == 0 {
		// the call's region was replaced in the location cache (split, merge) after the call was
		// routed: the connection still owes the call an answer
		r := s.regs[idx%2]
		dead := region.NewInfo(r.ID(), r.Namespace(), r.Table(), r.Name(), r.StartKey(), r.StopKey())
		dead.MarkDead()
		c.call.SetRegion(dead)
	}
	s.calls = append(s.calls, c)
	s.rowIdx[string(row)] = idx
	return c
}

// observe drains result channels and renders what is observable now.
func (s *connScn) observe() string {
	for _, c := range s.calls {
		for {
			select {
			case r := <-c.call.ResultChan():
				c.results = append(c.results, errClass(r.Error))
				if r.Error != nil && strings.Contains(r.Error.Error(), "stack of call ") &&
					!strings.Contains(r.Error.Error(), fmt.Sprintf("stack of call %d;", c.idx)) {
					c.foreign = append(c.foreign, "exception-of-another-call")
				}
				if r.Error == nil {
					c.msgs = append(c.msgs, r.Msg)
					var res *pb.Result
					switch m := r.Msg.(type) {
					case *pb.GetResponse:
						res = m.GetResult()
					case *pb.MutateResponse:
						res = m.GetResult()
					}
					if res == nil || len(res.GetCell()) != 1 || !bytes.Equal(res.GetCell()[0].GetRow(), c.row) {
						f := "none"
						if res != nil && len(res.GetCell()) > 0 {
							f = fmt.Sprintf("%s*%d", res.GetCell()[0].GetRow(), len(res.GetCell()))
						}
						c.foreign = append(c.foreign, f)
					}
				}
				continue
			default:
			}
			break
		}
	}
	var rs []string
	for _, c := range s.calls {
		for _, r := range c.results {
			rs = append(rs, fmt.Sprintf("%d.%s", c.idx, r))
		}
	}
	r := strings.Join(rs, "+")
	if r == "" {
		r = "none"
	}
	b := func(x bool) int {
		if x {
			return 1
		}
		return 0
	}
	gates := 0
	for _, g := range s.v.Pending() {
		if g.kind != "read" {
			gates++
		}
	}
	return fmt.Sprintf("d%d,s%d,f%d,a%d,g%d,b%d,m%d,r=%s", b(region.VerifIsDone(s.rc)), region.VerifSentLen(s.rc),
		region.VerifInFlightUnlocked(s.rc), b(s.v.DeadlineSet()), gates, atomic.LoadInt32(&s.inQueue),
		lastMutexBlocked, r)
}

// slowClosingCall: while this direct call is being serialised (after QueueRPC's liveness check,
// before it is registered) another goroutine starts closing the connection and gets as far as
// the connection's own Close, which takes its time.
type slowClosingCall struct {
	*hrpc.Get
	s *connScn
}

func (u slowClosingCall) ToProto() proto.Message {
	go u.s.rc.Close()
	for i := 0; i < 20000; i++ {
		for _, g := range u.s.v.Pending() {
			if g.kind == "close" {
				return u.Get.ToProto()
			}
		}
		time.Sleep(50 * time.Microsecond)
	}
	return u.Get.ToProto()
}

// slowCloseScenario (C03): the failure transition is in progress — `done` is closed and the
// connection's Close has not returned yet — when a call that had already passed the liveness check
// is registered and written (the write and the arming succeed: the socket is not closed yet).
// When Close finally returns, that call must still be completed.
func slowCloseScenario() string {
	s := newConnScn(NewRNG(1, "slowclose"), 1)
	if s.broken != "" {
		return "c03 script slow-close broken:" + strings.ReplaceAll(s.broken, " ", "_")
	}
	s.v.mu.Lock()
	s.v.gateClose = true
	s.v.mu.Unlock()
	c := s.newCall(true, false)
	c.call = slowClosingCall{c.call.(*hrpc.Get), s}
	go s.rc.QueueRPC(c.call)
	release := func(kind string) bool {
		for i := 0; i < 400; i++ {
			settle()
			for _, g := range s.v.Pending() {
				if g.kind == kind {
					s.v.take(g)
					g.ch <- gateRes{}
					return true
				}
			}
			time.Sleep(100 * time.Microsecond)
		}
		return false
	}
	wrote := 0
	for release("write") {
		wrote++
		settle()
		more := false
		for _, g := range s.v.Pending() {
			more = more || g.kind == "write"
		}
		if !more {
			break
		}
	}
	armed := release("deadline")
	closed := release("close")
	settle()
	// whatever else is parked (reads end by themselves when the connection closes)
	for _, g := range s.v.Pending() {
		s.v.take(g)
		g.ch <- gateRes{err: errVReset}
	}
	settle()
	s.observe()
	cls := "none"
	if len(c.results) > 0 {
		cls = strings.Join(c.results, "+")
	}
	return fmt.Sprintf("c03 script slow-close wrote=%d armed=%v closed=%v results=%d class=%s", wrote, armed, closed, len(c.results), cls)
}

// blockedWriteCloseScenario (C03): a request is stuck inside conn.Write (the server does not read)
// when the connection is closed from outside. The failure transition must not wait for that Write:
// the connection gets closed (which is what ends a blocked Write on a real socket) and Close
// returns.
func blockedWriteCloseScenario() string {
	s := newConnScn(NewRNG(1, "blockedwrite"), 1)
	if s.broken != "" {
		return "c03 script blocked-write-close broken:" + strings.ReplaceAll(s.broken, " ", "_")
	}
	first := s.newCall(true, false)
	go s.rc.QueueRPC(first.call)
	settle() // parked inside Write
	parked := false
	for _, g := range s.v.Pending() {
		parked = parked || g.kind == "write"
	}
	closed := make(chan struct{})
	go func() { s.rc.Close(); close(closed) }()
	returned := false
	select {
	case <-closed:
		returned = true
	case <-time.After(time.Second):
	}
	connClosed := s.v.Closed()
	// now let the stuck Write end, as closing the socket would
	for _, g := range s.v.Pending() {
		s.v.take(g)
		g.ch <- gateRes{err: errVReset}
	}
	select {
	case <-closed:
	case <-time.After(time.Second):
	}
	settle()
	for _, g := range s.v.Pending() {
		s.v.take(g)
		g.ch <- gateRes{err: errVReset}
	}
	settle()
	s.observe()
	return fmt.Sprintf("c03 script blocked-write-close parked=%v closereturned=%v connclosed=%v results=%d", parked, returned, connClosed, len(first.results))
}

// deadlineScenario (C18): two requests are outstanding; the server answers the first one 60 ms
// after the second was sent and never answers the second. The read deadline on the connection has
// to stay where the last *request* put it: answers do not push it back.
func deadlineScenario() string { return deadlineScenarioCtx(false) }

// deadlineScenarioCtx(true): the same with calls whose own contexts carry a deadline far beyond
// the read timeout (three hours against one): the read deadline is the connection's business and
// stays at last request + read timeout.
func deadlineScenarioCtx(farCtx bool) string {
	s := newConnScn(NewRNG(1, "deadline"), 1)
	if s.broken != "" {
		return "c18 script deadline broken:" + strings.ReplaceAll(s.broken, " ", "_")
	}
	if farCtx {
		ctx, cancel := context.WithTimeout(context.Background(), 3*time.Hour)
		defer cancel()
		s.baseCtx = ctx
	}
	release := func(kind string) bool {
		for i := 0; i < 400; i++ {
			settle()
			for _, g := range s.v.Pending() {
				if g.kind == kind {
					s.v.take(g)
					g.ch <- gateRes{}
					return true
				}
			}
			time.Sleep(100 * time.Microsecond)
		}
		return false
	}
	a, b := s.newCall(true, false), s.newCall(true, false)
	go s.rc.QueueRPC(a.call)
	release("write")
	release("deadline")
	go s.rc.QueueRPC(b.call)
	release("write")
	release("deadline")
	settle()
	lastSend := time.Now()
	d0 := s.v.Deadline()
	time.Sleep(60 * time.Millisecond)
	// answer a
	var wa *wireInfo
	for _, u := range s.v.Written() {
		if w := s.frameHead(u); w != nil && len(w.calls) == 1 && w.calls[0] == a.idx {
			wa = w
		}
	}
	answered := false
	if wa != nil {
		data, _ := s.buildFrame(wa, "res")
		for _, g := range s.v.Pending() {
			if g.kind == "read" {
				s.v.take(g)
				g.ch <- gateRes{data: data}
				answered = true
				break
			}
		}
	}
	settle()
	// whatever deadline operation the response triggers
	for i := 0; i < 3; i++ {
		for _, g := range s.v.Pending() {
			if g.kind == "deadline" {
				s.v.take(g)
				g.ch <- gateRes{}
			}
		}
		settle()
	}
	d1 := s.v.Deadline()
	s.observe()
	late := int64(0)
	if !d1.IsZero() {
		late = d1.Sub(lastSend.Add(time.Hour)).Milliseconds() // readTimeout of these clients is 1h
	}
	res := fmt.Sprintf("c18 script deadline answered=%v aresults=%d armed=%v moved_ms=%d late_ms=%d", answered, len(a.results),
		!d1.IsZero(), d1.Sub(d0).Milliseconds(), late)
	go s.rc.Close()
	settle()
	for _, g := range s.v.Pending() {
		s.v.take(g)
		g.ch <- gateRes{err: errVReset}
	}
	return res
}

// midFrameScenario (C18): the only outstanding request is being answered — the length prefix and
// a part of the body have arrived — when the server goes silent. The request is still outstanding,
// so the read deadline must still be armed; when it expires the request fails over.
func midFrameScenario() string {
	s := newConnScn(NewRNG(1, "midframe"), 1)
	if s.broken != "" {
		return "c18 script midframe broken:" + strings.ReplaceAll(s.broken, " ", "_")
	}
	release := func(kind string, r gateRes) bool {
		for i := 0; i < 400; i++ {
			settle()
			for _, g := range s.v.Pending() {
				if g.kind == kind {
					s.v.take(g)
					g.ch <- r
					return true
				}
			}
			time.Sleep(100 * time.Microsecond)
		}
		return false
	}
	a := s.newCall(true, false)
	go s.rc.QueueRPC(a.call)
	release("write", gateRes{})
	release("deadline", gateRes{})
	settle()
	armed0 := s.v.DeadlineSet()
	// the length prefix of a 1000-byte response, then ten bytes of it, then nothing
	fed := release("read", gateRes{data: []byte{0, 0, 3, 0xe8}}) && release("read", gateRes{data: make([]byte, 10)})
	settle()
	cleared := false
	for _, g := range s.v.Pending() {
		if g.kind == "deadline" {
			// a deadline operation in the middle of a response
			cleared = cleared || g.zero
			s.v.take(g)
			g.ch <- gateRes{}
		}
	}
	settle()
	armed1 := s.v.DeadlineSet()
	// the deadline expires inside the pending Read (if there still is one, that is what happens)
	release("read", gateRes{err: vtimeout{}})
	settle()
	s.observe()
	res := fmt.Sprintf("c18 script midframe fed=%v armedbefore=%v armedmid=%v clearedmid=%v results=%d class=%s", fed, armed0, armed1, cleared,
		len(a.results), strings.Join(append([]string{"none"}, a.results...), "+"))
	go s.rc.Close()
	settle()
	for _, g := range s.v.Pending() {
		s.v.take(g)
		g.ch <- gateRes{err: errVReset}
	}
	return res
}

// serverExcMultiScenario (C03): a multi response that is decoded and dispatched like any other, but
// in which the regionserver says — for one action, or for a whole region — that it is not in
// service. Every call of that multi gets what the response says about it; then the connection is
// failed like for such an exception in a response header: every other outstanding request (a direct
// call, a second multi that is still being written) is completed with a connection-level error,
// the write in progress fails, a later call is refused. The events are logged in the vocabulary of
// the model and replayed on it like the random schedules.
//   - last=false: other requests are outstanding when the response arrives
//   - last=true: the multi is the only outstanding request: the reader first counts it out of
//     flight and clears the read deadline, and fails the connection when that has returned
func serverExcMultiScenario(exc string, last bool) string {
	return serverExcMultiScenarioFor("c03", exc, last)
}

// … for C02 the same script matters for what the *other* call of the multi receives: its own
// answer (the server executed it), not the exception of its neighbour.
func serverExcMultiScenarioFor(model, exc string, last bool) string {
	s := newConnScn(NewRNG(1, fmt.Sprintf("servexcmulti-%s-%v", exc, last)), 2)
	if s.broken != "" {
		return model + " run 2 broken:" + strings.ReplaceAll(s.broken, " ", "_") + " cancelled=none foreign=none"
	}
	s.v.closeErr = nil
	queue := func(direct bool) *connCall {
		c := s.newCall(direct, false)
		atomic.AddInt32(&s.inQueue, 1)
		go func() {
			s.rc.QueueRPC(c.call)
			atomic.AddInt32(&s.inQueue, -1)
		}()
		kind := "qb"
		if direct {
			kind = "qd"
		}
		s.log(fmt.Sprintf("%s:%d", kind, c.idx))
		return c
	}
	// advance lets every parked Write unit / SetReadDeadline complete, oldest first
	advance := func() {
		for i := 0; i < 40 && s.broken == ""; i++ {
			var g *gate
			for _, p := range s.v.Pending() {
				if p.kind == "write" || p.kind == "deadline" {
					g = p
					break
				}
			}
			if g == nil {
				return
			}
			s.releaseGate(g)
		}
	}
	answer := func(c *connCall, exc string) (w *wireInfo) {
		for _, x := range s.wires {
			for _, ci := range x.calls {
				if ci == c.idx && !x.answered {
					w = x
				}
			}
		}
		var rd *gate
		for _, p := range s.v.Pending() {
			if p.kind == "read" {
				rd = p
			}
		}
		if w == nil || rd == nil {
			s.broken = "script: no request / no parked Read to answer"
			return nil
		}
		s.forceExc = exc
		s.feed(rd, w, "res")
		return w
	}
	var direct *connCall
	if !last {
		direct = queue(true) // written, armed, waiting for its answer
		advance()
	}
	lead := queue(false) // a multi of one call, parked inside its Write …
	b1 := queue(false)   // … so that these two wait in the queue and make up the next multi
	b2 := queue(false)
	advance() // both multis written and armed
	if last && s.broken == "" {
		answer(lead, "") // the lead multi is answered normally: one request left outstanding
	}
	var second *connCall
	if !last {
		second = queue(false) // a third multi: registered, parked inside its Write
	}
	// (in which order the two calls were taken off the queue is up to the scheduler: the server
	// exception is the answer to the first action of the request as written)
	hit, other := b1, b2
	if s.broken == "" {
		if w := answer(b1, exc); w != nil && len(w.calls) == 2 && w.calls[0] == b2.idx {
			hit, other = b2, b1
		}
	}
	advance()           // last: the clearing SetReadDeadline returns; otherwise: the third multi's Write fails
	late := queue(true) // refused at once
	s.drain()
	// what the script is about, checked on the spot as well (the model replay checks the same; what
	// the frame says about the other call of the multi is checked by log() like every answer)
	if s.broken == "" {
		bad := ""
		chk := func(name string, c *connCall, want string) {
			if c != nil && strings.Join(c.results, "+") != want {
				bad += fmt.Sprintf("%s=%s(want_%s),", name, strings.Join(append([]string{"none"}, c.results...), "+"), want)
			}
		}
		chk("multi-call", hit, "connErr")
		chk("direct", direct, "connErr")
		if !last {
			chk("lead-multi", lead, "connErr")
		}
		chk("third-multi", second, "connErr")
		chk("late", late, "connErr")
		if len(other.results) != 1 {
			bad += fmt.Sprintf("other-call-of-the-multi=%d-results,", len(other.results))
		} else if want, ok := s.expect[other.idx]; ok && want != "any" && other.results[0] != want {
			// (log() lets a connection-level error pass once the connection is down; here the
			// connection went down only after this call had been answered)
			bad += fmt.Sprintf("other-call-of-the-multi=%s(the_server_answered_%s),", other.results[0], want)
		}
		if bad != "" {
			s.misdelivered = append(s.misdelivered, fmt.Sprintf("0:%x", "script-server-exception-in-multi:"+bad))
		}
	}
	return s.line(model)
}

func (s *connScn) log(act string) {
	if !settle() {
		s.broken = "no quiescence after " + act
	}
	s.steps = append(s.steps, act+"/"+s.observe())
	// C02/C03: whatever completes a call is either the answer the server gave to its request, or a
	// connection-level error (the connection failed first), or — for a request that could not be
	// marshalled — the local error
	for i, c := range s.calls {
		for len(s.seenResults) <= i {
			s.seenResults = append(s.seenResults, 0)
		}
		if len(c.results) > s.seenResults[i] {
			got := c.results[len(c.results)-1]
			want, answered := s.expect[c.idx]
			// a connection-level error needs a failed connection (or is what the server answered)
			ok := got == "connErr" && region.VerifIsDone(s.rc)
			if answered {
				ok = ok || want == "any" || want == got
			} else {
				want = "nothing"
				ok = ok || (got == "fatal" && (c.unsendable || (!c.direct && s.hasPoison)))
			}
			if !ok {
				s.misdelivered = append(s.misdelivered, fmt.Sprintf("%d:%x", c.idx, fmt.Sprintf("answered-%s-delivered-%s", want, got)))
			}
		}
		s.seenResults[i] = len(c.results)
	}
}

// releaseGate lets a parked Write unit or SetReadDeadline complete the way the connection does when
// nothing goes wrong with it (with an error if the connection has been closed meanwhile) and logs
// the event.
func (s *connScn) releaseGate(g *gate) {
	switch g.kind {
	case "write":
		w, last := s.parseUnit(g)
		who := s.gidWho[g.gid]
		s.v.take(g)
		res := "ok"
		if s.v.Closed() {
			res = "err" // a write on a closed connection fails whatever the script says
			delete(s.gidWire, g.gid)
		}
		g.ch <- gateRes{n: len(g.data)}
		if w == nil {
			s.broken = "unparsable frame written"
		}
		l := 0
		if last {
			l = 1
			if w != nil && res == "ok" {
				w.lastSeen = true
			}
		}
		s.log(fmt.Sprintf("w:%s:%d:%s", who, l, res))
	case "deadline":
		act := "arm:" + s.gidWho[g.gid]
		if g.zero {
			act = "clr"
		} else if s.gidWho[g.gid] == "" {
			act = "arm:R" // not a sender: the reader goroutine is arming the deadline
		}
		s.v.take(g)
		res := "ok"
		if s.v.Closed() {
			res = "err"
		}
		g.ch <- gateRes{}
		s.log(act + ":" + res)
	}
}

// feed hands the parked Read (gate g) a response frame of the given kind for the request w, records
// what the frame says about each call of that request, and logs the event.
func (s *connScn) feed(g *gate, w *wireInfo, k string) {
	data, desc := s.buildFrame(w, k)
	w.answered = true
	// what this frame says about each call of its request (a multi response with a server
	// exception in it says so for its own calls like any other multi response; that it then fails
	// the connection shows in the observations: done, and every other outstanding call completed
	// with connErr — accepted by log() because the connection is failed by then, and compared with
	// the model event by event)
	for _, ci := range w.calls {
		want := "any"
		switch {
		case desc == "res":
			want = "ok"
		case desc == "badhdr":
			want = "connErr"
		case strings.HasPrefix(desc, "exc-"):
			want = desc[4:]
		case strings.HasPrefix(desc, "pc-"):
			for _, d := range strings.Split(desc[3:], "+") {
				if k := strings.SplitN(d, ".", 2); len(k) == 2 && k[0] == fmt.Sprint(ci) {
					want = k[1]
				}
			}
		}
		if _, dup := s.expect[ci]; !dup {
			s.expect[ci] = want
		}
	}
	s.v.take(g)
	g.ch <- gateRes{data: data}
	s.log(fmt.Sprintf("rd:%d:%s", w.id, desc))
}

// run performs up to nSteps randomly chosen events, then drains.
// profile: "fail" (C03), "idle" (C18), "corr" (C02).
func (s *connScn) run(nSteps, maxCalls int, profile string) {
	s.profile = profile
	for step := 0; step < nSteps && s.broken == ""; step++ {
		pend := s.v.Pending()
		type opt struct {
			w  int
			fn func()
		}
		var opts []opt
		if len(s.calls) < maxCalls {
			opts = append(opts, opt{6, func() {
				direct := s.q <= 1 || s.rng.Intn(3) == 0 || (profile == "write" && s.rng.Intn(4) != 0)
				app := direct && (s.rng.Intn(3) == 0 || (profile == "write" && s.rng.Bool()))
				c := s.newCall(direct, app)
				unsendable := direct && !app && s.rng.Intn(7) == 0
				if unsendable {
					c.call = unsendableCall{c.call.(*hrpc.Get)}
					c.unsendable = true
				}
				bunsendable := !direct && s.rng.Intn(8) == 0
				if bunsendable {
					c.call = batchedUnsendableCall{c.call.(*hrpc.Get)}
					s.hasPoison = true
				}
				closing := direct && !app && !unsendable && (profile == "fail" || profile == "close") && !s.closedBy && s.rng.Intn(9) == 0
				if closing {
					c.call = closingCall{c.call.(*hrpc.Get), s.rc}
					s.closedBy = true
				}
				// a call may be handed over with its context already done (direct calls only: the
				// select in QueueBatch would be a coin toss)
				pre := ""
				writerBusy := false
				for _, g := range pend {
					if g.kind == "write" && s.gidWho[g.gid] == "W" {
						writerBusy = true // the batching goroutine is inside conn.Write: QueueBatch cannot hand over
					}
				}
				if (direct || (writerBusy && !bunsendable)) && !closing && s.rng.Intn(8) == 0 && !region.VerifIsDone(s.rc) {
					c.cancel()
					c.cancelled = true
					pre = fmt.Sprintf("cx:%d/%s ", c.idx, s.observe())
				}
				atomic.AddInt32(&s.inQueue, 1)
				go func() {
					s.rc.QueueRPC(c.call)
					atomic.AddInt32(&s.inQueue, -1)
				}()
				kind := "qb"
				if direct {
					kind = "qd"
				}
				if unsendable {
					kind = "qu"
				}
				if closing {
					kind = "qc"
				}
				if bunsendable {
					kind = "qbu"
				}
				if pre != "" {
					s.steps = append(s.steps, strings.TrimSpace(pre))
				}
				s.log(fmt.Sprintf("%s:%d", kind, c.idx))
			}})
		}
		var cancellable []*connCall
		for _, c := range s.calls {
			if !c.cancelled && len(c.results) == 0 {
				cancellable = append(cancellable, c)
			}
		}
		if len(cancellable) > 0 {
			opts = append(opts, opt{1, func() {
				c := cancellable[s.rng.Intn(len(cancellable))]
				c.cancel()
				c.cancelled = true
				s.log(fmt.Sprintf("cx:%d", c.idx))
			}})
		}
		failW := 1
		if profile == "fail" {
			failW = 3
		}
		if profile == "close" {
			failW = 0 // nothing fails by itself: the connection ends by Close only
		}
		for _, g := range pend {
			g := g
			switch g.kind {
			case "write":
				opts = append(opts, opt{8, func() { s.releaseGate(g) }})
				opts = append(opts, opt{failW, func() {
					_, last := s.parseUnit(g)
					who := s.gidWho[g.gid]
					s.v.take(g)
					n := 0
					if len(g.data) > 1 && s.rng.Bool() {
						n = s.rng.Intn(len(g.data)) // short write
					}
					g.ch <- gateRes{n: n, err: errVReset}
					l := 0
					if last {
						l = 1
					}
					delete(s.gidWire, g.gid)
					s.log(fmt.Sprintf("w:%s:%d:err", who, l))
				}})
			case "deadline":
				act := "arm:" + s.gidWho[g.gid]
				if g.zero {
					act = "clr"
				} else if s.gidWho[g.gid] == "" {
					act = "arm:R" // not a sender: the reader goroutine is arming the deadline
				}
				opts = append(opts, opt{30, func() { s.releaseGate(g) }})
				opts = append(opts, opt{failW, func() {
					s.v.take(g)
					g.ch <- gateRes{err: errVReset}
					s.log(act + ":err")
				}})
			case "read":
				var cands []*wireInfo
				for _, w := range s.wires {
					if !w.answered && w.lastSeen {
						cands = append(cands, w)
					}
				}
				// a response may also overtake the return of the final Write call
				for _, p := range pend {
					if p.kind != "write" {
						continue
					}
					if cur, ok := s.gidWire[p.gid]; ok && cur.seen < cur.total {
						if cur.seen+len(p.data) >= cur.total && !cur.answered {
							cands = append(cands, cur)
						}
					} else if len(p.data) >= 4 && int(binary.BigEndian.Uint32(p.data))+4 == len(p.data) {
						if w := s.frameHead(p.data); w != nil && !w.answered {
							cands = append(cands, w)
						}
					}
				}
				sort.Slice(cands, func(i, j int) bool { return cands[i].id < cands[j].id })
				if len(cands) > 0 {
					opts = append(opts, opt{10, func() {
						w := cands[s.rng.Intn(len(cands))]
						kinds := []string{"res", "res", "res", "res", "retryable", "nsre", "fatal", "undec"}
						// frames that fail the connection by what the server says — a server exception in
						// the header ("connErr"), an undecodable header, and (inside buildFrame) a server
						// exception within a multi response — only in the "fail" profile
						if profile == "fail" {
							kinds = append(kinds, "connErr", "badhdr")
						}
						if profile == "close" {
							kinds = []string{"res", "res", "retryable", "nsre"}
						}
						s.feed(g, w, kinds[s.rng.Intn(len(kinds))])
					}})
				}
				if profile != "corr" && profile != "write" && profile != "close" {
					opts = append(opts, opt{failW, func() {
						s.v.take(g)
						if s.rng.Bool() {
							// mid-frame: a few bytes of a frame, then the error
							g.ch <- gateRes{data: []byte{0, 0}}
							s.log("nop")
							for _, g2 := range s.v.Pending() {
								if g2.kind == "read" {
									s.v.take(g2)
									g2.ch <- gateRes{err: io.ErrUnexpectedEOF}
								}
							}
						} else {
							g.ch <- gateRes{err: errVReset}
						}
						s.log("rderr")
					}})
					opts = append(opts, opt{1, func() {
						// a frame for an id nobody is waiting for
						id := uint32(9000 + s.rng.Intn(10))
						h := &pb.ResponseHeader{CallId: &id}
						s.v.take(g)
						g.ch <- gateRes{data: frameBytes(h, &pb.GetResponse{}, nil)}
						s.log(fmt.Sprintf("rd:%d:res", id))
					}})
				}
				if s.v.DeadlineSet() && profile != "corr" && profile != "write" && profile != "close" {
					opts = append(opts, opt{2, func() {
						s.v.take(g)
						g.ch <- gateRes{err: vtimeout{}}
						s.log("to")
					}})
				}
			}
		}
		if !s.closedBy && (profile == "fail" || profile == "close") {
			opts = append(opts, opt{map[string]int{"fail": 1, "close": 3}[profile], func() {
				s.closedBy = true
				go s.rc.Close()
				s.log("close")
			}})
		}
		if len(opts) == 0 {
			break
		}
		tot := 0
		for _, o := range opts {
			tot += o.w
		}
		x := s.rng.Intn(tot)
		for _, o := range opts {
			if x < o.w {
				o.fn()
				break
			}
			x -= o.w
		}
	}
	s.drain()
}

// drain ends the scenario: with the idle check for C18-style runs, then an external Close and
// failing everything that is still parked, so that the final state is quiescent and done.
func (s *connScn) drain() {
	if s.broken != "" {
		return
	}
	if !s.closedBy {
		s.closedBy = true
		go s.rc.Close()
		s.log("close")
	}
	for i := 0; i < 50 && s.broken == ""; i++ {
		pend := s.v.Pending()
		var g *gate
		for _, p := range pend {
			if p.kind != "read" {
				g = p
				break
			}
		}
		if g == nil {
			break
		}
		s.v.take(g)
		switch g.kind {
		case "write":
			_, last := s.parseUnit(g)
			who := s.gidWho[g.gid]
			delete(s.gidWire, g.gid)
			g.ch <- gateRes{err: errVClosed}
			l := 0
			if last {
				l = 1
			}
			s.log(fmt.Sprintf("w:%s:%d:err", who, l))
		case "deadline":
			act := "arm:" + s.gidWho[g.gid]
			if g.zero {
				act = "clr"
			}
			g.ch <- gateRes{err: errVClosed}
			s.log(act + ":err")
		}
	}
}

// debugStranded dumps goroutines when a handed call ended without a result (VERIF_DEBUG=1).
func (s *connScn) debugStranded() {
	if os.Getenv("VERIF_DEBUG") == "" {
		return
	}
	for _, c := range s.calls {
		if len(c.results) == 0 && !c.cancelled {
			buf := make([]byte, 1<<20)
			n := runtime.Stack(buf, true)
			fmt.Fprintf(os.Stderr, "STRANDED call %d steps=%v\n%s\n", c.idx, s.steps, buf[:n])
			return
		}
	}
}

// recheck looks again at every successful result received during the run: it must still carry
// the caller's own row (a result that aliases a recycled read buffer changes under the caller).
func (s *connScn) recheck() {
	for _, c := range s.calls {
		for _, m := range c.msgs {
			var res *pb.Result
			switch x := m.(type) {
			case *pb.GetResponse:
				res = x.GetResult()
			case *pb.MutateResponse:
				res = x.GetResult()
			}
			if res == nil || len(res.GetCell()) != 1 || !bytes.Equal(res.GetCell()[0].GetRow(), c.row) ||
				!bytes.Equal(res.GetCell()[0].GetValue(), append([]byte("v-"), c.row...)) {
				f := "none"
				if res != nil && len(res.GetCell()) > 0 {
					f = fmt.Sprintf("late:%s*%d", res.GetCell()[0].GetRow(), len(res.GetCell()))
				}
				c.foreign = append(c.foreign, f)
			}
		}
	}
}

// streamCheck parses everything that was written successfully, in the order the Write calls
// completed: the hello, then whole frames (length prefix = bytes that follow, a header that
// decodes, a request, and a cellblock of exactly the announced length that splits into KeyValues).
// An incomplete frame is tolerated only at the very end (its last units were never written).
func (s *connScn) streamCheck() string {
	s.v.mu.Lock()
	var b []byte
	for _, u := range s.v.written {
		b = append(b, u...)
	}
	s.v.mu.Unlock()
	if len(b) < 10 || string(b[:4]) != "HBas" {
		return "broken-preamble"
	}
	hl := int(binary.BigEndian.Uint32(b[6:10]))
	if len(b) < 10+hl {
		return "broken-hello"
	}
	b = b[10+hl:]
	n := 0
	for len(b) > 0 {
		if len(b) < 4 {
			return "ok"
		}
		total := int(binary.BigEndian.Uint32(b))
		if total > 1<<20 {
			return fmt.Sprintf("broken-length-prefix-frame%d", n)
		}
		if len(b) < 4+total {
			// possibly a frame whose last unit failed: must at least start like a frame
			hb, k := protowire.ConsumeBytes(b[4:])
			var h pb.RequestHeader
			if k < 0 || proto.Unmarshal(hb, &h) != nil || h.CallId == nil {
				return fmt.Sprintf("broken-trailing-frame%d", n)
			}
			return "ok"
		}
		body := b[4 : 4+total]
		hb, k := protowire.ConsumeBytes(body)
		var h pb.RequestHeader
		if k < 0 || proto.Unmarshal(hb, &h) != nil || h.CallId == nil || h.MethodName == nil {
			return fmt.Sprintf("broken-header-frame%d", n)
		}
		_, k2 := protowire.ConsumeBytes(body[k:])
		if k2 < 0 {
			return fmt.Sprintf("broken-request-frame%d", n)
		}
		cb := body[k+k2:]
		if uint32(len(cb)) != h.GetCellBlockMeta().GetLength() {
			return fmt.Sprintf("broken-cellblock-length-frame%d", n)
		}
		for len(cb) > 0 {
			if len(cb) < 4 || len(cb) < 4+int(binary.BigEndian.Uint32(cb)) {
				return fmt.Sprintf("broken-cellblock-cells-frame%d", n)
			}
			kv := cb[4 : 4+int(binary.BigEndian.Uint32(cb))]
			if len(kv) < 8 || int(binary.BigEndian.Uint32(kv))+int(binary.BigEndian.Uint32(kv[4:]))+8 != len(kv) {
				return fmt.Sprintf("broken-cellblock-cells-frame%d", n)
			}
			cb = cb[4+len(kv):]
		}
		b = b[4+total:]
		n++
	}
	return "ok"
}

func (s *connScn) line(model string) string {
	s.debugStranded()
	s.recheck()
	var cx, handed []string
	for _, c := range s.calls {
		handed = append(handed, fmt.Sprint(c.idx))
		if c.cancelled {
			cx = append(cx, fmt.Sprint(c.idx))
		}
	}
	var foreign []string
	for _, c := range s.calls {
		for _, f := range c.foreign {
			foreign = append(foreign, fmt.Sprintf("%d:%x", c.idx, f))
		}
	}
	foreign = append(foreign, s.misdelivered...)
	j := func(x []string) string {
		if len(x) == 0 {
			return "none"
		}
		return strings.Join(x, ",")
	}
	status := "complete"
	if s.broken != "" {
		status = "broken:" + strings.ReplaceAll(s.broken, " ", "_")
	}
	if model == "c05c" {
		status = status + ",stream=" + s.streamCheck()
	}
	return fmt.Sprintf("%s run %d %s cancelled=%s foreign=%s %s", model, s.q, status, j(cx), j(foreign),
		strings.Join(s.steps, " "))
}

// runSharded re-executes this binary as nShards workers (one scenario at a time per process, so
// that goroutine-state inspection is meaningful) and merges their lines in shard order.
func runSharded(prop, tier string, seed uint64, out *Out, nShards int, worker func(shard, n int, emit func(string))) {
	if sh := os.Getenv("VERIF_SHARD"); sh != "" {
		var i, n int
		fmt.Sscanf(sh, "%d/%d", &i, &n)
		worker(i, n, func(l string) { out.Line("%s", l) })
		return
	}
	outs := make([][]byte, nShards)
	errs := make([]error, nShards)
	done := make(chan int, nShards)
	for i := 0; i < nShards; i++ {
		go func(i int) {
			cmd := exec.Command(os.Args[0], prop, tier, fmt.Sprint(seed))
			cmd.Env = append(os.Environ(), fmt.Sprintf("VERIF_SHARD=%d/%d", i, nShards), "GOMAXPROCS=2")
			cmd.Stderr = os.Stderr
			outs[i], errs[i] = cmd.Output()
			done <- i
		}(i)
	}
	for i := 0; i < nShards; i++ {
		<-done
	}
	for i := 0; i < nShards; i++ {
		if errs[i] != nil {
			fmt.Fprintf(os.Stderr, "shard %d: %v\n", i, errs[i])
			switch prop {
			case "C02", "C03", "C18":
				out.Line("%s run 0 broken:shard-%d-crashed cancelled=none foreign=none", strings.ToLower(prop), i)
			default:
				// the client (or the harness) died: for the client-level scenarios that is a crash
				// of the process under concurrent failures
				out.Line("%s crash shard=%d", strings.ToLower(prop), i)
			}
		}
		for _, l := range strings.Split(strings.TrimRight(string(outs[i]), "\n"), "\n") {
			if l != "" {
				out.Line("%s", l)
			}
		}
	}
}

func connProp(model, profile string) propFn {
	return func(tier string, seed uint64, out *Out) {
		n := 400
		if profile == "corr" {
			n = 1600
		}
		if tier != "quick" {
			n = 6000
			if profile == "corr" {
				n = 16000
			}
		}
		prop := strings.ToUpper(model)
		if model == "c05c" {
			prop = "C05"
		}
		runSharded(prop, tier, seed, out, 16, func(shard, nsh int, emit func(string)) {
			for i := shard; i < n; i += nsh {
				rng := NewRNG(seed, fmt.Sprintf("%s-%d", model, i))
				q := []int{1, 2, 3, 5, 100}[rng.Intn(5)]
				s := newConnScn(rng, q)
				if s.broken == "" {
					s.run(6+rng.Intn(25), 1+rng.Intn(6), profile)
				}
				emit(s.line(model))
			}
		})
	}
}

func init() {
	c03conn := connProp("c03", "fail")
	props["C03"] = func(tier string, seed uint64, out *Out) {
		c03conn(tier, seed, out)
		if os.Getenv("VERIF_SHARD") == "" {
			out.Line("%s", slowCloseScenario())
			out.Line("%s", blockedWriteCloseScenario())
			out.Line("%s", dialCloseScenario("close"))
			out.Line("%s", dialCloseScenario("close-peer-gone"))
			for _, exc := range []string{"action", "region"} {
				out.Line("%s", serverExcMultiScenario(exc, false))
				out.Line("%s", serverExcMultiScenario(exc, true))
			}
			for _, l := range resultChanCases() {
				out.Line("%s", l)
			}
		}
	}
	c18conn := connProp("c18", "idle")
	props["C18"] = func(tier string, seed uint64, out *Out) {
		c18conn(tier, seed, out)
		if os.Getenv("VERIF_SHARD") == "" {
			out.Line("%s", deadlineScenario())
			out.Line("%s", deadlineScenarioCtx(true))
			out.Line("%s", midFrameScenario())
			for _, l := range c18ReadTimeoutCases() {
				out.Line("%s", l)
			}
		}
	}
	c02conn := connProp("c02", "corr")
	props["C02"] = func(tier string, seed uint64, out *Out) {
		if os.Getenv("VERIF_SHARD") == "" {
			runBatchProp("C02", tier, seed, out)
		}
		c02conn(tier, seed, out)
		// free-running parallel senders (true parallelism; the gated scenarios run one goroutine at
		// a time): the call ids on the connection must be unique, or responses cannot be correlated
		if os.Getenv("VERIF_SHARD") == "" {
			n := 12
			if tier != "quick" {
				n = 200
			}
			for i := 0; i < n; i++ {
				out.Line("%s", strings.Replace(c05Stress(NewRNG(seed, fmt.Sprintf("c02s-%d", i)), i), "c05 ", "c02s ", 1))
			}
			for i := 0; i < 3; i++ {
				out.Line("%s", apiResultsScenario(NewRNG(seed, fmt.Sprintf("c02api-%d", i))))
				out.Line("%s", apiGetResultsScenario(NewRNG(seed, fmt.Sprintf("c02apiget-%d", i))))
				out.Line("%s", adminResultsScenario(NewRNG(seed, fmt.Sprintf("c02admin-%d", i))))
			}
			for _, exc := range []string{"action", "region"} {
				out.Line("%s", serverExcMultiScenarioFor("c02", exc, false))
				out.Line("%s", serverExcMultiScenarioFor("c02", exc, true))
			}
			// what a caller was handed stays its own answer while answers to other callers arrive on
			// the same connection (compressed responses included; c15alias.go)
			na := 4
			if tier != "quick" {
				na = 40
			}
			for i := 0; i < na; i++ {
				cd := c15codecs()[i%2]
				codec := cd.codec
				if cd.name != "snappy" {
					codec = mockCodec{1000}
				}
				out.Line("%s", c15AliasScenario(NewRNG(seed, fmt.Sprintf("c02alias-%d", i)), strings.SplitN(cd.name, ":", 2)[0], codec))
			}
		}
	}
	// C05, concurrent senders on a connection that is not a *net.TCPConn: several goroutines send
	// unbatched Gets and Appends (two Write units each) and batched calls at once; what reaches the
	// connection must still be a sequence of whole frames. (The sequential part of C05 is in c05.go.)
	c05fn := props["C05"]
	c05conc := connProp("c05c", "write")
	props["C05"] = func(tier string, seed uint64, out *Out) {
		if os.Getenv("VERIF_SHARD") == "" && c05fn != nil {
			c05fn(tier, seed, out)
		}
		c05conc(tier, seed, out)
		if os.Getenv("VERIF_SHARD") == "" {
			n := 20
			if tier != "quick" {
				n = 200
			}
			for i := 0; i < n; i++ {
				out.Line("%s", c05Stress(NewRNG(seed, fmt.Sprintf("c05s-%d", i)), i))
			}
			// the requests a scanner builds by itself (continuations, re-opens in the next region):
			// each carries the priority the scan was built with (scan harness of C06, judged there)
			rs := NewRNG(seed, "c05-scan-prio")
			for i := 0; i < 2*n; i++ {
				c := randCase(rs, 8, 4)
				cfg := runCfg{hb: rs.Intn(2), maxFrags: 1 + rs.Intn(3), idBase: uint64(1 + 3*rs.Intn(300))}
				emit(out, c, &chooser{rng: NewRNG(rs.Next(), "script")}, endPlan{kind: "full"}, cfg)
			}
		}
	}
}
