package main

// C15 (and the receive path around it): what the client decompressed from the server's stream and
// handed to the caller stays what it was. A real region client with cellblock compression talks
// to an in-process server over net.Pipe; the cells of every Get result are compared with what the
// server sent — when the result arrives and again after later (compressed) requests and responses
// went over the same and over another connection.

import (
	"bytes"
	"context"
	"encoding/binary"
	"fmt"
	"io"
	"net"
	"runtime"
	"time"

	"github.com/tsuna/gohbase/compression"
	"github.com/tsuna/gohbase/hrpc"
	"github.com/tsuna/gohbase/pb"
	"github.com/tsuna/gohbase/region"
	"google.golang.org/protobuf/encoding/protowire"
	"google.golang.org/protobuf/proto"
)

func c15AliasValue(row string, n int) []byte {
	v := make([]byte, n)
	h := uint32(2166136261)
	for _, c := range []byte(row) {
		h = (h ^ uint32(c)) * 16777619
	}
	for i := range v {
		h = h*1664525 + 1013904223
		v[i] = byte(h>>24) % 5 // compressible
	}
	return v
}

// c15AliasServer answers Gets with one cell (row of the request, value c15AliasValue(row, size from
// the row name)) in a compressed cellblock, everything else with an empty response.
func c15AliasServer(conn net.Conn, codec compression.Codec) {
	defer conn.Close()
	pre := make([]byte, 6)
	if _, err := io.ReadFull(conn, pre); err != nil {
		return
	}
	var l [4]byte
	if _, err := io.ReadFull(conn, l[:]); err != nil {
		return
	}
	if _, err := io.CopyN(io.Discard, conn, int64(binary.BigEndian.Uint32(l[:]))); err != nil {
		return
	}
	for {
		if _, err := io.ReadFull(conn, l[:]); err != nil {
			return
		}
		body := make([]byte, binary.BigEndian.Uint32(l[:]))
		if _, err := io.ReadFull(conn, body); err != nil {
			return
		}
		hb, k := protowire.ConsumeBytes(body)
		var h pb.RequestHeader
		if k < 0 || proto.Unmarshal(hb, &h) != nil {
			return
		}
		rh := &pb.ResponseHeader{CallId: h.CallId}
		var resp proto.Message
		var block []byte
		switch h.GetMethodName() {
		case "Get":
			rb, k2 := protowire.ConsumeBytes(body[k:])
			var g pb.GetRequest
			if k2 < 0 || proto.Unmarshal(rb, &g) != nil {
				return
			}
			row := g.GetGet().GetRow()
			var n int
			fmt.Sscanf(string(row[bytes.IndexByte(row, '/')+1:]), "%d", &n)
			raw := hrpc.VerifAppendCellblock(row, "cf", "q", c15AliasValue(string(row), n), 42, 4, nil)
			block = region.VerifCompress(codec, [][]byte{raw}, uint32(len(raw)))
			resp = &pb.GetResponse{Result: &pb.Result{AssociatedCellCount: proto.Int32(1)}}
			rh.CellBlockMeta = &pb.CellBlockMeta{Length: proto.Uint32(uint32(len(block)))}
		default:
			resp = &pb.MutateResponse{Processed: proto.Bool(true)}
		}
		if _, err := conn.Write(frameBytes(rh, resp, block)); err != nil {
			return
		}
	}
}

func c15AliasScenario(rng *RNG, codecName string, codec compression.Codec) string {
	// one P: the goroutine that released a buffer and the one that asks for the next one share
	// the pool's fast path, as they do on a busy client most of the time
	defer runtime.GOMAXPROCS(runtime.GOMAXPROCS(1))
	mk := func() (hrpc.RegionClient, error) {
		cl, srv := net.Pipe()
		go c15AliasServer(srv, codec)
		dialer := func(ctx context.Context, network, addr string) (net.Conn, error) { return cl, nil }
		rc := region.NewClient("pipe:0", region.RegionClient, 1, 0, "verif", time.Hour, codec, dialer, discardLogger)
		return rc, rc.Dial(context.Background())
	}
	rc1, err1 := mk()
	rc2, err2 := mk()
	if err1 != nil || err2 != nil {
		return "c15 alias " + codecName + " BAD dial"
	}
	defer rc1.Close()
	defer rc2.Close()
	reg := region.NewInfo(1, nil, []byte("t"), []byte("t,,1.aaaaaaaaaaaaaaaaaaaaaaaaaaaaaaaa."), nil, nil)
	send := func(rc hrpc.RegionClient, c hrpc.Call) (proto.Message, error) {
		c.SetRegion(reg)
		rc.QueueRPC(c)
		select {
		case r := <-c.ResultChan():
			return r.Msg, r.Error
		case <-time.After(10 * time.Second):
			return nil, fmt.Errorf("no answer")
		}
	}
	type kept struct {
		row  string
		n    int
		cell *pb.Cell
	}
	var held []kept
	wrongAtArrival, changedLater, gets, puts, failed := 0, 0, 0, 0, 0
	same := func(k kept) bool {
		return string(k.cell.Row) == k.row && string(k.cell.Family) == "cf" && string(k.cell.Qualifier) == "q" &&
			bytes.Equal(k.cell.Value, c15AliasValue(k.row, k.n))
	}
	steps := 12 + rng.Intn(12)
	for i := 0; i < steps; i++ {
		rc := rc1
		if rng.Intn(3) == 0 {
			rc = rc2
		}
		if i <= 1 || rng.Intn(3) == 0 {
			n := 200 + rng.Intn(4000)
			if i == 1 {
				n = 2200000 + rng.Intn(1500000) // a row of a few MiB: one response frame above 2 MiB
			}
			row := fmt.Sprintf("row%d/%d", i, n)
			g, _ := hrpc.NewGetStr(context.Background(), "t", row, hrpc.SkipBatch())
			m, err := send(rc, g)
			gr, _ := m.(*pb.GetResponse)
			if err != nil || gr == nil || len(gr.GetResult().GetCell()) != 1 {
				failed++
				continue
			}
			gets++
			k := kept{row, n, gr.Result.Cell[0]}
			if !same(k) {
				wrongAtArrival++
				continue
			}
			held = append(held, k)
		} else {
			v := make([]byte, 100+rng.Intn(3000))
			for j := range v {
				v[j] = 0xEE
			}
			p, _ := hrpc.NewPutStr(context.Background(), "t", fmt.Sprintf("put%d", i), map[string]map[string][]byte{"zz": {"zz": v}}, hrpc.SkipBatch())
			if _, err := send(rc, p); err != nil {
				failed++
				continue
			}
			puts++
		}
	}
	for _, k := range held {
		if !same(k) {
			changedLater++
		}
	}
	return fmt.Sprintf("c15 alias %s gets=%d puts=%d failed=%d wrong=%d changed=%d", codecName, gets, puts, failed, wrongAtArrival, changedLater)
}
