package main

// sim: an in-process HBase cluster at the level of hrpc.RegionClient. The real gohbase client
// (rpc.go, caches.go, client.go, scanner.go) runs unmodified on top of it through
// gohbase.VerifNewClient: its region-client factory is wrapped so that every "connection" is a
// simConn served by the simulated regionservers, and ZooKeeper is a fake zk.Client.
// region/client.go itself is exercised separately (vconn, C02/C03/C05/C18).

import (
	"bytes"
	"context"
	"encoding/binary"
	"errors"
	"fmt"
	"hash/fnv"
	"os"
	"sort"
	"strings"
	"sync"
	"sync/atomic"
	"time"

	"github.com/tsuna/gohbase"
	"github.com/tsuna/gohbase/hrpc"
	"github.com/tsuna/gohbase/pb"
	"github.com/tsuna/gohbase/region"
	"github.com/tsuna/gohbase/zk"
	"google.golang.org/protobuf/proto"
)

type simRegion struct {
	ns, table   []byte // ns nil = default namespace
	start, stop []byte
	id          uint64
	name        []byte
	addr        string
	faults      []string            // exception kinds answered to the next requests (probes included)
	hiddenN     int                 // hbase:meta does not show this region for that many more lookups
	probeAlways string              // every availability probe of this region is answered with this exception kind
	mutateValue []byte              // non-nil: a mutate is answered with one result cell holding this value
	keyFaults   map[string][]string // per row key: exception kinds answered to its next requests
	bounce      []string            // hbase:meta reports these addresses in turn; all of them host the region
	staleAddr   string              // hbase:meta still reports this previous location …
	staleN      int                 // … for this many more lookups
}

func (r *simRegion) fq() []byte {
	if len(r.ns) == 0 {
		return r.table
	}
	return append(append(append([]byte{}, r.ns...), ':'), r.table...)
}

func (r *simRegion) contains(key []byte) bool {
	return bytes.Compare(r.start, key) <= 0 && (len(r.stop) == 0 || bytes.Compare(key, r.stop) < 0)
}

func mkRegionName(fq, start []byte, id uint64) []byte {
	return []byte(fmt.Sprintf("%s,%s,%d.%032x.", fq, start, id, id*7919))
}

type simServe struct {
	seq          int
	addr         string
	conn         int
	kind         string // get | mutate | probe | meta | scan
	table        string
	key          []byte
	region       string
	hosted       bool
	inRange      bool
	outcome      string
	at           time.Time
	tag          int // request tag (from the row key's registered owner), -1 if none
	afterEnd     bool
	notCurrent   bool // the region object's current connection is to another server
	specMismatch bool // the serialised request names another region than the call is routed by
}

type simCluster struct {
	mu          sync.Mutex
	regions     []*simRegion
	down        map[string]bool
	silent      map[string]bool
	metaAddr    string
	metaSil     bool
	metaHold    chan struct{}          // non-nil: meta lookups are answered only when it is closed
	metaParked  int                    // lookups waiting for metaHold
	zkTimes     []time.Time            // when ZooKeeper was asked
	dialTimes   map[string][]time.Time // when each address was dialled
	keyRelease  chan struct{}          // closed by a scenario to let "HOLD:" answers go
	metaSwallow int                    // the next n meta scans are never answered (a slow / restarting meta server)
	zkErr       int32                  // >0: LocateResource fails that many times
	zkSilent    int32
	zkCalls     int32
	conns       []*simConn
	serves      []simServe
	seq         int
	nextID      uint64
	closedAt    int // seq at which the client's Close returned (0 = not yet)
	hold        map[string]chan struct{}
	dialHold    chan struct{}
	zkHold      chan struct{}            // LocateResource waits for it to be closed
	slowNew     time.Duration            // the connection factory takes this long
	closeHold   chan struct{}            // non-nil: Close of a connection returns only when it is closed (released by the scenario)
	closeParked int                      // Close calls waiting for closeHold
	scanWalk    bool                     // user-table scans walk region by region (one row per region), forward or reversed
	scanRows    bool                     // user-table scans return one row per request and keep the region scanner open
	probeHold   map[string]chan struct{} // region probes to this address are answered (ok) only when released
}

func newSimCluster() *simCluster {
	return &simCluster{down: map[string]bool{}, silent: map[string]bool{}, metaAddr: "meta:1", nextID: 100,
		hold: map[string]chan struct{}{}}
}

func (c *simCluster) addRegion(ns, table, start, stop []byte, addr string) *simRegion {
	c.nextID++
	r := &simRegion{ns: ns, table: table, start: start, stop: stop, id: c.nextID, addr: addr}
	r.name = mkRegionName(r.fq(), start, r.id)
	c.regions = append(c.regions, r)
	return r
}

// LocateResource implements zk.Client.
func (c *simCluster) LocateResource(res zk.ResourceName) (string, error) {
	atomic.AddInt32(&c.zkCalls, 1)
	c.mu.Lock()
	c.zkTimes = append(c.zkTimes, time.Now())
	c.mu.Unlock()
	if atomic.LoadInt32(&c.zkSilent) > 0 {
		select {} // never answers
	}
	if atomic.AddInt32(&c.zkErr, -1) >= 0 {
		return "", errors.New("zk: connection loss")
	}
	c.mu.Lock()
	zh := c.zkHold
	c.mu.Unlock()
	if zh != nil {
		<-zh // a slow ZooKeeper: answers only when released
	}
	c.mu.Lock()
	defer c.mu.Unlock()
	if strings.HasSuffix(string(res), string(zk.Master)) {
		return "master:1", nil
	}
	return c.metaAddr, nil
}

type simConn struct {
	c        *simCluster
	addr     string
	id       int
	dials    int32
	closed   int32
	failed   int32 // the connection itself broke (dial failed, server down, closed under it)
	deadOK   int32 // delivered a connection-level error or server-class exception: the client may declare it dead
	bornSeq  int
	closeSeq int
	parked   []hrpc.Call // calls this connection is sitting on (silent server)
}

func (c *simCluster) newConn(addr string) *simConn {
	if c.slowNew > 0 {
		time.Sleep(c.slowNew)
	}
	c.mu.Lock()
	defer c.mu.Unlock()
	c.seq++
	sc := &simConn{c: c, addr: addr, id: len(c.conns), bornSeq: c.seq}
	c.conns = append(c.conns, sc)
	return sc
}

func (s *simConn) Addr() string   { return s.addr }
func (s *simConn) String() string { return fmt.Sprintf("simConn{%s#%d}", s.addr, s.id) }

func (s *simConn) Dial(ctx context.Context) error {
	atomic.AddInt32(&s.dials, 1)
	s.c.mu.Lock()
	if s.c.dialTimes == nil {
		s.c.dialTimes = map[string][]time.Time{}
	}
	s.c.dialTimes[s.addr] = append(s.c.dialTimes[s.addr], time.Now())
	down := s.c.down[s.addr]
	hold := s.c.dialHold
	s.c.mu.Unlock()
	if hold != nil {
		select {
		case <-hold:
		case <-ctx.Done():
			return ctx.Err()
		}
	}
	if down || atomic.LoadInt32(&s.closed) != 0 {
		atomic.StoreInt32(&s.failed, 1)
		atomic.StoreInt32(&s.deadOK, 1)
		return region.ErrClientClosed
	}
	return nil
}

func (s *simConn) Close() { s.closeHeld(true) }

func (s *simConn) closeHeld(wait bool) {
	s.c.mu.Lock()
	ch := s.c.closeHold
	if ch != nil && wait {
		s.c.closeParked++
	}
	s.c.mu.Unlock()
	if ch != nil && wait {
		<-ch // a connection that takes its time to close (lingering socket, TLS shutdown)
	}
	if atomic.CompareAndSwapInt32(&s.closed, 0, 1) {
		s.c.mu.Lock()
		s.c.seq++
		s.closeSeq = s.c.seq
		parked := s.parked
		s.parked = nil
		s.c.mu.Unlock()
		// like a real connection: closing it fails whatever is outstanding on it
		for _, call := range parked {
			select {
			case call.ResultChan() <- hrpc.RPCResult{Error: region.ErrClientClosed}:
			default:
			}
		}
	}
}

// selfFail: what a region client does when the regionserver tells it — in a response header or,
// since fix (multi), inside a multi response — that the server itself is going out of service: it
// fails itself (connection closed, everything else outstanding on it completed with an error).
func (s *simConn) selfFail() {
	atomic.StoreInt32(&s.failed, 1)
	s.closeHeld(false)
}

// Like the real region client, a connection does not send a call whose own context has already
// ended (QueueRPC returns without a result; multi.toProto drops the call): nobody answers it.
func (s *simConn) QueueRPC(call hrpc.Call) {
	if call.Context().Err() != nil {
		return
	}
	s.serve(call)
}

func (s *simConn) QueueBatch(ctx context.Context, calls []hrpc.Call) {
	for _, call := range calls {
		if call.Context().Err() != nil {
			continue
		}
		s.serve(call)
	}
}

func excErr(kind string) error {
	return region.VerifExceptionToError(excClass[kind], "stack")
}

var simRows sync.Map // row key → request tag

func (s *simConn) serve(call hrpc.Call) {
	c := s.c
	deliver := func(msg proto.Message, err error) {
		select {
		case call.ResultChan() <- hrpc.RPCResult{Msg: msg, Error: err}:
		default:
			// the client never queues a call twice without reading its result
			panic("sim: result channel full")
		}
	}
	c.mu.Lock()
	c.seq++
	if len(c.serves) > 150000 {
		// a request storm (a retry loop without back-off in the client): no scenario comes near this
		// number of requests. Report it and stop this process before it eats the machine's memory.
		fmt.Printf("sim storm served=%d\n", len(c.serves))
		os.Stdout.Sync()
		os.Exit(0)
	}
	sv := simServe{at: time.Now(), seq: c.seq, addr: s.addr, conn: s.id, table: string(call.Table()), key: call.Key(), tag: -1,
		afterEnd: c.closedAt != 0}
	if t, ok := simRows.Load(string(call.Key())); ok {
		sv.tag = t.(int)
	}
	if reg := call.Region(); reg != nil {
		sv.region = string(reg.Name())
		// what the request says on the wire must name the region it was routed by
		var spec *pb.RegionSpecifier
		func() {
			defer func() { recover() }()
			switch m := call.ToProto().(type) {
			case *pb.GetRequest:
				spec = m.GetRegion()
			case *pb.MutateRequest:
				spec = m.GetRegion()
			case *pb.ScanRequest:
				spec = m.GetRegion()
			}
		}()
		if spec != nil && !bytes.Equal(spec.GetValue(), reg.Name()) {
			sv.specMismatch = true
		}
		// the client's own state designates another connection for this region right now
		if rc := reg.Client(); rc != nil && rc.Addr() != s.addr {
			sv.notCurrent = true
		}
	}
	finish := func(outcome string) {
		sv.outcome = outcome
		c.serves = append(c.serves, sv)
		c.mu.Unlock()
	}
	if atomic.LoadInt32(&s.closed) != 0 || c.down[s.addr] {
		atomic.StoreInt32(&s.failed, 1)
		atomic.StoreInt32(&s.deadOK, 1)
		finish("connErr")
		deliver(nil, region.ErrClientClosed)
		return
	}
	if c.silent[s.addr] {
		s.parked = append(s.parked, call)
		finish("silent")
		return
	}
	if h := c.hold[s.addr]; h != nil {
		finish("held")
		go func() { <-h; s.serve(call) }()
		return
	}
	switch r := call.(type) {
	case *hrpc.Scan:
		if string(r.Table()) == "hbase:meta" {
			sv.kind = "meta"
			if s.addr != c.metaAddr {
				finish("nsre")
				deliver(nil, excErr("nsre"))
				return
			}
			if h := c.metaHold; h != nil {
				// the answer is held back until the scenario lets all pending lookups go at once
				c.metaParked++
				finish("held")
				go func() {
					<-h
					c.mu.Lock()
					resp := c.metaScan(r)
					c.mu.Unlock()
					deliver(resp, nil)
				}()
				return
			}
			if c.metaSil || c.metaSwallow > 0 {
				if c.metaSwallow > 0 {
					c.metaSwallow--
				}
				s.parked = append(s.parked, call)
				finish("silent")
				return
			}
			resp := c.metaScan(r)
			finish("ok")
			deliver(resp, nil)
			return
		}
		sv.kind = "scan"
		if c.scanWalk {
			// every region answers with one row of its own and "nothing more in this region"; the
			// scan is over at the table's edge in the direction of the scan
			var reg *simRegion
			if cr := call.Region(); cr != nil {
				for _, x := range c.regions {
					if bytes.Equal(x.name, cr.Name()) && x.addr == s.addr {
						reg = x
					}
				}
			}
			if reg == nil {
				finish("nsre")
				deliver(nil, excErr("nsre"))
				return
			}
			finish("ok")
			more := (r.Reversed() && len(reg.start) != 0) || (!r.Reversed() && len(reg.stop) != 0)
			no := false
			ts := uint64(1)
			rowKey := append(append([]byte{}, reg.start...), 'r')
			row := &pb.Result{Cell: []*pb.Cell{{Row: rowKey, Family: []byte("f"), Qualifier: []byte("q"),
				Value: []byte("v"), Timestamp: &ts, CellType: pb.CellType_PUT.Enum()}}}
			deliver(&pb.ScanResponse{MoreResults: &more, MoreResultsInRegion: &no, Results: []*pb.Result{row}}, nil)
			return
		}
		if c.scanRows {
			// a region scanner that always has one more row: scanner id 42 stays open at the server
			yes := true
			id := uint64(42)
			finish("ok")
			if r.IsClosing() {
				deliver(&pb.ScanResponse{MoreResults: &yes, MoreResultsInRegion: &yes}, nil)
				return
			}
			ts := uint64(1)
			row := &pb.Result{Cell: []*pb.Cell{{Row: []byte("row"), Family: []byte("f"), Qualifier: []byte("q"),
				Value: []byte("v"), Timestamp: &ts, CellType: pb.CellType_PUT.Enum()}}}
			deliver(&pb.ScanResponse{ScannerId: &id, MoreResults: &yes, MoreResultsInRegion: &yes,
				Results: []*pb.Result{row}}, nil)
			return
		}
		no := false
		finish("ok")
		deliver(&pb.ScanResponse{MoreResults: &no, MoreResultsInRegion: &no}, nil)
		return
	}
	sv.kind = "get"
	if _, ok := call.(*hrpc.Mutate); ok {
		sv.kind = "mutate"
	}
	if _, ok := call.(*hrpc.CheckAndPut); ok {
		sv.kind = "mutate"
	}
	if g, ok := call.(*hrpc.Get); ok && g.SkipBatch() && len(call.Key()) >= 17 &&
		bytes.Equal(call.Key()[len(call.Key())-17:], make([]byte, 17)) {
		sv.kind = "probe"
	}
	if sv.table == "hbase:meta" {
		if s.addr == c.metaAddr && !c.metaSil {
			sv.hosted, sv.inRange = true, true
			finish("ok")
			t := true
			deliver(&pb.GetResponse{Result: &pb.Result{Exists: &t}}, nil)
		} else if s.addr == c.metaAddr {
			s.parked = append(s.parked, call)
			finish("silent")
		} else {
			finish("nsre")
			deliver(nil, excErr("nsre"))
		}
		return
	}
	if h := c.probeHold[s.addr]; h != nil && sv.kind == "probe" {
		// the answer (ok) is on its way and arrives when released, whatever happens to the connection meanwhile
		finish("ok-late")
		go func() {
			<-h
			t := true
			deliver(&pb.GetResponse{Result: &pb.Result{Exists: &t}}, nil)
		}()
		return
	}
	var reg *simRegion
	for _, x := range c.regions {
		if string(x.name) == sv.region && (x.addr == s.addr || contains(x.bounce, s.addr)) {
			reg = x
		}
	}
	if reg == nil {
		finish("nsre")
		deliver(nil, excErr("nsre"))
		return
	}
	sv.hosted = true
	// (a request for another table that names this region is as wrong as a key outside its range)
	sv.inRange = reg.contains(call.Key()) && string(reg.fq()) == sv.table
	for len(reg.faults) > 0 && reg.faults[0] == "ok-probe" {
		reg.faults = reg.faults[1:]
		if sv.kind == "probe" && sv.inRange {
			finish("ok")
			t := true
			deliver(&pb.GetResponse{Result: &pb.Result{Exists: &t}}, nil)
			return
		}
	}
	if reg.probeAlways != "" && sv.kind == "probe" {
		finish(reg.probeAlways)
		deliver(nil, excErr(reg.probeAlways))
		return
	}
	if kf := reg.keyFaults[string(call.Key())]; len(kf) > 0 && sv.kind != "probe" && strings.HasPrefix(kf[0], "HOLD:") {
		// the answer (an exception of the given kind) arrives only when the scenario releases it
		reg.keyFaults[string(call.Key())] = kf[1:]
		k := strings.TrimPrefix(kf[0], "HOLD:")
		if k == "connErr" {
			atomic.StoreInt32(&s.deadOK, 1)
		}
		rel := c.keyRelease
		finish("held-" + k)
		go func() {
			<-rel
			deliver(nil, excErr(k))
			if k == "connErr" {
				s.selfFail()
			}
		}()
		return
	}
	if kf := reg.keyFaults[string(call.Key())]; len(kf) > 0 && sv.kind != "probe" {
		if kf[0] == "connErr" {
			atomic.StoreInt32(&s.deadOK, 1)
		}
		reg.keyFaults[string(call.Key())] = kf[1:]
		finish(kf[0])
		deliver(nil, excErr(kf[0]))
		if kf[0] == "connErr" {
			s.selfFail()
		}
		return
	}
	if len(reg.faults) > 0 && !((reg.faults[0] == "FATALMARK" || strings.HasPrefix(reg.faults[0], "REQ:")) && sv.kind == "probe") {
		k := strings.TrimPrefix(reg.faults[0], "REQ:")
		reg.faults = reg.faults[1:]
		if k == "connErr" {
			// a server-class exception (the regionserver says it is going out of service): the region
			// client delivers it and fails itself, whether it came in a response header or inside
			// a multi response
			atomic.StoreInt32(&s.deadOK, 1)
		}
		finish(k)
		deliver(nil, excErr(k))
		if k == "connErr" {
			s.selfFail()
		}
		return
	}
	if !sv.inRange {
		finish("wrongregion")
		deliver(nil, errors.New("org.apache.hadoop.hbase.regionserver.WrongRegionException"))
		return
	}
	finish("ok")
	if sv.kind == "mutate" {
		t := true
		if reg.mutateValue != nil {
			deliver(&pb.MutateResponse{Processed: &t, Result: &pb.Result{Cell: []*pb.Cell{{Row: call.Key(),
				Family: []byte("f"), Qualifier: []byte("q"), Value: reg.mutateValue}}}}, nil)
			return
		}
		if m, ok := call.(*hrpc.Mutate); ok {
			if mr, ok := m.ToProto().(*pb.MutateRequest); ok && mr.GetMutation().GetMutateType() == pb.MutationProto_INCREMENT {
				// the counter's new value: any 64-bit pattern, negative ones included
				deliver(&pb.MutateResponse{Processed: &t, Result: &pb.Result{Cell: []*pb.Cell{{Row: call.Key(),
					Family: []byte("f"), Qualifier: []byte("q"), Value: simCounterValue(call.Key())}}}}, nil)
				return
			}
		}
		deliver(&pb.MutateResponse{Processed: &t}, nil)
	} else {
		if bytes.HasPrefix(call.Key(), []byte("api-")) {
			deliver(&pb.GetResponse{Result: simGetResult(call.Key())}, nil)
			return
		}
		t := true
		deliver(&pb.GetResponse{Result: &pb.Result{Exists: &t}}, nil)
	}
}

// simGetResult: what the simulated server answers to a Get of an "api-" row — a function of the
// row: with or without cells, the exists / stale flags present-and-true, present-and-false or absent.
func simGetResult(key []byte) *pb.Result {
	h := fnv.New64a()
	h.Write(key)
	v := h.Sum64()
	r := &pb.Result{}
	switch v % 3 {
	case 0:
		r.Exists = proto.Bool(true)
	case 1:
		r.Exists = proto.Bool(false)
	}
	switch (v / 3) % 3 {
	case 0:
		r.Stale = proto.Bool(true)
	case 1:
		r.Stale = proto.Bool(false)
	}
	for i := uint64(0); i < (v/9)%3; i++ {
		r.Cell = append(r.Cell, &pb.Cell{Row: key, Family: []byte("f"), Qualifier: []byte{byte('a' + i)},
			Value: []byte(fmt.Sprintf("v%d", v%1000+i)), Timestamp: proto.Uint64(v % 100000), CellType: pb.CellType_PUT.Enum()})
	}
	return r
}

// simCounterValue: what the simulated server answers to an Increment of this row.
func simCounterValue(key []byte) []byte {
	h := fnv.New64a()
	h.Write(key)
	v := h.Sum64()
	switch v % 4 {
	case 0:
		v = ^uint64(0) // -1
	case 1:
		v |= 1 << 63 // negative
	case 2:
		v &^= 1 << 63
	}
	b := make([]byte, 8)
	binary.BigEndian.PutUint64(b, v)
	return b
}

// metaScan answers a reversed one-row scan `table,key,:` .. `table` (Env.Meta): the greatest
// meta row <= the search key among the rows of that table.
func (c *simCluster) metaScan(r *hrpc.Scan) *pb.ScanResponse {
	no := false
	resp := &pb.ScanResponse{MoreResults: &no, MoreResultsInRegion: &no}
	skey := r.StartRow()
	table := r.StopRow()
	if !r.Reversed() {
		// the lookup of all regions of a table (CacheRegions): a forward scan of [table, table ".")
		if len(skey) == 0 || !bytes.Equal(table, append(append([]byte{}, skey...), '.')) {
			return resp
		}
		tbl := skey
		var rs []*simRegion
		for _, x := range c.regions {
			if bytes.Equal(x.fq(), tbl) {
				rs = append(rs, x)
			}
		}
		sort.Slice(rs, func(i, j int) bool { return region.Compare(rs[i].name, rs[j].name) < 0 })
		for _, x := range rs {
			ns := x.ns
			if len(ns) == 0 {
				ns = []byte("default")
			}
			ri := &pb.RegionInfo{RegionId: &x.id, TableName: &pb.TableName{Namespace: ns, Qualifier: x.table},
				StartKey: x.start, EndKey: x.stop}
			b, _ := proto.Marshal(ri)
			ts := uint64(1)
			resp.Results = append(resp.Results, &pb.Result{Cell: []*pb.Cell{
				{Row: x.name, Family: []byte("info"), Qualifier: []byte("regioninfo"), Value: append([]byte("PBUF"), b...), Timestamp: &ts, CellType: pb.CellType_PUT.Enum()},
				{Row: x.name, Family: []byte("info"), Qualifier: []byte("server"), Value: []byte(x.addr), Timestamp: &ts, CellType: pb.CellType_PUT.Enum()},
			}})
		}
		return resp
	}
	pick := func(skipHidden bool) *simRegion {
		var best *simRegion
		for _, x := range c.regions {
			if !bytes.Equal(x.fq(), table) || (skipHidden && x.hiddenN > 0) {
				continue
			}
			if region.Compare(x.name, skey) <= 0 {
				if best == nil || region.Compare(x.name, best.name) > 0 {
					best = x
				}
			}
		}
		return best
	}
	best := pick(false)
	if best != nil && best.hiddenN > 0 {
		// a hole in hbase:meta: the row of this region is not there yet (region in transition);
		// the reversed scan lands on the row before it
		best.hiddenN--
		best = pick(true)
	}
	if best == nil {
		return resp
	}
	if len(best.bounce) > 0 {
		best.addr = best.bounce[0]
		best.bounce = append(best.bounce[1:], best.bounce[0])
	}
	reported := best.addr
	if best.staleN > 0 {
		best.staleN--
		reported = best.staleAddr
	}
	ns := best.ns
	if len(ns) == 0 {
		ns = []byte("default")
	}
	ri := &pb.RegionInfo{RegionId: &best.id, TableName: &pb.TableName{Namespace: ns, Qualifier: best.table},
		StartKey: best.start, EndKey: best.stop}
	b, _ := proto.Marshal(ri)
	val := append([]byte("PBUF"), b...)
	ts := uint64(1)
	cells := []*pb.Cell{
		{Row: best.name, Family: []byte("info"), Qualifier: []byte("regioninfo"), Value: val, Timestamp: &ts, CellType: pb.CellType_PUT.Enum()},
		{Row: best.name, Family: []byte("info"), Qualifier: []byte("server"), Value: []byte(reported), Timestamp: &ts, CellType: pb.CellType_PUT.Enum()},
	}
	resp.Results = []*pb.Result{{Cell: cells}}
	return resp
}

type simClient struct {
	v  *gohbase.VerifClient
	cl gohbase.Client
	c  *simCluster
}

func newSimClient(c *simCluster, opts ...gohbase.Option) *simClient {
	wrap := func(real hrpc.RegionClient) hrpc.RegionClient { return c.newConn(real.Addr()) }
	opts = append([]gohbase.Option{gohbase.Logger(discardLogger), gohbase.RegionLookupTimeout(2 * time.Second)}, opts...)
	v := gohbase.VerifNewClient(c, false, wrap, opts...)
	return &simClient{v: v, cl: v.Client(), c: c}
}

// fastBackoff replaces the retry sleep by an immediate return that only records the requested
// durations (virtual time), so that sequential scenarios settle quickly.
var backoffLog struct {
	sync.Mutex
	d []time.Duration
}

// backoffHook, when set, is called (once armed) from inside a retry back-off of the client.
var backoffHook atomic.Value // func()

func fastBackoff(ctx context.Context, d time.Duration) (time.Duration, error) {
	if err := ctx.Err(); err != nil {
		return 0, err
	}
	if h, _ := backoffHook.Load().(func()); h != nil {
		h()
	}
	backoffLog.Lock()
	backoffLog.d = append(backoffLog.d, d)
	backoffLog.Unlock()
	if d == 0 {
		return gohbase.VerifBackoffStart, nil
	}
	return d + 1, nil
}

// ---- layout events ------------------------------------------------------------------------

func (c *simCluster) tableRegions(fq string) []*simRegion {
	var out []*simRegion
	for _, r := range c.regions {
		if string(r.fq()) == fq {
			out = append(out, r)
		}
	}
	sort.Slice(out, func(i, j int) bool { return bytes.Compare(out[i].start, out[j].start) < 0 })
	return out
}

func (c *simCluster) remove(r *simRegion) {
	for i, x := range c.regions {
		if x == r {
			c.regions = append(c.regions[:i], c.regions[i+1:]...)
			return
		}
	}
}

func (c *simCluster) split(r *simRegion, at []byte, a1, a2 string) {
	c.remove(r)
	c.addRegion(r.ns, r.table, r.start, at, a1)
	c.addRegion(r.ns, r.table, at, r.stop, a2)
}

func (c *simCluster) merge(r1, r2 *simRegion, addr string) {
	c.remove(r1)
	c.remove(r2)
	c.addRegion(r1.ns, r1.table, r1.start, r2.stop, addr)
}

func contains(l []string, x string) bool {
	for _, y := range l {
		if y == x {
			return true
		}
	}
	return false
}

func classOf(err error) string {
	switch {
	case err == nil:
		return "ok"
	case err == gohbase.TableNotFound:
		return "tablenotfound"
	case err == gohbase.ErrClientClosed:
		return "clientclosed"
	case errors.Is(err, context.Canceled), errors.Is(err, context.DeadlineExceeded):
		return "ctx"
	case err == gohbase.ErrCannotFindRegion:
		return "cannotfind"
	}
	return errClass(err)
}
