#!/bin/bash
# runs the thorough tier of every property once (used with `vp run` for a sweep on the unchanged tree)
cd "$(dirname "$0")/.." || exit 1
./setup.sh >/dev/null 2>&1
for i in 01 02 03 04 05 06 07 08 09 10 11 12 13 14 15 16 17 18 19 20; do
  ./check C$i thorough 2>&1 | grep -E "VIOLATION|KNOWN-FINDING|rc=" | cut -c1-200
done
