#!/bin/bash
# usage: tools/seedcheck.sh <property> <mutant dir prefix e.g. /tmp/mut/C10-m1> [check property ...]
# Confirms a seeded change (tests pass with it; demo fails with / passes without), runs our checks
# against it, and stores it under /verif/seeded/<name>/ with a meta.json.
set -u
export GOFLAGS=-mod=mod GOPROXY=off GOSUMDB=off GOTOOLCHAIN=local
PROP=$1; PFX=$2; shift 2; CHECKS=${@:-$PROP}
NAME=$(basename $PFX)
DIFF=$PFX.diff; DEMO=$PFX-demo
OUT=/verif/seeded/$NAME; mkdir -p $OUT
WT=/tmp/seedwt-$NAME
git -C /repo worktree remove --force $WT 2>/dev/null; git -C /repo worktree add -q --detach $WT HEAD
demo_file=$(ls $DEMO/*_test.go 2>/dev/null | head -1)
place=$(grep -m1 -o 'place at: *[^ ]*' "$demo_file" | sed 's/place at: *//')
[ -z "$place" ] && place=$(grep -m1 -io 'place at[: ]*[^ ]*' $DEMO/README.txt | awk '{print $NF}')
pkgdir=$(dirname "$place")
run_demo() { (cd $WT && cp "$demo_file" "$place" && timeout 600 go test -vet=off -count=1 -run "$(grep -o '^func Test[A-Za-z0-9_]*' "$demo_file" | sed 's/func //' | paste -sd'|')" ./$pkgdir 2>&1 | tail -3; rm -f "$place"); }
echo "== demo on unchanged tree"; without=$(run_demo); echo "$without" | tail -2
(cd $WT && git apply $DIFF) || { echo "PATCH DOES NOT APPLY"; exit 2; }
echo "== project tests with the change"; tests=$(cd $WT && go build ./... && go test -vet=off -count=1 ./... 2>&1 | grep -v "no test files" | tail -8); echo "$tests"
echo "== demo with the change"; with=$(run_demo); echo "$with" | tail -2
# our checks against it (a scratch worktree with the change, selected by VERIF_REPO, so that /repo
# itself stays untouched while other jobs read it)
declare -A RES
for c in $CHECKS; do
  rm -f /verif/replays/$c-1-quick.json /verif/replays/$c-1-thorough.json
  r=$(cd /verif && VERIF_REPO=$WT VERIF_NO_SEARCH=${SEED_QUICK_ONLY:-} timeout 3000 ./check $c quick 2>&1 | grep -E "VIOLATION" | head -2)
  tier=quick
  if ! echo "$r" | grep -q VIOLATION && [ -z "${SEED_QUICK_ONLY:-}" ]; then r=$(cd /verif && VERIF_REPO=$WT timeout 7200 ./check $c thorough 2>&1 | grep -E "VIOLATION" | head -3); tier=thorough; fi
  RES[$c]="$tier: ${r:-no violation reported}"
  echo "== check $c -> ${RES[$c]}"
  [ -f /verif/replays/$c-1-$tier.json ] && cp /verif/replays/$c-1-$tier.json $OUT/replay-$c.json
done
git -C /repo worktree remove --force $WT
cp $DIFF $OUT/patch.diff; cp -r $DEMO $OUT/demo 2>/dev/null
python3 - "$PROP" "$NAME" "$OUT" "$without" "$with" "$tests" "$(for c in $CHECKS; do echo "$c => ${RES[$c]}"; done)" <<'PY'
import sys, json
prop,name,out,without,with_,tests,checks=sys.argv[1:8]
json.dump({"property":prop,"name":name,"demo_without_change":without[-400:],"demo_with_change":with_[-400:],
  "project_tests_with_change":tests[-600:],"our_checks":checks.strip().split("\n"),
  "needs_to_manifest":"see demo/README.txt","ran":"tools/seedcheck.sh (scratch worktree for demo + tests; git apply on /repo for ./check, reverted afterwards)"},
  open(out+"/meta.json","w"),indent=1)
PY
echo "stored in $OUT"
