#!/usr/bin/env python3
"""Prints, for seeded changes, which check reported what (from seeded/<name>/meta.json and replay-*.json)."""
import json, glob, sys, os
ROOT = os.path.dirname(os.path.dirname(os.path.abspath(__file__)))
for n in sys.argv[1:]:
    d = os.path.join(ROOT, "seeded", n)
    m = json.load(open(os.path.join(d, "meta.json")))
    print(n, "|", "; ".join(m["our_checks"]))
    for f in sorted(glob.glob(os.path.join(d, "replay-*.json"))):
        r = json.load(open(f))
        print("   ", os.path.basename(f), r.get("kind"), r.get("finding_key"), "| broken:", r.get("broken_obligations"), "|", (r.get("driver_reply") or "")[:160])
