#!/bin/bash
# runs the quick tier of every property for several seeds (used with `vp run`: a soak on the unchanged tree)
cd "$(dirname "$0")/.." || exit 1
./setup.sh >/dev/null 2>&1
for sd in ${SEEDS:-2 3 4 5 6 7 8 9}; do
  for i in 01 02 03 04 05 06 07 08 09 10 11 12 13 14 15 16 17 18 19 20; do
    VERIF_SEED=$sd ./check C$i quick 2>&1 | grep -E "VIOLATION|rc=" | cut -c1-160
  done
done
