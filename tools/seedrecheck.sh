#!/bin/bash
# usage: tools/seedrecheck.sh <name under /verif/seeded> [check property ...]
# Re-runs our checks against a seeded change that was confirmed earlier (tools/seedcheck.sh did the
# demo and the project tests) and rewrites the "our_checks" list and the replays in its directory.
set -u
export GOFLAGS=-mod=mod GOPROXY=off GOSUMDB=off GOTOOLCHAIN=local
NAME=$1; shift
OUT=/verif/seeded/$NAME
PROP=${NAME%%-*}
CHECKS=${@:-$PROP}
WT=/tmp/seedwt-$NAME
git -C /repo worktree remove --force $WT 2>/dev/null; git -C /repo worktree add -q --detach $WT HEAD
(cd $WT && git apply $OUT/patch.diff) || { echo "$NAME PATCH DOES NOT APPLY"; git -C /repo worktree remove --force $WT; exit 2; }
LINES=""
for c in $CHECKS; do
  rm -f /verif/replays/$c-1-quick.json
  r=$(cd /verif && VERIF_REPO=$WT VERIF_NO_SEARCH=${SEED_QUICK_ONLY:-1} timeout 3000 ./check $c quick 2>&1 | grep -E "VIOLATION" | head -1)
  echo "$NAME == check $c -> quick: ${r:-no violation reported}"
  LINES="$LINES$c => quick: ${r:-no violation reported}"$'\n'
  [ -f /verif/replays/$c-1-quick.json ] && cp /verif/replays/$c-1-quick.json $OUT/replay-$c.json
done
git -C /repo worktree remove --force $WT
python3 - "$OUT" "$LINES" <<'PY'
import sys, json
out, lines = sys.argv[1:3]
m = json.load(open(out + "/meta.json"))
m["our_checks"] = [l for l in lines.strip().split("\n") if l]
m["rechecked"] = "tools/seedrecheck.sh after strengthening (demo and project tests as confirmed by tools/seedcheck.sh before)"
json.dump(m, open(out + "/meta.json", "w"), indent=1)
PY
