#!/usr/bin/env python3
"""Regenerates /verif/MANIFEST.json from the table below (one entry per integrated property).
Properties without an entry are listed under not_applicable with the reason given in PENDING."""
import json, os, subprocess
ROOT = os.path.dirname(os.path.dirname(os.path.abspath(__file__)))

CLAIMED = {
 "C16": dict(
  text="Lean 4 theorem compare_sign_eq_tuple: for all comma-free tables/id suffixes and ALL start keys, the sign of the model of region.Compare equals the component-wise byte order on (table,key,id); corollaries: strict total order, first region first, smaller/prefix table first, search key position. The model is tied to region.Compare by exhaustive small-scope + random differential runs (sign/panic) judged by the Lean spec; the search-key constants are regenerated from the source (Gen.Wire).",
  note="Trusted: Lean kernel (axioms propext, Quot.sound); the hand-written model's correspondence to region.Compare is sampled (600k+ pairs per quick run); tools/extract for Gen.Wire.",
  tech="Lean 4 proof (algebraic law: sign = tuple order) + differential correspondence"),
 "C17": dict(
  text="Lean 4 theorems over definitions REGENERATED from rpc.go on every run (Gen.Backoff: start value, growth formula, shape of the wait; Gen.RetryLoop: what each error class does in SendRPC/SendBatch/lookup/establish loops): schedule_exact (16 ms … 8.192 s, 13.192 … 33.192 s, constant), monotone, bounded; for ALL outcome sequences the waits of a call are an initial segment of the schedule, a retry-later answer is always followed by a wait, connection-level failures are retried immediately at most twice (single and batched), lookups and region re-establishment back off on the same schedule; the wait has exactly two exits (timer, context). Correspondence: the real sleepAndIncreaseBackoff along the schedule with live, cancelled and expiring contexts.",
  note="Trusted: Lean kernel; tools/extract (a wrong translation would be caught only where the real function is run: values up to 1.1 s quick / whole schedule thorough). Partial: upper bounds on waits are wall-clock; the loop models are tied to the Go loops through the regenerated per-class facts, not executed step by step.",
  tech="Lean 4 proof over a regenerated model (closed-form schedule + induction over outcome sequences) + differential correspondence"),
 "C10": dict(
  text="Lean 4 theorems: decode_encode / kvDecode_encode (the client's decoder and an independent KeyValue parser both recover exactly (row, family, qualifier, timestamp, type, value) and the bytes consumed, for all rows < 2^16, families < 2^8, any qualifier/value, all 64-bit timestamps, any trailing bytes), stream_roundtrip, encodings_agree (for every mutation kind, all four delete variants, timestamp set/unset, every map shape including nil/empty inner maps and EVERY iteration order of the Go maps, the cellblock form and the protobuf form denote the same multiset of cells; the panic in valuesToCellblocks is unreachable), count_eq_cells. Type codes and the length formula are regenerated from the source (Gen.Cell). Correspondence: real appendCellblock / cellFromCellBlock / valuesToCellblocks / valuesToProto vs the model and the independent decoder, exhaustive over boundary lengths and map shapes + seeded random.",
  note="Trusted: Lean kernel; tools/extract for Gen.Cell; the reading of the protobuf form as cells follows HBase's ProtobufUtil and is not checked against HBase; slices modelled with cap = len; allocation of wire-declared sizes not modelled.",
  tech="Lean 4 proof (round-trip laws, agreement of two encodings for all map orders) + differential correspondence with an independent decoder"),
 "C07": dict(
  text="Lean 4 theorems about a model of SendBatch / findClients / waitForCompletion as a function of the batch, a routing oracle, per-call per-round answer scripts, the Go map iteration order and the point at which the batch context is seen done — quantified over ALL of them: positional (slot i only ever holds call i's own answer, location error or context error), success_kept (a success received for call i is returned as <msg, nil> whatever happens to the others, later rounds and cancellation included), every_call_ends, allOK_iff (the flag is true exactly when every error is nil). Correspondence: the real SendBatch driven through scripted fake region clients, exhaustive outcome sequences for <= 3 calls x <= 3 rounds, every cancel point, own contexts, blocked re-location, invalid entries at every position, random larger batches; judged by the Lean spec first, then compared with the model.",
  note="Trusted: Lean kernel; Gen.Backoff via tools/extract; the model is tied to rpc.go by the differential run only; re-establishment is played by the harness through wrapped RegionInfo objects.",
  tech="Lean 4 proof (invariant over retry rounds of a functional model) + differential correspondence"),
 "C12": dict(
  text="Lean 4 theorems on the same SendBatch model plus multi.add / multi.toProto: invalid_rejected_unsent (mixed tables / duplicate / non-batchable at any position: nothing is queued, every slot has an error), round0_partition, per_region_order (inside every multi the actions of a region are the queued calls of that region in batch order, for any region order and dropped contexts), same_region_order across retries, only_retryable_resent, success_never_resent, ended_never_resent. Correspondence as C07, plus the per-region view of a real region.multi built from each queued slice and per-call execution counts.",
  note="Trusted: as C07. At-least-once after a lost response is inherent and outside the property.",
  tech="Lean 4 proof (sublist/order laws, only-retryable-resent) + differential correspondence"),
 "C03": dict(
  text="Lean 4 theorems over ALL action sequences of a transition system of one region connection (actions = API calls and completions of net.Conn operations with environment-chosen results: every failure position of every Write unit / SetReadDeadline / Read, every initiator — writer, direct sender, reader, timeout, external Close — every interleaving at that granularity): single_owner (counting invariant: every handed call is in exactly one place), at_most_once, no_stranding (done and quiescent => every handed call was completed exactly once or its context had ended), failure_delivers_connErr, refused_after_done. Correspondence: event-log replay of the real region client on a gated in-memory net.Conn + monitors for double completion, stranded calls and refusal after failure.",
  note="Trusted: Lean kernel; Model/Conn.lean is tied to region/client.go by exact replay of the real client's event log (every net.Conn operation gated on a scripted in-memory connection; quiescence by goroutine-state inspection) up to the first mutex contention, after which the Go scheduler decides and only the monitors judge; flushInterval = 0; conn.Close not a separate action; FIFO mutex hand-off; call ids do not wrap.",
  tech="Lean 4 proof (inductive counting invariant over a labelled transition system) + trace replay of the implementation"),
 "C18": dict(
  text="Lean 4 theorems on the same connection model: counter_tracks_outstanding and deadline_tracks_outstanding (in every reachable, not failed, quiescent state the in-flight counter equals the number of registered requests and the read deadline is armed iff something is outstanding — including responses that overtake the return of Write, responses for cancelled calls and multis), idle_never_times_out, timeout_fails_everything. Correspondence: replay + a monitor at every quiescent point of the implementation (counter drift, deadline armed while idle, deadline missing).",
  note="Trusted: Lean kernel; Model/Conn.lean is tied to region/client.go by exact replay of the real client's event log (every net.Conn operation gated on a scripted in-memory connection; quiescence by goroutine-state inspection) up to the first mutex contention, after which the Go scheduler decides and only the monitors judge; flushInterval = 0; conn.Close not a separate action; FIFO mutex hand-off; call ids do not wrap. Wall-clock: only whether a deadline is armed is checked, not its value.",
  tech="Lean 4 proof (invariant relating counter, registered requests, sends in progress and deadline) + trace replay"),
 "C02": dict(
  text="Lean 4 theorems on the same connection model: delivery_correlates (a response-derived result reaches only a call whose request was registered under the wire id of that response), wire_ids_unique / fresh_wire_id (ids strictly increase; two items never share an id), wire_id_per_call. Correspondence: replay with 1..6 concurrent callers grouped into multis, responses in any order, permuted multi results, per-action and per-region exceptions, cells in protobuf form or in the trailing cellblock; every response carries the row of the request it answers and the monitor checks each caller got exactly its own row.",
  note="Trusted: Lean kernel; Model/Conn.lean is tied to region/client.go by exact replay of the real client's event log (every net.Conn operation gated on a scripted in-memory connection; quiescence by goroutine-state inspection) up to the first mutex contention, after which the Go scheduler decides and only the monitors judge; flushInterval = 0; conn.Close not a separate action; FIFO mutex hand-off; call ids do not wrap. The per-action dispatch inside a multi (index, cell counts) is tied by the monitor and by C05/C11, not by this model (which delivers one result class per call).",
  tech="Lean 4 proof (correlation invariant on wire ids) + trace replay with payload-carrying responses"),
}

PENDING = "check not integrated yet (work in progress; see DESIGN.md build order)"

def chk(pid, d):
    return {"property_id": pid, "quick_cmd": f"./check {pid} quick", "thorough_cmd": f"./check {pid} thorough",
            "evidence_file": f"/verif/evidence/{pid}.json", "replay_cmd_template": "./check replay {path}",
            "engine": "lean4-proof+correspondence",
            "level_claimed": {"category": "proof", "text": d["text"], "design_ref": "DESIGN.md §6 " + pid},
            "level_note": d["note"], "technique": d["tech"]}

def main():
    props = [json.loads(l) for l in open(os.path.join(ROOT, "properties.jsonl"))]
    hooks = subprocess.run(["git", "-C", "/repo", "log", "--format=%h", "--grep=^verif hooks"], capture_output=True, text=True).stdout.split()
    m = {
     "version": 1, "setup_cmd": "./setup.sh",
     "hooks": {"guard": "verif",
               "enable": "go build -tags verif (hook files: /repo/verif_hooks.go, /repo/region/verif_hooks.go, /repo/hrpc/verif_hooks.go; new files only, each starting with //go:build verif)",
               "baseline_off_cmd": "cd /repo && GOFLAGS=-mod=mod GOPROXY=off go test -json -vet=off -count=1 -timeout 25m ./...",
               "source_commits": hooks, "add_only": True},
     "engines": [{"name": "lean4-proof+correspondence", "path": "/verif/check", "serves_properties": sorted(CLAIMED),
                  "kind_free_text": "Lean 4 models + kernel-checked theorems (lean/), Gen/ regenerated from /repo by tools/extract on every run, differential correspondence harness (harness/, Go, -tags verif) judged by the Lean driver (lean_exe)"}],
     "checks": [chk(p["id"], CLAIMED[p["id"]]) for p in props if p["id"] in CLAIMED],
     "notes": "See DESIGN.md and BUILDING.md. Genuine defects found and repaired are listed in KNOWN_FINDINGS.txt (fixed: lines) and DESIGN.md.",
     "not_applicable": [{"property_id": p["id"], "reason": PENDING} for p in props if p["id"] not in CLAIMED],
    }
    json.dump(m, open(os.path.join(ROOT, "MANIFEST.json"), "w"), indent=1)
    print("claimed:", sorted(CLAIMED), "pending:", len(m["not_applicable"]))

if __name__ == "__main__":
    main()
