#!/usr/bin/env python3
"""Regenerates /verif/MANIFEST.json from the table below (one entry per integrated property).
Properties without an entry are listed under not_applicable with the reason given in PENDING."""
import json, os, subprocess
ROOT = os.path.dirname(os.path.dirname(os.path.abspath(__file__)))

CLAIMED = json.load(open(os.path.join(ROOT, 'tools', 'claims.json')))

PENDING = "check not integrated yet (work in progress; see DESIGN.md build order)"

def chk(pid, d):
    return {"property_id": pid, "quick_cmd": f"./check {pid} quick", "thorough_cmd": f"./check {pid} thorough",
            "evidence_file": f"/verif/evidence/{pid}.json", "replay_cmd_template": "./check replay {path}",
            "engine": "lean4-proof+correspondence",
            "level_claimed": {"category": "proof", "text": d["text"], "design_ref": "DESIGN.md §6 " + pid},
            "level_note": d["note"], "technique": d["tech"]}

def main():
    props = [json.loads(l) for l in open(os.path.join(ROOT, "properties.jsonl"))]
    hooks = subprocess.run(["git", "-C", "/repo", "log", "--format=%h", "--grep=^verif hook"], capture_output=True, text=True).stdout.split()
    m = {
     "version": 1, "setup_cmd": "./setup.sh",
     "hooks": {"guard": "verif",
               "enable": "go build -tags verif (hook files: /repo/verif_hooks.go, /repo/region/verif_hooks.go, /repo/hrpc/verif_hooks.go; new files only, each starting with //go:build verif)",
               "baseline_off_cmd": "cd /repo && GOFLAGS=-mod=mod GOPROXY=off go test -json -vet=off -count=1 -timeout 25m ./...",
               "source_commits": hooks, "add_only": True},
     "engines": [{"name": "lean4-proof+correspondence", "path": "/verif/check", "serves_properties": sorted(CLAIMED),
                  "kind_free_text": "Lean 4 models + kernel-checked theorems (lean/), Gen/ regenerated from /repo by tools/extract on every run, differential correspondence harness (harness/, Go, -tags verif) judged by the Lean driver (lean_exe)"}],
     "checks": [chk(p["id"], CLAIMED[p["id"]]) for p in props if p["id"] in CLAIMED],
     "notes": "See DESIGN.md and BUILDING.md. Genuine defects found and repaired are listed in KNOWN_FINDINGS.txt (fixed: lines) and DESIGN.md.",
     "not_applicable": [{"property_id": p["id"], "reason": PENDING} for p in props if p["id"] not in CLAIMED],
    }
    json.dump(m, open(os.path.join(ROOT, "MANIFEST.json"), "w"), indent=1)
    print("claimed:", sorted(CLAIMED), "pending:", len(m["not_applicable"]))

if __name__ == "__main__":
    main()
