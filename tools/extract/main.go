// extract: tiny translator from /repo's Go source to Lean definitions under Gen/.
// Purely syntactic (go/parser + go/ast). Fails closed: when a function no longer has
// the shape it knows it emits `shapeOk := false` for that fact group.
package main

import (
	"regexp"
	"bytes"
	"fmt"
	"go/ast"
	"go/parser"
	"go/printer"
	"go/token"
	"os"
	"path/filepath"
	"sort"
	"strconv"
	"strings"
)

var fset = token.NewFileSet()

func printerFprint(b *bytes.Buffer, e ast.Expr) { printer.Fprint(b, fset, e) }

func parse(path string) *ast.File {
	f, err := parser.ParseFile(fset, path, nil, parser.ParseComments)
	if err != nil {
		fmt.Fprintln(os.Stderr, "extract: parse error:", err)
		return nil
	}
	return f
}

func findFunc(f *ast.File, name string) *ast.FuncDecl {
	if f == nil {
		return nil
	}
	for _, d := range f.Decls {
		if fd, ok := d.(*ast.FuncDecl); ok && fd.Name.Name == name {
			return fd
		}
	}
	return nil
}

func findMethod(f *ast.File, recv, name string) *ast.FuncDecl {
	if f == nil {
		return nil
	}
	for _, d := range f.Decls {
		fd, ok := d.(*ast.FuncDecl)
		if !ok || fd.Name.Name != name || fd.Recv == nil || len(fd.Recv.List) == 0 {
			continue
		}
		t := fd.Recv.List[0].Type
		if s, ok := t.(*ast.StarExpr); ok {
			t = s.X
		}
		if id, ok := t.(*ast.Ident); ok && id.Name == recv {
			return fd
		}
	}
	return nil
}

// findValue returns the value expression of a package-level const/var.
func findValue(f *ast.File, name string) ast.Expr {
	if f == nil {
		return nil
	}
	for _, d := range f.Decls {
		gd, ok := d.(*ast.GenDecl)
		if !ok {
			continue
		}
		for _, s := range gd.Specs {
			vs, ok := s.(*ast.ValueSpec)
			if !ok {
				continue
			}
			for i, n := range vs.Names {
				if n.Name == name && i < len(vs.Values) {
					return vs.Values[i]
				}
			}
		}
	}
	return nil
}

var durations = map[string]string{
	"Nanosecond": "1", "Microsecond": "1000", "Millisecond": "1000000",
	"Second": "1000000000", "Minute": "60000000000", "Hour": "3600000000000",
}

var mathConsts = map[string]string{
	"MaxInt16": "32767", "MaxInt32": "2147483647", "MaxInt64": "9223372036854775807",
	"MaxUint16": "65535", "MaxUint32": "4294967295", "MaxUint64": "18446744073709551615",
	"MaxUint8": "255", "MaxInt8": "127",
}

// intExpr translates a Go integer expression to a Lean term; vars maps Go identifiers to
// Lean ones. ok=false when an unknown construct is met.
func intExpr(e ast.Expr, vars map[string]string) (string, bool) {
	switch x := e.(type) {
	case *ast.BasicLit:
		switch x.Kind {
		case token.INT:
			v, err := strconv.ParseInt(x.Value, 0, 64)
			if err != nil {
				u, err2 := strconv.ParseUint(x.Value, 0, 64)
				if err2 != nil {
					return "", false
				}
				return strconv.FormatUint(u, 10), true
			}
			return strconv.FormatInt(v, 10), true
		case token.CHAR:
			r, _, _, err := strconv.UnquoteChar(x.Value[1:len(x.Value)-1], '\'')
			if err != nil {
				return "", false
			}
			return strconv.Itoa(int(r)), true
		}
	case *ast.Ident:
		if v, ok := vars[x.Name]; ok {
			return v, true
		}
	case *ast.ParenExpr:
		s, ok := intExpr(x.X, vars)
		return "(" + s + ")", ok
	case *ast.SelectorExpr:
		if id, ok := x.X.(*ast.Ident); ok {
			if id.Name == "time" {
				if v, ok := durations[x.Sel.Name]; ok {
					return v, true
				}
			}
			if id.Name == "math" {
				if v, ok := mathConsts[x.Sel.Name]; ok {
					return v, true
				}
			}
		}
	case *ast.BinaryExpr:
		l, ok1 := intExpr(x.X, vars)
		r, ok2 := intExpr(x.Y, vars)
		if !ok1 || !ok2 {
			return "", false
		}
		switch x.Op {
		case token.ADD, token.SUB, token.MUL, token.QUO:
			return "(" + l + " " + x.Op.String() + " " + r + ")", true
		}
	}
	return "", false
}

func boolExpr(e ast.Expr, vars map[string]string) (string, bool) {
	if b, ok := e.(*ast.BinaryExpr); ok {
		l, ok1 := intExpr(b.X, vars)
		r, ok2 := intExpr(b.Y, vars)
		if ok1 && ok2 {
			switch b.Op {
			case token.LSS:
				return l + " < " + r, true
			case token.LEQ:
				return l + " ≤ " + r, true
			case token.GTR:
				return l + " > " + r, true
			case token.GEQ:
				return l + " ≥ " + r, true
			case token.EQL:
				return l + " = " + r, true
			case token.NEQ:
				return l + " ≠ " + r, true
			}
		}
	}
	return "", false
}

// ifChain translates `if c1 { return e1, … } else if c2 { return e2, … } … ; return e` (the
// statements stmts) into a Lean if-then-else on the first returned value.
func ifChain(stmts []ast.Stmt, vars map[string]string) (string, bool) {
	if len(stmts) == 0 {
		return "", false
	}
	switch s := stmts[0].(type) {
	case *ast.ReturnStmt:
		if len(s.Results) == 0 {
			return "", false
		}
		return intExpr(s.Results[0], vars)
	case *ast.IfStmt:
		if s.Init != nil {
			return "", false
		}
		c, ok := boolExpr(s.Cond, vars)
		if !ok {
			return "", false
		}
		th, ok := ifChain(s.Body.List, vars)
		if !ok {
			return "", false
		}
		var rest []ast.Stmt
		if s.Else != nil {
			switch e := s.Else.(type) {
			case *ast.BlockStmt:
				rest = e.List
			case *ast.IfStmt:
				rest = []ast.Stmt{e}
			}
			// an else branch that does not return falls through to the following statements
			el, ok := ifChain(append(append([]ast.Stmt{}, rest...), stmts[1:]...), vars)
			if !ok {
				return "", false
			}
			return "if " + c + " then " + th + " else " + el, true
		}
		el, ok := ifChain(stmts[1:], vars)
		if !ok {
			return "", false
		}
		return "if " + c + " then " + th + " else " + el, true
	}
	return "", false
}

type gen struct {
	name string
	buf  bytes.Buffer
	ok   bool
}

func newGen(name string, imports ...string) *gen {
	g := &gen{name: name, ok: true}
	for _, im := range imports {
		fmt.Fprintf(&g.buf, "import GohbaseVerif.Gen.%s\n", im)
	}
	fmt.Fprintf(&g.buf, "/- GENERATED by tools/extract from /repo's working tree. Do not edit. -/\nnamespace GV.Gen.%s\n\n", name)
	return g
}

func (g *gen) def(name, typ, val string) {
	fmt.Fprintf(&g.buf, "def %s : %s := %s\n", name, typ, val)
}

func (g *gen) fail(why string) {
	g.ok = false
	fmt.Fprintf(&g.buf, "-- shape not recognised: %s\n", why)
}

func (g *gen) finish(dir string) {
	fmt.Fprintf(&g.buf, "\ndef shapeOk : Bool := %v\n\nend GV.Gen.%s\n", g.ok, g.name)
	path := filepath.Join(dir, g.name+".lean")
	old, err := os.ReadFile(path)
	if err == nil && bytes.Equal(old, g.buf.Bytes()) {
		return
	}
	if err := os.WriteFile(path, g.buf.Bytes(), 0o644); err != nil {
		fmt.Fprintln(os.Stderr, "extract:", err)
		os.Exit(2)
	}
}

func leanStr(s string) string { return strconv.Quote(s) }

// ---------------------------------------------------------------- Backoff

func genBackoff(repo, out string) {
	g := newGen("Backoff")
	f := parse(filepath.Join(repo, "rpc.go"))
	vars := map[string]string{}
	if v := findValue(f, "backoffStart"); v != nil {
		if s, ok := intExpr(v, vars); ok {
			g.def("backoffStart", "Int", s)
			vars["backoffStart"] = "backoffStart"
		} else {
			g.fail("backoffStart")
			g.def("backoffStart", "Int", "0")
		}
	} else {
		g.fail("backoffStart missing")
		g.def("backoffStart", "Int", "0")
	}
	fd := findFunc(f, "sleepAndIncreaseBackoff")
	next, sleep, zero, ctxCase, ctxRet := "b", "0", "b", false, false
	nCases := 0
	okNext := false
	if fd != nil && fd.Body != nil && len(fd.Type.Params.List) == 2 &&
		len(fd.Type.Params.List[1].Names) == 1 {
		bname := fd.Type.Params.List[1].Names[0].Name
		ctxname := fd.Type.Params.List[0].Names[0].Name
		vars[bname] = "b"
		stmts := fd.Body.List
		// skip the test override
		idx := 0
		if len(stmts) > 0 {
			if is, ok := stmts[0].(*ast.IfStmt); ok {
				if be, ok := is.Cond.(*ast.BinaryExpr); ok {
					if id, ok := be.X.(*ast.Ident); ok && strings.HasSuffix(id.Name, "Override") {
						idx = 1
					}
				}
			}
		}
		// `if backoff == 0 { return backoffStart, nil }`
		foundSelect := -1
		for i := idx; i < len(stmts); i++ {
			if _, ok := stmts[i].(*ast.SelectStmt); ok {
				foundSelect = i
				break
			}
		}
		if foundSelect >= 0 {
			// a timer made before the wait (`t := time.NewTimer(d)`, possibly with `defer t.Stop()`)
			// and received from as `<-t.C` is the same wait as `<-time.After(d)`
			timers := map[string]ast.Expr{}
			var preStmts []ast.Stmt
			for _, st := range stmts[idx:foundSelect] {
				if as, ok := st.(*ast.AssignStmt); ok && len(as.Lhs) == 1 && len(as.Rhs) == 1 {
					if c, ok := as.Rhs[0].(*ast.CallExpr); ok && exprStr(c.Fun) == "time.NewTimer" && len(c.Args) == 1 {
						if id, ok := as.Lhs[0].(*ast.Ident); ok {
							timers[id.Name] = c.Args[0]
							continue
						}
					}
				}
				if d, ok := st.(*ast.DeferStmt); ok && strings.HasSuffix(exprStr(d.Call.Fun), ".Stop") {
					continue
				}
				preStmts = append(preStmts, st)
			}
			pre, ok := ifChain(append(preStmts,
				&ast.ReturnStmt{Results: []ast.Expr{ast.NewIdent(bname)}}), vars)
			if ok {
				zero = pre
			} else {
				g.fail("statements before the wait")
			}
			sel := stmts[foundSelect].(*ast.SelectStmt)
			nCases = len(sel.Body.List)
			for _, c := range sel.Body.List {
				cc := c.(*ast.CommClause)
				var rx ast.Expr
				switch s := cc.Comm.(type) {
				case *ast.ExprStmt:
					if u, ok := s.X.(*ast.UnaryExpr); ok && u.Op == token.ARROW {
						rx = u.X
					}
				case *ast.AssignStmt:
					if len(s.Rhs) == 1 {
						if u, ok := s.Rhs[0].(*ast.UnaryExpr); ok && u.Op == token.ARROW {
							rx = u.X
						}
					}
				}
				if se, ok := rx.(*ast.SelectorExpr); ok && se.Sel.Name == "C" {
					if id, ok := se.X.(*ast.Ident); ok && timers[id.Name] != nil {
						if s, ok := intExpr(timers[id.Name], vars); ok {
							sleep = s
						} else {
							g.fail("time.NewTimer argument")
						}
					}
				}
				call, ok := rx.(*ast.CallExpr)
				if !ok {
					continue
				}
				if se, ok := call.Fun.(*ast.SelectorExpr); ok {
					if id, ok := se.X.(*ast.Ident); ok {
						if id.Name == "time" && se.Sel.Name == "After" && len(call.Args) == 1 {
							if s, ok := intExpr(call.Args[0], vars); ok {
								sleep = s
							} else {
								g.fail("time.After argument")
							}
						}
						if id.Name == ctxname && se.Sel.Name == "Done" {
							ctxCase = true
							for _, b := range cc.Body {
								if r, ok := b.(*ast.ReturnStmt); ok && len(r.Results) == 2 {
									if c2, ok := r.Results[1].(*ast.CallExpr); ok {
										if s2, ok := c2.Fun.(*ast.SelectorExpr); ok && s2.Sel.Name == "Err" {
											ctxRet = true
										}
									}
								}
							}
						}
					}
				}
			}
			// the growth chain: statements after the select that are if/return
			var tail []ast.Stmt
			for _, s := range stmts[foundSelect+1:] {
				switch s.(type) {
				case *ast.IfStmt, *ast.ReturnStmt:
					tail = append(tail, s)
				}
			}
			if s, ok := ifChain(tail, vars); ok {
				next = s
				okNext = true
			}
		} else {
			g.fail("no select in sleepAndIncreaseBackoff")
		}
	} else {
		g.fail("sleepAndIncreaseBackoff signature")
	}
	if !okNext {
		g.fail("growth chain")
	}
	fmt.Fprintf(&g.buf, "/-- value returned without sleeping (the statements before the wait); `b` when it falls through -/\n")
	fmt.Fprintf(&g.buf, "def beforeWait (b : Int) : Int := %s\n", zero)
	fmt.Fprintf(&g.buf, "/-- duration passed to `time.After` -/\ndef sleepFor (b : Int) : Int := %s\n", sleep)
	fmt.Fprintf(&g.buf, "/-- the growth formula after a completed sleep -/\ndef nextBackoff (b : Int) : Int := %s\n", next)
	g.def("waitCases", "Nat", strconv.Itoa(nCases))
	g.def("waitHasCtxCase", "Bool", fmt.Sprint(ctxCase))
	g.def("ctxCaseReturnsErr", "Bool", fmt.Sprint(ctxRet))
	g.finish(out)
}

// ---------------------------------------------------------------- Exceptions

func mapLiteral(e ast.Expr) ([][2]string, bool) {
	cl, ok := e.(*ast.CompositeLit)
	if !ok {
		return nil, false
	}
	var out [][2]string
	for _, el := range cl.Elts {
		kv, ok := el.(*ast.KeyValueExpr)
		if !ok {
			return nil, false
		}
		k, ok1 := kv.Key.(*ast.BasicLit)
		v, ok2 := kv.Value.(*ast.BasicLit)
		if !ok1 || !ok2 {
			return nil, false
		}
		ks, _ := strconv.Unquote(k.Value)
		vs, _ := strconv.Unquote(v.Value)
		out = append(out, [2]string{ks, vs})
	}
	sort.Slice(out, func(i, j int) bool { return out[i][0] < out[j][0] })
	return out, true
}

func genExceptions(repo, out string) {
	g := newGen("Exceptions")
	f := parse(filepath.Join(repo, "region", "client.go"))
	for _, t := range [][2]string{{"javaRegionExceptions", "regionTable"},
		{"javaRetryableExceptions", "retryableTable"}, {"javaServerExceptions", "serverTable"}} {
		var items []string
		if v := findValue(f, t[0]); v != nil {
			if m, ok := mapLiteral(v); ok {
				for _, kv := range m {
					items = append(items, "("+leanStr(kv[0])+", "+leanStr(kv[1])+")")
				}
			} else {
				g.fail(t[0])
			}
		} else {
			g.fail(t[0] + " missing")
		}
		g.def(t[1], "List (String × String)", "["+strings.Join(items, ",\n  ")+"]")
	}
	// precedence: order of the if / else-if arms in exceptionToError, and the error type each returns
	fd := findFunc(f, "exceptionToError")
	var arms []string
	if fd != nil {
		var walk func(s ast.Stmt)
		walk = func(s ast.Stmt) {
			is, ok := s.(*ast.IfStmt)
			if !ok {
				return
			}
			table, typ := "", ""
			if as, ok := is.Init.(*ast.AssignStmt); ok && len(as.Rhs) == 1 {
				if ix, ok := as.Rhs[0].(*ast.IndexExpr); ok {
					if id, ok := ix.X.(*ast.Ident); ok {
						table = id.Name
					}
				}
			}
			contains := false
			ast.Inspect(is.Cond, func(n ast.Node) bool {
				if se, ok := n.(*ast.SelectorExpr); ok && se.Sel.Name == "Contains" {
					contains = true
				}
				return true
			})
			for _, b := range is.Body.List {
				if r, ok := b.(*ast.ReturnStmt); ok && len(r.Results) == 1 {
					if cl, ok := r.Results[0].(*ast.CompositeLit); ok {
						if id, ok := cl.Type.(*ast.Ident); ok {
							typ = id.Name
						}
					}
				}
			}
			if table == "" || typ == "" || !contains {
				g.fail("exceptionToError arm")
			}
			arms = append(arms, "("+leanStr(table)+", "+leanStr(typ)+")")
			if is.Else != nil {
				walk(is.Else)
			}
		}
		for _, s := range fd.Body.List {
			walk(s)
		}
		// final statement must return the plain error
		if last, ok := fd.Body.List[len(fd.Body.List)-1].(*ast.ReturnStmt); !ok || len(last.Results) != 1 {
			g.fail("exceptionToError default")
		} else if _, ok := last.Results[0].(*ast.Ident); !ok {
			g.fail("exceptionToError default is not the plain error")
		}
	} else {
		g.fail("exceptionToError missing")
	}
	g.def("arms", "List (String × String)", "["+strings.Join(arms, ", ")+"]")
	g.finish(out)
}

// ---------------------------------------------------------------- Wire / Cell constants

func genWire(repo, out string) {
	g := newGen("Wire")
	f := parse(filepath.Join(repo, "rpc.go"))
	vars := map[string]string{}
	if v := findValue(f, "maxFindRegionTries"); v != nil {
		if s, ok := intExpr(v, vars); ok {
			g.def("maxFindRegionTries", "Nat", s)
		} else {
			g.fail("maxFindRegionTries")
		}
	} else {
		g.fail("maxFindRegionTries missing")
		g.def("maxFindRegionTries", "Nat", "0")
	}
	// createRegionSearchKey: keylen := math.MaxInt16 - len(table) - 3 ; appended byte literals
	fd := findFunc(f, "createRegionSearchKey")
	maxRow, slack := "0", "0"
	var seps []string
	if fd != nil {
		ast.Inspect(fd.Body, func(n ast.Node) bool {
			switch x := n.(type) {
			case *ast.BinaryExpr:
				// (A - len(table)) - B, wherever it stands (an assignment, an argument of min)
				if b1 := x; b1.Op == token.SUB && maxRow == "0" {
					if b2, ok := b1.X.(*ast.BinaryExpr); ok && b2.Op == token.SUB {
						a, ok1 := intExpr(b2.X, vars)
						c, ok2 := intExpr(b1.Y, vars)
						if call, ok := b2.Y.(*ast.CallExpr); ok && ok1 && ok2 {
							if fn, ok := call.Fun.(*ast.Ident); ok && fn.Name == "len" {
								maxRow, slack = a, c
							}
						}
					}
				}
			case *ast.CallExpr:
				if fn, ok := x.Fun.(*ast.Ident); ok && fn.Name == "append" && len(x.Args) == 2 && x.Ellipsis == token.NoPos {
					if s, ok := intExpr(x.Args[1], vars); ok {
						seps = append(seps, s)
					}
				}
			}
			return true
		})
	}
	if maxRow == "0" || len(seps) != 3 {
		g.fail("createRegionSearchKey")
	}
	g.def("searchKeyMax", "Nat", maxRow)
	g.def("searchKeySlack", "Nat", slack)
	g.def("searchKeySeps", "List UInt8", "["+strings.Join(seps, ", ")+"]")
	// createAllRegionSearchKey appended byte
	var allSeps []string
	if fd := findFunc(f, "createAllRegionSearchKey"); fd != nil {
		ast.Inspect(fd.Body, func(n ast.Node) bool {
			if x, ok := n.(*ast.CallExpr); ok {
				if fn, ok := x.Fun.(*ast.Ident); ok && fn.Name == "append" && len(x.Args) == 2 && x.Ellipsis == token.NoPos {
					if s, ok := intExpr(x.Args[1], vars); ok {
						allSeps = append(allSeps, s)
					}
				}
			}
			return true
		})
	}
	g.def("allRegionsSeps", "List UInt8", "["+strings.Join(allSeps, ", ")+"]")
	// scanner.go: rowPadding
	fs := parse(filepath.Join(repo, "scanner.go"))
	var pad []string
	if v := findValue(fs, "rowPadding"); v != nil {
		if cl, ok := v.(*ast.CompositeLit); ok {
			for _, e := range cl.Elts {
				if s, ok := intExpr(e, vars); ok {
					pad = append(pad, s)
				}
			}
		}
	}
	if len(pad) == 0 {
		g.fail("rowPadding")
	}
	g.def("rowPadding", "List UInt8", "["+strings.Join(pad, ", ")+"]")
	// snappy chunk length
	fsn := parse(filepath.Join(repo, "compression", "snappy", "snappy.go"))
	if v := findValue(fsn, "snappyChunkLen"); v != nil {
		if s, ok := intExpr(v, vars); ok {
			g.def("snappyChunkLen", "Nat", s)
		} else {
			g.fail("snappyChunkLen")
		}
	} else {
		g.fail("snappyChunkLen missing")
		g.def("snappyChunkLen", "Nat", "0")
	}
	// hello preamble
	fc := parse(filepath.Join(repo, "region", "client.go"))
	pre := ""
	if fd := findMethod(fc, "client", "sendHello"); fd != nil {
		ast.Inspect(fd.Body, func(n ast.Node) bool {
			if vs, ok := n.(*ast.ValueSpec); ok && len(vs.Names) == 1 && vs.Names[0].Name == "header" && len(vs.Values) == 1 {
				if bl, ok := vs.Values[0].(*ast.BasicLit); ok {
					pre, _ = strconv.Unquote(bl.Value)
				}
			}
			return true
		})
	}
	var pb []string
	for i := 0; i < len(pre); i++ {
		pb = append(pb, strconv.Itoa(int(pre[i])))
	}
	if len(pb) == 0 {
		g.fail("preamble")
	}
	g.def("preamble", "List UInt8", "["+strings.Join(pb, ", ")+"]")
	g.finish(out)
}

func genCell(repo, out string) {
	g := newGen("Cell")
	f := parse(filepath.Join(repo, "hrpc", "mutate.go"))
	vars := map[string]string{}
	for _, n := range []string{"putType", "deleteType", "deleteFamilyVersionType", "deleteColumnType", "deleteFamilyType"} {
		if v := findValue(f, n); v != nil {
			if s, ok := intExpr(v, vars); ok {
				g.def(n, "Nat", s)
				continue
			}
		}
		g.fail(n)
		g.def(n, "Nat", "0")
	}
	// cellblockLen: three assignments / return over the four parameters
	fd := findFunc(f, "cellblockLen")
	done := false
	if fd != nil && len(fd.Body.List) == 3 {
		v := map[string]string{"rowLen": "r", "familyLen": "f", "qualifierLen": "q", "valueLen": "v"}
		a1, ok1 := fd.Body.List[0].(*ast.AssignStmt)
		a2, ok2 := fd.Body.List[1].(*ast.AssignStmt)
		r3, ok3 := fd.Body.List[2].(*ast.ReturnStmt)
		if ok1 && ok2 && ok3 && len(a1.Lhs) == 1 && len(a2.Lhs) == 1 && len(r3.Results) == 1 {
			s1, k1 := intExpr(a1.Rhs[0], v)
			if k1 {
				v[a1.Lhs[0].(*ast.Ident).Name] = "(" + s1 + ")"
				s2, k2 := intExpr(a2.Rhs[0], v)
				if k2 {
					v[a2.Lhs[0].(*ast.Ident).Name] = "(" + s2 + ")"
					if s3, k3 := intExpr(r3.Results[0], v); k3 {
						fmt.Fprintf(&g.buf, "def cellblockLen (r f q v : Nat) : Nat := %s\n", s3)
						done = true
					}
				}
			}
		}
	}
	if !done {
		g.fail("cellblockLen")
		fmt.Fprintf(&g.buf, "def cellblockLen (r f q v : Nat) : Nat := 0\n")
	}
	g.finish(out)
}

// ---------------------------------------------------------------- Retry loops (rpc.go)

func exprStr(e ast.Expr) string {
	var b bytes.Buffer
	printerFprint(&b, e)
	return b.String()
}

// typeNames returns the type names of a type-switch case clause.
func typeNames(cc *ast.CaseClause) []string {
	var out []string
	for _, e := range cc.List {
		switch x := e.(type) {
		case *ast.SelectorExpr:
			out = append(out, x.Sel.Name)
		case *ast.Ident:
			out = append(out, x.Name)
		}
	}
	if cc.List == nil {
		out = append(out, "default")
	}
	return out
}

type armFacts struct {
	types     []string
	sleeps    bool
	guardVar  string
	guardN    string
	continues bool
	incs      []string
	assigns   []string // identifiers assigned `true` or appended to
}

func analyseArm(body []ast.Stmt) armFacts {
	var f armFacts
	var walk func(n ast.Node, guardVar, guardN string)
	walk = func(n ast.Node, guardVar, guardN string) {
		switch x := n.(type) {
		case *ast.IfStmt:
			gv, gn := guardVar, guardN
			if be, ok := x.Cond.(*ast.BinaryExpr); ok && be.Op == token.GTR {
				if id, ok := be.X.(*ast.Ident); ok {
					if s, ok := intExpr(be.Y, map[string]string{}); ok {
						gv, gn = id.Name, s
					}
				}
			}
			for _, st := range x.Body.List {
				walk(st, gv, gn)
			}
			if x.Else != nil {
				walk(x.Else, guardVar, guardN)
			}
		case *ast.BlockStmt:
			for _, st := range x.List {
				walk(st, guardVar, guardN)
			}
		case *ast.AssignStmt:
			for _, r := range x.Rhs {
				if c, ok := r.(*ast.CallExpr); ok {
					if id, ok := c.Fun.(*ast.Ident); ok {
						if id.Name == "sleepAndIncreaseBackoff" {
							f.sleeps = true
							f.guardVar, f.guardN = guardVar, guardN
						}
						if id.Name == "append" && len(x.Lhs) == 1 {
							if l, ok := x.Lhs[0].(*ast.Ident); ok {
								f.assigns = append(f.assigns, "append:"+l.Name)
							}
						}
					}
				}
				if id, ok := r.(*ast.Ident); ok && id.Name == "true" && len(x.Lhs) == 1 {
					if l, ok := x.Lhs[0].(*ast.Ident); ok {
						f.assigns = append(f.assigns, "true:"+l.Name)
					}
				}
			}
		case *ast.BranchStmt:
			if x.Tok == token.CONTINUE {
				f.continues = true
			}
		case *ast.IncDecStmt:
			if id, ok := x.X.(*ast.Ident); ok && x.Tok == token.INC {
				f.incs = append(f.incs, id.Name)
			}
		}
	}
	for _, st := range body {
		walk(st, "", "")
	}
	return f
}

func leanList(xs []string) string {
	q := make([]string, len(xs))
	for i, x := range xs {
		q[i] = leanStr(x)
	}
	return "[" + strings.Join(q, ", ") + "]"
}

// typeSwitchArms finds the first `switch X.(type)` in fd and analyses its arms.
func typeSwitchArms(fd *ast.FuncDecl) []armFacts {
	var arms []armFacts
	found := false
	ast.Inspect(fd.Body, func(n ast.Node) bool {
		if found {
			return false
		}
		ts, ok := n.(*ast.TypeSwitchStmt)
		if !ok {
			return true
		}
		found = true
		for _, c := range ts.Body.List {
			cc := c.(*ast.CaseClause)
			a := analyseArm(cc.Body)
			a.types = typeNames(cc)
			arms = append(arms, a)
		}
		return false
	})
	return arms
}

// sharedSleepArms reads the other spelling of a retry switch: the arms only decide (`sleep = true`,
// `sleep = counter > N`, or return), and one block after the switch — `if sleep { … sleepAndIncreaseBackoff … }`
// followed by the end of the loop body — does the waiting and the retry. It is rewritten into the
// per-arm facts of the spelling in which every arm sleeps and continues itself; a `default` arm that
// only returns is what falling out of the switch and returning is in that spelling, and is left out.
func sharedSleepArms(fd *ast.FuncDecl, arms []armFacts) []armFacts {
	var flag string
	var ts *ast.TypeSwitchStmt
	var body []ast.Stmt
	ast.Inspect(fd.Body, func(n ast.Node) bool {
		if fs, ok := n.(*ast.ForStmt); ok && ts == nil {
			for i, st := range fs.Body.List {
				if t, ok := st.(*ast.TypeSwitchStmt); ok {
					ts, body = t, fs.Body.List[i+1:]
				}
			}
		}
		return ts == nil
	})
	if ts == nil {
		return arms
	}
	for _, st := range body {
		if is, ok := st.(*ast.IfStmt); ok {
			if id, ok := is.Cond.(*ast.Ident); ok && strings.Contains(nodeStr(is.Body), "sleepAndIncreaseBackoff(") {
				flag = id.Name
			}
		}
	}
	if flag == "" {
		return arms
	}
	var out []armFacts
	for i, c := range ts.Body.List {
		cc := c.(*ast.CaseClause)
		a := arms[i]
		returns := false
		for _, st := range cc.Body {
			switch x := st.(type) {
			case *ast.ReturnStmt:
				returns = true
			case *ast.AssignStmt:
				if len(x.Lhs) == 1 && len(x.Rhs) == 1 && exprStr(x.Lhs[0]) == flag {
					if exprStr(x.Rhs[0]) == "true" {
						a.sleeps = true
					} else if be, ok := x.Rhs[0].(*ast.BinaryExpr); ok && be.Op == token.GTR {
						if id, ok := be.X.(*ast.Ident); ok {
							if n, ok := intExpr(be.Y, map[string]string{}); ok {
								a.sleeps, a.guardVar, a.guardN = true, id.Name, n
							}
						}
					}
				}
			}
		}
		var keep []string
		for _, m := range a.assigns {
			if m != "true:"+flag {
				keep = append(keep, m)
			}
		}
		a.assigns = keep
		a.continues = !returns
		if returns && !a.sleeps && len(a.incs) == 0 && len(a.assigns) == 0 && len(a.types) == 1 && a.types[0] == "default" {
			continue
		}
		out = append(out, a)
	}
	return out
}

func emitArms(g *gen, name string, arms []armFacts) {
	var items []string
	for _, a := range arms {
		sort.Strings(a.types)
		sort.Strings(a.assigns)
		gn := a.guardN
		if gn == "" {
			gn = "0"
		}
		items = append(items, fmt.Sprintf("{ types := %s, sleeps := %v, guardVar := %s, guardN := %s, continues := %v, incs := %s, marks := %s }",
			leanList(a.types), a.sleeps, leanStr(a.guardVar), gn, a.continues, leanList(a.incs), leanList(a.assigns)))
	}
	g.def(name, "List Arm", "[\n  "+strings.Join(items, ",\n  ")+"]")
}

// loopFacts: initial value of `backoff` and the sleepAndIncreaseBackoff call sites of a function.
func loopFacts(g *gen, fd *ast.FuncDecl, prefix string) {
	init := "none"
	var ctxs []string
	assignedBack := 0
	// the back-off variable: what is handed to sleepAndIncreaseBackoff (today it is called `backoff`)
	bvar := "backoff"
	if fd != nil {
		ast.Inspect(fd.Body, func(n ast.Node) bool {
			if c, ok := n.(*ast.CallExpr); ok {
				if id, ok := c.Fun.(*ast.Ident); ok && id.Name == "sleepAndIncreaseBackoff" && len(c.Args) == 2 {
					if a, ok := c.Args[1].(*ast.Ident); ok {
						bvar = a.Name
					}
				}
			}
			return true
		})
	}
	names := canonNames(fd)
	if fd != nil {
		ast.Inspect(fd.Body, func(n ast.Node) bool {
			switch x := n.(type) {
			case *ast.AssignStmt:
				if x.Tok == token.DEFINE && len(x.Lhs) == 1 && len(x.Rhs) == 1 {
					if id, ok := x.Lhs[0].(*ast.Ident); ok && id.Name == bvar {
						if s, ok := intExpr(x.Rhs[0], map[string]string{"backoffStart": "Backoff.backoffStart"}); ok {
							init = "some (" + s + ")"
						}
					}
				}
				for _, r := range x.Rhs {
					if c, ok := r.(*ast.CallExpr); ok {
						if id, ok := c.Fun.(*ast.Ident); ok && id.Name == "sleepAndIncreaseBackoff" && len(c.Args) == 2 {
							ctxs = append(ctxs, canonStr(exprStr(c.Args[0]), names))
							if l, ok := x.Lhs[0].(*ast.Ident); ok && l.Name == bvar {
								if a, ok := c.Args[1].(*ast.Ident); ok && a.Name == bvar {
									assignedBack++
								}
							}
						}
					}
				}
			case *ast.ValueSpec:
				for _, nm := range x.Names {
					if nm.Name == bvar && len(x.Values) == 0 {
						init = "some 0"
					}
				}
			}
			return true
		})
	} else {
		g.fail(prefix + " missing")
	}
	g.def(prefix+"_initBackoff", "Option Int", init)
	g.def(prefix+"_sleepCtx", "List String", leanList(ctxs))
	g.def(prefix+"_sleepThreadsBackoff", "Nat", strconv.Itoa(assignedBack))
}

func genRetryLoop(repo, out string) {
	g := newGen("RetryLoop", "Backoff")
	fmt.Fprintf(&g.buf, "structure Arm where\n  types : List String\n  sleeps : Bool\n  guardVar : String\n  guardN : Int\n  continues : Bool\n  incs : List String\n  marks : List String\n  deriving Repr, DecidableEq\n\n")
	f := parse(filepath.Join(repo, "rpc.go"))
	// the counters that bound the immediate retries are locals: they go by the names they have today
	// ("serverErrorCount" in SendRPC, "immediateRetries" in SendBatch) whatever they are called
	counterName := map[string]string{"SendRPC": "serverErrorCount", "SendBatch": "immediateRetries"}
	if fd := findMethod(f, "client", "SendRPC"); fd != nil {
		arms := typeSwitchArms(fd)
		arms = sharedSleepArms(fd, arms)
		for _, a := range arms {
			if a.guardVar != "" {
				counterName["SendRPC"] = a.guardVar
			}
		}
		for i := range arms {
			if arms[i].guardVar == counterName["SendRPC"] {
				arms[i].guardVar = "serverErrorCount"
			}
			for j := range arms[i].incs {
				if arms[i].incs[j] == counterName["SendRPC"] {
					arms[i].incs[j] = "serverErrorCount"
				}
			}
		}
		emitArms(g, "sendRPCArms", arms)
	} else {
		g.fail("SendRPC")
		g.def("sendRPCArms", "List Arm", "[]")
	}
	if fd := findMethod(f, "client", "waitForCompletion"); fd != nil {
		// the type switch is inside the handleResult closure or the loop; first one found
		emitArms(g, "waitForCompletionArms", typeSwitchArms(fd))
	} else {
		g.fail("waitForCompletion")
		g.def("waitForCompletionArms", "List Arm", "[]")
	}
	if fd := findMethod(f, "client", "handleResultError"); fd != nil {
		arms := typeSwitchArms(fd)
		var items []string
		for _, a := range arms {
			sort.Strings(a.types)
			items = append(items, leanList(a.types))
		}
		sort.Strings(items) // clauses for distinct concrete types: their order is immaterial
		g.def("handleResultErrorArms", "List (List String)", "["+strings.Join(items, ", ")+"]")
	} else {
		g.fail("handleResultError")
		g.def("handleResultErrorArms", "List (List String)", "[]")
	}
	if fd := findFunc(f, "isRegionEstablished"); fd != nil {
		arms := typeSwitchArms(fd)
		var items []string
		for _, a := range arms {
			sort.Strings(a.types)
			items = append(items, leanList(a.types))
		}
		sort.Strings(items)
		g.def("isRegionEstablishedArms", "List (List String)", "["+strings.Join(items, ", ")+"]")
	} else {
		g.fail("isRegionEstablished")
		g.def("isRegionEstablishedArms", "List (List String)", "[]")
	}
	loopFacts(g, findMethod(f, "client", "SendRPC"), "sendRPC")
	loopFacts(g, findMethod(f, "client", "SendBatch"), "sendBatch")
	loopFacts(g, findMethod(f, "client", "lookupRegion"), "lookupRegion")
	loopFacts(g, findMethod(f, "client", "lookupAllRegions"), "lookupAllRegions")
	loopFacts(g, findMethod(f, "client", "establishRegion"), "establishRegion")
	loopFacts(g, findMethod(parse(filepath.Join(repo, "admin_client.go")), "client", "checkProcedureWithBackoff"), "checkProcedure")
	// SendBatch: `needBackoff = immediateRetries > N`
	guard := "none"
	if fd := findMethod(f, "client", "SendBatch"); fd != nil {
		ast.Inspect(fd.Body, func(n ast.Node) bool {
			if as, ok := n.(*ast.AssignStmt); ok && len(as.Lhs) == 1 && len(as.Rhs) == 1 {
				if l, ok := as.Lhs[0].(*ast.Ident); ok && l.Name == "needBackoff" {
					if be, ok := as.Rhs[0].(*ast.BinaryExpr); ok && be.Op == token.GTR {
						if s, ok := intExpr(be.Y, map[string]string{}); ok {
							if id, ok := be.X.(*ast.Ident); ok {
								counterName["SendBatch"] = id.Name
								guard = "some (" + leanStr("immediateRetries") + ", " + s + ")"
							}
						}
					}
				}
			}
			return true
		})
	}
	g.def("sendBatch_immediateGuard", "Option (String × Int)", guard)
	// every statement that writes one of the retry counters (a reset of a counter defeats the bound)
	for _, fv := range [][2]string{{"SendRPC", "serverErrorCount"}, {"SendBatch", "immediateRetries"}} {
		var writes []string
		if fd := findMethod(f, "client", fv[0]); fd != nil {
			ast.Inspect(fd.Body, func(n ast.Node) bool {
				switch x := n.(type) {
				case *ast.AssignStmt:
					for i, l := range x.Lhs {
						if id, ok := l.(*ast.Ident); ok && id.Name == counterName[fv[0]] {
							rhs := "?"
							if i < len(x.Rhs) {
								rhs = exprStr(x.Rhs[i])
							}
							writes = append(writes, x.Tok.String()+rhs)
						}
					}
				case *ast.IncDecStmt:
					if id, ok := x.X.(*ast.Ident); ok && id.Name == counterName[fv[0]] {
						writes = append(writes, x.Tok.String())
					}
				}
				return true
			})
		}
		g.def(strings.ToLower(fv[0][:1])+fv[0][1:]+"_"+fv[1]+"_writes", "List String", leanList(writes))
	}
	g.finish(out)
}

// ---------------------------------------------------------------- Selects / blocking operations

type selFact struct {
	file, fn string
	ord      int
	cases    []string
}

func commStr(c ast.Stmt) string {
	switch x := c.(type) {
	case nil:
		return "default"
	case *ast.SendStmt:
		return "send:" + exprStr(x.Chan)
	case *ast.ExprStmt:
		if u, ok := x.X.(*ast.UnaryExpr); ok && u.Op == token.ARROW {
			return "recv:" + exprStr(u.X)
		}
	case *ast.AssignStmt:
		if len(x.Rhs) == 1 {
			if u, ok := x.Rhs[0].(*ast.UnaryExpr); ok && u.Op == token.ARROW {
				return "recv:" + exprStr(u.X)
			}
		}
	}
	return "?"
}

// canonNames maps the receiver of fd and its context.Context parameters to the names the code
// uses today (so that renaming a receiver or a context parameter regenerates the same facts):
// the receiver by its type, a context parameter to "ctx".
func canonNames(fd *ast.FuncDecl) map[string]string {
	m := map[string]string{}
	if fd == nil {
		return m
	}
	if fd.Recv != nil && len(fd.Recv.List) == 1 && len(fd.Recv.List[0].Names) == 1 {
		canon := map[string]string{"client": "c", "scanner": "s", "multi": "m", "info": "i",
			"clientRegionCache": "rcc", "keyRegionCache": "krc"}
		rt := strings.Split(funcName(fd), ".")[0]
		if c, ok := canon[rt]; ok && fd.Recv.List[0].Names[0].Name != c {
			m[fd.Recv.List[0].Names[0].Name] = c
		}
	}
	if fd.Type.Params != nil {
		for _, p := range fd.Type.Params.List {
			if exprStr(p.Type) == "context.Context" && len(p.Names) == 1 && p.Names[0].Name != "ctx" {
				m[p.Names[0].Name] = "ctx"
			}
		}
	}
	return m
}

// canonStr rewrites the identifiers of canonNames where they start a selector chain (`x.` → `c.`)
// or stand alone.
func canonStr(s string, names map[string]string) string {
	for from, to := range names {
		re := regexp.MustCompile(`(^|[^A-Za-z0-9_.])` + regexp.QuoteMeta(from) + `($|[^A-Za-z0-9_])`)
		for i := 0; i < 4; i++ {
			s = re.ReplaceAllString(s, "${1}"+to+"${2}")
		}
	}
	return s
}

var resultChanRe = regexp.MustCompile(`^[A-Za-z_][A-Za-z0-9_]*\.ResultChan\(\)$`)

// resultChanCanon: the result channel of a call held in a local variable, whatever it is named.
func resultChanCanon(s string) string {
	if resultChanRe.MatchString(s) {
		return "call.ResultChan()"
	}
	return s
}

func funcName(fd *ast.FuncDecl) string {
	if fd.Recv != nil && len(fd.Recv.List) > 0 {
		t := fd.Recv.List[0].Type
		if st, ok := t.(*ast.StarExpr); ok {
			t = st.X
		}
		if id, ok := t.(*ast.Ident); ok {
			return id.Name + "." + fd.Name.Name
		}
	}
	return fd.Name.Name
}

func genSelects(repo, out string) {
	g := newGen("Selects")
	fmt.Fprintf(&g.buf, "structure Sel where\n  file : String\n  fn : String\n  ord : Nat\n  cases : List String\n  deriving Repr, DecidableEq\n\n")
	fmt.Fprintf(&g.buf, "structure Bare where\n  file : String\n  fn : String\n  kind : String\n  expr : String\n  deriving Repr, DecidableEq\n\n")
	fmt.Fprintf(&g.buf, "structure GoStmt where\n  file : String\n  fn : String\n  call : String\n  guard : String\n  deriving Repr, DecidableEq\n\n")
	// The facts are per package ("gohbase" = the root package, "region"), not per file, and a helper
	// that is not one of the functions the theorems name is read as part of its callers, at each call
	// site: moving a function to another file of its package, or extracting a block into a new helper
	// (a refactoring that keeps every wait where it was on the caller's path), leaves the facts as
	// they are. A new function that blocks and that no named function calls is listed under its own
	// name (and is then an unlisted wait for the theorems).
	anchors := map[string]bool{}
	for _, a := range strings.Fields(`gohbase:client.Close gohbase:client.CreateSnapshot gohbase:client.MarshalJSON
		gohbase:client.clientDown gohbase:client.establishRegion gohbase:client.findAllRegions gohbase:client.findRegion
		gohbase:client.getRegionAndClientForRPC gohbase:client.handleResultError gohbase:client.lookupRegion
		gohbase:client.reestablishRegion gohbase:client.waitForCompletion gohbase:client.zkLookup gohbase:scanner.Next
		gohbase:scanner.closeRegionScanner gohbase:scanner.peek gohbase:scanner.renewLoop gohbase:sendBlocking
		gohbase:sleepAndIncreaseBackoff region:client.Dial region:client.MarshalJSON region:client.QueueBatch
		region:client.QueueRPC region:client.fail region:client.processRPCs region:client.receive region:client.receiveRPCs
		region:multi.returnResults region:returnResult
		gohbase:client.SendRPC gohbase:client.SendBatch gohbase:client.findClients gohbase:client.sendBatchToRegionServers
		gohbase:client.lookupAllRegions gohbase:client.metaLookup gohbase:client.metaLookupForTable
		gohbase:client.checkProcedureWithBackoff gohbase:scanner.fetch gohbase:scanner.request gohbase:scanner.Close
		gohbase:scanner.renew region:client.send region:client.trySend region:client.sendHello region:client.Close`) {
		anchors[a] = true
	}
	type pkgFile struct {
		rel string
		f   *ast.File
	}
	var sels, bares, gos []string
	for _, pk := range []struct{ label, dir string }{{"gohbase", ""}, {"region", "region"}} {
		ents, err := os.ReadDir(filepath.Join(repo, pk.dir))
		if err != nil {
			g.fail("cannot list " + pk.dir)
			continue
		}
		var pfiles []pkgFile
		decls := map[string]*ast.FuncDecl{}
		for _, e := range ents {
			n := e.Name()
			if e.IsDir() || !strings.HasSuffix(n, ".go") || strings.HasSuffix(n, "_test.go") || n == "verif_hooks.go" || n == "prometheus.go" {
				continue
			}
			f := parse(filepath.Join(repo, pk.dir, n))
			if f == nil {
				g.fail("cannot parse " + n)
				continue
			}
			pfiles = append(pfiles, pkgFile{n, f})
			for _, d := range f.Decls {
				if fd, ok := d.(*ast.FuncDecl); ok && fd.Body != nil {
					decls[funcName(fd)] = fd
				}
			}
		}
		// the declaration a call refers to, when it is a function or method of this package
		callee := func(within *ast.FuncDecl, ce *ast.CallExpr) *ast.FuncDecl {
			switch fn := ce.Fun.(type) {
			case *ast.Ident:
				return decls[fn.Name]
			case *ast.SelectorExpr:
				// a method called on the receiver of the enclosing method
				if within.Recv != nil && len(within.Recv.List) == 1 && len(within.Recv.List[0].Names) == 1 {
					if id, ok := fn.X.(*ast.Ident); ok && id.Name == within.Recv.List[0].Names[0].Name {
						rt := strings.Split(funcName(within), ".")[0]
						return decls[rt+"."+fn.Sel.Name]
					}
				}
			}
			return nil
		}
		// non-anchor helpers reached from an anchor are not reported on their own
		inlined := map[string]bool{}
		var curFn *ast.FuncDecl // the function whose body is being read (a helper while it is inlined)
		var inspectInl func(within *ast.FuncDecl, n ast.Node, depth int, visit func(ast.Node) bool)
		inspectInl = func(within *ast.FuncDecl, n ast.Node, depth int, visit func(ast.Node) bool) {
			prev := curFn
			curFn = within
			defer func() { curFn = prev }()
			ast.Inspect(n, func(m ast.Node) bool {
				if !visit(m) {
					return false
				}
				if ce, ok := m.(*ast.CallExpr); ok && depth < 4 {
					if h := callee(within, ce); h != nil && h != within && !anchors[pk.label+":"+funcName(h)] {
						inlined[funcName(h)] = true
						if os.Getenv("EXTRACT_DEBUG") != "" {
							fmt.Fprintln(os.Stderr, "inline", pk.label, funcName(within), "<-", funcName(h))
						}
						inspectInl(h, h.Body, depth+1, visit)
						curFn = within
					}
				}
				return true
			})
		}
		// first pass: which helpers are inlined somewhere (from an anchor or from another reported function)
		var order []*ast.FuncDecl
		for _, pf := range pfiles {
			for _, d := range pf.f.Decls {
				if fd, ok := d.(*ast.FuncDecl); ok && fd.Body != nil {
					order = append(order, fd)
				}
			}
		}
		sort.SliceStable(order, func(i, j int) bool { return funcName(order[i]) < funcName(order[j]) })
		for _, fd := range order {
			if anchors[pk.label+":"+funcName(fd)] {
				inspectInl(fd, fd.Body, 0, func(ast.Node) bool { return true })
			}
		}
		rel := pk.label
		for _, fd := range order {
			if !anchors[pk.label+":"+funcName(fd)] && inlined[funcName(fd)] {
				continue
			}
			name := funcName(fd)
			ord := 0
			// positions of channel operations that belong to a select's comm clauses
			inSelect := map[token.Pos]bool{}
			inspectInl(fd, fd.Body, 0, func(n ast.Node) bool {
				if ss, ok := n.(*ast.SelectStmt); ok {
					var cs []string
					for _, c := range ss.Body.List {
						cc := c.(*ast.CommClause)
						cs = append(cs, canonStr(commStr(cc.Comm), canonNames(curFn)))
						if cc.Comm != nil {
							ast.Inspect(cc.Comm, func(m ast.Node) bool {
								if m != nil {
									inSelect[m.Pos()] = true
								}
								return true
							})
						}
					}
					sort.Strings(cs)
					sels = append(sels, fmt.Sprintf("{ file := %s, fn := %s, ord := %d, cases := %s }",
						leanStr(rel), leanStr(name), ord, leanList(cs)))
					ord++
				}
				return true
			})
			// go statements with the innermost enclosing if-condition
			var walkGo func(n ast.Node, guard string)
			walkGo = func(n ast.Node, guard string) {
				switch x := n.(type) {
				case *ast.IfStmt:
					if x.Init != nil {
						walkGo(x.Init, guard)
					}
					walkGo(x.Body, exprStr(x.Cond))
					if x.Else != nil {
						walkGo(x.Else, guard)
					}
					return
				case *ast.GoStmt:
					callee := "func-literal"
					if _, isLit := x.Call.Fun.(*ast.FuncLit); !isLit {
						callee = exprStr(x.Call.Fun)
					}
					gos = append(gos, fmt.Sprintf("{ file := %s, fn := %s, call := %s, guard := %s }",
						leanStr(rel), leanStr(name), leanStr(callee), leanStr(guard)))
					if lit, isLit := x.Call.Fun.(*ast.FuncLit); isLit {
						walkGo(lit.Body, guard)
					}
					return
				case *ast.FuncLit:
					walkGo(x.Body, guard)
					return
				}
				if n == nil {
					return
				}
				ast.Inspect(n, func(m ast.Node) bool {
					if m == n || m == nil {
						return true
					}
					switch m.(type) {
					case *ast.IfStmt, *ast.GoStmt, *ast.FuncLit:
						walkGo(m, guard)
						return false
					}
					return true
				})
			}
			walkGo(fd.Body, "")
			// bare blocking operations
			inspectInl(fd, fd.Body, 0, func(n ast.Node) bool {
				switch x := n.(type) {
				case *ast.SendStmt:
					if !inSelect[x.Pos()] {
						bares = append(bares, fmt.Sprintf("{ file := %s, fn := %s, kind := \"send\", expr := %s }",
							leanStr(rel), leanStr(name), leanStr(resultChanCanon(canonStr(exprStr(x.Chan), canonNames(curFn))))))
					}
				case *ast.UnaryExpr:
					if x.Op == token.ARROW && !inSelect[x.Pos()] {
						bares = append(bares, fmt.Sprintf("{ file := %s, fn := %s, kind := \"recv\", expr := %s }",
							leanStr(rel), leanStr(name), leanStr(canonStr(exprStr(x.X), canonNames(curFn)))))
					}
				case *ast.CallExpr:
					if se, ok := x.Fun.(*ast.SelectorExpr); ok {
						full := exprStr(x.Fun)
						switch {
						case full == "time.Sleep":
							bares = append(bares, fmt.Sprintf("{ file := %s, fn := %s, kind := \"sleep\", expr := %s }",
								leanStr(rel), leanStr(name), leanStr(exprStr(x))))
						case se.Sel.Name == "Wait" || (se.Sel.Name == "Do" && strings.HasSuffix(strings.ToLower(exprStr(se.X)), "once")):
							bares = append(bares, fmt.Sprintf("{ file := %s, fn := %s, kind := %s, expr := %s }",
								leanStr(rel), leanStr(name), leanStr(strings.ToLower(se.Sel.Name)), leanStr(canonStr(exprStr(se.X), canonNames(curFn)))))
						}
					}
				case *ast.RangeStmt:
					_ = x
				}
				return true
			})
		}
	}
	g.def("selects", "List Sel", "[\n  "+strings.Join(sels, ",\n  ")+"]")
	g.def("bareOps", "List Bare", "[\n  "+strings.Join(bares, ",\n  ")+"]")
	g.def("goStmts", "List GoStmt", "[\n  "+strings.Join(gos, ",\n  ")+"]")
	g.finish(out)
}

// ---------------------------------------------------------------- Exits / lock-protected flags

// callNames lists the selector names of the calls made directly by the statements of a block
// (not descending into nested blocks of if/for, but including their conditions).
func callNames(stmts []ast.Stmt) []string {
	var out []string
	add := func(n ast.Node) {
		ast.Inspect(n, func(m ast.Node) bool {
			switch x := m.(type) {
			case *ast.BlockStmt, *ast.FuncLit:
				_ = x
				return false
			case *ast.CallExpr:
				switch f := x.Fun.(type) {
				case *ast.SelectorExpr:
					out = append(out, exprStr(f.X)+"."+f.Sel.Name)
				case *ast.Ident:
					out = append(out, f.Name)
				}
			}
			return true
		})
	}
	for _, st := range stmts {
		switch x := st.(type) {
		case *ast.IfStmt:
			if x.Init != nil {
				add(x.Init)
			}
			add(x.Cond)
		case *ast.ForStmt, *ast.RangeStmt, *ast.SwitchStmt, *ast.TypeSwitchStmt, *ast.SelectStmt, *ast.BlockStmt:
		default:
			add(st)
		}
	}
	return out
}

func nodeStr(n ast.Node) string {
	var b bytes.Buffer
	printer.Fprint(&b, fset, n)
	return b.String()
}

func genExits(repo, out string) {
	g := newGen("Exits")
	fmt.Fprintf(&g.buf, "structure Exit where\n  fn : String\n  ord : Nat\n  calls : List String\n  deriving Repr, DecidableEq\n\n")
	f := parse(filepath.Join(repo, "rpc.go"))
	var exits []string
	for _, name := range []string{"establishRegion", "reestablishRegion"} {
		fd := findMethod(f, "client", name)
		if fd == nil {
			g.fail(name + " missing")
			continue
		}
		ord := 0
		var walk func(stmts []ast.Stmt)
		walk = func(stmts []ast.Stmt) {
			for i, st := range stmts {
				switch x := st.(type) {
				case *ast.ReturnStmt:
					exits = append(exits, fmt.Sprintf("{ fn := %s, ord := %d, calls := %s }", leanStr(name), ord, leanList(callNames(stmts[:i]))))
					ord++
				case *ast.IfStmt:
					var w func(is *ast.IfStmt)
					w = func(is *ast.IfStmt) {
						walk(is.Body.List)
						switch e := is.Else.(type) {
						case *ast.BlockStmt:
							walk(e.List)
						case *ast.IfStmt:
							w(e)
						}
					}
					w(x)
				case *ast.ForStmt:
					walk(x.Body.List)
				case *ast.BlockStmt:
					walk(x.List)
				case *ast.SelectStmt:
					for _, c := range x.Body.List {
						walk(c.(*ast.CommClause).Body)
					}
				case *ast.SwitchStmt:
					for _, c := range x.Body.List {
						walk(c.(*ast.CaseClause).Body)
					}
				}
			}
		}
		walk(fd.Body.List)
	}
	g.def("exits", "List Exit", "[\n  "+strings.Join(exits, ",\n  ")+"]")
	// establishRegion: `if client == nil { return }` right after the clients.put assignment
	nilCheck := false
	if fd := findMethod(f, "client", "establishRegion"); fd != nil {
		ast.Inspect(fd.Body, func(n ast.Node) bool {
			bs, ok := n.(*ast.BlockStmt)
			if !ok {
				return true
			}
			for i, st := range bs.List {
				as, ok := st.(*ast.AssignStmt)
				if !ok || len(as.Rhs) != 1 || i+1 >= len(bs.List) {
					continue
				}
				if c, ok := as.Rhs[0].(*ast.CallExpr); ok && exprStr(c.Fun) == "c.clients.put" {
					if is, ok := bs.List[i+1].(*ast.IfStmt); ok && exprStr(is.Cond) == exprStr(as.Lhs[0])+" == nil" &&
						len(is.Body.List) > 0 {
						if _, ok := is.Body.List[len(is.Body.List)-1].(*ast.ReturnStmt); ok {
							nilCheck = true
						}
					}
				}
			}
			return true
		})
	}
	g.def("establishReturnsWhenPutRefuses", "Bool", fmt.Sprint(nilCheck))
	// caches.go: put checks `closed` first under the lock and returns nil; closeAll sets it under the lock
	fc := parse(filepath.Join(repo, "caches.go"))
	putOk, closeOk := false, false
	if fd := findMethod(fc, "clientRegionCache", "put"); fd != nil && len(fd.Body.List) >= 2 {
		if es, ok := fd.Body.List[0].(*ast.ExprStmt); ok && exprStr(es.X) == "rcc.m.Lock()" {
			if is, ok := fd.Body.List[1].(*ast.IfStmt); ok && exprStr(is.Cond) == "rcc.closed" && len(is.Body.List) >= 2 {
				u, ok1 := is.Body.List[0].(*ast.ExprStmt)
				r, ok2 := is.Body.List[len(is.Body.List)-1].(*ast.ReturnStmt)
				// between the unlock and the return: nothing but log lines
				onlyLogs := true
				for _, st := range is.Body.List[1 : len(is.Body.List)-1] {
					if es, ok := st.(*ast.ExprStmt); !ok || !strings.Contains(exprStr(es.X), "logger.") {
						onlyLogs = false
					}
				}
				if ok1 && ok2 && onlyLogs && exprStr(u.X) == "rcc.m.Unlock()" && len(r.Results) == 1 && exprStr(r.Results[0]) == "nil" {
					putOk = true
				}
			}
		}
	}
	if fd := findMethod(fc, "clientRegionCache", "closeAll"); fd != nil {
		locked := false
		for _, st := range fd.Body.List {
			if es, ok := st.(*ast.ExprStmt); ok {
				switch exprStr(es.X) {
				case "rcc.m.Lock()":
					locked = true
				case "rcc.m.Unlock()":
					locked = false
				}
			}
			if as, ok := st.(*ast.AssignStmt); ok && locked && len(as.Lhs) == 1 && exprStr(as.Lhs[0]) == "rcc.closed" && exprStr(as.Rhs[0]) == "true" {
				closeOk = true
			}
		}
	}
	g.def("putRefusesWhenClosedUnderLock", "Bool", fmt.Sprint(putOk))
	g.def("closeAllSetsClosedUnderLock", "Bool", fmt.Sprint(closeOk))
	// region/new.go: the dialer is only called inside dialOnce.Do
	fn := parse(filepath.Join(repo, "region", "new.go"))
	dialInOnce, dialOutside := false, false
	if fd := findMethod(fn, "client", "Dial"); fd != nil {
		ast.Inspect(fd.Body, func(n ast.Node) bool {
			if c, ok := n.(*ast.CallExpr); ok && exprStr(c.Fun) == "c.dialOnce.Do" {
				ast.Inspect(c, func(m ast.Node) bool {
					if cc, ok := m.(*ast.CallExpr); ok && exprStr(cc.Fun) == "c.dialer" {
						dialInOnce = true
					}
					return true
				})
				return false
			}
			if c, ok := n.(*ast.CallExpr); ok && exprStr(c.Fun) == "c.dialer" {
				dialOutside = true
			}
			return true
		})
	}
	g.def("dialerOnlyInsideOnce", "Bool", fmt.Sprint(dialInOnce && !dialOutside))
	// the three places that publish a freshly parsed region object through regions.put: every call
	// in source order (the Lean side checks that `reg.MarkUnavailable` comes first)
	var sites []string
	for _, name := range []string{"findRegion", "findAllRegions", "establishRegion"} {
		fd := findMethod(f, "client", name)
		if fd == nil {
			g.fail(name + " missing")
			continue
		}
		var calls []string
		ast.Inspect(fd.Body, func(n ast.Node) bool {
			if c, ok := n.(*ast.CallExpr); ok {
				switch fn := c.Fun.(type) {
				case *ast.SelectorExpr:
					calls = append(calls, exprStr(fn.X)+"."+fn.Sel.Name)
				case *ast.Ident:
					calls = append(calls, fn.Name)
				}
				if exprStr(c.Fun) == "c.regions.put" && len(c.Args) == 1 {
					calls[len(calls)-1] += "(" + exprStr(c.Args[0]) + ")"
				}
			}
			return true
		})
		sites = append(sites, fmt.Sprintf("(%s, %s)", leanStr(name), leanList(calls)))
	}
	// region/client.go fail(): the calls inside failOnce.Do in source order. The model treats the
	// failure transition as one step; what that needs from the code is the order "done closed,
	// connection closed, then the sweep of the sent map" (a call registered after the sweep can
	// then only meet a failing write, and its own sender completes it)
	frc := parse(filepath.Join(repo, "region", "client.go"))
	var failCalls []string
	if fd := findMethod(frc, "client", "fail"); fd != nil {
		ast.Inspect(fd.Body, func(n ast.Node) bool {
			if c, ok := n.(*ast.CallExpr); ok {
				switch fn := c.Fun.(type) {
				case *ast.SelectorExpr:
					failCalls = append(failCalls, exprStr(fn.X)+"."+fn.Sel.Name)
				case *ast.Ident:
					if fn.Name == "close" && len(c.Args) == 1 {
						failCalls = append(failCalls, "close("+exprStr(c.Args[0])+")")
					} else {
						failCalls = append(failCalls, fn.Name)
					}
				}
			}
			return true
		})
	} else {
		g.fail("region client fail missing")
	}
	g.def("failCalls", "List String", leanList(failCalls))
	// region/info.go infoFromCell: the check on the meta row key before it becomes a region name
	fri := parse(filepath.Join(repo, "region", "info.go"))
	rowCheck := ""
	if fd := findFunc(fri, "infoFromCell"); fd != nil {
		ast.Inspect(fd.Body, func(n ast.Node) bool {
			is, ok := n.(*ast.IfStmt)
			if !ok || len(is.Body.List) == 0 {
				return true
			}
			ret, ok := is.Body.List[len(is.Body.List)-1].(*ast.ReturnStmt)
			if !ok || len(ret.Results) != 2 || !strings.Contains(exprStr(ret.Results[1]), "invalid region name") {
				return true
			}
			init := ""
			if is.Init != nil {
				var b bytes.Buffer
				printer.Fprint(&b, fset, is.Init)
				init = b.String() + "; "
			}
			rowCheck = init + exprStr(is.Cond)
			return true
		})
	}
	// rpc.go establishRegion: what is passed as the read timeout (6th argument) to every
	// newRegionClientFn call; and the options the admin client / regular client store
	var rtArgs []string
	if fd := findMethod(f, "client", "establishRegion"); fd != nil {
		ast.Inspect(fd.Body, func(n ast.Node) bool {
			if c, ok := n.(*ast.CallExpr); ok && exprStr(c.Fun) == "c.newRegionClientFn" {
				if len(c.Args) >= 6 {
					rtArgs = append(rtArgs, exprStr(c.Args[5]))
				} else {
					rtArgs = append(rtArgs, "?")
				}
			}
			return true
		})
	}
	// rpc.go establishRegion: the retry loop ends, on every path that does not return, with
	// `addr = ""` — the next iteration looks the region up again instead of probing the address
	// that has just refused it
	addrReset := false
	if fd := findMethod(f, "client", "establishRegion"); fd != nil {
		ast.Inspect(fd.Body, func(n ast.Node) bool {
			if fs, ok := n.(*ast.ForStmt); ok && fs.Cond == nil && len(fs.Body.List) > 0 {
				if as, ok := fs.Body.List[len(fs.Body.List)-1].(*ast.AssignStmt); ok && len(as.Lhs) == 1 && len(as.Rhs) == 1 &&
					exprStr(as.Lhs[0]) == "addr" && exprStr(as.Rhs[0]) == `""` {
					addrReset = true
				}
			}
			return true
		})
	}
	g.def("establishLoopEndsWithAddrReset", "Bool", fmt.Sprint(addrReset))
	g.def("regionClientReadTimeoutArgs", "List String", leanList(rtArgs))
	// region/new.go NewClient: the parameter in 6th position and the field it is stored in
	rtParam, rtField := "", ""
	frn := parse(filepath.Join(repo, "region", "new.go"))
	if fd := findFunc(frn, "NewClient"); fd != nil {
		var names []string
		for _, fl := range fd.Type.Params.List {
			for _, nm := range fl.Names {
				names = append(names, nm.Name)
			}
		}
		if len(names) >= 6 {
			rtParam = names[5]
		}
		ast.Inspect(fd.Body, func(n ast.Node) bool {
			if kv, ok := n.(*ast.KeyValueExpr); ok && exprStr(kv.Value) == rtParam && rtParam != "" {
				rtField = exprStr(kv.Key)
			}
			return true
		})
	}
	// region/new.go Dial: the order of "is the client closed?", the dial itself and the hand-over of
	// the connection inside dialOnce.Do
	var dialSteps []string
	if fd := findMethod(frn, "client", "Dial"); fd != nil {
		ast.Inspect(fd.Body, func(n ast.Node) bool {
			fl, ok := n.(*ast.FuncLit)
			if !ok {
				return true
			}
			for _, st := range fl.Body.List {
				switch x := st.(type) {
				case *ast.SelectStmt:
					for _, cc := range x.Body.List {
						if c := cc.(*ast.CommClause); c.Comm != nil && strings.Contains(nodeStr(c.Comm), "<-c.done") {
							dialSteps = append(dialSteps, "closed?")
						}
					}
				case *ast.AssignStmt:
					if len(x.Rhs) == 1 && strings.HasPrefix(nodeStr(x.Rhs[0]), "c.dialer(") {
						dialSteps = append(dialSteps, "dial")
					}
					if len(x.Lhs) == 1 && nodeStr(x.Lhs[0]) == "c.conn" {
						dialSteps = append(dialSteps, "store")
					}
				case *ast.ExprStmt:
					if strings.HasPrefix(nodeStr(x.X), "c.sendHello(") {
						dialSteps = append(dialSteps, "hello")
					}
				case *ast.IfStmt:
					if strings.Contains(nodeStr(x), "c.sendHello()") {
						dialSteps = append(dialSteps, "hello")
					}
				}
			}
			return false
		})
	}
	g.def("dialSteps", "List String", leanList(dialSteps))
	g.def("newClientReadTimeoutParam", "String × String", fmt.Sprintf("(%s, %s)", leanStr(rtParam), leanStr(rtField)))
	// region/client.go: where the read deadline is armed, and with what
	var armExprs []string
	ast.Inspect(frc, func(n ast.Node) bool {
		if c, ok := n.(*ast.CallExpr); ok && strings.HasSuffix(exprStr(c.Fun), ".SetReadDeadline") && len(c.Args) == 1 {
			armExprs = append(armExprs, exprStr(c.Args[0]))
		}
		return true
	})
	g.def("readDeadlineArgs", "List String", leanList(armExprs))
	// rpc.go findClients: the context the region of a call is located under, and what ends it
	var locCtx, afterFuncs, withCancels []string
	if fd := findMethod(f, "client", "findClients"); fd != nil {
		ast.Inspect(fd.Body, func(n ast.Node) bool {
			if c, ok := n.(*ast.CallExpr); ok {
				switch exprStr(c.Fun) {
				case "c.getRegionAndClientForRPC":
					if len(c.Args) >= 1 {
						locCtx = append(locCtx, exprStr(c.Args[0]))
					}
				case "context.AfterFunc":
					var as []string
					for _, a := range c.Args {
						as = append(as, exprStr(a))
					}
					afterFuncs = append(afterFuncs, strings.Join(as, ", "))
				case "context.WithCancel":
					if len(c.Args) == 1 {
						withCancels = append(withCancels, exprStr(c.Args[0]))
					}
				}
			}
			return true
		})
		// the assignment that binds the location context
		ast.Inspect(fd.Body, func(n ast.Node) bool {
			if as, ok := n.(*ast.AssignStmt); ok && len(as.Lhs) == 2 && len(as.Rhs) == 1 {
				if c, ok := as.Rhs[0].(*ast.CallExpr); ok && exprStr(c.Fun) == "context.WithCancel" {
					withCancels[0] = exprStr(as.Lhs[0]) + ", " + exprStr(as.Lhs[1]) + " = WithCancel(" + exprStr(c.Args[0]) + ")"
				}
			}
			return true
		})
	} else {
		g.fail("findClients missing")
	}
	// … and that context is declared afresh for every call of the batch (inside the range loop):
	// what ended the location of one call must not end the location of the next
	perCall := false
	if fd := findMethod(f, "client", "findClients"); fd != nil && len(locCtx) == 1 {
		ast.Inspect(fd.Body, func(n ast.Node) bool {
			if rs, ok := n.(*ast.RangeStmt); ok {
				for _, st := range rs.Body.List {
					if as, ok := st.(*ast.AssignStmt); ok && as.Tok == token.DEFINE {
						for _, l := range as.Lhs {
							if exprStr(l) == locCtx[0] {
								perCall = true
							}
						}
					}
				}
			}
			return true
		})
	}
	// rpc.go SendBatch: the contexts of its two other waits — handing a group of calls to a region
	// client (QueueBatch, which blocks while the connection's send queue is busy) and the back-off
	// sleep between rounds — and where those contexts come from
	var sbWaits []string
	if fd := findMethod(f, "client", "SendBatch"); fd != nil {
		derived := map[string]string{}
		ast.Inspect(fd.Body, func(n ast.Node) bool {
			if as, ok := n.(*ast.AssignStmt); ok && len(as.Lhs) == 2 && len(as.Rhs) == 1 {
				if c, ok := as.Rhs[0].(*ast.CallExpr); ok && exprStr(c.Fun) == "contextOfCalls" && len(c.Args) == 2 {
					derived[exprStr(as.Lhs[0])] = "contextOfCalls(" + exprStr(c.Args[0]) + ", " + exprStr(c.Args[1]) + ")"
				}
			}
			return true
		})
		ast.Inspect(fd.Body, func(n ast.Node) bool {
			if c, ok := n.(*ast.CallExpr); ok && len(c.Args) >= 1 {
				fn := exprStr(c.Fun)
				if strings.HasSuffix(fn, ".QueueBatch") || fn == "sleepAndIncreaseBackoff" {
					a := exprStr(c.Args[0])
					if d, ok := derived[a]; ok {
						a = d
					}
					name := fn
					if i := strings.LastIndex(fn, "."); i >= 0 {
						name = fn[i+1:]
					}
					// the sleep: which variable holds the calls about to be retried at that point is the
					// loop's business (and the scenarios'); the fact is that their contexts are merged in
					if fn == "sleepAndIncreaseBackoff" && strings.HasPrefix(a, "contextOfCalls(") {
						if j := strings.LastIndex(a, ", "); j >= 0 {
							a = a[:j] + ", _)"
						}
					}
					sbWaits = append(sbWaits, name+":"+a)
				}
			}
			return true
		})
	} else {
		g.fail("SendBatch missing")
	}
	g.def("sendBatchWaitContexts", "List String", leanList(sbWaits))
	// admin_client.go checkProcedureWithBackoff: the contexts of the state poll and of the sleep
	// between polls, and every context made inside the loop
	var pollCtx []string
	if fd := findMethod(parse(filepath.Join(repo, "admin_client.go")), "client", "checkProcedureWithBackoff"); fd != nil {
		ast.Inspect(fd.Body, func(n ast.Node) bool {
			if c, ok := n.(*ast.CallExpr); ok {
				switch fn := exprStr(c.Fun); fn {
				case "hrpc.NewGetProcedureState", "sleepAndIncreaseBackoff":
					if len(c.Args) >= 1 {
						pollCtx = append(pollCtx, strings.TrimPrefix(fn, "hrpc.")+":"+exprStr(c.Args[0]))
					}
				case "context.WithTimeout", "context.WithCancel", "context.WithDeadline", "context.Background", "context.TODO":
					pollCtx = append(pollCtx, "newctx:"+fn)
				}
			}
			return true
		})
	} else {
		g.fail("checkProcedureWithBackoff missing")
	}
	g.def("procedurePollContexts", "List String", leanList(pollCtx))
	// zk/client.go LocateResource: the session is released by a defer placed before the read
	var zkSteps []string
	if fd := findMethod(parse(filepath.Join(repo, "zk", "client.go")), "client", "LocateResource"); fd != nil {
		for _, st := range fd.Body.List {
			switch x := st.(type) {
			case *ast.IfStmt:
				if strings.Contains(nodeStr(x), "zk.Connect(") {
					zkSteps = append(zkSteps, "connect")
				}
			case *ast.DeferStmt:
				if nodeStr(x.Call) == "conn.Close()" {
					zkSteps = append(zkSteps, "defer-close")
				}
			case *ast.AssignStmt:
				if strings.Contains(nodeStr(x), "zk.Connect(") {
					zkSteps = append(zkSteps, "connect")
				}
				if strings.Contains(nodeStr(x), "conn.Get(") {
					zkSteps = append(zkSteps, "get")
				}
			case *ast.ExprStmt:
				if nodeStr(x.X) == "conn.Close()" {
					zkSteps = append(zkSteps, "close")
				}
			}
		}
	} else {
		g.fail("zk LocateResource missing")
	}
	g.def("zkLocateSteps", "List String", leanList(zkSteps))
	// client.go MarshalJSON (DebugState): the caches are rendered in place, through pointers
	var dbgRefs []string
	if fd := findMethod(parse(filepath.Join(repo, "client.go")), "client", "MarshalJSON"); fd != nil {
		ast.Inspect(fd.Body, func(n ast.Node) bool {
			if as, ok := n.(*ast.AssignStmt); ok && len(as.Lhs) == 1 && len(as.Rhs) == 1 {
				if l := exprStr(as.Lhs[0]); l == "rcc" || l == "krc" {
					dbgRefs = append(dbgRefs, l+" := "+nodeStr(as.Rhs[0]))
				}
			}
			if c, ok := n.(*ast.CallExpr); ok && strings.HasSuffix(exprStr(c.Fun), ".debugInfo") {
				dbgRefs = append(dbgRefs, exprStr(c.Fun))
			}
			return true
		})
	} else {
		g.fail("client MarshalJSON missing")
	}
	g.def("debugStateCacheRefs", "List String", leanList(dbgRefs))
	g.def("findClientsLocateCtxPerCall", "Bool", fmt.Sprint(perCall))
	g.def("findClientsLocateCtx", "List String", leanList(locCtx))
	g.def("findClientsAfterFunc", "List String", leanList(afterFuncs))
	g.def("findClientsWithCancel", "List String", leanList(withCancels))
	g.def("metaRowKeyCheck", "String", leanStr(rowCheck))
	g.def("publishSites", "List (String × List String)", "[\n  "+strings.Join(sites, ",\n  ")+"]")
	g.finish(out)
}

func main() {
	if len(os.Args) != 3 {
		fmt.Fprintln(os.Stderr, "usage: extract <repo> <Gen dir>")
		os.Exit(2)
	}
	repo, out := os.Args[1], os.Args[2]
	if err := os.MkdirAll(out, 0o755); err != nil {
		fmt.Fprintln(os.Stderr, err)
		os.Exit(2)
	}
	genBackoff(repo, out)
	genExceptions(repo, out)
	genWire(repo, out)
	genCell(repo, out)
	genRetryLoop(repo, out)
	genSelects(repo, out)
	genExits(repo, out)
}
