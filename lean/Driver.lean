import GohbaseVerif.Drive.C16
import GohbaseVerif.Drive.C17
/-!
Line-protocol driver: one test case per line, `<model> <op> <args…>`; one reply per line:
`OK tags=…` | `DIFF …` (model ≠ implementation) | `SPEC …` (implementation violates the Lean
spec on this input) | `BAD …` (unparsable line).
-/
open GV

def dispatch (line : String) : String :=
  match (line.splitOn " ").filter (· ≠ "") with
  | "c16" :: rest => Drive.C16.handle rest
  | "c17" :: rest => Drive.C17.handle rest
  | _ => "BAD model"

partial def loop (hin hout : IO.FS.Stream) : IO Unit := do
  let line ← hin.getLine
  if line.isEmpty then return ()
  let l := line.trimRight
  if l.isEmpty then loop hin hout else
  hout.putStrLn (dispatch l)
  loop hin hout

def main : IO Unit := do
  let hin ← IO.getStdin
  let hout ← IO.getStdout
  loop hin hout
