import GohbaseVerif.Drive.C01
import GohbaseVerif.Drive.C05
import GohbaseVerif.Drive.C06
import GohbaseVerif.Drive.C07
import GohbaseVerif.Drive.C08
import GohbaseVerif.Drive.C15
import GohbaseVerif.Drive.C10
import GohbaseVerif.Drive.C11
import GohbaseVerif.Drive.C16
import GohbaseVerif.Drive.C17
import GohbaseVerif.Drive.Conn
import GohbaseVerif.Drive.Sim
import GohbaseVerif.Drive.ConnCache
/-!
Line-protocol driver: one test case per line, `<model> <op> <args…>`; one reply per line:
`OK tags=…` | `DIFF …` (model ≠ implementation) | `SPEC …` (implementation violates the Lean
spec on this input) | `BAD …` (unparsable line).
-/
open GV

def dispatch (line : String) : String :=
  match (line.splitOn " ").filter (· ≠ "") with
  | _ :: "guard-crash" :: kind :: rest =>
    -- the harness process died (panic in a goroutine, fatal error, out of memory) or stopped
    -- making progress while the code under test was running this case (harness/common.go)
    s!"SPEC key=implementation-{kind} (the code under test killed or hung the process on this case) {" ".intercalate rest}"
  | "c01" :: rest => Drive.C01.handle rest
  | "c08" :: rest => Drive.C08.handle rest
  | "c15" :: rest => Drive.C15.handle rest
  | "c05" :: rest => Drive.C05.handle rest
  | "c06" :: rest => Drive.C06.handle rest
  | "c07" :: rest => Drive.C07.handle rest
  | "c11" :: rest => Drive.C11.handle rest
  | "c10" :: rest => Drive.C10.handle rest
  | "c16" :: rest => Drive.C16.handle rest
  | "c17" :: rest => Drive.C17.handle rest
  | "c03" :: rest => Drive.Conn.handle "c03" rest
  | "c18" :: rest => Drive.Conn.handle "c18" rest
  | "c02" :: rest => Drive.Conn.handle "c02" rest
  | "c02s" :: rest => Drive.C05.handle rest
  | "c15s" :: rest => Drive.C05.handle rest
  | "c19c" :: rest => Drive.Conn.handle "c03" rest
  | "c09c" :: rest => Drive.Conn.handle "c03" rest
  | "c05c" :: rest => Drive.Conn.handle "c05c" rest
  | "c04" :: rest => Drive.Sim.handle "c04" rest
  | "c01w" :: rest => Drive.Sim.handle "c04" rest
  | "c12r" :: rest => Drive.C11.handleC12 rest
  | "sim" :: rest => Drive.Sim.handle "c04" rest
  | "c12w" :: rest => Drive.Sim.handle "c04" rest
  | "c20" :: rest => Drive.Sim.handle "c20" rest
  | "c09" :: rest => Drive.Sim.handle "c09" rest
  | "c13" :: rest => Drive.Sim.handle "c13" rest
  | "c19" :: rest => Drive.Sim.handle "c19" rest
  | "cc" :: rest => Drive.ConnCache.handle rest
  | "ri" :: rest => Drive.ConnCache.handleRI rest
  | _ => "BAD model"

partial def loop (hin hout : IO.FS.Stream) : IO Unit := do
  let line ← hin.getLine
  if line.isEmpty then return ()
  let l := line.trimRight
  if l.isEmpty then loop hin hout else
  hout.putStrLn (dispatch l)
  loop hin hout

def main : IO Unit := do
  let hin ← IO.getStdin
  let hout ← IO.getStdout
  loop hin hout
