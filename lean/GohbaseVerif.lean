import GohbaseVerif.Basic
import GohbaseVerif.Model.RegionName
import GohbaseVerif.Lemmas.Bcmp
import GohbaseVerif.Lemmas.RegionName
import GohbaseVerif.Props.C16
import GohbaseVerif.Drive.C16
