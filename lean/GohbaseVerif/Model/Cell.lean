import GohbaseVerif.Basic
import GohbaseVerif.Gen.Cell
/-!
Model of the KeyValue ("cellblock") codec of gohbase:

* `hrpc/mutate.go`: `cellblockLen`, `appendCellblock`, `(*Mutate).valuesToCellblocks`,
  `(*Mutate).valuesToProto`, the timestamp selection of `toProto`;
* `hrpc/call.go`: `cellFromCellBlock`, `deserializeCellBlocks`;
* `Spec.kvDecode`: an independent KeyValue parser written from the HBase format description.

Conventions (BUILDING.md): a Go panic is `Outcome.fault` — every slice or index expression of
`cellFromCellBlock`/`deserializeCellBlocks` that Go bounds-checks is an explicit branch here
(Go slices with `cap = len`); fixed-width arithmetic is written `% 2^n` where the code relies on
it; a Go map is an association list whose order is the iteration order of one `range` loop.
Type codes and the `cellblockLen` formula come from the regenerated `Gen.Cell`.
-/
namespace GV.Cell
open GV

/-- A decoded cell (`pb.Cell` restricted to the fields the codec handles). `ts` is the `uint64`
timestamp, `typ` the KeyValue type byte. -/
structure Cell where
  row : Bytes
  family : Bytes
  qualifier : Bytes
  ts : Nat
  typ : UInt8
  value : Bytes
  deriving DecidableEq, Repr

def two16 : Nat := 65536
def two32 : Nat := 4294967296
def two64 : Nat := 18446744073709551616

/-- `a - b` in `uint32` (exact modular subtraction, no truncated `Nat` subtraction involved). -/
def subU32 (a b : Nat) : Nat := (a % two32 + two32 - b % two32) % two32

/-! ### encoder -/

/-- `cellblockLen` as the working tree has it now (regenerated). -/
def cellblockLen (rowLen famLen qualLen valLen : Nat) : Nat :=
  Gen.Cell.cellblockLen rowLen famLen qualLen valLen

/-- The bytes `appendCellblock` stores, field by field, with Go's conversions
`uint32(keyvaluelength)`, `uint32(keylength)`, `uint32(valuelength)`, `uint16(len(row))`,
`byte(len(family))` (`toBE n v` encodes `v mod 256^n`). -/
def layout (row fam qual val : Bytes) (ts : Nat) (typ : UInt8) : Bytes :=
  let keylength := 2 + row.length + 1 + fam.length + qual.length + 8 + 1
  let keyvaluelength := 4 + 4 + keylength + val.length
  toBE 4 keyvaluelength ++ (toBE 4 keylength ++ (toBE 4 val.length ++ (toBE 2 row.length ++
    (row ++ (UInt8.ofNat fam.length :: (fam ++ (qual ++ (toBE 8 ts ++ (typ :: val)))))))))

/-- `appendCellblock(row, family, qualifier, value, ts, typ, cbs)` returns `cbs ++ this`.
The Go code first grows `cbs` by `cellblockLen(…)` zero bytes and then stores the fields at
increasing offsets, so the appended region has exactly `cellblockLen` bytes: the layout cut or
zero-padded to that size (`appendCellblock_eq_layout` shows that with the current formula nothing
is cut or padded; were the formula too small the Go code would panic or drop value bytes — the
proof obligation breaks first). -/
def appendCellblock (row fam qual val : Bytes) (ts : Nat) (typ : UInt8) : Bytes :=
  let n := cellblockLen row.length fam.length qual.length val.length
  let l := layout row fam qual val ts typ
  l.take n ++ List.replicate (n - l.length) 0

def encodeCell (c : Cell) : Bytes := appendCellblock c.row c.family c.qualifier c.value c.ts c.typ

/-! ### decoder (`hrpc/call.go`) -/

/-- Second half of `cellFromCellBlock`, after `b = b[14:]`: slices out row, family, qualifier,
timestamp, type and value using the lengths read from the header. -/
def cellBody (kvLen rowKeyLen valueLen keyLen : Nat) (b1 : Bytes) : Outcome (Cell × Nat) :=
  -- key := b[:keyLen]; b = b[keyLen:]
  if b1.length < keyLen then .fault "b[:keyLen]" else
  let key := b1.take keyLen
  let b2 := b1.drop keyLen
  -- familyLen := b[0]; b = b[1:]
  match b2 with
  | [] => .fault "b[0] (family length)"
  | fl :: b3 =>
    let familyLen := fl.toNat
    -- 2+uint32(keyLen)+1+uint32(familyLen)+8+1 > rowKeyLen in uint32
    if (2 + keyLen + 1 + familyLen + 8 + 1) % two32 > rowKeyLen then .err "famlen" else
    -- family := b[:familyLen]; b = b[familyLen:]
    if b3.length < familyLen then .fault "b[:familyLen]" else
    let family := b3.take familyLen
    let b4 := b3.drop familyLen
    -- qualifierLen := rowKeyLen - uint32(keyLen) - uint32(familyLen) - 2 - 1 - 8 - 1 (uint32)
    let qualifierLen :=
      subU32 (subU32 (subU32 (subU32 (subU32 (subU32 rowKeyLen keyLen) familyLen) 2) 1) 8) 1
    -- qualifier := b[:qualifierLen]; b = b[qualifierLen:]
    if b4.length < qualifierLen then .fault "b[:qualifierLen]" else
    let qualifier := b4.take qualifierLen
    let b5 := b4.drop qualifierLen
    -- timestamp := BigEndian.Uint64(b[:8]); b = b[8:]
    if b5.length < 8 then .fault "b[:8]" else
    let timestamp := beNat (b5.take 8)
    let b6 := b5.drop 8
    -- cellType := b[0]; b = b[1:]
    match b6 with
    | [] => .fault "b[0] (cell type)"
    | cellType :: b7 =>
      -- value := b[:valueLen]
      if b7.length < valueLen then .fault "b[:valueLen]" else
      -- return …, kvLen + 4 (uint32)
      .ok (⟨key, family, qualifier, timestamp, cellType, b7.take valueLen⟩, (kvLen + 4) % two32)

/-- `cellFromCellBlock(b)`: the cell and the number of bytes consumed (`uint32`).
Same order of checks and slicing as the Go code (`cellBody` is its second half). -/
def cellFromCellBlock (b : Bytes) : Outcome (Cell × Nat) :=
  if b.length < 4 then .err "short" else
  -- kvLen := BigEndian.Uint32(b[0:4])
  let kvLen := beNat (b.take 4)
  -- len(b) < int(kvLen)+4 (64-bit int: no wrap)
  if b.length < kvLen + 4 then .err "short" else
  if kvLen < 4 + 4 + 2 then .err "small" else
  -- b[4:8], b[8:12], b[12:14]
  if b.length < 14 then .fault "b[12:14]" else
  let rowKeyLen := beNat ((b.drop 4).take 4)
  let valueLen := beNat ((b.drop 8).take 4)
  let keyLen := beNat ((b.drop 12).take 2)
  -- total := 4 + 4 + uint64(rowKeyLen) + uint64(valueLen); total != uint64(kvLen)
  if 4 + 4 + rowKeyLen + valueLen ≠ kvLen then .err "kvlen" else
  -- 2+uint32(keyLen)+1+8+1 > rowKeyLen in uint32
  if (2 + keyLen + 1 + 8 + 1) % two32 > rowKeyLen then .err "rowlen" else
  -- b = b[14:]
  cellBody kvLen rowKeyLen valueLen keyLen (b.drop 14)

/-- The loop of `deserializeCellBlocks`: `n` cells still to read, `readLen` the `uint32` offset. -/
def deserializeFrom (b : Bytes) : Nat → Nat → Outcome (List Cell × Nat)
  | 0, readLen => .ok ([], readLen)
  | n + 1, readLen =>
    -- b[readLen:]
    if b.length < readLen then .fault "b[readLen:]" else
    match cellFromCellBlock (b.drop readLen) with
    | .ok (c, l) =>
      -- readLen += l (uint32)
      match deserializeFrom b n ((readLen + l) % two32) with
      | .ok (cs, r) => .ok (c :: cs, r)
      | .err e => .err e
      | .fault w => .fault w
    | .err e => .err e
    | .fault w => .fault w

/-- `const minCellLen = 4 + 4 + 4 + 2 + 1 + 8 + 1` -/
def minCellLen : Nat := 4 + 4 + 4 + 2 + 1 + 8 + 1

/-- `deserializeCellBlocks(b, cellsLen)`: the count comes from the wire, so a count the buffer
cannot back (`uint64(cellsLen) > uint64(len(b))/minCellLen`) is refused before
`make([]*pb.Cell, cellsLen)` (fix 82d9302; the allocation itself is not modelled). -/
def deserializeCellBlocks (b : Bytes) (cellsLen : Nat) : Outcome (List Cell × Nat) :=
  if b.length / minCellLen < cellsLen then .err "buffer is too small for the cell count" else
  deserializeFrom b cellsLen 0

/-! ### mutations -/

/-- Inner map `map[string][]byte`: `none` is the nil map, `some []` an empty non-nil one.
The list order is the order of one `range` loop. -/
abbrev Inner := Option (List (Bytes × Bytes))
/-- `map[string]map[string][]byte` in the order of one `range` loop. `[]` stands for both the nil
and the empty map (the code only asks `len(m.values) == 0`). -/
abbrev VMap := List (Bytes × Inner)

inductive MutKind where
  | put | delete | append | increment
  deriving DecidableEq, Repr

/-- The fields of `hrpc.Mutate` the two encoders read. -/
structure Mut where
  key : Bytes
  kind : MutKind
  /-- `m.timestamp`; `MaxTimestamp = math.MaxUint64` means "not set". -/
  timestamp : Nat
  deleteOneVersion : Bool
  deriving DecidableEq, Repr

def maxTimestamp : Nat := two64 - 1       -- math.MaxUint64
def maxInt64 : Nat := 9223372036854775807  -- math.MaxInt64 = Long.MAX_VALUE

/-- `emptyQualifier = map[string][]byte{"": nil}`. -/
def emptyQualifier : List (Bytes × Bytes) := [([], [])]

inductive DeleteKind where
  | oneVersion | multipleVersions | family | familyVersion
  deriving DecidableEq, Repr

/-- `pb.MutationProto_ColumnValue_QualifierValue`. -/
structure QV where
  qualifier : Bytes
  value : Bytes
  ts : Option Nat
  dt : Option DeleteKind
  deriving DecidableEq, Repr

/-- `pb.MutationProto_ColumnValue`. -/
structure CV where
  family : Bytes
  qvs : List QV
  deriving DecidableEq, Repr

/-- `ts` handed to `valuesToProto` by `toProto`: nil unless a timestamp was set. -/
def protoTs (mu : Mut) : Option Nat :=
  if mu.timestamp ≠ maxTimestamp then some mu.timestamp else none

/-- One iteration of the outer loop of `valuesToProto`. -/
def protoFamily (mu : Mut) (ts : Option Nat) (fam : Bytes) (v : Inner) : CV :=
  let len := match v with | none => 0 | some l => l.length
  let dt : Option DeleteKind :=
    if mu.kind = .delete then
      if len = 0 then
        (if mu.deleteOneVersion then some .familyVersion else some .family)
      else
        (if mu.deleteOneVersion then some .oneVersion else some .multipleVersions)
    else none
  let v' : List (Bytes × Bytes) :=
    if mu.kind = .delete ∧ len = 0 then emptyQualifier   -- `v = emptyQualifier` in the delete / len(v)==0 arm
    else match v with
      | none => []
      | some l => l
  ⟨fam, v'.map fun (k1, v1) => ⟨k1, v1, ts, dt⟩⟩

/-- `(*Mutate).valuesToProto(ts)` iterating `m.values` in the order of `values`. -/
def valuesToProto (mu : Mut) (values : VMap) (ts : Option Nat) : List CV :=
  values.map fun (fam, v) => protoFamily mu ts fam v

/-- First pass of `valuesToCellblocks`: the inner map as counted. -/
def countedInner (mu : Mut) (v : Inner) : List (Bytes × Bytes) :=
  let l := match v with | none => [] | some l => l
  if l.length = 0 ∧ mu.kind = .delete then emptyQualifier else l

/-- Second pass: type byte and the inner map as written. -/
def writtenInner (mu : Mut) (v : Inner) : UInt8 × List (Bytes × Bytes) :=
  if mu.kind = .delete then
    let len := match v with | none => 0 | some l => l.length
    if len = 0 then
      let mt := if mu.deleteOneVersion then Gen.Cell.deleteFamilyVersionType else Gen.Cell.deleteFamilyType
      (UInt8.ofNat mt, emptyQualifier)
    else
      let mt := if mu.deleteOneVersion then Gen.Cell.deleteType else Gen.Cell.deleteColumnType
      (UInt8.ofNat mt, match v with | none => [] | some l => l)
  else
    (UInt8.ofNat Gen.Cell.putType, match v with | none => [] | some l => l)

/-- Timestamp written into every cell: `math.MaxInt64` when none was set. -/
def cellTs (mu : Mut) : Nat := if mu.timestamp = maxTimestamp then maxInt64 else mu.timestamp

/-- The cells the second pass appends, in order. -/
def writtenCells (mu : Mut) (pass2 : VMap) : List Cell :=
  pass2.flatMap fun (fam, v) =>
    let (mt, l) := writtenInner mu v
    l.map fun (k1, v1) => ⟨mu.key, fam, k1, cellTs mu, mt, v1⟩

/-- `int32(count)`. -/
def toInt32 (n : Nat) : Int :=
  let r := n % two32
  if r < 2147483648 then (r : Int) else (r : Int) - (two32 : Int)

/-- `(*Mutate).valuesToCellblocks()`: bytes, `int32(count)`, `uint32(len(cbs))`. `pass1`/`pass2`
are the same Go map in the iteration orders of the two `range m.values` loops. -/
def valuesToCellblocks (mu : Mut) (pass1 pass2 : VMap) : Outcome (Bytes × Int × Nat) :=
  if pass1.length = 0 then .ok ([], 0, 0) else
  let counted := pass1.map fun (fam, v) => (fam, countedInner mu v)
  let count := (counted.map fun (_, l) => l.length).sum
  let cbsLen := (counted.map fun (fam, l) =>
    (l.map fun (k1, v1) => cellblockLen mu.key.length fam.length k1.length v1.length).sum).sum
  let cbs := (writtenCells mu pass2).flatMap encodeCell
  if cbs.length ≠ cbsLen then .fault "cellblocks len mismatch" else
  .ok (cbs, toInt32 count, cbs.length % two32)

/-! ### specification side -/
namespace Spec

/-- Read an `n`-byte big-endian unsigned integer. -/
def readUInt (n : Nat) (b : Bytes) : Option (Nat × Bytes) :=
  if b.length < n then none else some (beNat (b.take n), b.drop n)

/-- Read `n` raw bytes. -/
def readBytes (n : Nat) (b : Bytes) : Option (Bytes × Bytes) :=
  if b.length < n then none else some (b.take n, b.drop n)

/-- KeyValue parser from the HBase format (`KeyValue.java` layout): 4-byte total length of what
follows; 4-byte key length; 4-byte value length; key = 2-byte row length, row, 1-byte family
length, family, qualifier (whatever is left of the key before its last 9 bytes), 8-byte timestamp,
1-byte type; then the value. Returns the cell and the bytes consumed, `none` if `b` does not
start with a well-formed KeyValue. Not derived from the Go decoder. -/
def kvDecode (b : Bytes) : Option (Cell × Nat) := do
  let (total, b) ← readUInt 4 b
  let (kv, _) ← readBytes total b
  let (keyLen, kv) ← readUInt 4 kv
  let (valLen, kv) ← readUInt 4 kv
  if kv.length ≠ keyLen + valLen then none else
  let (key, value) ← readBytes keyLen kv
  let (rowLen, key) ← readUInt 2 key
  let (row, key) ← readBytes rowLen key
  let (famLen, key) ← readUInt 1 key
  let (fam, key) ← readBytes famLen key
  if key.length < 9 then none else
  let (qual, key) ← readBytes (key.length - 9) key
  let (ts, key) ← readUInt 8 key
  let (typ, _) ← readUInt 1 key
  some (⟨row, fam, qual, ts, UInt8.ofNat typ, value⟩, 4 + total)

/-- Parse `n` consecutive KeyValues. -/
def kvDecodeN : Nat → Bytes → Option (List Cell × Nat)
  | 0, _ => some ([], 0)
  | n + 1, b => do
    let (c, l) ← kvDecode b
    let (cs, r) ← kvDecodeN n (b.drop l)
    some (c :: cs, l + r)

/-- KeyValue type code of a protobuf delete kind (HBase `KeyValue.Type`). -/
def codeOfDelete : DeleteKind → UInt8
  | .oneVersion => 8          -- DELETE_ONE_VERSION       ↔ Delete
  | .familyVersion => 10      -- DELETE_FAMILY_VERSION    ↔ DeleteFamilyVersion
  | .multipleVersions => 12   -- DELETE_MULTIPLE_VERSIONS ↔ DeleteColumn
  | .family => 14             -- DELETE_FAMILY            ↔ DeleteFamily

/-- `Long.MAX_VALUE` = `HConstants.LATEST_TIMESTAMP`. -/
def latestTimestamp : Nat := 2 ^ 63 - 1

/-- What a server reads from one `QualifierValue` of a mutation of kind `kind` on `row`
(`ProtobufUtil.toPut/toDelete/toAppend/toIncrement`): an absent timestamp is
`LATEST_TIMESTAMP`; a delete carries its delete type (proto default `DELETE_ONE_VERSION`),
everything else is a `Put` cell. -/
def cellOfQV (kind : MutKind) (row fam : Bytes) (q : QV) : Cell :=
  let typ : UInt8 :=
    match kind, q.dt with
    | .delete, some d => codeOfDelete d
    | .delete, none => 8
    | _, _ => 4
  ⟨row, fam, q.qualifier, q.ts.getD latestTimestamp, typ, q.value⟩

/-- The cells denoted by the protobuf form. -/
def cellsOfProto (kind : MutKind) (row : Bytes) (cvs : List CV) : List Cell :=
  cvs.flatMap fun cv => cv.qvs.map (cellOfQV kind row cv.family)

/-- The cells denoted by the cellblock form: `count` KeyValues filling the block exactly. -/
def cellsOfCellblocks (cbs : Bytes) (count : Int) : Option (List Cell) :=
  if count < 0 then none else
  match kvDecodeN count.toNat cbs with
  | some (cs, l) => if l = cbs.length then some cs else none
  | none => none

/-- The cells a mutation is meant to carry, read off the map directly (used by the driver to
judge both implementation outputs against the input, and by `encodings_agree`). -/
def intendedCells (mu : Mut) (values : VMap) : List Cell :=
  values.flatMap fun (fam, v) =>
    let isDel := mu.kind = .delete
    let empty : Bool := match v with | none => true | some l => l.isEmpty
    let typ : UInt8 :=
      if isDel then
        if empty then (if mu.deleteOneVersion then 10 else 14)
        else (if mu.deleteOneVersion then 8 else 12)
      else 4
    let l : List (Bytes × Bytes) :=
      if isDel ∧ empty = true then [([], [])]   -- a family named without any qualifier: the whole family
      else match v with
        | none => []
        | some l => l
    l.map fun (q, x) =>
      ⟨mu.key, fam, q, if mu.timestamp = two64 - 1 then latestTimestamp else mu.timestamp, typ, x⟩

end Spec

/-- "The same Go map ranged over in another order": outer entries and the entries of every inner
map may come in any order; nil inner maps stay nil. -/
inductive SameMap : VMap → VMap → Prop where
  | nil : SameMap [] []
  | consNone (f : Bytes) {m m' : VMap} : SameMap m m' → SameMap ((f, none) :: m) ((f, none) :: m')
  | consSome (f : Bytes) {l l' : List (Bytes × Bytes)} {m m' : VMap} :
      l.Perm l' → SameMap m m' → SameMap ((f, some l) :: m) ((f, some l') :: m')
  | swap (a b : Bytes × Inner) (m : VMap) : SameMap (a :: b :: m) (b :: a :: m)
  | trans {m₁ m₂ m₃ : VMap} : SameMap m₁ m₂ → SameMap m₂ m₃ → SameMap m₁ m₃

end GV.Cell
