import GohbaseVerif.Basic
/-!
Model of one region connection (`region/client.go`, `region/new.go`, and the result fan-out of
`region/multi.go`) as a labelled transition system.

Granularity: one action = one *observable* event of the implementation — an API call made by the
environment (`queueBatched`, `queueDirect`, `cancel`, `close`), the expiry of the read deadline,
or the completion of one `net.Conn` operation (a `Write` unit, the arming `SetReadDeadline`, a
`Read` of a response frame, the clearing `SetReadDeadline`) with the result the environment
chooses. Everything a goroutine does between two `net.Conn` operations (register / unregister,
the in-flight counter, mutexes, channel hand-offs, `fail` with its `sync.Once`, deliveries on
result channels) is folded into the action that precedes it; that is deterministic because only
one goroutine runs between two such points and all shared state is in `St`. The interleavings of
the goroutines at that granularity are exactly the action sequences accepted by `step`.

`conn.Close` (inside `fail`) is not a separate action: it cannot fail usefully and a `Read`
blocked on a closed connection returns at once.  `flushInterval = 0` (a multi is flushed as soon
as the queue is drained) — the timer-driven variant only changes *when* a flush happens.

Result classes are coarse on purpose: every `region.ServerError` (including `ErrClientClosed`) is
`connErr`.

The reader fails the connection on: a read error, a header that does not decode, an id nobody
waits for, a failing `SetReadDeadline`, and a response in which the server says that it is not in
service (an exception of a `ServerError` class) — in the response header, or, once every call of
the multi has been given its own result, anywhere inside a decoded multi-response (for a region
or for one action; `serverErrorIn` in `receive`): `Frame.fatal`.
-/
namespace GV.Conn

/-- What a caller receives. -/
inductive Res where
  | ok            -- a response message
  | connErr       -- region.ServerError (connection-level: retry elsewhere)
  | retryable     -- region.RetryableError
  | nsre          -- region.NotServingRegionError
  | fatal         -- any other error (application exception)
  deriving Repr, DecidableEq

/-- An entry of the `sent` map: a single call or a multi with its live calls. -/
inductive Item where
  | single (c : Nat)
  | multi (cs : List Nat)
  deriving Repr, DecidableEq

def Item.calls : Item → List Nat
  | .single c => [c]
  | .multi cs => cs

/-- Who is executing `send`. -/
inductive Who where
  | writer
  | direct (c : Nat)
  deriving Repr, DecidableEq

inductive Phase where
  | addWait       -- registered, blocked on inFlightM before counting the request in flight
  | lockWait      -- blocked on the write mutex
  | write         -- inside conn.Write (one unit of the frame), holding the write mutex
  | armWait       -- blocked on inFlightM before arming the read deadline
  | arm           -- inside conn.SetReadDeadline(now + readTimeout), holding inFlightM
  deriving Repr, DecidableEq

/-- A `send` in progress. -/
structure Snd where
  who : Who
  id : Nat
  item : Item
  phase : Phase
  deriving Repr, DecidableEq

/-- Kind of a response frame handed to the reader. -/
inductive Frame where
  | result              -- header ok, response decodes
  | exception (r : Res) -- header carries an exception of that class
  | perCall (rs : List (Nat × Res))  -- a multi-response: one result class per call; calls it does
                        -- not mention get RetryableError ("no result for action"); a `connErr`
                        -- among the results fails the connection after the delivery (`Frame.fatal`)
  | undecodable         -- response part / cellblocks do not decode (→ RetryableError to the call)
  | badHeader           -- header does not decode or has no call id (→ connection failure)
  deriving Repr, DecidableEq

/-- A frame after whose own delivery the reader fails the connection: the server says that it is
not in service (a `ServerError`-class exception, `connErr`) — in the response header, or inside a
decoded multi-response, for a whole region or for a single action (`serverErrorIn` in `receive`). -/
def Frame.fatal : Frame → Bool
  | .exception .connErr => true
  | .perCall rs => rs.any (fun p => p.2 == .connErr)
  | _ => false

inductive Reader where
  | reading                               -- inside conn.Read
  | downWait (id : Nat) (item : Item) (f : Frame)  -- unregistered, blocked on inFlightM
  | clearing (id : Nat) (item : Item) (f : Frame)  -- inside conn.SetReadDeadline(zero), holding inFlightM
  | exited
  deriving Repr, DecidableEq

/-- A waiter on inFlightM. -/
inductive MW where
  | sender (w : Who)
  | reader
  deriving Repr, DecidableEq

/-- A delivered result: the call, what it got, and the wire id of the response frame that
produced it (`none` for results produced locally: refusals and connection failures). -/
structure Dlv where
  call : Nat
  res : Res
  src : Option Nat
  deriving Repr, DecidableEq

structure St where
  queueSize : Nat                 -- rpcQueueSize (> 1: batching on)
  done : Bool := false            -- close(c.done) happened
  nextId : Nat := 0               -- atomic call-id counter
  sent : List (Nat × Item) := []  -- the `sent` map
  inFlight : Nat := 0             -- uint32 counter
  armed : Bool := false           -- read deadline currently set on the connection
  ctxDone : List Nat := []        -- calls whose own context has ended
  offered : List Nat := []        -- QueueBatch callers blocked on `c.rpcs <-` (FIFO)
  writerBusy : Bool := false      -- the batching goroutine is inside trySend
  writerExited : Bool := false
  sends : List Snd := []          -- sends in progress (writer's multi and direct senders)
  writeM : Option Who := none     -- holder of the write mutex
  mWait : List MW := []           -- goroutines blocked on inFlightM (FIFO)
  reader : Reader := .reading
  delivered : List Dlv := []      -- log of results put on result channels
  wroteAs : List (Nat × Nat) := []   -- (call, wire id under which its request was registered)
  handed : List Nat := []         -- every call ever passed to QueueRPC
  unsendable : List Nat := []     -- calls whose request could not be marshalled (completed locally)
  poison : List Nat := []         -- batchable calls whose request cannot be marshalled
  dropped : List Nat := []        -- calls given up because their own context had ended
  deriving Repr

inductive IO where
  | ok | err
  deriving Repr, DecidableEq

/-- Actions (= observable events). -/
inductive Act where
  | queueBatched (c : Nat)        -- QueueRPC of a batchable call (rpcQueueSize > 1)
  | queueDirect (c : Nat)         -- QueueRPC of an unbatched call (SkipBatch, scan, …)
  | queueUnsendable (c : Nat)     -- QueueRPC of an unbatched call whose request fails to marshal
  | queueBatchedUnsendable (c : Nat)  -- QueueRPC of a batchable call whose request fails to marshal
  | queueDirectClosing (c : Nat)  -- QueueRPC of an unbatched call during whose serialisation (after the
                                  -- liveness check, before it is registered) the connection is closed
  | cancel (c : Nat)              -- the call's context ends
  | write (w : Who) (last : Bool) (r : IO)   -- a conn.Write unit of w's frame returns
  | arm (w : Who) (r : IO)        -- conn.SetReadDeadline(now+timeout) returns
  | read (id : Nat) (f : Frame)   -- conn.Read yields a whole response frame for wire id `id`
  | readErr                       -- conn.Read fails (reset, EOF, mid-frame, closed)
  | timeout                       -- the read deadline expires (only possible while armed)
  | clear (r : IO)                -- conn.SetReadDeadline(zero) returns
  | close                         -- external Close()
  deriving Repr, DecidableEq

def uint32 : Nat := 4294967296

/-- inFlightM is held by a sender inside its arming SetReadDeadline or by the reader inside its
clearing SetReadDeadline. -/
def mHeld (s : St) : Bool :=
  s.sends.any (fun x => x.phase == .arm) ||
    (match s.reader with | .clearing _ _ _ => true | _ => false)

def readerNext (s : St) : Reader := if s.done then .exited else .reading

/-- Put one result per call of the item on the result channels. -/
def deliverItem (s : St) (it : Item) (r : Res) (src : Option Nat) : St :=
  { s with delivered := s.delivered ++ it.calls.map (fun c => Dlv.mk c r src) }

def deliverAll (s : St) (its : List Item) (r : Res) : St :=
  its.foldl (fun s it => deliverItem s it r none) s

/-- `c.fail(err)`: the first caller closes `done`, closes the connection (a blocked Read returns)
and fails every registered item; QueueBatch callers blocked on the queue see `done`. Later callers
of `fail` do nothing. -/
def failConn (s : St) : St :=
  if s.done then s else
  let s1 : St := { s with done := true, sent := [] }
  let s2 : St := deliverAll s1 (s.sent.map (·.2)) .connErr
  -- blocked QueueBatch callers are released with ErrClientClosed (by themselves or by the
  -- writer's deferred returnResults: same observable outcome)
  let released : List Dlv := s.offered.map (fun c => Dlv.mk c Res.connErr none)
  let s3 : St := { s2 with delivered := s2.delivered ++ released, offered := [] }
  -- the reader, if parked in Read, gets an error from the closed connection and exits
  let s4 : St := if s3.reader = .reading then { s3 with reader := .exited } else s3
  -- an idle writer sees `done` and exits
  if s4.writerBusy then s4 else { s4 with writerExited := true }

def lookupSent (s : St) (id : Nat) : Option Item :=
  (s.sent.find? (·.1 == id)).map (·.2)

def eraseSent (s : St) (id : Nat) : St :=
  { s with sent := s.sent.filter (fun p => p.1 != id) }

/-- Error path of `trySend` after `send` returned a ServerError: fail the connection, then
complete the item ourselves only if nobody else (failSentRPCs) has unregistered it. -/
def sendFailed (s : St) (snd : Snd) : St :=
  let s1 := failConn s
  match lookupSent s1 snd.id with
  | some it => deliverItem (eraseSent s1 snd.id) it .connErr none
  | none => s1

/-- `inFlightAdd` done (the sender held inFlightM for an instant): take the write mutex or wait
for it. -/
def senderAdd (s : St) (w : Who) : St :=
  let free := s.writeM.isNone
  { s with inFlight := (s.inFlight + 1) % uint32,
           writeM := if free then some w else s.writeM,
           sends := s.sends.map (fun y =>
             if y.who == w then { y with phase := if free then Phase.write else Phase.lockWait } else y) }

/-- Start `send` for an item: allocate the id and register; then count it in flight (needs
inFlightM, which a goroutine parked inside SetReadDeadline holds) and go for the write mutex. -/
def startSend (s : St) (w : Who) (it : Item) : St :=
  let id := s.nextId + 1
  let s1 : St :=
    { s with nextId := id, sent := s.sent ++ [(id, it)],
             wroteAs := s.wroteAs ++ it.calls.map (fun c => (c, id)),
             sends := s.sends ++ [{ who := w, id := id, item := it, phase := .addWait }] }
  if mHeld s1 then { s1 with mWait := s1.mWait ++ [.sender w] } else senderAdd s1 w

/-- The batching goroutine's loop once it is not inside trySend: exit when `done`; otherwise take
queued calls (up to queueSize), drop those whose context has ended (toProto) and send the multi.
A multi containing a call whose request cannot be marshalled is not sent at all: `send` registers
it (the id is consumed), `marshalProto` fails, `trySend` unregisters it and returns the error,
`flush` completes every call of the multi with that error (`m.returnResults(nil, err)`) and the
loop goes on with the next batch (`fuel` bounds that iteration: each round removes queued calls). -/
def writerLoopN : Nat → St → St
  | 0, s => s
  | fuel + 1, s =>
    if s.writerExited || s.writerBusy then s
    else if s.done then { s with writerExited := true }
    else match s.offered with
      | [] => s
      | _ =>
        let batch := s.offered.take s.queueSize
        let live := batch.filter (fun c => !s.ctxDone.contains c)
        let s1 := { s with offered := s.offered.drop s.queueSize,
                           dropped := s.dropped ++ batch.filter (fun c => s.ctxDone.contains c) }
        if live.any (fun c => s.poison.contains c) then
          writerLoopN fuel
            { s1 with nextId := s1.nextId + 1, unsendable := s1.unsendable ++ live,
                      delivered := s1.delivered ++ live.map (fun c => Dlv.mk c .fatal none) }
        else startSend { s1 with writerBusy := true } .writer (.multi live)

def writerLoop (s : St) : St := writerLoopN (s.offered.length + 1) s

/-- A send is over (successfully or not): forget it and let the writer continue its loop if it
was the writer's. -/
def finishSend (s : St) (w : Who) : St :=
  let s1 := { s with sends := s.sends.filter (fun x => x.who != w) }
  if w = .writer then writerLoop { s1 with writerBusy := false } else s1

def releaseWriteM (s : St) : St :=
  match s.sends.find? (fun x => x.phase == .lockWait) with
  | some x =>
    { s with writeM := some x.who,
             sends := s.sends.map (fun y => if y.who == x.who then { y with phase := .write } else y) }
  | none => { s with writeM := none }

def findSend (s : St) (w : Who) (p : Phase) : Option Snd :=
  s.sends.find? (fun x => x.who == w && x.phase == p)

def setPhase (s : St) (w : Who) (p : Phase) : St :=
  { s with sends := s.sends.map (fun y => if y.who == w then { y with phase := p } else y) }

/-- What the reader does with an unregistered item once the counter is settled. -/
def finishFrame (s : St) (id : Nat) (it : Item) (f : Frame) : St :=
  let ctxEnded := match it with
    | .single c => s.ctxDone.contains c
    | .multi _ => false
  if ctxEnded then { s with reader := readerNext s, dropped := s.dropped ++ it.calls } else
  match f with
  | .result => let s1 := deliverItem s it .ok (some id); { s1 with reader := readerNext s1 }
  | .undecodable => let s1 := deliverItem s it .retryable (some id); { s1 with reader := readerNext s1 }
  | .perCall rs =>
    let s1 : St := { s with delivered := s.delivered ++ it.calls.map (fun c =>
      Dlv.mk c (((rs.find? (·.1 == c)).map (·.2)).getD .retryable) (some id)) }
    -- every call of the multi has its own result; if one of the exceptions in the response (for a
    -- region or for an action) is a ServerError, `receive` then returns it and the connection is
    -- failed exactly as for such an exception in the header
    if f.fatal then { failConn { s1 with reader := .exited } with reader := .exited }
    else { s1 with reader := readerNext s1 }
  | .exception .connErr =>
    -- the caller gets the ServerError and the connection is failed
    let s1 := deliverItem s it .connErr (some id)
    { failConn { s1 with reader := .exited } with reader := .exited }
  | .exception r => let s1 := deliverItem s it r (some id); { s1 with reader := readerNext s1 }
  | .badHeader => s  -- not reachable: handled before unregistering

/-- A sender, having written its frame, holds inFlightM: nothing to arm when everything has been
answered, otherwise it goes into the arming SetReadDeadline. -/
def senderAtM (s : St) (w : Who) : St :=
  if s.inFlight = 0 then finishSend s w else setPhase s w .arm

/-- The reader, holding inFlightM, counts the response; at zero it goes into the clearing
SetReadDeadline. -/
def readerAtM (s : St) (id : Nat) (it : Item) (f : Frame) : St :=
  let n := (s.inFlight + uint32 - 1) % uint32
  let s1 := { s with inFlight := n }
  if n = 0 then { s1 with reader := .clearing id it f } else finishFrame s1 id it f

/-- inFlightM has been released: hand it to the waiters in FIFO order until one keeps it. -/
def wakeM : Nat → St → St
  | 0, s => s
  | fuel + 1, s =>
    if mHeld s then s else
    match s.mWait with
    | [] => s
    | .sender w :: rest =>
      let s1 := { s with mWait := rest }
      match s1.sends.find? (fun x => x.who == w) with
      | some x =>
        if x.phase == .addWait then wakeM fuel (senderAdd s1 w)
        else if x.phase == .armWait then wakeM fuel (senderAtM s1 w)
        else wakeM fuel s1
      | none => wakeM fuel s1
    | .reader :: rest =>
      match s.reader with
      | .downWait id it f => wakeM fuel (readerAtM { s with mWait := rest } id it f)
      | _ => wakeM fuel { s with mWait := rest }

def releaseM (s : St) : St := wakeM (s.mWait.length + 1) s

def step (s : St) : Act → Option St
  | .queueBatched c =>
    if s.handed.contains c then none else
    let s := { s with handed := s.handed ++ [c] }
    if s.ctxDone.contains c then
      -- environment restriction: a batched call is never queued with an ended context (the
      -- `select` in QueueBatch would choose at random)
      none
    else if s.done then some { s with delivered := s.delivered ++ [Dlv.mk c .connErr none] }
    else some (writerLoop { s with offered := s.offered ++ [c] })
  | .queueBatchedUnsendable c =>
    if s.handed.contains c then none else
    let s := { s with handed := s.handed ++ [c] }
    if s.ctxDone.contains c then none
    else if s.done then some { s with delivered := s.delivered ++ [Dlv.mk c .connErr none] }
    else some (writerLoop { s with offered := s.offered ++ [c], poison := s.poison ++ [c] })
  | .queueDirect c =>
    if s.handed.contains c then none else
    let s := { s with handed := s.handed ++ [c] }
    if s.ctxDone.contains c then
      -- environment restriction: with the connection done as well, the `select` in QueueRPC
      -- would choose at random between refusing and dropping
      if s.done then none else some { s with dropped := s.dropped ++ [c] }
    else if s.done then some { s with delivered := s.delivered ++ [Dlv.mk c .connErr none] }
    else some (startSend s (.direct c) (.single c))
  | .queueDirectClosing c =>
    -- QueueRPC has seen the connection alive; while the request is being serialised an external
    -- Close() runs to completion (done, connection closed, everything registered so far failed);
    -- then the call is registered — after the sweep — counted and written to the closed connection
    if s.handed.contains c then none else
    let s := { s with handed := s.handed ++ [c] }
    if s.ctxDone.contains c then
      if s.done then none else some { s with dropped := s.dropped ++ [c] }
    else if s.done then some { s with delivered := s.delivered ++ [Dlv.mk c .connErr none] }
    else some (startSend (failConn s) (.direct c) (.single c))
  | .queueUnsendable c =>
    -- send: register (the id is consumed), marshalProto fails before the request is counted in
    -- flight or written; trySend unregisters it again and QueueRPC completes the call with the
    -- (non connection-level) error
    if s.handed.contains c then none else
    let s := { s with handed := s.handed ++ [c] }
    if s.ctxDone.contains c then
      if s.done then none else some { s with dropped := s.dropped ++ [c] }
    else if s.done then some { s with delivered := s.delivered ++ [Dlv.mk c .connErr none] }
    else some { s with nextId := s.nextId + 1, unsendable := s.unsendable ++ [c],
                       delivered := s.delivered ++ [Dlv.mk c .fatal none] }
  | .cancel c =>
    if s.ctxDone.contains c then none else
    -- a QueueBatch caller blocked on the queue gives up
    some { s with ctxDone := s.ctxDone ++ [c], offered := s.offered.filter (· != c),
                  dropped := if s.offered.contains c then s.dropped ++ [c] else s.dropped }
  | .write w last r =>
    -- environment: a Write or SetReadDeadline that completes after `fail` has closed the connection
    -- reports an error (net.Conn contract); a success completing concurrently with `fail` is the
    -- run in which the success event comes first (it reads and writes nothing `fail` touches)
    if s.done && r == .ok then none else
    match findSend s w .write with
    | none => none
    | some snd =>
      match r with
      | .err => some (finishSend (sendFailed (releaseWriteM s) snd) w)
      | .ok =>
        if !last then some s
        else
          let s1 := releaseWriteM s
          if mHeld s1 then some { setPhase s1 w .armWait with mWait := s1.mWait ++ [.sender w] }
          else some (senderAtM s1 w)
  | .arm w r =>
    if s.done && r == .ok then none else
    match findSend s w .arm with
    | none => none
    | some snd =>
      match r with
      | .ok => some (releaseM (finishSend { s with armed := true } w))
      | .err => some (releaseM (finishSend (sendFailed s snd) w))
  | .read id f =>
    if s.reader ≠ .reading then none else
    match f with
    | .badHeader => some ({ failConn { s with reader := .exited } with reader := .exited })
    | _ =>
      match lookupSent s id with
      | none => some ({ failConn { s with reader := .exited } with reader := .exited })
      | some it =>
        let s1 := eraseSent s id
        if mHeld s1 then some { s1 with reader := .downWait id it f, mWait := s1.mWait ++ [.reader] }
        else some (readerAtM s1 id it f)
  | .readErr =>
    if s.reader ≠ .reading then none else
    some ({ failConn { s with reader := .exited } with reader := .exited })
  | .timeout =>
    if s.reader ≠ .reading || !s.armed then none else
    some ({ failConn { s with reader := .exited } with reader := .exited })
  | .clear r =>
    match s.reader with
    | .clearing id it f =>
      match r with
      | .ok => some (releaseM (finishFrame { s with armed := false, reader := .reading } id it f))
      | .err =>
        -- the call has been unregistered: it is completed here, then the connection fails
        let s1 := deliverItem s it .connErr none
        some (releaseM ({ failConn { s1 with reader := .exited } with reader := .exited }))
    | _ => none
  | .close => some (failConn s)

def run (s : St) : List Act → Option St
  | [] => some s
  | a :: as => match step s a with
    | some s' => run s' as
    | none => none

def init (queueSize : Nat) : St := { queueSize := queueSize }

def Reachable (q : Nat) (s : St) : Prop := ∃ as, run (init q) as = some s

/-- Number of results delivered to call `c`. -/
def deliveredCount (s : St) (c : Nat) : Nat := (s.delivered.filter (·.call == c)).length

/-- No goroutine is in the middle of a send or of handling a frame, nothing is queued. -/
def quiescent (s : St) : Bool :=
  s.sends.isEmpty && s.offered.isEmpty && (s.reader == .reading || s.reader == .exited)

/-- Calls that are registered and waiting for a response. -/
def outstanding (s : St) : List Nat := s.sent.flatMap (·.2.calls)

end GV.Conn
