import GohbaseVerif.Basic
import GohbaseVerif.Gen.Wire
/-!
Model of `region/compressor.go` (as it is in the working tree now):

* `Codec` — the `compression.Codec` interface as plain parameters (no axioms): `encode s` is the
  byte string `Encode(src, dst)` *appends* to `dst` (its second result is `uint32(len)` of it),
  `decode x` is what `Decode(src, dst)` appends (`none` = `error`), `chunkLen` is `ChunkLen()`.
* `consume`, `readLoop`, `Buffers.read` — `(*net.Buffers).consume` / `(*net.Buffers).Read`
  (go1.23 `net/net.go`), transcribed literally, including `consume` dropping drained buffers.
* `compressLoop`, `compressCellblocks` — the `for { n, err := cbs.Read(buf); if n == 0 {break} …}`
  loop.  Go reserves 4 bytes, lets the codec append, then patches the length at `lenOffset`;
  the model writes `toBE 4 len ++ enc` (`toBE 4` reduces mod 2^32 like `uint32(len(chunk))`).
* `readN`, `readUint32`, `chunkLoop`, `blockLoop`, `decompressCellblocks` — the decoder.  Slicing
  and `binary.BigEndian.Uint32` are `Outcome.fault` when out of range, so that "no panic" is a
  theorem about the guards and not a property of a total function.
  `out = slices.Grow(out, int(uncompressedBlockLen))` is allocation only (capacity, not length)
  and is **not modelled** (resource exhaustion is outside the model, DESIGN §4).
  `int(compressedChunkLen)` is modelled for a 64-bit `int` (never negative).
  `uncompressedSoFar += uncompressedChunkLen` is `uint32` arithmetic: `% 2^32` explicitly.

Every loop is a recursion on the remaining input: `readLoop` on `want + #buffers`,
`compressLoop` on the number of bytes left in the buffers, `chunkLoop`/`blockLoop` on the
length of the unread stream (each iteration consumes at least 4 bytes).

`Spec.*` is the Hadoop `BlockCompressorStream`/`BlockDecompressorStream` format written from its
description, with an independent reference decoder (`Spec.parseStream`, `Spec.decodeStream`)
that counts the *remaining* raw bytes of a block down in `Nat` instead of accumulating in
`uint32`.
-/
set_option linter.unusedVariables false
namespace GV.Compress
open GV

abbrev U32 : Nat := 4294967296

structure Codec where
  encode : Bytes → Bytes
  decode : Bytes → Option Bytes
  chunkLen : Nat

/-! ### `net.Buffers` -/

/-- `(*Buffers).consume(n)`. -/
def consume : List Bytes → Nat → List Bytes
  | [], _ => []
  | b :: rest, n => if n < b.length then b.drop n :: rest else consume rest (n - b.length)

theorem consume_length_le (v : List Bytes) (n : Nat) : (consume v n).length ≤ v.length := by
  induction v generalizing n with
  | nil => simp [consume]
  | cons b rest ih =>
    simp only [consume]
    split
    · simp
    · have := ih (n - b.length); simp only [List.length_cons]; omega

/-- The loop `for len(p) > 0 && len(*v) > 0 { n0 := copy(p, (*v)[0]); v.consume(n0); p = p[n0:]; n += n0 }`
of `(*Buffers).Read`; `want = len(p)`.  Returns the bytes copied and the buffers left. -/
def readLoop (v : List Bytes) (want : Nat) : Bytes × List Bytes :=
  if want = 0 then ([], v) else
  match v with
  | [] => ([], [])
  | b :: rest =>
    let n0 := min want b.length
    let r := readLoop (consume (b :: rest) n0) (want - n0)
    (b.take n0 ++ r.1, r.2)
termination_by want + v.length
decreasing_by
  rename_i hw
  by_cases h0 : b.length = 0
  · have e : min want b.length = 0 := by omega
    rw [e]
    simp only [consume, h0, Nat.lt_irrefl, if_false]
    have := consume_length_le rest (0 - 0)
    simp only [List.length_cons]; omega
  · have := consume_length_le (b :: rest) (min want b.length)
    simp only [List.length_cons] at this ⊢
    omega

structure ReadResult where
  data : Bytes        -- `p[:n]`
  rest : List Bytes   -- `*v` afterwards
  eof : Bool          -- `err == io.EOF` (the only non-nil error `Read` returns)
  deriving Repr, DecidableEq

/-- `(*Buffers).Read(p)` with `len(p) = want`. -/
def Buffers.read (v : List Bytes) (want : Nat) : ReadResult :=
  let r := readLoop v want
  ⟨r.1, r.2, r.2.isEmpty⟩

theorem consume_flatten (v : List Bytes) (n : Nat) :
    (consume v n).flatten = v.flatten.drop n := by
  induction v generalizing n with
  | nil => simp [consume]
  | cons b rest ih =>
    simp only [consume]
    split
    · rename_i h
      simp only [List.flatten_cons]
      rw [List.drop_append_of_le_length (by omega)]
    · rename_i h
      simp only [List.flatten_cons, ih]
      rw [List.drop_append]
      have : b.drop n = [] := List.drop_eq_nil_of_le (by omega)
      simp [this]

/-- What `Read` delivers: the first `want` bytes of the concatenation; the rest stays. -/
theorem readLoop_spec (v : List Bytes) (want : Nat) :
    (readLoop v want).1 = v.flatten.take want ∧ (readLoop v want).2.flatten = v.flatten.drop want := by
  induction h : want + v.length using Nat.strongRecOn generalizing v want with
  | _ m ih =>
    unfold readLoop
    by_cases hw : want = 0
    · simp [hw]
    · simp only [hw, if_false]
      cases v with
      | nil => simp
      | cons b rest =>
        simp only
        have hdec : (want - min want b.length) + (consume (b :: rest) (min want b.length)).length < m := by
          subst h
          by_cases h0 : b.length = 0
          · have e : min want b.length = 0 := by omega
            rw [e]
            simp only [consume, h0, Nat.lt_irrefl, if_false]
            have := consume_length_le rest (0 - 0)
            simp only [List.length_cons]; omega
          · have := consume_length_le (b :: rest) (min want b.length)
            simp only [List.length_cons] at this ⊢
            omega
        obtain ⟨i1, i2⟩ := ih _ hdec (consume (b :: rest) (min want b.length)) (want - min want b.length) rfl
        rw [i1, i2, consume_flatten]
        simp only [List.flatten_cons]
        constructor
        · by_cases hle : want ≤ b.length
          · have e : min want b.length = want := by omega
            rw [e]
            simp [List.take_append_of_le_length hle]
          · have e : min want b.length = b.length := by omega
            rw [e]
            rw [List.drop_append_of_le_length (Nat.le_refl _)]
            simp only [List.drop_length, List.nil_append, List.take_length]
            rw [List.take_append]
            have : b.take want = b := List.take_of_length_le (by omega)
            rw [this]
        · rw [List.drop_drop]
          congr 1
          omega

/-! ### `compressCellblocks` -/

/-- The `for { n, err := cbs.Read(uncompressedBuffer) … }` loop; `k = len(uncompressedBuffer)`,
`b` is the output so far. -/
def compressLoop (c : Codec) (k : Nat) (v : List Bytes) (b : Bytes) : Bytes :=
  let r := Buffers.read v k
  if r.data = [] then b                                   -- `if n == 0 { break }`
  else
    let enc := c.encode r.data                            -- `c.Encode(uncompressedBuffer[:n], b)`
    let b' := b ++ toBE 4 enc.length ++ enc               -- chunk length patched in at `lenOffset`
    if r.eof then b' else compressLoop c k r.rest b'      -- `if err == io.EOF { break }`
termination_by v.flatten.length
decreasing_by
  rename_i hne0 _
  have hs := readLoop_spec v k
  have hne : ¬ (readLoop v k).1 = [] := hne0
  show (readLoop v k).2.flatten.length < _
  rw [hs.2]
  rw [hs.1] at hne
  have hk : k ≠ 0 := by intro h; simp [h] at hne
  have hv : v.flatten ≠ [] := by intro h; simp [h] at hne
  have : 0 < v.flatten.length := List.length_pos_iff.mpr hv
  simp only [List.length_drop]; omega

/-- `(c *compressor).compressCellblocks(cbs, uncompressedLen)`. -/
def compressCellblocks (c : Codec) (cbs : List Bytes) (uncompressedLen : Nat) : Bytes :=
  compressLoop c (min uncompressedLen c.chunkLen) cbs (toBE 4 uncompressedLen)

/-! ### `decompressCellblocks` -/

/-- `b[:n]` (cap = len). -/
def sliceTo (b : Bytes) (n : Nat) : Outcome Bytes :=
  if n ≤ b.length then .ok (b.take n) else .fault "slice bounds out of range"

/-- `b[n:]`. -/
def sliceFrom (b : Bytes) (n : Nat) : Outcome Bytes :=
  if n ≤ b.length then .ok (b.drop n) else .fault "slice bounds out of range"

/-- `readN(b, n)`. -/
def readN (b : Bytes) (n : Nat) : Outcome (Bytes × Bytes) :=
  if b.length < n then .err "short-read" else
  match sliceTo b n, sliceFrom b n with
  | .ok h, .ok t => .ok (h, t)
  | _, _ => .fault "slice bounds out of range"

/-- `binary.BigEndian.Uint32(h)` (`_ = b[3]` bounds check). -/
def beUint32 (h : Bytes) : Outcome Nat :=
  if h.length < 4 then .fault "index out of range [3]" else .ok (beNat (h.take 4))

/-- `readUint32(b)`. -/
def readUint32 (b : Bytes) : Outcome (Nat × Bytes) :=
  match readN b 4 with
  | .ok (h, t) =>
    match beUint32 h with
    | .ok v => .ok (v, t)
    | .err e => .err e
    | .fault w => .fault w
  | .err e => .err e
  | .fault w => .fault w

theorem readN_ok {b : Bytes} {n : Nat} {h t : Bytes} (e : readN b n = .ok (h, t)) :
    n ≤ b.length ∧ h = b.take n ∧ t = b.drop n := by
  unfold readN sliceTo sliceFrom at e
  by_cases hl : b.length < n
  · simp [hl] at e
  · have hle : n ≤ b.length := by omega
    simp only [hl, hle, if_false, if_true] at e
    injection e with e
    injection e with e1 e2
    exact ⟨hle, e1.symm, e2.symm⟩

theorem readN_of_le {b : Bytes} {n : Nat} (hle : n ≤ b.length) :
    readN b n = .ok (b.take n, b.drop n) := by
  unfold readN sliceTo sliceFrom
  have hl : ¬ b.length < n := by omega
  simp only [hl, hle, if_false, if_true]

theorem readN_of_lt {b : Bytes} {n : Nat} (hlt : b.length < n) : readN b n = .err "short-read" := by
  unfold readN; simp [hlt]

theorem readUint32_of_le {b : Bytes} (hle : 4 ≤ b.length) :
    readUint32 b = .ok (beNat (b.take 4), b.drop 4) := by
  unfold readUint32 beUint32
  rw [readN_of_le hle]
  have : ¬ (b.take 4).length < 4 := by simp [List.length_take]; omega
  simp only [this, if_false, List.take_take, Nat.min_self]

theorem readUint32_of_lt {b : Bytes} (hlt : b.length < 4) : readUint32 b = .err "short-read" := by
  unfold readUint32; rw [readN_of_lt hlt]

theorem readUint32_ok {b : Bytes} {v : Nat} {t : Bytes} (e : readUint32 b = .ok (v, t)) :
    4 ≤ b.length ∧ v = beNat (b.take 4) ∧ t = b.drop 4 := by
  by_cases hle : 4 ≤ b.length
  · rw [readUint32_of_le hle] at e
    injection e with e; injection e with e1 e2
    exact ⟨hle, e1.symm, e2.symm⟩
  · rw [readUint32_of_lt (by omega)] at e; cases e

/-- State after the inner loop: `(uncompressedSoFar, b, out)`. -/
abbrev ChunkState := Nat × Bytes × Bytes

/-- `for uncompressedSoFar < uncompressedBlockLen { … }`. -/
def chunkLoop (c : Codec) (blockLen soFar : Nat) (b out : Bytes) : Outcome ChunkState :=
  if soFar < blockLen then
    match h1 : readUint32 b with
    | .err _ => .err "chunk-len"         -- "failed to read compressed chunk block length"
    | .fault w => .fault w
    | .ok (cl, b1) =>
      match h2 : readN b1 cl with
      | .err _ => .err "chunk"           -- "failed to read compressed chunk"
      | .fault w => .fault w
      | .ok (chunk, b2) =>
        match c.decode chunk with
        | none => .err "decode"          -- "failed to decode compressed chunk"
        | some d => chunkLoop c blockLen ((soFar + d.length % U32) % U32) b2 (out ++ d)
  else .ok (soFar, b, out)
termination_by b.length
decreasing_by
  have a := readUint32_ok h1
  have a2 := readN_ok h2
  rw [a2.2.2, a.2.2]
  simp only [List.length_drop]
  omega

/-- The inner loop never returns more unread input than it was given. -/
theorem chunkLoop_rest_le (c : Codec) (blockLen soFar : Nat) (b out : Bytes) {st : ChunkState}
    (e : chunkLoop c blockLen soFar b out = .ok st) : st.2.1.length ≤ b.length := by
  induction hn : b.length using Nat.strongRecOn generalizing b soFar out with
  | _ n ih =>
    unfold chunkLoop at e
    by_cases hlt : soFar < blockLen
    · simp only [hlt, if_true] at e
      split at e
      · cases e
      · cases e
      · rename_i cl b1 h1
        split at e
        · cases e
        · cases e
        · rename_i chunk b2 h2
          have a := readUint32_ok h1
          have a2 := readN_ok h2
          have hb2 : b2.length < n := by
            rw [a2.2.2, a.2.2]; simp only [List.length_drop]; omega
          split at e
          · cases e
          · have := ih _ hb2 _ _ _ e rfl
            omega
    · simp only [hlt, if_false] at e
      injection e with e
      subst e; subst hn; simp

/-- `for len(b) > 0 { … }` of `decompressCellblocks`. -/
def blockLoop (c : Codec) (b out : Bytes) : Outcome Bytes :=
  if b.length = 0 then .ok out else
  match h1 : readUint32 b with
  | .err _ => .err "block-len"           -- "failed to read uncompressed block length"
  | .fault w => .fault w
  | .ok (blockLen, b1) =>
    -- `out = slices.Grow(out, int(uncompressedBlockLen))`: capacity only, not modelled
    match h2 : chunkLoop c blockLen 0 b1 out with
    | .err e => .err e
    | .fault w => .fault w
    | .ok (soFar, b2, out') =>
      if soFar > blockLen then .err "more"      -- "uncompressed more than expected"
      else blockLoop c b2 out'
termination_by b.length
decreasing_by
  have a := readUint32_ok h1
  have l := chunkLoop_rest_le _ _ _ _ _ h2
  simp only at l
  rw [a.2.2] at l
  simp only [List.length_drop] at l
  omega

/-- `(c *compressor).decompressCellblocks(b)` (a nil result slice is the empty byte string). -/
def decompressCellblocks (c : Codec) (b : Bytes) : Outcome Bytes := blockLoop c b []

/-! ### The Hadoop block-compressed stream format (specification side)

`BlockCompressorStream`: a stream is a sequence of blocks.  A block is the 4-byte big-endian
length of its raw (uncompressed) data followed by chunks; a chunk is the 4-byte big-endian
length of its compressed bytes followed by them; the decoded chunks of a block concatenate to
exactly the raw length.  A compressor never emits an empty chunk and never gives the codec more
than its buffer size (`chunkLen`) at once. -/
namespace Spec

/-- A block handed to the encoder as the raw pieces it is chunked into. -/
abbrev Pieces := List Bytes

def encChunk (c : Codec) (p : Bytes) : Bytes := toBE 4 (c.encode p).length ++ c.encode p

def encBlock (c : Codec) (ps : Pieces) : Bytes :=
  toBE 4 ps.flatten.length ++ (ps.map (encChunk c)).flatten

/-- The stream a conforming compressor produces for `blocks`, each cut into the given pieces
("chunking" = the way each block is written as a concatenation of pieces). -/
def encode (c : Codec) (blocks : List Pieces) : Bytes := (blocks.map (encBlock c)).flatten

/-- The raw data a list of chunked blocks stands for. -/
def rawData (blocks : List Pieces) : Bytes := (blocks.map List.flatten).flatten

/-- Everything fits its 4-byte length field and no chunk is empty. -/
def WellSized (c : Codec) (blocks : List Pieces) : Prop :=
  ∀ ps ∈ blocks, ps.flatten.length < U32 ∧ ∀ p ∈ ps, p ≠ [] ∧ (c.encode p).length < U32

/-- `s` is a conforming stream: the encoding of some blocks, chunked somehow, every chunk
non-empty and no larger than the codec's chunk size. -/
def hadoopStream (c : Codec) (s : Bytes) : Prop :=
  ∃ blocks : List Pieces, WellSized c blocks ∧ (∀ ps ∈ blocks, ∀ p ∈ ps, p.length ≤ c.chunkLen) ∧
    s = encode c blocks

/-- Split into pieces of `k` bytes (the last one may be shorter). -/
def chunksOf (k : Nat) (s : Bytes) : List Bytes :=
  if h : k = 0 ∨ s = [] then [] else s.take k :: chunksOf k (s.drop k)
termination_by s.length
decreasing_by
  have hs : 0 < s.length := List.length_pos_iff.mpr (by intro e; exact h (Or.inr e))
  simp only [List.length_drop]; omega

/-- A parsed block: declared raw length and the decoded chunks in order. -/
structure PBlock where
  rawLen : Nat
  pieces : List Bytes
  deriving Repr, DecidableEq

def be32? (s : Bytes) : Option (Nat × Bytes) :=
  match s with
  | a :: b :: c :: d :: rest => some (((a.toNat * 256 + b.toNat) * 256 + c.toNat) * 256 + d.toNat, rest)
  | _ => none

theorem be32?_length {s : Bytes} {v : Nat} {r : Bytes} (h : be32? s = some (v, r)) :
    r.length + 4 = s.length := by
  unfold be32? at h
  split at h
  · injection h with h; injection h with _ h; subst h; simp
  · cases h

/-- Reference decoder for the chunks of one block: `remaining` raw bytes are still owed.
Returns the decoded pieces and the unread rest. -/
def parseChunks (c : Codec) (remaining : Nat) (s : Bytes) : Option (List Bytes × Bytes) :=
  if remaining = 0 then some ([], s) else
  match h : be32? s with
  | none => none
  | some (cl, s1) =>
    if s1.length < cl then none else
    match c.decode (s1.take cl) with
    | none => none
    | some d =>
      if remaining < d.length then none else
      match parseChunks c (remaining - d.length) (s1.drop cl) with
      | none => none
      | some (ps, rest) => some (d :: ps, rest)
termination_by s.length
decreasing_by
  have := be32?_length h
  simp only [List.length_drop]; omega

theorem parseChunks_rest_le (c : Codec) (remaining : Nat) (s : Bytes) {ps : List Bytes} {rest : Bytes}
    (e : parseChunks c remaining s = some (ps, rest)) : rest.length ≤ s.length := by
  induction hn : s.length using Nat.strongRecOn generalizing s remaining ps rest with
  | _ n ih =>
    unfold parseChunks at e
    by_cases h0 : remaining = 0
    · simp only [h0, if_true] at e
      injection e with e; injection e with _ e; subst e; omega
    · simp only [h0, if_false] at e
      split at e
      · cases e
      · rename_i cl s1 hbe
        have hl := be32?_length hbe
        split at e
        · cases e
        · split at e
          · cases e
          · split at e
            · cases e
            · split at e
              · cases e
              · rename_i ps' rest' hrec
                injection e with e; injection e with _ e; subst e
                have : (s1.drop cl).length < n := by simp only [List.length_drop]; omega
                have := ih _ this _ _ hrec rfl
                simp only [List.length_drop] at this
                omega

/-- Reference parser of a whole stream. -/
def parseStream (c : Codec) (s : Bytes) : Option (List PBlock) :=
  if s.length = 0 then some [] else
  match h : be32? s with
  | none => none
  | some (raw, s1) =>
    match h2 : parseChunks c raw s1 with
    | none => none
    | some (ps, rest) =>
      match parseStream c rest with
      | none => none
      | some bs => some (⟨raw, ps⟩ :: bs)
termination_by s.length
decreasing_by
  have := be32?_length h
  have := parseChunks_rest_le _ _ _ h2
  omega

/-- A block as it lies framed in a stream, without reference to any decoder: the declared raw
length and, per chunk, the compressed bytes together with what they decode to. -/
structure FBlock where
  rawLen : Nat
  chunks : List (Bytes × Bytes)

def FBlock.frame (b : FBlock) : Bytes :=
  toBE 4 b.rawLen ++ (b.chunks.map fun ch => toBE 4 ch.1.length ++ ch.1).flatten

def FBlock.data (b : FBlock) : Bytes := (b.chunks.map (·.2)).flatten

/-- The length fields fit 32 bits and every chunk decodes to the recorded bytes. -/
def FBlock.Valid (c : Codec) (b : FBlock) : Prop :=
  b.rawLen < U32 ∧ ∀ ch ∈ b.chunks, ch.1.length < U32 ∧ c.decode ch.1 = some ch.2

def frameStream (bs : List FBlock) : Bytes := (bs.map FBlock.frame).flatten

/-- Independent reference decoder: the raw data of a stream, `none` if it is not a stream. -/
def decodeStream (c : Codec) (s : Bytes) : Option Bytes :=
  (parseStream c s).map fun bs => (bs.map fun b => b.pieces.flatten).flatten

end Spec

/-! ### Hypotheses and helpers the theorems are stated with -/

/-- The codec contract the round-trip theorems assume (`snappy.Decode(snappy.Encode s) = s`). -/
def Codec.Roundtrip (c : Codec) : Prop := ∀ s, c.decode (c.encode s) = some s

/-- The codec never expands a compressed chunk by more than a factor `R`
(raw snappy: at most 64 output bytes per 3 input bytes, `R = 22`). -/
def Codec.ExpandsAtMost (c : Codec) (R : Nat) : Prop :=
  ∀ x d, c.decode x = some d → d.length ≤ R * x.length

/-- Forget the error class. -/
def outOpt {α : Type} : Outcome α → Option α
  | .ok a => some a
  | _ => none

/-! ### Concrete codecs used by the driver and the examples -/

/-- The tests' identity-like mock codec: chunks are stored as they are. -/
def idCodec (chunkLen : Nat) : Codec := ⟨id, some, chunkLen⟩

/-- FNV-1a, 64 bit (the harness sends large byte strings as length + this hash). -/
def fnv1a (b : Bytes) : UInt64 :=
  b.foldl (fun h x => (h ^^^ x.toUInt64) * 1099511628211) 14695981039346656037

end GV.Compress
