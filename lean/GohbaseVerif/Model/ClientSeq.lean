import GohbaseVerif.Model.Classify
/-!
# Sequentialised progress of one request under a stable cluster (C04)

A deliberately small model.  One request for one row key is retried by the `SendRPC` loop against
a cluster whose layout no longer changes.  What is abstracted, precisely:

* **Layout (truth).**  `owner` is the region that owns the key, `host r` the server hosting
  region `r`; all servers are up and answer.  Meta lookups return this truth (a lookup by the
  request key returns `owner`; a lookup by the start key of a stale descriptor `r` returns
  `owner` iff `sameStart r`, otherwise some other region that does not cover the key).
* **Client state.**  `cached`: the descriptor the region cache returns for the key — C08 says at
  most one cached region covers a key — possibly stale (`≠ owner`); `links`: region ↦ server its
  connection object goes to (absent = `reg.Client() == nil`), possibly to the wrong server;
  `deadConns`: servers whose *cached connection object* is broken without the client having
  noticed; `transient`: number of retry-later answers (RegionTooBusy, …) the owner's server will
  still give this request.  `appError`: an application-level exception the owner's server
  answers with (a "real error").
* **Sequentialisation.**  Between two attempts the error handler (`handleResultError`,
  `clientDown`) and the establisher it starts run to completion, alone (`establish`, `connect`);
  no other request interferes.  Fairness of the Go scheduler is assumed; waits and back-off are
  not modelled (C17 does that).  The availability protocol (C09) is what makes the requester
  wait for exactly that completion.
* **Classification.**  The server's answers are Java class names classified by `classify`
  (regenerated tables), and the handler is chosen by the resulting class.
-/
namespace GV.ClientSeq
open GV.Classify

structure Layout where
  owner : Nat
  host : Nat → Nat
  sameStart : Nat → Bool
  appError : Option String := none

structure Client where
  cached : Option Nat := none
  links : List (Nat × Nat) := []
  deadConns : List Nat := []
  transient : Nat := 0
  deriving Repr, DecidableEq

inductive Outcome where
  | success (server region : Nat)         -- answered by that server for that region
  | returned (cls : String) (server region : Nat)   -- a real (unclassified) error, handed to the caller
  | failed (k : ErrClass)                 -- classified: handled and retried
  | stuck                                  -- cannot happen (see `resolve_ready`)
  deriving Repr, DecidableEq

def linkOf (c : Client) (r : Nat) : Option Nat := (c.links.find? (·.1 == r)).map (·.2)

/-- `clients.put(host r)` + `Dial` + probe, repeated until it succeeds (the cluster is stable, so
at the latest the second connection object works): a broken cached connection object for that
server is discovered by `Dial`/probe, `clientDown` drops it with all its links, and a fresh one
is made. -/
def connect (L : Layout) (c : Client) (r : Nat) : Client :=
  if L.host r ∈ c.deadConns then
    { c with deadConns := c.deadConns.filter (· != L.host r),
             links := (r, L.host r) :: c.links.filter fun l => l.1 != r && l.2 != L.host r }
  else { c with links := (r, L.host r) :: c.links.filter (·.1 != r) }

/-- `reestablishRegion(r)` run to completion. -/
def establish (L : Layout) (c : Client) (r : Nat) : Client :=
  if r = L.owner then connect L c r
  else
    -- lookup finds a different region: `regions.put` drops `r` (overlap), `clients.del(r)`
    let c1 := { c with links := c.links.filter (·.1 != r), cached := none }
    if L.sameStart r then connect L { c1 with cached := some L.owner } L.owner else c1

/-- `getRegionAndClientForRPC`: cache, else `findRegion`; nil client → re-establish and look again. -/
def resolve (L : Layout) (c : Client) : Client :=
  let c1 := match c.cached with
    | some r => if (linkOf c r).isSome then c else establish L c r
    | none => c
  match c1.cached with
  | none => connect L { c1 with cached := some L.owner } L.owner     -- findRegion + establishRegion
  | some _ => c1

/-- what the server `srv` answers a call for region `r` -/
def serverAnswer (L : Layout) (c : Client) (r srv : Nat) : Option String :=
  if r ≠ L.owner ∨ srv ≠ L.host r then some "org.apache.hadoop.hbase.NotServingRegionException"
  else if c.transient > 0 then some "org.apache.hadoop.hbase.RegionTooBusyException"
  else L.appError

/-- `clientDown(conn to srv, r)` followed by the establisher for `r` -/
def connectionLost (L : Layout) (c : Client) (r srv : Nat) : Client :=
  establish L { c with deadConns := c.deadConns.filter (· != srv),
                       links := c.links.filter (·.2 != srv) } r

/-- one iteration of the `SendRPC` loop -/
def attempt (L : Layout) (c : Client) : Outcome × Client :=
  let c1 := resolve L c
  match c1.cached with
  | none => (.stuck, c1)
  | some r =>
    match linkOf c1 r with
    | none => (.stuck, c1)
    | some srv =>
      if srv ∈ c1.deadConns then (.failed .server, connectionLost L c1 r srv)   -- write/read fails
      else match serverAnswer L c1 r srv with
        | none => (.success srv r, c1)
        | some cls =>
          match classify cls "" with
          | .nsre => (.failed .nsre, establish L c1 r)        -- handleResultError: that region only
          | .server => (.failed .server, connectionLost L c1 r srv)
          | .retryable => (.failed .retryable, { c1 with transient := c1.transient - 1 })
          | .fatal => (.returned cls srv r, c1)

def staleLink (L : Layout) (l : Nat × Nat) : Bool := l.2 != L.host l.1

/-- number of stale cache entries + stale links + broken connection objects + pending transient faults -/
def measure (L : Layout) (c : Client) : Nat :=
  (match c.cached with | some r => if r = L.owner then 0 else 1 | none => 0) +
  (c.links.filter (staleLink L)).length + c.deadConns.length + c.transient

/-- the `SendRPC` loop with fuel: index of the attempt that ended it and how -/
def sendRPC (L : Layout) : Nat → Client → Nat → Option (Nat × Outcome)
  | 0, _, _ => none
  | fuel + 1, c, n =>
    match attempt L c with
    | (.failed _, c') => sendRPC L fuel c' (n + 1)
    | (o, _) => some (n + 1, o)

end GV.ClientSeq
