/-!
# The connection cache and `Close` (C19, C20)

`clientRegionCache` (caches.go): `regions map[RegionClient]map[RegionInfo]struct{}` under one
mutex.  Connection objects are identified by the order in which the factory created them;
addresses and region objects are natural numbers.  Core Lean only.

* `put(addr, r, newClient)`: under the lock, range over the map; if some cached connection has
  `Addr() == addr`, add `r` to its set and return it; otherwise call the factory, insert, return
  the new one.  (Go ranges in random order; the model takes the first match in list order.  By
  `addr_unique` there is at most one match, so the order is immaterial.)
* `del(r)`: remove `r` from the set of its connection (`r.Client()`); the connection stays cached.
* `clientDown(c)`: delete the entry of `c`; the client has declared this connection dead.
* `closeAll()`: under the lock, `Close()` every cached connection (entries are *not* removed).
* `Dial`: the dialer runs inside `dialOnce.Do`.
* `Close()`: `closeOnce.Do(func(){ close(c.done); …; c.clients.closeAll() })` — two steps,
  `closeBegin` (takes the Once and closes `done`; a second call finds the Once taken and does
  nothing) and `closeAllRun`.
* establishers, only as far as `Close` is concerned: `pending` of them have been started by
  `go c.reestablishRegion` and have not yet executed its `select { case <-c.done: return; default: }`;
  `past` of them are beyond their last look at `c.done` (this includes every establisher started
  by `findRegion`'s `go c.establishRegion(reg, addr)`, which performs no such check before
  `clients.put`).  Only those call `put`.

The parameter `flag` tells whether the cache has the `closed` flag, set by `closeAll` under the
lock and making `put` return nil (the establisher then returns).  `flag = true` is the current
source (since fix a1d563d); `flag = false` is the source before that fix, kept to document why
the flag is needed.

The master connection of an admin client is not cached; it is modelled separately at the end of
this file (`AState`), with `check` telling whether the establisher looks at `c.done` after
publishing the connection (current source: yes).
-/
namespace GV.ConnCache

structure Conn where
  id : Nat
  addr : Nat
  dialCalls : Nat := 0       -- calls of `Dial`
  onceDone : Bool := false   -- `dialOnce` taken
  dials : Nat := 0           -- times the dialer actually ran
  closed : Bool := false     -- `Close()` was called on it
  down : Bool := false       -- `clientDown` was called for it
  afterClose : Bool := false -- the factory made it after `closeAll` had run
  deriving Repr, DecidableEq

structure Entry where
  id : Nat
  addr : Nat
  regs : List Nat
  deriving Repr, DecidableEq

structure State where
  conns : List Conn := []       -- every connection object the factory ever returned
  cache : List Entry := []
  nextId : Nat := 0
  onceStarted : Bool := false   -- `closeOnce` taken, `c.done` closed
  closeAllDone : Bool := false  -- `closeAll` has run (= the cache's `closed` flag in the variant)
  pending : Nat := 0
  past : Nat := 0
  deriving Repr, DecidableEq

def init : State := {}

inductive PutRes where
  | existing (id : Nat)
  | created (id : Nat)
  | refused
  deriving Repr, DecidableEq

def addReg (reg : Nat) (e : Entry) : Entry :=
  { e with regs := if reg ∈ e.regs then e.regs else reg :: e.regs }

def put (flag : Bool) (s : State) (addr reg : Nat) : State × PutRes :=
  if flag && s.closeAllDone then (s, .refused)
  else match s.cache.find? (·.addr == addr) with
    | some e =>
      ({ s with cache := s.cache.map fun x => if x.id == e.id then addReg reg x else x }, .existing e.id)
    | none =>
      ({ s with conns := { id := s.nextId, addr := addr, afterClose := s.closeAllDone } :: s.conns,
                cache := ⟨s.nextId, addr, [reg]⟩ :: s.cache,
                nextId := s.nextId + 1 }, .created s.nextId)

def updConn (id : Nat) (f : Conn → Conn) (cs : List Conn) : List Conn :=
  cs.map fun c => if c.id == id then f c else c

def dialConn (c : Conn) : Conn :=
  if c.onceDone then { c with dialCalls := c.dialCalls + 1 }
  else { c with dialCalls := c.dialCalls + 1, onceDone := true, dials := c.dials + 1 }

inductive Action where
  | spawnReestablish                 -- `go c.reestablishRegion(reg)`
  | spawnEstablish                   -- `go c.establishRegion(reg, addr)` (findRegion / findAllRegions)
  | estCheck                         -- reestablishRegion's look at `c.done`
  | estPut (addr reg : Nat)          -- `c.clients.put(addr, reg, …)`
  | estExit
  | del (id reg : Nat)
  | clientDown (id : Nat)
  | dial (id : Nat)
  | closeBegin
  | closeAllRun
  deriving Repr, DecidableEq

def step (flag : Bool) (s : State) : Action → Option State
  | .spawnReestablish => some { s with pending := s.pending + 1 }
  | .spawnEstablish => some { s with past := s.past + 1 }
  | .estCheck =>
    if s.pending = 0 then none
    else if s.onceStarted then some { s with pending := s.pending - 1 }
    else some { s with pending := s.pending - 1, past := s.past + 1 }
  | .estPut addr reg => if s.past = 0 then none else some (put flag s addr reg).1
  | .estExit => if s.past = 0 then none else some { s with past := s.past - 1 }
  | .del id reg =>
    some { s with cache := s.cache.map fun x => if x.id == id then { x with regs := x.regs.erase reg } else x }
  | .clientDown id =>
    some { s with cache := s.cache.filter (·.id != id),
                  conns := updConn id (fun c => { c with down := true }) s.conns }
  | .dial id => some { s with conns := updConn id dialConn s.conns }
  | .closeBegin =>
    if s.onceStarted then some s else some { s with onceStarted := true }
  | .closeAllRun =>
    if s.onceStarted ∧ ¬ s.closeAllDone then
      some { s with conns := s.conns.map (fun c =>
                      if s.cache.any (·.id == c.id) then { c with closed := true } else c),
                    closeAllDone := true }
    else none

def run (flag : Bool) (s : State) : List Action → Option State
  | [] => some s
  | a :: rest => match step flag s a with
    | some s' => run flag s' rest
    | none => none

def Reachable (flag : Bool) (s : State) : Prop := ∃ as, run flag init as = some s

/-- connection objects in the cache that are still open -/
def openCached (s : State) : List Nat :=
  (s.conns.filter fun c => !c.closed && s.cache.any (·.id == c.id)).map (·.id)

/-! ## The master connection (admin client)

`establishRegion` for `adminRegionInfo`: `client = newRegionClientFn(…)` (not cached), `Dial`,
`reg.SetClient(client)`, `reg.MarkAvailable()`, and — since a1d563d —
`select { case <-c.done: client.Close(); default: }`.
`Close`: `close(c.done)`, then `if ac := c.adminRegionInfo.Client(); ac != nil { ac.Close() }`. -/

structure AState where
  done : Bool := false
  closeAdminDone : Bool := false     -- `Close` has read `adminRegionInfo.Client()` and closed it
  adminClient : Option Nat := none   -- `adminRegionInfo.Client()`
  closedConns : List Nat := []       -- master connections on which `Close()` was called
  pendingCheck : List Nat := []      -- establishers between `SetClient(k)` and their look at `c.done`
  nextId : Nat := 0
  deriving Repr, DecidableEq

inductive AAction where
  | closeDone            -- `close(c.done)`
  | closeAdmin           -- `if ac := …Client(); ac != nil { ac.Close() }`
  | publish              -- factory, successful `Dial`, `reg.SetClient(client)`
  | checkDone (k : Nat)  -- the establisher that published `k` looks at `c.done`
  deriving Repr, DecidableEq

def astep (check : Bool) (s : AState) : AAction → Option AState
  | .closeDone => some { s with done := true }
  | .closeAdmin =>
    if s.done ∧ ¬ s.closeAdminDone then
      some { s with closeAdminDone := true,
                    closedConns := match s.adminClient with
                      | some k => k :: s.closedConns
                      | none => s.closedConns }
    else none
  | .publish =>
    some { s with adminClient := some s.nextId, nextId := s.nextId + 1,
                  pendingCheck := if check then s.nextId :: s.pendingCheck else s.pendingCheck }
  | .checkDone k =>
    if k ∈ s.pendingCheck then
      some { s with pendingCheck := s.pendingCheck.erase k,
                    closedConns := if s.done then k :: s.closedConns else s.closedConns }
    else none

def arun (check : Bool) (s : AState) : List AAction → Option AState
  | [] => some s
  | a :: rest => match astep check s a with
    | some s' => arun check s' rest
    | none => none

def AReachable (check : Bool) (s : AState) : Prop := ∃ as, arun check {} as = some s

end GV.ConnCache
