import GohbaseVerif.Basic
/-!
An executable decoder for the *raw snappy block format*, written from the format description
(google/snappy `format_description.txt`), as the independent implementation for the C15
correspondence check: it decodes what the real client compressed, and it is the `decode` of the
codec the Lean model runs with when a stream is judged.

Format: a block is `uvarint(decoded length)` followed by elements.  The low two bits of an
element's tag byte give its kind:

* `00` literal: upper six bits `m`; `m < 60`: length `m+1`; `m = 60..63`: the length minus one
  is stored little-endian in the next `m-59` bytes; then that many literal bytes follow.
* `01` copy, 1-byte offset: length `4 + bits 2..4`, offset = `bits 5..7` · 256 + next byte.
* `10` copy, 2-byte offset: length `1 + m`, offset little-endian in the next 2 bytes.
* `11` copy, 4-byte offset: length `1 + m`, offset little-endian in the next 4 bytes.

A copy reads `length` bytes starting `offset` bytes back in the output, byte by byte, so that it
may overlap what it writes (`offset < length` repeats a pattern).  Invalid: offset 0 or beyond the
output so far; an element that would write past the declared length or read past the input;
declared length not reached at the end of the input; a length header that is not a uvarint of at
most 10 bytes or exceeds 2^32-1 (the bound the Go library enforces).

Works on `ByteArray` (payloads of several hundred KiB); `decodeBytes` is the `List UInt8` face.
The loop recurses on the unread input: every element consumes at least its tag byte.
-/
namespace GV.Snappy
open GV

/-- Little-endian number in `src[pos .. pos+n)` (caller guarantees the range). -/
def leNat (src : ByteArray) (pos : Nat) : Nat → Nat
  | 0 => 0
  | n + 1 => (src.get! pos).toNat + 256 * leNat src (pos + 1) n

/-- `uvarint`: value and number of header bytes. At most 10 bytes; the tenth may only be 0 or 1. -/
def uvarint (src : ByteArray) : (fuel i shift acc : Nat) → Option (Nat × Nat)
  | 0, _, _, _ => none
  | fuel + 1, i, shift, acc =>
    if i < src.size then
      let b := (src.get! i).toNat
      if b < 128 then
        if i = 9 ∧ b > 1 then none else some (acc + b * 2 ^ shift, i + 1)
      else uvarint src fuel (i + 1) (shift + 7) (acc + (b - 128) * 2 ^ shift)
    else none

/-- Append `length` bytes read `offset` back, one at a time (overlap repeats the pattern). -/
def copyBack (offset : Nat) : Nat → ByteArray → ByteArray
  | 0, dst => dst
  | n + 1, dst => copyBack offset n (dst.push (dst.get! (dst.size - offset)))

/-- Element loop. `dLen` = declared decoded length, `s` = read position, `dst` = output so far. -/
def decodeLoop (src : ByteArray) (dLen : Nat) (s : Nat) (dst : ByteArray) : Option ByteArray :=
  if h : s < src.size then
    let tag := (src.get! s).toNat
    let m := tag / 4
    if tag % 4 = 0 then
      let extra := if m < 60 then 0 else m - 59
      let s1 := s + 1 + extra
      if s1 > src.size then none else
      let len := (if m < 60 then m else leNat src (s + 1) extra) + 1
      if len > dLen - dst.size ∨ len > src.size - s1 then none else
      decodeLoop src dLen (s1 + len) (dst ++ src.extract s1 (s1 + len))
    else
      let hdr := if tag % 4 = 1 then 2 else if tag % 4 = 2 then 3 else 5
      let s1 := s + hdr
      if s1 > src.size then none else
      let len := if tag % 4 = 1 then 4 + m % 8 else 1 + m
      let offset := if tag % 4 = 1 then (tag / 32) * 256 + (src.get! (s + 1)).toNat
                    else leNat src (s + 1) (hdr - 1)
      if offset = 0 ∨ dst.size < offset ∨ len > dLen - dst.size then none else
      decodeLoop src dLen s1 (copyBack offset len dst)
  else if dst.size = dLen then some dst else none
termination_by src.size - s
decreasing_by
  · omega
  · split
    · omega
    · split <;> omega

/-- Decode one raw snappy block. -/
def decode (src : ByteArray) : Option ByteArray :=
  match uvarint src 10 0 0 0 with
  | none => none
  | some (dLen, hdr) =>
    if dLen > 4294967295 then none else
    decodeLoop src dLen hdr ByteArray.empty

/-- `List UInt8` face of `decode` (the `Codec.decode` of the snappy codec in the driver). -/
def decodeBytes (b : Bytes) : Option Bytes := (decode b.toByteArray).map (·.toList)

/-! Sanity tests (evaluated at build time): literal, overlapping copy (pattern repeat), 2-byte-offset
copy, and the rejections. -/
#guard decodeBytes [0x05, 0x10, 0x61, 0x62, 0x63, 0x64, 0x65] == some [0x61, 0x62, 0x63, 0x64, 0x65]
#guard decodeBytes [0x09, 0x00, 0x61, 0x11, 0x01] == some (List.replicate 9 0x61)
#guard decodeBytes [0x06, 0x04, 0x61, 0x62, 0x0e, 0x02, 0x00] == some [0x61, 0x62, 0x61, 0x62, 0x61, 0x62]
#guard decodeBytes [0x00] == some []
#guard decodeBytes [] == none                                   -- no length header
#guard decodeBytes [0x09, 0x00, 0x61, 0x11, 0x02] == none       -- offset beyond the output
#guard decodeBytes [0x09, 0x00, 0x61, 0x11, 0x00] == none       -- offset 0
#guard decodeBytes [0x02, 0x10, 0x61] == none                   -- literal longer than the input
#guard decodeBytes [0x02, 0x00, 0x61] == none                   -- declared length not reached
#guard decodeBytes [0x01, 0x04, 0x61, 0x62] == none             -- writes past the declared length
#guard decodeBytes [0xff, 0xff, 0xff, 0xff, 0x1f, 0x00] == none -- declared length > 2^32-1

end GV.Snappy
