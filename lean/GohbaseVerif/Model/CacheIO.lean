import GohbaseVerif.Model.Cache
/-!
Line-protocol helpers shared by the C08 and C01 drivers: descriptor / index-list parsing and the
*spec oracle* on key ranges (`intersects`, written independently of the model's `overlap`).
Core Lean only.
-/
namespace GV.CacheIO
open GV GV.Cache

def parseIdxList (s : String) : Option (List Nat) :=
  if s = "-" then some [] else (s.splitOn ".").mapM String.toNat?

def showIdx (l : List Nat) : String :=
  if l.isEmpty then "-" else ".".intercalate (l.map toString)

def parseDesc (f : List String) : Option Region :=
  match f with
  | [ns, tbl, st, sp, nm, id] => do
    let ns ← fromHex ns
    let tbl ← fromHex tbl
    let st ← fromHex st
    let sp ← fromHex sp
    let nm ← fromHex nm
    let id ← id.toNat?
    pure ⟨ns, tbl, st, sp, nm, id⟩
  | _ => none

/-! ### The spec oracle: key ranges as sets of keys -/

/-- Two non-empty ranges intersect iff the larger start key lies in both. -/
def intersects (a b : Region) : Bool :=
  a.fq == b.fq &&
  (let k := if bcmp a.start b.start == .gt then a.start else b.start
   a.containsB k && b.containsB k)

def anyPairIntersect : List Region → Bool
  | [] => false
  | x :: xs => xs.any (intersects x) || anyPairIntersect xs

def idxOf (descs : Array Region) (r : Region) : Nat :=
  match descs.findIdx? (· == r) with
  | some i => i
  | none => descs.size

def insertSorted (x : Nat) : List Nat → List Nat
  | [] => [x]
  | y :: ys => if x < y then x :: y :: ys else if x = y then y :: ys else y :: insertSorted x ys

def sortIdx (l : List Nat) : List Nat := l.foldl (fun acc x => insertSorted x acc) []

def regs (descs : Array Region) (l : List Nat) : Option (List Region) := l.mapM (descs[·]?)

def b01 (b : Bool) : String := if b then "1" else "0"

def splitDescs : List String → Array Region → Option (Array Region × List String)
  | [], acc => some (acc, [])
  | tok :: rest, acc =>
    match tok.splitOn ":" with
    | "d" :: f =>
      match parseDesc f with
      | some r => splitDescs rest (acc.push r)
      | none => none
    | _ => some (acc, tok :: rest)

def distinct (descs : Array Region) : Bool :=
  let l := descs.toList
  l.length == l.eraseDups.length


end GV.CacheIO
