import GohbaseVerif.Model.Cache
/-!
Model of request routing (rpc.go): `keyRegionCache.get`, `getRegionFromCache`, the acceptance
checks of `metaLookup`, `findRegion`'s use of `put`, and the `maxFindRegionTries` loop of
`getRegionForRpc`.  `hbase:meta` is the environment (`Env.Meta`, DESIGN §5): a reversed one-row
scan from the search key answers with the greatest row `≤` the search key among the rows of the
table's regions, in `region.Compare` order.

Not modelled here: the master client and the `hbase:meta` table itself (both routed to fixed
descriptors before the cache is consulted), region availability and the connection cache.
-/
namespace GV.Routing
open GV GV.RegionName GV.Cache

/-- `keyRegionCache.get(key)`: `Seek`, panic on an exact match, then `Prev`. -/
def cacheGet (l : List Region) (key : Bytes) : Outcome (Option Region) :=
  match seek l key with
  | .fault w => .fault w
  | .err e => .err e
  | .ok e0 =>
    if e0.hit then .fault "WTF: got exact match for region search key"
    else .ok (e0.prev l).1

/-- `(*client).getRegionFromCache(table, key)` for a table other than `hbase:meta`. -/
def getRegionFromCache (l : List Region) (t k : Bytes) : Outcome (Option Region) :=
  match searchKeyO t k with
  | .fault w => .fault w
  | .err e => .err e
  | .ok key =>
    match cacheGet l key with
    | .fault w => .fault w
    | .err e => .err e
    | .ok none => .ok none
    | .ok (some x) =>
      if x.fq != t then .ok none
      else if !x.stop.isEmpty && bcmp k x.stop != .lt then .ok none
      else .ok (some x)

/-- The two checks `metaLookup` applies to the row `hbase:meta` answered with. -/
def metaAccepts (t k : Bytes) (m : Region) : Bool :=
  (t == m.fq) && !(!m.stop.isEmpty && bcmp k m.stop != .lt)

/-- `nameLt` as a Boolean on raw names (a panic of the comparison counts as "not below"). -/
def nameLtB (a b : Bytes) : Bool :=
  match compareName a b with
  | .ok d => decide (d < 0)
  | _ => false

/-- `Env.Meta`: the answer of `hbase:meta` to the reversed one-row scan `[searchKey, table)`,
for a layout listed in `region.Compare` order. -/
def metaRow (layout : List Region) (t k : Bytes) : Option Region :=
  ((layout.filter (fun x => x.fq == t && nameLtB x.name (searchKeyImpl t k)))).getLast?

/-- `getRegionForRpc` → (region, cache, number of meta lookups). `tries` is
`maxFindRegionTries`; `ok none` is `ErrCannotFindRegion`. -/
def routeN (layout : List Region) : Nat → Cache → Bytes → Bytes → Nat →
    Outcome (Option Region × Cache × Nat)
  | 0, c, _, _, n => .ok (none, c, n)
  | tries + 1, c, t, k, n =>
    match getRegionFromCache c.regions t k with
    | .fault w => .fault w
    | .err e => .err e
    | .ok (some r) => .ok (some r, c, n)
    | .ok none =>
      -- findRegion → lookupRegion → metaLookup
      match metaRow layout t k with
      | none => .err "TableNotFound"
      | some m =>
        if !metaAccepts t k m then .err "meta returned an entry for the wrong table/region"
        else
          match put c m with
          | .fault w => .fault w
          | .err e => .err e
          | .ok (c', _, true) => .ok (some m, c', n + 1)
          | .ok (c', _, false) => routeN layout tries c' t k (n + 1)

def route (layout : List Region) (c : Cache) (t k : Bytes) : Outcome (Option Region × Cache × Nat) :=
  routeN layout Gen.Wire.maxFindRegionTries c t k 0

end GV.Routing
