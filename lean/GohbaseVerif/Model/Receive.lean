import GohbaseVerif.Basic
import GohbaseVerif.Model.Cell
import GohbaseVerif.Gen.Exceptions
/-!
Model of what the region client does with a response frame once the (trusted) protobuf library has
decoded its parts:

* `region/client.go`  `receive` from the decoded header onward (`receiveDecide`): call-id lookup,
  exception fields through their nil-safe getters, response decode, the `cellsLen` bound check and
  `b[size-cellsLen:]` in `uint32`, decompression (a parameter), `DeserializeCellBlocks` (always for a
  multi), the short-read check, the delivery through the deferred `returnResult`, and
  `serverErrorIn` (`serverErrorIn`, `finishOk`): a server-class exception inside an accepted multi
  response fails the connection once every call has its result;
* `region/multi.go`   `DeserializeCellBlocks` (`multiDeserialize`) and `returnResults` (`multiReturn`);
* `hrpc/get.go`, `hrpc/mutate.go`  `DeserializeCellBlocks` (`getDeserialize`; the two are the same code);
* `hrpc/scan.go`      `Scan.DeserializeCellBlocks` (`scanDeserialize`);
* `scanner.go`        `coalesce` and the coalescing loop of `Next` (`nextLoop`);
* `region/info.go`    `infoFromCell`, `ParseRegionInfo`.

Protobuf messages are structures whose optional fields are `Option`s. The protobuf library is
trusted: `proto.Unmarshal` does not panic and rejects a message that lacks a proto2 `required`
field. The model still treats the dereference of such a field (`*e.Name`, `regInfo.TableName.…`) as a
`fault` branch; the theorems carry the library's guarantee as the hypothesis `ReqOk`.

Every Go index / slice / nil dereference / type assertion / explicit `panic` on the way is a
`fault` branch guarded exactly as the Go code guards it; a send on a result channel (capacity 1)
that already holds a result nobody has read is `fault` ("blocked forever").  Every loop is
structural recursion over the decoded response (a list of region results, of results, of counts):
none needs fuel.
-/
namespace GV.Receive
open GV GV.Cell

/-! ### errors -/

/-- The error classes a caller can tell apart (`region.RetryableError`, `NotServingRegionError`,
`ServerError`, anything else). -/
inductive ErrCls where
  | retryable | nsre | connErr | fatal
  deriving DecidableEq, Repr

/-- `strings.Contains(s, sub)` on byte strings. -/
def containsB (sub : Bytes) : Bytes → Bool
  | [] => sub.isEmpty
  | c :: t => sub.isPrefixOf (c :: t) || containsB sub t

def strBytes (s : String) : Bytes := s.toUTF8.toList

/-- `s, ok := table[class]; ok && strings.Contains(stack, s)`. -/
def tableHit (tbl : List (String × String)) (cls stack : Bytes) : Bool :=
  match tbl.find? (fun e => strBytes e.1 == cls) with
  | some e => containsB (strBytes e.2) stack
  | none => false

/-- `exceptionToError(class, stack)`: the three tables are the regenerated `Gen.Exceptions`,
consulted in the order of the `if … else if` chain. -/
def exceptionToError (cls stack : Bytes) : ErrCls :=
  if tableHit Gen.Exceptions.retryableTable cls stack then .retryable
  else if tableHit Gen.Exceptions.regionTable cls stack then .nsre
  else if tableHit Gen.Exceptions.serverTable cls stack then .connErr
  else .fatal

/-! ### protobuf messages (decoded) -/

structure ExceptionResponse where
  className : Option Bytes
  stackTrace : Option Bytes
  deriving Repr, DecidableEq

/-- `cellBlockMeta = some none`: the sub-message is present without a `length`. -/
structure ResponseHeader where
  callId : Option Nat
  exception : Option ExceptionResponse
  cellBlockMeta : Option (Option Nat)
  deriving Repr, DecidableEq

/-- `pb.Result`. -/
structure PResult where
  cells : List Cell
  assocCount : Option Int := none
  partialFlag : Option Bool := none
  stale : Option Bool := none
  deriving Repr, DecidableEq

/-- `pb.GetResponse` / `pb.MutateResponse` (only `result` matters here). -/
structure GetResp where
  result : Option PResult
  deriving Repr, DecidableEq

structure ScanResp where
  cellsPerResult : List Nat
  partialFlags : List Bool
  results : List PResult
  deriving Repr, DecidableEq

/-- `name` is `required` in the .proto; `none` can only come out of a decoder that does not check
required fields. -/
structure NameBytesPair where
  name : Option Bytes
  value : Option Bytes
  deriving Repr, DecidableEq

structure ResultOrException where
  index : Option Nat
  result : Option PResult
  exception : Option NameBytesPair
  deriving Repr, DecidableEq

structure RegionActionResult where
  roes : List ResultOrException
  exception : Option NameBytesPair
  deriving Repr, DecidableEq

structure MultiResp where
  rars : List RegionActionResult
  deriving Repr, DecidableEq

/-- `uint32(x)` of an `int32` (two's complement). -/
def toU32 (i : Int) : Nat := (i % (two32 : Int)).toNat

/-! ### calls -/

inductive CallKind where
  | get | mutate
  deriving DecidableEq, Repr

/-- A call inside a multi: its kind and the identity of its region (`c.Region()`). `multi.toProto`
panics at *send* time for any other kind of call, so a multi that was sent holds only these. -/
structure MCall where
  kind : CallKind
  region : Nat
  deriving DecidableEq, Repr

/-- `region.multi` after `toProto`: `calls[i] = none` is a call dropped because its context had
ended (`m.calls[i] = nil`); `regions` are the region identities in the order of the request's
RegionActions. -/
structure Multi where
  calls : List (Option MCall)
  regions : List Nat
  deriving DecidableEq, Repr

inductive Rpc where
  | get | mutate | scan
  | multi (m : Multi)
  | other            -- a call that does not implement `DeserializeCellBlocks`
  deriving DecidableEq, Repr

/-- What `proto.Unmarshal(responseBytes, rpc.NewResponse())` yields for each response type
(`none`: the bytes do not decode as that type). The target type is fixed by the call, so the type
assertions `m.(*pb.GetResponse)` etc. cannot fail. -/
structure Decoded where
  get : Option GetResp := none
  mutate : Option GetResp := none
  scan : Option ScanResp := none
  multi : Option MultiResp := none
  other : Bool := false
  deriving Repr, DecidableEq

/-- The message handed to the caller. -/
inductive Msg where
  | nil
  | get (r : GetResp)
  | mutate (r : GetResp)
  | scan (r : ScanResp)
  | multi (r : MultiResp)
  | other
  deriving Repr, DecidableEq

/-- `hrpc.RPCResult{Msg, Error}`. -/
structure Delivery where
  msg : Msg
  err : Option ErrCls
  deriving Repr, DecidableEq

/-! ### per-call cell reading (`hrpc/get.go`, `hrpc/mutate.go`) -/

/-- `(*Get).DeserializeCellBlocks` / `(*Mutate).DeserializeCellBlocks`. -/
def getDeserialize (r : GetResp) (b : Bytes) : Outcome (GetResp × Nat) :=
  match r.result with
  | none => .ok (r, 0)
  | some res =>
    -- deserializeCellBlocks(b, uint32(resp.Result.GetAssociatedCellCount()))
    match deserializeCellBlocks b (toU32 (res.assocCount.getD 0)) with
    | .ok (cells, read) => .ok (⟨some { res with cells := res.cells ++ cells }⟩, read)
    | .err e => .err e
    | .fault w => .fault w

/-! ### `Scan.DeserializeCellBlocks` -/

/-- The loop `for i, numCells := range scanResp.GetCellsPerResult()`; `i` is the loop index,
`readLen` the `uint32` offset. `scanResp.Results[i]` has the same bound as `partials[i]`
(`Results = make(…, len(partials))`). -/
def scanLoop (b : Bytes) (partials : List Bool) : Nat → List Nat → Nat → Outcome (List PResult × Nat)
  | _, [], readLen => .ok ([], readLen)
  | i, numCells :: rest, readLen =>
    -- b[readLen:]
    if b.length < readLen then .fault "b[readLen:]" else
    match deserializeCellBlocks (b.drop readLen) numCells with
    | .ok (cells, l) =>
      -- partials[i]
      match partials[i]? with
      | none => .fault "partials[i]"
      | some p =>
        match scanLoop b partials (i + 1) rest ((readLen + l) % two32) with
        | .ok (rs, r) => .ok ({ cells := cells, partialFlag := some p } :: rs, r)
        | .err e => .err e
        | .fault w => .fault w
    | .err e => .err e
    | .fault w => .fault w

def scanDeserialize (r : ScanResp) (b : Bytes) : Outcome (ScanResp × Nat) :=
  if r.cellsPerResult.length ≠ r.partialFlags.length then .err "partial flags" else
  match scanLoop b r.partialFlags 0 r.cellsPerResult 0 with
  | .ok (rs, n) => .ok ({ r with results := rs }, n)
  | .err e => .err e
  | .fault w => .fault w

/-! ### `multi.DeserializeCellBlocks` -/

/-- `m.get(i)`: panics for `i = 0`, and indexes `m.calls[i-1]`. -/
def mget (m : Multi) (i : Nat) : Outcome (Option MCall) :=
  if i = 0 then .fault "index cannot be 0" else
  match m.calls[i - 1]? with
  | none => .fault "m.calls[i-1]"
  | some c => .ok c

/-- `seen` (a `[]bool` of `len(m.calls)` in Go) as the list of positions set; `nread` is `uint32`. -/
structure DState where
  seen : List Nat
  nread : Nat
  deriving Repr, DecidableEq

def desRoes (m : Multi) (b : Bytes) :
    List ResultOrException → DState → Outcome (List ResultOrException × DState)
  | [], st => .ok ([], st)
  | roe :: rest, st =>
    let i := roe.index.getD 0
    if i = 0 then .err "no index" else
    if roe.result.isNone && roe.exception.isNone then .err "no result or exception" else
    if roe.result.isSome && roe.exception.isSome then .err "result and exception" else
    -- int64(i) > int64(len(m.calls)) || m.calls[i-1] == nil
    if i > m.calls.length then .err "unexpected index" else
    match m.calls[i - 1]? with
    | none => .fault "m.calls[i-1]"
    | some none => .err "unexpected index"
    | some (some _) =>
      -- seen[i-1] (same index as above)
      if st.seen.contains (i - 1) then .err "duplicate index" else
      let st1 : DState := { st with seen := (i - 1) :: st.seen }
      match roe.exception with
      | some _ =>
        match desRoes m b rest st1 with
        | .ok (rs, st2) => .ok (roe :: rs, st2)
        | .err e => .err e
        | .fault w => .fault w
      | none =>
        -- c := m.get(i); d := c.(canDeserializeCellBlocks)
        match mget m i with
        | .fault w => .fault w
        | .err e => .err e
        | .ok none => .fault "c.(canDeserializeCellBlocks) on a nil call"
        | .ok (some _) =>
          -- b[nread:]
          if b.length < st1.nread then .fault "b[nread:]" else
          match getDeserialize ⟨roe.result⟩ (b.drop st1.nread) with
          | .ok (r', n) =>
            match desRoes m b rest { st1 with nread := (st1.nread + n) % two32 } with
            | .ok (rs, st2) => .ok ({ roe with result := r'.result } :: rs, st2)
            | .err e => .err e
            | .fault w => .fault w
          | .err e => .err e
          | .fault w => .fault w

def desRars (m : Multi) (b : Bytes) :
    List RegionActionResult → DState → Outcome (List RegionActionResult × DState)
  | [], st => .ok ([], st)
  | rar :: rest, st =>
    match rar.exception with
    | some _ =>
      if rar.roes.length ≠ 0 then .err "exception for region, but still have results" else
      match desRars m b rest st with
      | .ok (rs, st2) => .ok (rar :: rs, st2)
      | .err e => .err e
      | .fault w => .fault w
    | none =>
      match desRoes m b rar.roes st with
      | .ok (roes, st1) =>
        match desRars m b rest st1 with
        | .ok (rs, st2) => .ok ({ rar with roes := roes } :: rs, st2)
        | .err e => .err e
        | .fault w => .fault w
      | .err e => .err e
      | .fault w => .fault w

/-- `(*multi).DeserializeCellBlocks(msg, b)`: the response with the cells filled in, and `nread`. -/
def multiDeserialize (m : Multi) (mr : MultiResp) (b : Bytes) : Outcome (MultiResp × Nat) :=
  match desRars m b mr.rars ⟨[], 0⟩ with
  | .ok (rars, st) => .ok (⟨rars⟩, st.nread)
  | .err e => .err e
  | .fault w => .fault w

/-! ### `multi.returnResults` -/

/-- `answered` (a `[]bool` of `len(m.calls)`) as the list of positions set; `out` are the sends
performed so far, oldest first, as (position in `m.calls`, result). -/
structure RState where
  answered : List Nat
  out : List (Nat × Delivery)
  deriving Repr, DecidableEq

/-- `c.ResultChan() <- r` for the call at position `j`. The channel has capacity 1 and its reader
takes one result: a second send blocks the sending goroutine (the connection's reader) forever. -/
def send (st : RState) (j : Nat) (d : Delivery) : Outcome RState :=
  if (st.out.map (·.1)).contains j then .fault "send on a full result channel: blocked forever"
  else .ok { st with out := st.out ++ [(j, d)] }

def indexed {α} : Nat → List α → List (Nat × α)
  | _, [] => []
  | n, a :: as => (n, a) :: indexed (n + 1) as

def errD (e : ErrCls) : Delivery := ⟨.nil, some e⟩

/-- `for j, c := range m.calls { if c == nil || answered[j] {continue}; if c.Region() == reg {…} }`. -/
def failRegion (reg : Nat) (d : Delivery) : List (Nat × Option MCall) → RState → Outcome RState
  | [], st => .ok st
  | (_, none) :: rest, st => failRegion reg d rest st
  | (j, some c) :: rest, st =>
    if st.answered.contains j then failRegion reg d rest st
    else if c.region = reg then
      (send { st with answered := j :: st.answered } j d).bind (fun st' => failRegion reg d rest st')
    else failRegion reg d rest st

def callMsg (k : CallKind) (r : Option PResult) : Msg :=
  match k with
  | .get => .get ⟨r⟩
  | .mutate => .mutate ⟨r⟩

def returnRoes (m : Multi) : List ResultOrException → RState → Outcome RState
  | [], st => .ok st
  | roe :: rest, st =>
    let i := roe.index.getD 0
    -- c := m.get(i)
    match mget m i with
    | .fault w => .fault w
    | .err e => .err e
    | .ok c =>
      -- answered[i-1] (same index as m.get)
      if st.answered.contains (i - 1) then returnRoes m rest st else
      let st1 : RState := { st with answered := (i - 1) :: st.answered }
      match roe.exception with
      | some e =>
        match c, e.name with
        | none, _ => .fault "c.ResultChan() on a nil call"
        | _, none => .fault "*e.Name"
        | some _, some n =>
          (send st1 (i - 1) (errD (exceptionToError n (e.value.getD [])))).bind
            (fun st' => returnRoes m rest st')
      | none =>
        match c with
        | none => .fault "c.NewResponse() on a nil call"
        | some c =>
          (send st1 (i - 1) ⟨callMsg c.kind roe.result, none⟩).bind (fun st' => returnRoes m rest st')

/-- `for i, rar := range mr.GetRegionActionResult()`. -/
def returnRars (m : Multi) : Nat → List RegionActionResult → RState → Outcome RState
  | _, [], st => .ok st
  | i, rar :: rest, st =>
    match rar.exception with
    | some e =>
      -- if i >= len(m.regions) { continue }
      if i ≥ m.regions.length then returnRars m (i + 1) rest st else
      match m.regions[i]? with
      | none => .fault "m.regions[i]"
      | some reg =>
        match e.name with
        | none => .fault "*e.Name"
        | some n =>
          (failRegion reg (errD (exceptionToError n (e.value.getD []))) (indexed 0 m.calls) st).bind
            (fun st' => returnRars m (i + 1) rest st')
    | none => (returnRoes m rar.roes st).bind (fun st' => returnRars m (i + 1) rest st')

/-- The final loop: every live call that was not answered gets a `RetryableError`. -/
def sweep : List (Nat × Option MCall) → RState → Outcome RState
  | [], st => .ok st
  | (_, none) :: rest, st => sweep rest st
  | (j, some _) :: rest, st =>
    if st.answered.contains j then sweep rest st
    else (send st j (errD .retryable)).bind (fun st' => sweep rest st')

def failAll (d : Delivery) : List (Nat × Option MCall) → RState → Outcome RState
  | [], st => .ok st
  | (_, none) :: rest, st => failAll d rest st
  | (j, some _) :: rest, st => (send st j d).bind (fun st' => failAll d rest st')

/-- `(*multi).returnResults(msg, err)`: the sends it performs, in order. The result channels are
empty when it starts (each call is handed to one connection and completed once: C02/C03/C12). -/
def multiReturn (m : Multi) (msg : Option MultiResp) (err : Option ErrCls) :
    Outcome (List (Nat × Delivery)) :=
  match err with
  | some e => (failAll (errD e) (indexed 0 m.calls) ⟨[], []⟩).map (·.out)
  | none =>
    match msg with
    | none => .fault "msg.(*pb.MultiResponse) on a nil message"
    | some mr =>
      ((returnRars m 0 mr.rars ⟨[], []⟩).bind (fun st => sweep (indexed 0 m.calls) st)).map (·.out)

/-! ### `receive` -/

/-- A frame after `protowire.ConsumeBytes` / `proto.Unmarshal` have run: `body` is the buffer `b`
(`size = len(b)` bytes, `size` a `uint32` read from the wire), `headerLen`/`respLen` the lengths
`ConsumeBytes` consumed (`respLen = none`: it failed on `b[headerLen:]`), `decoded` what
`proto.Unmarshal` made of the response bytes. -/
structure Frame where
  body : Bytes
  headerLen : Nat
  header : ResponseHeader
  respLen : Option Nat
  decoded : Decoded
  deriving Repr, DecidableEq

/-- What `protowire.ConsumeBytes` guarantees, and that the size prefix is a `uint32`. -/
def Frame.WF (f : Frame) : Prop :=
  f.body.length < two32 ∧ f.headerLen + f.respLen.getD 0 ≤ f.body.length

/-- The result of one `receive`: what was sent to which call (position 0 for a single call, position
in `m.calls` for a multi), and whether `receive` returned a `ServerError` — then `receiveRPCs`
calls `c.fail`, the orderly connection failure of C03, which completes every other registered call.
`receive` returns a `ServerError` for an unusable call id, for a server-class exception in the
header, and — after every call of the multi has its result — for a server-class exception inside a
multi response it accepted (`finishOk`). -/
structure Verdict where
  deliveries : List (Nat × Delivery)
  connFail : Bool
  deriving Repr, DecidableEq

/-- `returnResult(rpc, msg, err)`. -/
def returnResult (rpc : Rpc) (msg : Msg) (err : Option ErrCls) : Outcome (List (Nat × Delivery)) :=
  match rpc with
  | .multi m =>
    match msg with
    | .multi mr => multiReturn m (some mr) err
    | .nil => multiReturn m none err
    | _ => .fault "msg.(*pb.MultiResponse)"
  | _ => .ok [(0, ⟨msg, err⟩)]

/-- The deferred function of `receive` on a path that returns with `err != nil` (`serverErr` is still
nil on every such path): `returnResult(rpc, response, err)`; `receive` returns `err`. -/
def finish (rpc : Rpc) (msg : Msg) (err : Option ErrCls) : Outcome Verdict :=
  (returnResult rpc msg err).map (fun ds => ⟨ds, err == some .connErr⟩)

/-- Does the exception of a multi response say that the regionserver itself is not in service
(`exceptionToError(e.GetName(), string(e.Value)).(ServerError)`: the classes of
`javaServerExceptions`)?  `GetName` is the nil-safe getter. -/
def nbpIsServer (e : NameBytesPair) : Bool :=
  exceptionToError (e.name.getD []) (e.value.getD []) == .connErr

def excIsServer (e : Option NameBytesPair) : Bool :=
  match e with
  | some x => nbpIsServer x
  | none => false

/-- `serverErrorIn(mr) != nil`: some region-level or per-action exception of the response — of
*every* `RegionActionResult`, also of one beyond the regions of the request — is server-class. -/
def serverErrorIn (mr : MultiResp) : Bool :=
  mr.rars.any (fun rar => excIsServer rar.exception || rar.roes.any (fun roe => excIsServer roe.exception))

/-- `if isMulti { serverErr = serverErrorIn(response.(*pb.MultiResponse)) }`. -/
def serverErrOf (rpc : Rpc) (msg : Msg) : Outcome Bool :=
  match rpc, msg with
  | .multi _, .multi mr => .ok (serverErrorIn mr)
  | .multi _, _ => .fault "response.(*pb.MultiResponse)"
  | _, _ => .ok false

/-- The final `return` of `receive` (`err == nil`): `serverErr` is computed, then the deferred function
gives every call its result exactly as `returnResult(rpc, response, nil)` does, and only then
`err = serverErr`: a server-class exception inside a multi response makes `receive` return a
`ServerError`, so `receiveRPCs` fails the connection as for such an exception in a header. -/
def finishOk (rpc : Rpc) (msg : Msg) : Outcome Verdict :=
  match serverErrOf rpc msg with
  | .ok serverErr => (returnResult rpc msg none).map (fun ds => ⟨ds, serverErr⟩)
  | .err e => .err e
  | .fault w => .fault w

/-- `if header.CellBlockMeta != nil { cellsLen = header.CellBlockMeta.GetLength() }` (a `uint32`). -/
def cellsLenOf (h : ResponseHeader) : Nat :=
  match h.cellBlockMeta with
  | some l => (l.getD 0) % two32
  | none => 0

/-- `rpc.NewResponse()` filled by `proto.Unmarshal`: `none` = Unmarshal returned an error. -/
def decodeFor (rpc : Rpc) (d : Decoded) : Option Msg :=
  match rpc with
  | .get => d.get.map .get
  | .mutate => d.mutate.map .mutate
  | .scan => d.scan.map .scan
  | .multi _ => d.multi.map .multi
  | .other => if d.other then some .other else none

/-- `rpc.NewResponse()` before it is filled (what is delivered with a decode error). -/
def emptyFor (rpc : Rpc) : Msg :=
  match rpc with
  | .get => .get ⟨none⟩
  | .mutate => .mutate ⟨none⟩
  | .scan => .scan ⟨[], [], []⟩
  | .multi _ => .multi ⟨[]⟩
  | .other => .other

/-- Does the call implement `canDeserializeCellBlocks`? -/
def canDeserialize : Rpc → Bool
  | .other => false
  | _ => true

/-- `d.DeserializeCellBlocks(response, b)` by dynamic type. -/
def deserializeFor (rpc : Rpc) (msg : Msg) (b : Bytes) : Outcome (Msg × Nat) :=
  match rpc, msg with
  | .get, .get r => (getDeserialize r b).map (fun p => (.get p.1, p.2))
  | .mutate, .mutate r => (getDeserialize r b).map (fun p => (.mutate p.1, p.2))
  | .scan, .scan r => (scanDeserialize r b).map (fun p => (.scan p.1, p.2))
  | .multi m, .multi r => (multiDeserialize m r b).map (fun p => (.multi p.1, p.2))
  | _, _ => .fault "response type assertion"

/-- `a - b` in `uint64`. -/
def subU64 (a b : Nat) : Nat := (a % two64 + two64 - b % two64) % two64

def isMulti : Rpc → Bool
  | .multi _ => true
  | _ => false

/-- `receive` after the header has been decoded. `lookup` is `c.unregisterRPC`, `ctxDone` whether
the call's own context has ended, `decompress` the connection's compressor (`none`: no compression). -/
def receiveDecide (lookup : Nat → Option Rpc) (ctxDone : Bool)
    (decompress : Option (Bytes → Outcome Bytes)) (f : Frame) : Outcome Verdict :=
  let size := f.body.length
  match f.header.callId with
  | none => .ok ⟨[], true⟩                        -- ErrMissingCallID, a ServerError
  | some id =>
  match lookup id with
  | none => .ok ⟨[], true⟩                        -- unexpected call ID, a ServerError
  | some rpc =>
  if ctxDone then .ok ⟨[], false⟩ else           -- the caller is gone; nothing is delivered
  match f.header.exception with
  | some e =>
    finish rpc .nil (some (exceptionToError (e.className.getD []) (e.stackTrace.getD [])))
  | none =>
  -- b[headerLen:]
  if size < f.headerLen then .fault "b[headerLen:]" else
  match f.respLen with
  | none => finish rpc (emptyFor rpc) (some .retryable)
  | some respLen =>
  match decodeFor rpc f.decoded with
  | none => finish rpc (emptyFor rpc) (some .retryable)
  | some msg =>
  let cellsLen := cellsLenOf f.header
  -- if d, ok := rpc.(canDeserializeCellBlocks); (cellsLen > 0 || isMulti) && ok
  if !((cellsLen > 0 || isMulti rpc) && canDeserialize rpc) then finishOk rpc msg else
  -- uint64(cellsLen) > uint64(size)-uint64(headerLen)-uint64(responseLen)
  let rest := subU64 (subU64 size f.headerLen) respLen
  if cellsLen > rest then finish rpc msg (some .retryable) else
  -- b := b[size-cellsLen:]   (uint32 subtraction)
  let from_ := subU32 size cellsLen
  if size < from_ then .fault "b[size-cellsLen:]" else
  let cb := f.body.drop from_
  let cb' : Outcome Bytes := match decompress with
    | none => .ok cb
    | some dec => dec cb
  match cb' with
  | .fault w => .fault w
  | .err _ => finish rpc msg (some .retryable)
  | .ok cb =>
  match deserializeFor rpc msg cb with
  | .fault w => .fault w
  | .err _ => finish rpc msg (some .retryable)
  | .ok (msg', nread) =>
    -- int(nread) < len(b)
    if nread < cb.length then finish rpc msg' (some .retryable) else finishOk rpc msg'

/-! ### scanner: coalescing of partial results (`scanner.go`) -/

def cell0 (cs : List Cell) : Outcome Cell :=
  match cs with
  | [] => .fault "Cell[0]"
  | c :: _ => .ok c

/-- `(*scanner).coalesce(result, partial)`. -/
def coalesce (result : Option PResult) (part : PResult) : Outcome (PResult × Bool) :=
  match result with
  | none => .ok (part, true)
  | some r =>
    if !(r.partialFlag.getD false) then .ok (r, false) else
    -- len(partial.Cell) > 0 && len(result.Cell) > 0 && !bytes.Equal(result.Cell[0].Row, partial.Cell[0].Row)
    let newRow : Outcome Bool :=
      if part.cells.length > 0 && r.cells.length > 0 then
        match cell0 r.cells, cell0 part.cells with
        | .ok a, .ok b => .ok (a.row != b.row)
        | .fault w, _ => .fault w
        | _, .fault w => .fault w
        | _, _ => .fault "unreachable"
      else .ok false
    match newRow with
    | .fault w => .fault w
    | .err e => .err e
    | .ok true => .ok ({ r with partialFlag := some false }, false)
    | .ok false =>
      .ok ({ r with cells := r.cells ++ part.cells,
                    stale := if part.stale.getD false then some true else r.stale }, true)

/-- The loop of `Next` (without `AllowPartialResults`) over the results still to come (`buf`: what
`peek` returns one by one; empty = `io.EOF`). Returns the result of this `Next` (`none` = EOF) and
the results left. An iteration that neither returns nor shifts would repeat forever: `fault`. -/
def nextLoop : Option PResult → List PResult → Outcome (Option PResult × List PResult)
  | some r, [] => .ok (some { r with partialFlag := some false }, [])
  | none, [] => .ok (none, [])
  | result, p :: rest =>
    match coalesce result p with
    | .ok (r, done) =>
      if !(r.partialFlag.getD false) then .ok (some r, if done then rest else p :: rest)
      else if done then nextLoop (some r) rest
      else .fault "Next: no progress (spin)"
    | .err e => .err e
    | .fault w => .fault w

/-! ### region info (`region/info.go`) -/

/-- Decoded `pb.RegionInfo`; `tableName` is `required` (`none` only without the required check). -/
structure RegionInfoPB where
  offline : Bool
  tableName : Option (Bytes × Bytes)
  deriving Repr, DecidableEq

def pbufMagic : Nat := 1346524486

/-- `infoFromCell` over the cell's value; `decode` is `proto.Unmarshal(value[4:], &regInfo)`. -/
def infoFromCell (decode : Bytes → Option RegionInfoPB) (value : Bytes) : Outcome Unit :=
  if value.length = 0 then .err "empty value" else
  match value with
  | [] => .fault "value[0]"
  | v0 :: _ =>
    if v0 ≠ 80 then .err "unsupported region info version" else
    if value.length < 4 then .err "region info is too short" else
    -- value[:4]
    if value.length < 4 then .fault "value[:4]" else
    if beNat (value.take 4) ≠ pbufMagic then .err "invalid magic number" else
    match decode (value.drop 4) with
    | none => .err "failed to decode"
    | some ri =>
      if ri.offline then .err "offline" else
      match ri.tableName with
      | none => .fault "regInfo.TableName.Namespace"
      | some _ => .ok ()

inductive MetaQual where
  | regioninfo | server | other
  deriving DecidableEq, Repr

/-- The loop of `ParseRegionInfo`: `reg` / `addr` found so far. -/
def parseLoop (decode : Bytes → Option RegionInfoPB) :
    List (MetaQual × Bytes) → Bool → Bytes → Outcome (Bool × Bytes)
  | [], reg, addr => .ok (reg, addr)
  | (.regioninfo, v) :: rest, _, addr =>
    match infoFromCell decode v with
    | .ok _ => parseLoop decode rest true addr
    | .err e => .err e
    | .fault w => .fault w
  | (.server, v) :: rest, reg, addr =>
    if v.length = 0 then parseLoop decode rest reg addr else parseLoop decode rest reg v
  | (.other, _) :: rest, reg, addr => parseLoop decode rest reg addr

def parseRegionInfo (decode : Bytes → Option RegionInfoPB) (cells : List (MetaQual × Bytes)) :
    Outcome Unit :=
  match parseLoop decode cells false [] with
  | .ok (reg, addr) =>
    if !reg then .err "no region in meta row" else
    if addr.length = 0 then .err "no server location" else .ok ()
  | .err e => .err e
  | .fault w => .fault w

end GV.Receive
