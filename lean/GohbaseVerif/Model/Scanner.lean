import GohbaseVerif.Basic
import GohbaseVerif.Gen.Wire
/-!
# Model of the client-side scanner (`/repo/scanner.go`, `/repo/hrpc/scan.go`) — C06 / C14

The scanner is a sequential state machine driven by `Next`/`Close`; the only interface call is
`RPCClient.SendRPC(scan request)`.  The environment is therefore a *script*: the list of replies
the `RPCClient` gives to the synchronous scan requests (open / continue), in order.  The close
request of `closeRegionScanner` is sent with `go s.SendRPC(..)`: its reply is never looked at, so
it consumes no scripted reply and is only recorded in the request log.

What HBase may legally put into such a script is the acceptor `Srv.step` / `Conforming` at the end
of the file (DESIGN §5 `Env.Scan`).

Not modelled: `renewLoop` / `renew` (timing only: it re-sends `renew = true` requests for the
current scanner id on a ticker and never touches the scanner state), scan metrics, the `Stale`
flag, and `noScannerID = MaxUint64` as a legal scanner id (ids are `Nat`s below `2^64 - 1`).
-/
namespace GV.Scanner
open GV

/-- A cell: the row it belongs to and an opaque identity (family/qualifier/value/…). -/
structure Cell where
  row : Bytes
  q : Nat
  deriving DecidableEq, Repr

/-- `pb.Result`: cells and the `partial` flag. -/
structure Frag where
  cells : List Cell
  part : Bool
  deriving DecidableEq, Repr

structure Region where
  start : Bytes
  stop : Bytes
  deriving DecidableEq, Repr

/-- `pb.ScanResponse` as far as the scanner reads it. `moreResults = false` means the field is
    present and false (`resp.MoreResults != nil && !*resp.MoreResults`). -/
structure Resp where
  results : List Frag
  scannerId : Option Nat
  moreInRegion : Bool
  moreResults : Bool
  deriving DecidableEq, Repr

/-- What `SendRPC` returns for a synchronous scan request: a response together with the region
    the client resolved for the call (`rpc.Region()`), or an error. -/
inductive Reply where
  | resp (reg : Region) (r : Resp)
  | err (cls : String)
  deriving DecidableEq, Repr

/-- The user's `hrpc.Scan`. `closing` = the user passed `hrpc.CloseScanner()`. -/
structure Scan where
  start : Bytes
  stop : Bytes
  reversed : Bool
  allowPartial : Bool
  closing : Bool
  nrows : Nat
  deriving DecidableEq, Repr

inductive Kind where
  | open | cont | close
  deriving DecidableEq, Repr

/-- A scan request as the server sees it (`Scan.ToProto`): the open form carries start/stop row
    and the user's options, the scanner-id form carries the id. -/
structure Req where
  kind : Kind
  startRow : Bytes
  stopRow : Bytes
  id : Option Nat
  closeFlag : Bool
  nrows : Nat
  deriving DecidableEq, Repr

/-- One request and the reply the client saw (`none`: asynchronous close, reply ignored). -/
structure Exch where
  req : Req
  reply : Option Reply
  deriving DecidableEq, Repr

/-- `scanner` struct plus the log of requests sent so far (newest first). -/
structure St where
  curId : Option Nat
  startRow : Bytes
  results : List Frag
  closed : Bool
  log : List Exch
  deriving DecidableEq, Repr

/-- `newScanner`. -/
def St.init (sc : Scan) : St :=
  { curId := none, startRow := sc.start, results := [], closed := false, log := [] }

/-! ## request / update / isDone / Close -/

/-- `scanner.request`: the request that is built from the current state. -/
def mkReq (sc : Scan) (s : St) : Req :=
  match s.curId with
  | none => { kind := .open, startRow := s.startRow, stopRow := sc.stop, id := none,
              closeFlag := sc.closing, nrows := sc.nrows }
  | some id => { kind := .cont, startRow := s.startRow, stopRow := [], id := some id,
                 closeFlag := false, nrows := sc.nrows }

/-- The request of `closeRegionScanner`. -/
def closeReq (s : St) (id : Nat) : Req :=
  { kind := .close, startRow := s.startRow, stopRow := [], id := some id, closeFlag := true, nrows := 0 }

/-- `scanner.openRegionScanner`, including its panic. -/
def openRegionScannerO (s : St) (id : Nat) : Outcome St :=
  if s.curId.isSome then .fault "should not happen: previous region scanner was not closed"
  else .ok { s with curId := some id }

/-- Reversed scan: the greatest key below a non-empty region start key `rsk`, as the client
    approximates it (drop a trailing `0x00`, else decrement the last byte and pad). -/
def prevKey (rsk : Bytes) : Bytes :=
  match rsk.getLast? with
  | none => []
  | some b => if b = 0 then rsk.dropLast else rsk.dropLast ++ [b - 1] ++ Gen.Wire.rowPadding

/-- The second half of `scanner.update` (after the scanner id has been noted). -/
def updateRow (sc : Scan) (s : St) (r : Resp) (reg : Region) : St :=
  if r.moreInRegion then s else
  let s2 := { s with curId := none }
  if !sc.reversed then { s2 with startRow := reg.stop }
  else if reg.start = [] then { s2 with startRow := reg.start }
  else { s2 with startRow := prevKey reg.start }

/-- `scanner.update`, faithful (the panic of `openRegionScanner` is a possible outcome). -/
def updateO (sc : Scan) (s : St) (r : Resp) (reg : Region) : Outcome St :=
  match (if s.curId.isNone then r.scannerId else none) with
  | some id =>
    match openRegionScannerO s id with
    | .ok s1 => .ok (updateRow sc s1 r reg)
    | .err c => .err c
    | .fault w => .fault w
  | none => .ok (updateRow sc s r reg)

/-- `scanner.update` as a total function (`updateO_eq` below: the panic is dead code). -/
def update (sc : Scan) (s : St) (r : Resp) (reg : Region) : St :=
  let s1 := match s.curId, r.scannerId with
    | none, some id => { s with curId := some id }
    | _, _ => s
  updateRow sc s1 r reg

theorem updateO_eq (sc : Scan) (s : St) (r : Resp) (reg : Region) :
    updateO sc s r reg = .ok (update sc s r reg) := by
  unfold updateO update openRegionScannerO
  cases h1 : s.curId <;> cases h2 : r.scannerId <;> simp

/-- `scanner.isDone` (called after `update`). -/
def isDone (sc : Scan) (s : St) (r : Resp) (reg : Region) : Bool :=
  if !r.moreResults then true
  else if s.curId.isSome then false
  else if reg.stop = [] && !sc.reversed then true
  else if sc.reversed && reg.start = [] then true
  else if !sc.reversed then sc.stop ≠ [] && bcmp sc.stop reg.stop != .gt
  else sc.stop ≠ [] && bcmp sc.stop reg.start != .lt

/-- `scanner.closeRegionScanner`: `go s.SendRPC(close request)` unless the user's scan is itself
    a `CloseScanner` scan; the reply is ignored. -/
def closeRegionScanner (sc : Scan) (s : St) : St :=
  match s.curId with
  | none => s
  | some id =>
    let s1 := if sc.closing then s else { s with log := ⟨closeReq s id, none⟩ :: s.log }
    { s1 with curId := none }

/-- `scanner.Close` (always returns nil; sends at most the asynchronous close: never blocks). -/
def close (sc : Scan) (s : St) : St :=
  if s.closed then s else closeRegionScanner sc { s with closed := true }

/-! ## fetch / peek / shift / coalesce / Next -/

inductive FetchRes where
  | rows (f : Frag) (fs : List Frag)
  | eof
  | err (cls : String)
  deriving DecidableEq, Repr

/-- One iteration of the `fetch` loop up to and including `isDone`/`Close`, for a response. -/
def onResp (sc : Scan) (s : St) (reg : Region) (r : Resp) : St :=
  let s1 := { s with log := ⟨mkReq sc s, some (.resp reg r)⟩ :: s.log }
  let s2 := update sc s1 r reg
  if isDone sc s2 r reg then close sc s2 else s2

/-- … and for an RPC error: `s.Close(); return nil, err`. -/
def onErr (sc : Scan) (s : St) (rp : Option Reply) : St :=
  close sc { s with log := ⟨mkReq sc s, rp⟩ :: s.log }

/-- `scanner.fetch`. The script of replies is consumed one per request; an exhausted script
    behaves like an RPC error of class `starved` (the harness never produces it). -/
def fetch (sc : Scan) : List Reply → St → FetchRes × St × List Reply
  | [], s => (.err "starved", onErr sc s (some (.err "starved")), [])
  | .err c :: rest, s => (.err c, onErr sc s (some (.err c)), rest)
  | .resp reg r :: rest, s =>
    let s3 := onResp sc s reg r
    match r.results with
    | f :: fs => (.rows f fs, s3, rest)
    | [] => if s3.closed then (.eof, s3, rest) else fetch sc rest s3

inductive PeekRes where
  | frag (f : Frag)
  | eof
  | err (cls : String)
  deriving DecidableEq, Repr

/-- `scanner.peek` (renewer start/stop left out). -/
def peek (sc : Scan) (R : List Reply) (s : St) : PeekRes × St × List Reply :=
  match s.results with
  | f :: _ => (.frag f, s, R)
  | [] =>
    if s.closed then (.eof, s, R) else
    match fetch sc R s with
    | (.rows f fs, s1, R1) => (.frag f, { s1 with results := f :: fs }, R1)
    | (.eof, s1, R1) => (.eof, s1, R1)
    | (.err c, s1, R1) => (.err c, s1, R1)

/-- `scanner.shift`. -/
def shift (s : St) : St := { s with results := s.results.tail }

def firstRow (cs : List Cell) : Option Bytes := cs.head?.map (·.row)

/-- `len(partial.Cell) > 0 && len(result.Cell) > 0 && !bytes.Equal(result.Cell[0].Row, partial.Cell[0].Row)` -/
def isNewRow (r p : Frag) : Bool :=
  match firstRow p.cells, firstRow r.cells with
  | some a, some b => b != a
  | _, _ => false

/-- `scanner.coalesce`: the accumulated result keeps the *first* fragment's partial flag until
    it is reset at a row change (or at EOF, in `Next`). -/
def coalesce (acc : Option Frag) (p : Frag) : Frag × Bool :=
  match acc with
  | none => (p, true)
  | some r =>
    if !r.part then (r, false)
    else if isNewRow r p then ({ r with part := false }, false)
    else ({ r with cells := r.cells ++ p.cells }, true)

/-- `(result, error)` of one `Next` call; `err = some "EOF"` is `io.EOF`. -/
structure Item where
  res : Option Frag
  err : Option String
  deriving DecidableEq, Repr

/-- The `for` loop of `Next` without `AllowPartialResults`. `acc` is the local `result`.
    `none` = the iteration bound was too small (never the case in `next`: `nextLoop_isSome`). -/
def nextLoop (sc : Scan) : Nat → Option Frag → List Reply → St → Option (Item × St × List Reply)
  | 0, _, _, _ => none
  | fuel + 1, acc, R, s =>
    match peek sc R s with
    | (.eof, s1, R1) =>
      match acc with
      | some a => some (⟨some { a with part := false }, none⟩, s1, R1)
      | none => some (⟨none, some "EOF"⟩, s1, R1)
    | (.err c, s1, R1) => some (⟨acc, some c⟩, s1, R1)
    | (.frag p, s1, R1) =>
      let cd := coalesce acc p
      let s2 := if cd.2 then shift s1 else s1
      if !cd.1.part then some (⟨some cd.1, none⟩, s2, R1) else nextLoop sc fuel (some cd.1) R1 s2

/-- Loop bound: every iteration that does not return consumes a buffered or scripted fragment. -/
def measure (R : List Reply) (s : St) : Nat :=
  s.results.length + (R.map fun rp => match rp with
    | .resp _ r => r.results.length + 1
    | .err _ => 1).sum

/-- `scanner.Next`. `cancelled` = the scan's context is done when `Next` is entered. -/
def next (sc : Scan) (cancelled : Bool) (R : List Reply) (s : St) : Item × St × List Reply :=
  if cancelled && !s.closed then
    (⟨none, some "canceled"⟩, { close sc s with results := [] }, R)
  else if sc.allowPartial then
    match peek sc R s with
    | (.frag f, s1, R1) => (⟨some f, none⟩, shift s1, R1)
    | (.eof, s1, R1) => (⟨none, some "EOF"⟩, s1, R1)
    | (.err c, s1, R1) => (⟨none, some c⟩, s1, R1)
  else (nextLoop sc (measure R s + 1) none R s).getD (⟨none, some "fuel"⟩, s, R)

/-- Call `Next` until it returns an error (`io.EOF` included); the items returned, in order. -/
def collectN (sc : Scan) : Nat → List Reply → St → List Item × St × List Reply
  | 0, R, s => ([], s, R)
  | n + 1, R, s =>
    match next sc false R s with
    | (it, s1, R1) =>
      if it.err.isSome then ([it], s1, R1) else
      match collectN sc n R1 s1 with
      | (its, s2, R2) => (it :: its, s2, R2)

def collect (sc : Scan) (R : List Reply) : List Item × St × List Reply :=
  collectN sc (measure R (St.init sc) + 1) R (St.init sc)

/-! ## the coalescer on a plain stream of fragments (specification of the `Next` loop) -/

/-- One `Next` (no `AllowPartialResults`) on a stream of fragments: the result and the rest of
    the stream; `none` = end of stream with nothing accumulated (`io.EOF`). -/
def assemble1 : Option Frag → List Frag → Option (Frag × List Frag)
  | acc, [] => acc.map fun a => ({ a with part := false }, [])
  | acc, f :: fs =>
    let cd := coalesce acc f
    if cd.2 then (if cd.1.part then assemble1 (some cd.1) fs else some (cd.1, fs))
    else some (cd.1, f :: fs)

/-- All results of calling `Next` until `io.EOF` on a stream of fragments. -/
def assembleAll : Option Frag → List Frag → List Frag
  | acc, [] => (acc.map fun a => { a with part := false }).toList
  | acc, f :: fs =>
    let cd := coalesce acc f
    if cd.2 then (if cd.1.part then assembleAll (some cd.1) fs else cd.1 :: assembleAll none fs)
    else cd.1 :: (if f.part then assembleAll (some f) fs else f :: assembleAll none fs)

/-! ## user-level operation sequences (C14: ends injected anywhere) -/

inductive Op where
  | next    -- call Next
  | close   -- call Close
  | cancel  -- the scan's context is cancelled (not a call)
  deriving DecidableEq, Repr

/-- Runs a sequence of user operations; one `Item` per `Next`. -/
def runOps (sc : Scan) : List Op → Bool → List Reply → St → List Item × St × List Reply
  | [], _, R, s => ([], s, R)
  | .next :: ops, c, R, s =>
    match next sc c R s with
    | (it, s1, R1) =>
      match runOps sc ops c R1 s1 with
      | (its, s2, R2) => (it :: its, s2, R2)
  | .close :: ops, c, R, s => runOps sc ops c R (close sc s)
  | .cancel :: ops, _, R, s => runOps sc ops true R s

/-! ## what the server sees: request trace and open region scanners -/

/-- Requests in the order they were sent. -/
def St.trace (s : St) : List Req := (s.log.reverse).map (·.req)

/-- Server-side effect of one exchange on the set of open region scanners, as far as the client
    can know it: a response to an open request that carries a scanner id opens that id; the
    server closes an id when it answers `more_results_in_region = false`, when the request
    carried `close_scanner`. (An error reply changes nothing the client can know.) -/
def openAfter (opn : List Nat) (e : Exch) : List Nat :=
  match e.req.kind, e.reply with
  | .close, _ => opn.filter (fun i => some i != e.req.id)
  | .open, some (.resp _ r) =>
    match r.scannerId with
    | some id => if r.moreInRegion && !e.req.closeFlag then id :: opn else opn
    | none => opn
  | .cont, some (.resp _ r) =>
    if r.moreInRegion && !e.req.closeFlag then opn else opn.filter (fun i => some i != e.req.id)
  | _, _ => opn

/-- Region scanners open at the server after the exchanges of a log (newest first). -/
def openSet : List Exch → List Nat
  | [] => []
  | e :: es => openAfter (openSet es) e

def St.serverOpen (s : St) : List Nat := openSet s.log

/-- Scanner ids the client has learnt (ids in responses to its open requests). -/
def learnt : List Exch → List Nat
  | [] => []
  | e :: es =>
    match e.req.kind, e.reply with
    | .open, some (.resp _ r) => r.scannerId.toList ++ learnt es
    | _, _ => learnt es

/-- The id a response speaks about: the one it announces (open request) or the request's. -/
def Exch.subject (e : Exch) (r : Resp) : Option Nat :=
  match e.req.kind with
  | .open => r.scannerId
  | _ => e.req.id

/-- Ids for which the server reported `more_results_in_region = false` (exhausted there). -/
def exhausted : List Exch → List Nat
  | [] => []
  | e :: es =>
    match e.reply with
    | some (.resp _ r) => if r.moreInRegion then exhausted es else (e.subject r).toList ++ exhausted es
    | _ => exhausted es

/-- Ids that were sent an explicit close request (`close_scanner = true` on the id). -/
def closesSent : List Exch → List Nat
  | [] => []
  | e :: es =>
    match e.req.kind with
    | .close => e.req.id.toList ++ closesSent es
    | _ => closesSent es

/-! ## the environment `Env.Scan`: table, region layout, conforming server -/

structure Row where
  key : Bytes
  cells : List Nat
  deriving DecidableEq, Repr

def Row.frag (r : Row) : List Cell := r.cells.map fun q => ⟨r.key, q⟩

/-- `a < b` in `bytes.Compare`. -/
def blt (a b : Bytes) : Bool := bcmp a b == .lt
/-- `a ≤ b`. -/
def ble (a b : Bytes) : Bool := bcmp a b != .gt

/-- Key `k` lies in region `[start, stop)` (`stop = []`: unbounded). -/
def Region.has (g : Region) (k : Bytes) : Bool := ble g.start k && (g.stop == [] || blt k g.stop)

/-- Contiguous regions from the split points (strictly increasing, non-empty). -/
def regionsFrom : Bytes → List Bytes → List Region
  | a, [] => [⟨a, []⟩]
  | a, b :: bs => ⟨a, b⟩ :: regionsFrom b bs

def regions (splits : List Bytes) : List Region := regionsFrom [] splits

def splitsOk : Bytes → List Bytes → Bool
  | _, [] => true
  | a, b :: bs => blt a b && splitsOk b bs

/-- Region the client routes an open request to: the one containing the request's key (its start
    row), in both directions — `client.SendRPC` looks the region up by `rpc.Key()`, so the empty
    start row always goes to the *first* region (which is why the API asks for an explicit start
    row on reversed scans). -/
def locate (splits : List Bytes) (k : Bytes) : Option Region :=
  (regions splits).find? (·.has k)

/-- The whole scan range. Forward: `[start, stop)`; reversed: `(stop, start]` scanned downwards
    (an empty bound is unbounded). -/
def inRangeKey (reversed : Bool) (start stop : Bytes) (k : Bytes) : Bool :=
  if reversed then (start == [] || ble k start) && (stop == [] || blt stop k)
  else ble start k && (stop == [] || blt k stop)

/-- Rows in scan order. -/
def scanOrder (reversed : Bool) (table : List Row) : List Row :=
  if reversed then table.reverse else table

/-- The specification: rows of the table in the requested range, in scan order. -/
def inRange (sc : Scan) (table : List Row) : List Row :=
  (scanOrder sc.reversed table).filter fun r => inRangeKey sc.reversed sc.start sc.stop r.key

/-- Rows a region scanner on `g` opened with `[start, stop)` yields. -/
def regionRows (table : List Row) (g : Region) (reversed : Bool) (start stop : Bytes) : List Row :=
  (scanOrder reversed table).filter fun r => g.has r.key && inRangeKey reversed start stop r.key

/-- Rows of the range that lie beyond region `g` in scan direction. -/
def beyond (table : List Row) (g : Region) (reversed : Bool) (start stop : Bytes) : List Row :=
  (scanOrder reversed table).filter fun r =>
    inRangeKey reversed start stop r.key &&
      (if reversed then blt r.key g.start else (g.stop != [] && ble g.stop r.key))

/-- Cut a prefix of the pending rows into the fragments `fs`: every fragment is a non-empty run
    of cells of the first pending row, `partial = true` iff cells of that row remain.
    Returns what is still pending. -/
def chunk : List (List Cell) → List Frag → Option (List (List Cell))
  | p, [] => some p
  | [], _ :: _ => none
  | row :: p, f :: fs =>
    if f.cells = [] then none
    else if f.part then
      (if f.cells.length < row.length ∧ row.take f.cells.length = f.cells
       then chunk (row.drop f.cells.length :: p) fs else none)
    else if f.cells = row then chunk p fs else none

/-- An open region scanner at the server. -/
structure SrvScanner where
  id : Nat
  reg : Region
  pending : List (List Cell)
  last : Bool     -- nothing of the range lies beyond this region
  deriving DecidableEq, Repr

/-- Server state: open region scanners and every id handed out so far. -/
structure Srv where
  scanners : List SrvScanner
  used : List Nat
  deriving DecidableEq, Repr

def Srv.init : Srv := ⟨[], []⟩

/-- Flags of a response, given what remains pending afterwards:
    `more_results_in_region = false` only when nothing is pending in the region;
    `more_results = false` only when nothing is pending and nothing lies beyond. -/
def flagsOk (r : Resp) (pending : List (List Cell)) (last : Bool) : Bool :=
  (r.moreInRegion || pending == []) && (r.moreResults || (pending == [] && last))

/-- The acceptor: may a conforming HBase answer the request of `e` with the reply of `e` in
    state `v`?  (`none`: no.)  Error replies are not produced by a conforming server; the
    asynchronous close has no observable reply. -/
def Srv.step (table : List Row) (splits : List Bytes) (sc : Scan) (v : Srv) (e : Exch) : Option Srv :=
  match e.req.kind, e.reply with
  | .open, some (.resp g r) =>
    match locate splits e.req.startRow, r.scannerId with
    | some g', some id =>
      if g' = g ∧ id ∉ v.used then
        let rows := regionRows table g sc.reversed e.req.startRow e.req.stopRow
        let last := (beyond table g sc.reversed e.req.startRow e.req.stopRow).isEmpty
        match chunk (rows.map Row.frag) r.results with
        | some p =>
          if flagsOk r p last then
            if r.moreInRegion && !e.req.closeFlag
            then some ⟨⟨id, g, p, last⟩ :: v.scanners, id :: v.used⟩
            else some ⟨v.scanners, id :: v.used⟩
          else none
        | none => none
      else none
    | _, _ => none
  | .cont, some (.resp g r) =>
    match v.scanners.find? (fun x => some x.id == e.req.id) with
    | some x =>
      if x.reg = g then
        match chunk x.pending r.results with
        | some p =>
          if flagsOk r p x.last then
            let others := v.scanners.filter (fun y => y.id != x.id)
            if r.moreInRegion && !e.req.closeFlag
            then some ⟨{ x with pending := p } :: others, v.used⟩
            else some ⟨others, v.used⟩
          else none
        | none => none
      else none
    | none => none
  | .close, none => some ⟨v.scanners.filter (fun y => some y.id != e.req.id), v.used⟩
  | _, _ => none

def Srv.run (table : List Row) (splits : List Bytes) (sc : Scan) : Srv → List Exch → Option Srv
  | v, [] => some v
  | v, e :: es =>
    match Srv.step table splits sc v e with
    | some v' => Srv.run table splits sc v' es
    | none => none

/-- `Env.Scan`: the exchanges (oldest first) are a possible conversation with a conforming
    HBase serving `table` split at `splits`. -/
def Conforming (table : List Row) (splits : List Bytes) (sc : Scan) (es : List Exch) : Prop :=
  (Srv.run table splits sc Srv.init es).isSome

instance (table : List Row) (splits : List Bytes) (sc : Scan) (es : List Exch) :
    Decidable (Conforming table splits sc es) := by
  unfold Conforming; infer_instance

/-- Table keys strictly increasing. -/
def sortedKeys : List Row → Bool
  | [] => true
  | [_] => true
  | a :: b :: rest => blt a.key b.key && sortedKeys (b :: rest)

/-- A row key contains `rowPadding` (eight `0xff`) as a contiguous run. -/
def hasPadding : Bytes → Bool
  | [] => false
  | b :: bs => (Gen.Wire.rowPadding.isPrefixOf (b :: bs)) || hasPadding bs

/-- The property's quantifier: a well-formed layout, a table sorted by (distinct, non-empty)
    row keys none of which contains `rowPadding` (eight `0xff`), 1..k cells per row, a scan
    without `CloseScanner`, reversed scans with an explicit start row. -/
structure ScanHyps (table : List Row) (splits : List Bytes) (sc : Scan) : Prop where
  splitsOk : splitsOk [] splits = true
  sorted : sortedKeys table = true
  keys : ∀ r ∈ table, r.key ≠ [] ∧ hasPadding r.key = false
  cells : ∀ r ∈ table, r.cells ≠ []
  notClosing : sc.closing = false
  revStart : sc.reversed = true → sc.start ≠ []


end GV.Scanner
