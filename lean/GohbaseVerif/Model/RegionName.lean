import GohbaseVerif.Basic
import GohbaseVerif.Gen.Wire
/-
Model of `region.Compare` (region/info.go) and of the lookup search key
(`createRegionSearchKey`, rpc.go).  The model follows the three phases of the Go code
on lists instead of indices; a Go `panic` (findCommaFromEnd) is `Outcome.fault`.
-/
namespace GV.RegionName

def comma : UInt8 := 0x2c

/-- Outcome of the first loop of `Compare`: a final result, both remainders after the
shared first comma, or running off the shorter name without a comma (→ panic later). -/
inductive P1 where
  | done (r : Int)
  | same (ra rb : Bytes)
  | ranOut
  deriving Repr, DecidableEq

def phase1 : Bytes → Bytes → P1
  | x :: as, y :: bs =>
    if x ≠ y then
      if x = comma then .done (-1001)
      else if y = comma then .done 1001
      else .done ((x.toNat : Int) - (y.toNat : Int))
    else if x = comma then .same as bs
    else phase1 as bs
  | _, _ => .ranOut

/-- Split at the last comma: `findCommaFromEnd` on the remainder after the first comma. -/
def splitLastComma : Bytes → Option (Bytes × Bytes)
  | [] => none
  | x :: xs =>
    match splitLastComma xs with
    | some (k, s) => some (x :: k, s)
    | none => if x = comma then some ([], xs) else none

/-- First differing byte in the common prefix, as Go's `int(ai) - int(bi)`. -/
def cmpPrefix : Bytes → Bytes → Option Int
  | x :: xs, y :: ys =>
    if x ≠ y then some ((x.toNat : Int) - (y.toNat : Int)) else cmpPrefix xs ys
  | _, _ => none

/-- `region.Compare(a, b)`. -/
def compareName (a b : Bytes) : Outcome Int :=
  match phase1 a b with
  | .done r => .ok r
  | .ranOut => .fault "no comma found"
  | .same ra rb =>
    match splitLastComma ra, splitLastComma rb with
    | some (ka, sa), some (kb, sb) =>
      match cmpPrefix ka kb with
      | some d => .ok d
      | none =>
        if ka.length < kb.length then .ok (-1002)
        else if kb.length < ka.length then .ok 1002
        else match cmpPrefix sa sb with
          | some d => .ok d
          | none => .ok ((sa.length : Int) - (sb.length : Int))
    | _, _ => .fault "no comma found"

/-- `table,startkey,suffix`. -/
def mkName (t k s : Bytes) : Bytes := t ++ comma :: (k ++ comma :: s)

/-- Component-wise comparison of `(table, start key, id suffix)`. -/
def lex3 (x y : Bytes × Bytes × Bytes) : Ordering :=
  match bcmp x.1 y.1 with
  | .eq => match bcmp x.2.1 y.2.1 with
    | .eq => bcmp x.2.2 y.2.2
    | o => o
  | o => o

/-- `createRegionSearchKey(table, key)` with the `MaxInt16` truncation (`maxRow` comes from Gen). -/
def searchKeyN (maxRow : Nat) (t k : Bytes) : Bytes :=
  mkName t (k.take (min k.length (maxRow - t.length - 3))) [0x3a]

def searchKey (t k : Bytes) : Bytes := mkName t k [0x3a]

/-- `createRegionSearchKey` with the constants and separator bytes the working tree has now
(regenerated `Gen.Wire`). -/
def searchKeyImpl (t k : Bytes) : Bytes :=
  match Gen.Wire.searchKeySeps with
  | [a, b, c] =>
    t ++ a :: (k.take (min k.length (Gen.Wire.searchKeyMax - t.length - Gen.Wire.searchKeySlack)) ++ [b, c])
  | _ => []

end GV.RegionName
