import GohbaseVerif.Gen.Exceptions
import GohbaseVerif.Gen.RetryLoop
/-!
# Classification of a Java exception returned by HBase (`region.exceptionToError`)

```go
if s, ok := javaRetryableExceptions[class]; ok && strings.Contains(stack, s) { RetryableError }
else if s, ok := javaRegionExceptions[class]; ok && strings.Contains(stack, s) { NotServingRegionError }
else if s, ok := javaServerExceptions[class]; ok && strings.Contains(stack, s) { ServerError }
return err   // plain error: returned to the caller unchanged
```
The three tables and the order of the arms are `Gen.Exceptions` (regenerated).  Core Lean only.
-/
namespace GV.Classify
open GV.Gen

inductive ErrClass where
  | retryable   -- region.RetryableError
  | nsre        -- region.NotServingRegionError
  | server      -- region.ServerError
  | fatal       -- anything else: handed to the caller
  deriving Repr, DecidableEq

/-- `strings.Contains` on character lists. -/
def infixOf (p : List Char) : List Char → Bool
  | [] => p.isEmpty
  | c :: cs => p.isPrefixOf (c :: cs) || infixOf p cs

def contains (s sub : String) : Bool := infixOf sub.toList s.toList

/-- Go map lookup `table[class]` -/
def lookup (t : List (String × String)) (cls : String) : Option String :=
  match t with
  | [] => none
  | (k, v) :: rest => if k = cls then some v else lookup rest cls

/-- the Go map an arm of `exceptionToError` consults, by its identifier -/
def tableOf (name : String) : List (String × String) :=
  if name = "javaRetryableExceptions" then Exceptions.retryableTable
  else if name = "javaRegionExceptions" then Exceptions.regionTable
  else if name = "javaServerExceptions" then Exceptions.serverTable
  else []

/-- the error type an arm wraps the error in -/
def classOfType (ty : String) : ErrClass :=
  if ty = "RetryableError" then .retryable
  else if ty = "NotServingRegionError" then .nsre
  else if ty = "ServerError" then .server
  else .fatal

def classifyArms : List (String × String) → String → String → ErrClass
  | [], _, _ => .fatal
  | (tbl, ty) :: rest, cls, stack =>
    match lookup (tableOf tbl) cls with
    | some v => if contains stack v then classOfType ty else classifyArms rest cls stack
    | none => classifyArms rest cls stack

/-- `exceptionToError(class, stack)` -/
def classify (cls stack : String) : ErrClass := classifyArms Exceptions.arms cls stack

/-- all class names that occur in some table -/
def tableNames : List String :=
  (Exceptions.retryableTable ++ Exceptions.regionTable ++ Exceptions.serverTable).map (·.1)

end GV.Classify
