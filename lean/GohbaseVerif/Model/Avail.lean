/-!
# The region availability protocol (C09)

Transition system at the granularity of the mutex-protected methods of `region.info`
(`MarkUnavailable`, `MarkAvailable`, `SetClient`, `MarkDead`) for an unbounded set of region
*objects* (Go pointers, here natural numbers).  Core Lean only.

What is modelled (rpc.go / caches.go / client.go, current tree):

* `if reg.MarkUnavailable() { go c.reestablishRegion(reg) }` — the one pattern used by
  `getRegionAndClientForRPC` (client == nil), `handleResultError` (NSRE, admin ServerError) and
  both loops of `clientDown` — is the action `mark r`: it may be taken by any goroutine at any
  time on any published region object (an over-approximation of all call sites).  The establisher
  it spawns is recorded in the region's `ests` with program counter `spawned` *in the same step*:
  between `MarkUnavailable` returning true and the `go` statement nothing can intervene that
  involves this object's channel (everyone else's `MarkUnavailable` returns false), so the
  spawning goroutine and the spawned one count as the same responsible party.
* `SetClient(nil)` (clientDown, clients.del, closeAll) and `MarkDead` (regions.put on overlaps,
  regions.del) may happen at any time: actions `setClientNil`, `markDead`.
* `findRegion` / `findAllRegions`: a fresh object (from `ParseRegionInfo`) is marked unavailable
  and, if `regions.put` inserted it, published with an establisher started unconditionally
  (`go c.establishRegion(reg, addr)`), else dropped (never published, stays unavailable).
* the establisher: `reestablishRegion`'s `done` check, the back-off sleep on the region's
  context, `lookupRegion` with every outcome and the branch taken for it, `clients.put`+`Dial`+
  probe with every outcome, and every `return` of `establishRegion`.  Lookup and dial *results*
  are arbitrary (chosen by the action), except that `ErrClientClosed` and a nil result of
  `clients.put` (cache closed by `closeAll`, fix a1d563d) need the client to be closed and a
  context error needs the region to be dead.  On the admin path the look at `c.done` after
  `MarkAvailable` (closing the fresh master connection) does not touch availability.
* when a lookup finds a different region and `regions.put` inserted it, the goroutine releases
  the original and carries on for the new object.  The model splits this into two independent
  parties (one that only has `originalReg.MarkAvailable()` left, one continuing for the new
  object); the real order is one of the interleavings of the two, so safety results carry over.
* `Close`: `close` sets the flag (`close(c.done)`), `closeAllMark r` is `closeAll`'s
  `region.MarkUnavailable(); region.SetClient(nil)` for one region (result ignored, no establisher).
* `MarkAvailable` on an available region is `close(nil)`: a panic = `fault := true`.
-/
namespace GV.Avail

/-- program counter of an establisher, relative to the region object it is responsible for -/
inductive PC where
  | spawned    -- `go c.reestablishRegion(reg)` issued; next: the `select { case <-c.done … default }`
  | sleepL     -- top of the loop in `establishRegion`, `addr == ""` (lookup follows)
  | sleepD     -- top of the loop, `addr` given by `findRegion` (first pass; dial follows)
  | lookup     -- in `c.lookupRegion`
  | haveAddr   -- `clients.put` / `Dial` / `isRegionEstablished`
  | release    -- about to call `MarkAvailable()` on this object and return
  deriving Repr, DecidableEq

structure Reg where
  used : Bool := false          -- the object exists
  published : Bool := false     -- other goroutines can reach it (region cache, rpc.Region())
  avail : Option Nat := none    -- `some g`: unavailable, channel of generation `g` is open
  gen : Nat := 0                -- number of channels created so far
  client : Option Nat := none
  dead : Bool := false          -- `Context().Err() != nil`
  ests : List PC := []          -- establishers currently responsible for this object
  deriving Repr, DecidableEq

structure State where
  regs : Nat → Reg
  closed : Bool := false                -- `c.done` closed
  fault : Bool := false                 -- a `close(nil)` happened
  closes : List (Nat × Nat) := []       -- log of channel closures (region object, generation)

/-- Region object 0 is the meta / admin region info created by `newClient`: it exists and is
reachable from the start, with no client. -/
def init : State :=
  { regs := fun i => if i = 0 then { used := true, published := true } else {} }

inductive LookupRes where
  | same                       -- region of the same name: the looked-up object is discarded
  | newNotReplaced (n : Nat)   -- different region `n`; `regions.put` did not insert it
  | newReplaced (n : Nat)      -- different region `n`; inserted, overlaps removed
  | tableNotFound
  | clientClosed               -- `ErrClientClosed`
  | ctxErr                     -- back-off sleep inside `lookupRegion` ended by the region's context
  deriving Repr, DecidableEq

inductive DialRes where
  | ok (conn : Nat)    -- dialled and probed (or admin): `SetClient; MarkAvailable; return`
  | notServing         -- probe answered NSRE / retry-later: loop
  | serverError        -- `Dial` failed or probe answered ServerError: `clientDown(client, reg)`, loop
  | canceled           -- `Dial` returned `context.Canceled`: `MarkAvailable; return`
  | cacheClosed        -- `clients.put` returned nil (cache closed by `closeAll`): bare `return`
  deriving Repr, DecidableEq

inductive Action where
  | close
  | closeAllMark (r : Nat)
  | mark (r : Nat)
  | setClientNil (r : Nat)
  | markDead (r : Nat)
  | findRegion (n : Nat) (replaced : Bool)
  | estStart (r : Nat)
  | estSleep (r : Nat) (fromL : Bool) (err : Bool)
  | estLookup (r : Nat) (res : LookupRes)
  | estDial (r : Nat) (res : DialRes)
  | estRelease (r : Nat)
  deriving Repr, DecidableEq

def upd (s : State) (r : Nat) (f : Reg → Reg) : State :=
  { s with regs := fun i => if i = r then f (s.regs r) else s.regs i }

/-- `MarkUnavailable()`: the new record and the returned `created`. -/
def markUnavail (x : Reg) : Reg × Bool :=
  match x.avail with
  | none => ({ x with avail := some x.gen, gen := x.gen + 1 }, true)
  | some _ => (x, false)

/-- `if reg.MarkUnavailable() { [reg.SetClient(nil);] go c.reestablishRegion(reg) }` -/
def markAndSpawn (x : Reg) (clearClient : Bool) : Reg :=
  match x.avail with
  | none => { x with avail := some x.gen, gen := x.gen + 1,
                     client := if clearClient then none else x.client,
                     ests := .spawned :: x.ests }
  | some _ => x

def movePC (x : Reg) (p q : PC) : Reg := { x with ests := q :: x.ests.erase p }
def dropPC (x : Reg) (p : PC) : Reg := { x with ests := x.ests.erase p }

/-- `MarkAvailable()` on object `r` -/
def markAvail (s : State) (r : Nat) : State :=
  match (s.regs r).avail with
  | none => { s with fault := true }            -- close(nil)
  | some g => { upd s r (fun x => { x with avail := none }) with closes := (r, g) :: s.closes }

def fresh (published : Bool) (ests : List PC) : Reg :=
  { used := true, published := published, avail := some 0, gen := 1, ests := ests }

/-- the region turned out dead after the lookup (`originalReg.Context().Err() != nil`, checked
after `TableNotFound` and before everything else): `MarkAvailable; return` -/
def lookupDead (s : State) (r : Nat) : State := upd s r fun x => movePC x .lookup .release

/-- the branches of `establishRegion` after `c.lookupRegion` returned `res` -/
def stepLookup (s : State) (r : Nat) : LookupRes → Option State
  | .tableNotFound =>   -- regions.del (MarkDead) ; clients.del (SetClient(nil)) ; MarkAvailable
    some (upd s r fun x => movePC { x with dead := true, client := none } .lookup .release)
  | .ctxErr => if (s.regs r).dead then some (lookupDead s r) else none
  | .clientClosed =>
    if (s.regs r).dead then some (lookupDead s r)
    else if s.closed then some (upd s r fun x => dropPC x .lookup)    -- bare `return`
    else none
  | .same =>
    if (s.regs r).dead then some (lookupDead s r)
    else some (upd s r fun x => movePC x .lookup .haveAddr)
  | .newNotReplaced n =>
    if (s.regs r).dead then some (lookupDead s r)
    else if (s.regs n).used ∨ n = r then none
    else
      -- n.MarkUnavailable(); put → not replaced; n.MarkAvailable()  (n is private throughout)
      let s1 := upd s n fun _ => { used := true, avail := none, gen := 1 }
      some { upd s1 r (fun x => movePC x .lookup .release) with closes := (n, 0) :: s.closes }
  | .newReplaced n =>
    if (s.regs r).dead then some (lookupDead s r)
    else if (s.regs n).used ∨ n = r then none
    else
      let s1 := upd s n fun _ => fresh true [.haveAddr]
      some (upd s1 r fun x => movePC x .lookup .release)

/-- `clients.put` / `Dial` / `isRegionEstablished` and what follows each result -/
def stepDial (s : State) (r : Nat) : DialRes → Option State
  | .ok c => some (upd s r fun x => movePC { x with client := some c } .haveAddr .release)
  | .notServing => some (upd s r fun x => movePC x .haveAddr .sleepL)
  | .serverError =>   -- clientDown(client, reg): `if reg.MarkUnavailable() {…}` on its own region
    some (upd s r fun x => movePC (markAndSpawn x true) .haveAddr .sleepL)
  | .canceled => some (upd s r fun x => movePC x .haveAddr .release)
  | .cacheClosed =>   -- `closeAll` (which runs after `close(c.done)`) has closed the cache
    if s.closed then some (upd s r fun x => dropPC x .haveAddr) else none

/-- the loop top: with `addr == ""` (lookup follows) or with the address `findRegion` supplied -/
def sleepPC : Bool → PC
  | true => .sleepL
  | false => .sleepD
def afterSleep : Bool → PC
  | true => .lookup
  | false => .haveAddr

def step (s : State) : Action → Option State
  | .close => some { s with closed := true }
  | .closeAllMark r =>
    if s.closed ∧ (s.regs r).published then
      some (upd s r fun x => { (markUnavail x).1 with client := none })
    else none
  | .mark r =>
    if (s.regs r).published then some (upd s r fun x => markAndSpawn x false) else none
  | .setClientNil r =>
    if (s.regs r).used then some (upd s r fun x => { x with client := none }) else none
  | .markDead r =>
    if (s.regs r).used then some (upd s r fun x => { x with dead := true }) else none
  | .findRegion n replaced =>
    if (s.regs n).used then none
    else some (upd s n fun _ => fresh replaced (if replaced then [.sleepD] else []))
  | .estStart r =>
    if .spawned ∈ (s.regs r).ests then
      if s.closed then some (upd s r fun x => dropPC x .spawned)      -- `case <-c.done: return`
      else some (upd s r fun x => movePC x .spawned .sleepL)
    else none
  | .estSleep r fromL err =>
    if sleepPC fromL ∈ (s.regs r).ests then
      if err then
        if (s.regs r).dead then some (upd s r fun x => movePC x (sleepPC fromL) .release) else none
      else some (upd s r fun x => movePC x (sleepPC fromL) (afterSleep fromL))
    else none
  | .estLookup r res => if .lookup ∈ (s.regs r).ests then stepLookup s r res else none
  | .estDial r res => if .haveAddr ∈ (s.regs r).ests then stepDial s r res else none
  | .estRelease r =>
    if .release ∈ (s.regs r).ests then
      some (markAvail (upd s r fun x => dropPC x .release) r)
    else none

def run (s : State) : List Action → Option State
  | [] => some s
  | a :: rest => match step s a with
    | some s' => run s' rest
    | none => none

def Reachable (s : State) : Prop := ∃ as, run init as = some s

/-! ## The requester's loop (`getRegionAndClientForRPC`) — one pass over a resolved region -/

inductive Wake where
  | ctx | done | avail
  deriving Repr, DecidableEq

/-- what the requester observes at each read of one pass of the loop body -/
structure Obs where
  chan0 : Bool            -- line 142: `AvailabilityChan() != nil`
  wake0 : Wake            -- select #0 (only if chan0)
  client0 : Option Nat    -- line 152: `reg.Client()`
  created : Bool          -- line 156: `reg.MarkUnavailable()`
  chan1 : Bool            -- line 161
  wake1 : Wake            -- select #1 (only if chan1)
  dead : Bool             -- line 170: `reg.Context().Err() != nil`
  client1 : Option Nat    -- line 175
  deriving Repr, DecidableEq

inductive PassOut where
  | ctxErr
  | closedErr
  | ret (client : Nat)    -- `rpc.SetRegion(reg); return client, nil`
  | retry                 -- `continue`: resolve the region again (cache, then meta)
  deriving Repr, DecidableEq

/-- result of the pass and whether it started an establisher -/
def pass (o : Obs) : PassOut × Bool :=
  if o.chan0 ∧ o.wake0 = .ctx then (.ctxErr, false)
  else if o.chan0 ∧ o.wake0 = .done then (.closedErr, false)
  else match o.client0 with
    | some c => (.ret c, false)
    | none =>
      let spawned := o.created
      if o.chan1 ∧ o.wake1 = .ctx then (.ctxErr, spawned)
      else if o.chan1 ∧ o.wake1 = .done then (.closedErr, spawned)
      else if o.dead then (.retry, spawned)
      else match o.client1 with
        | some c => (.ret c, spawned)
        | none => (.retry, spawned)

end GV.Avail
