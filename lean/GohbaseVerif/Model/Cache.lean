import GohbaseVerif.Basic
import GohbaseVerif.Gen.Wire
import GohbaseVerif.Model.RegionName
/-!
Model of the location cache `keyRegionCache` (caches.go): `isRegionOverlap`, `getOverlaps`,
`put`, `del`, and of `fullyQualifiedTable` / `createRegionSearchKey` as they are used there.

The B-tree (`modernc.org/b/v2`) is *not* modelled; it is trusted to this contract, read from
its source (btree.go):
* the tree is the list of its items in the order of the comparison function (`region.Compare`
  on names), without two items comparing equal;
* `Seek k` positions an enumerator on the first item `≥ k` (possibly past the last item) and
  reports `hit` iff that item compares equal to `k`; only `cmp(k, item)` is evaluated;
* `Enumerator.Next` returns the current item and moves right; `Enumerator.Prev` first steps
  left when the enumerator was positioned by a `Seek` that missed, then returns the current item
  and moves left; running off either end sets a *sticky* `io.EOF`: every later `Next`/`Prev`
  returns `io.EOF` whatever the position (this is why `getOverlaps` has to re-`SeekFirst`);
* `Put k upd` calls `upd(old, exists)` *before* modifying the tree; `Delete k` removes the
  item comparing equal to `k`.
Everything else — the order of enumerator calls, the three positional cases, the panics — is
modelled.  A region descriptor (`hrpc.RegionInfo` built by `region.NewInfo`) is the record of
its six immutable fields; `MarkDead` is recorded in the state as the set `dead` of descriptors
(the harness keeps one Go object per distinct descriptor, so "object" = "descriptor").
A nil namespace is `[]` (gohbase never builds a non-nil empty namespace: `infoFromCell`).
-/
namespace GV.Cache
open GV GV.RegionName

def colon : UInt8 := 0x3a

structure Region where
  ns : Bytes
  tbl : Bytes
  start : Bytes
  stop : Bytes
  name : Bytes
  id : Nat
  deriving DecidableEq, Repr

/-- `fullyQualifiedTable`. -/
def Region.fq (r : Region) : Bytes := if r.ns = [] then r.tbl else r.ns ++ colon :: r.tbl

/-- `isRegionOverlap(regA, regB)`. -/
def overlap (a b : Region) : Bool :=
  (a.ns == b.ns) && (a.tbl == b.tbl) &&
  (b.stop.isEmpty || bcmp a.start b.stop == .lt) &&
  (a.stop.isEmpty || bcmp a.stop b.start == .gt)

/-- `createRegionSearchKey`, with the `make([]byte, 0, negative)` panic for an over-long table. -/
def searchKeyO (t k : Bytes) : Outcome Bytes :=
  if Gen.Wire.searchKeyMax < t.length + Gen.Wire.searchKeySlack then
    .fault "makeslice: cap out of range"
  else .ok (searchKeyImpl t k)

/-! ## The B-tree contract -/

/-- `Tree.Seek key`: index of the first item `≥ key`, and whether it is equal.
Evaluates `cmp(key, item)` from the left; a panic of the comparison is a panic of `Seek`. -/
def seekIdx (key : Bytes) : List Region → Outcome (Nat × Bool)
  | [] => .ok (0, false)
  | x :: xs =>
    match compareName key x.name with
    | .fault w => .fault w
    | .err e => .err e
    | .ok d =>
      if 0 < d then
        match seekIdx key xs with
        | .ok (i, h) => .ok (i + 1, h)
        | .err e => .err e
        | .fault w => .fault w
      else if d = 0 then .ok (0, true)
      else .ok (0, false)

/-- `b.Enumerator`: position (`0 … len`), `hit`, sticky `eof`. -/
structure Cursor where
  pos : Nat
  hit : Bool
  eof : Bool
  deriving DecidableEq, Repr

def seek (l : List Region) (key : Bytes) : Outcome Cursor :=
  match seekIdx key l with
  | .ok (i, h) => .ok ⟨i, h, false⟩
  | .err e => .err e
  | .fault w => .fault w

/-- `Tree.SeekFirst` (`none` = `io.EOF` on an empty tree). -/
def seekFirst (l : List Region) : Option Cursor :=
  if l.isEmpty then none else some ⟨0, true, false⟩

/-- `Enumerator.Next`: `none` = `io.EOF`. -/
def Cursor.next (l : List Region) (c : Cursor) : Option Region × Cursor :=
  if c.eof then (none, c) else
  match l[c.pos]? with
  | none => (none, { c with eof := true })
  | some x => (some x, ⟨c.pos + 1, true, decide (l.length ≤ c.pos + 1)⟩)

/-- Return the item at `p` and move left (second half of `Enumerator.Prev`). -/
def Cursor.prevAt (l : List Region) (c : Cursor) (p : Nat) : Option Region × Cursor :=
  match l[p]? with
  | none => (none, { c with eof := true })
  | some x => (some x, ⟨p - 1, true, decide (p = 0)⟩)

/-- `Enumerator.Prev`: after a `Seek` that missed, first step back. -/
def Cursor.prev (l : List Region) (c : Cursor) : Option Region × Cursor :=
  if c.eof then (none, c) else
  if !c.hit then
    if c.pos = 0 then (none, { c with eof := true }) else c.prevAt l (c.pos - 1)
  else c.prevAt l c.pos

/-! ## `getOverlaps` -/

/-- The final loop: `for err != io.EOF && isRegionOverlap(v, reg) { append; Next }`, entered
after one `Next`.  `fuel` bounds the number of `Next` calls (`len + 1` suffices:
`Lemmas.Cache.ovLoop_eq`). -/
def ovLoop (l : List Region) (r : Region) : Nat → Cursor → List Region → List Region
  | 0, _, acc => acc
  | f + 1, c, acc =>
    match c.next l with
    | (some v, c') => if overlap v r then ovLoop l r f c' (acc ++ [v]) else acc
    | (none, _) => acc

/-- `keyRegionCache.getOverlaps(reg)`, enumerator call by enumerator call. -/
def getOverlaps (l : List Region) (r : Region) : Outcome (List Region) :=
  if l.isEmpty then .ok [] else
  match searchKeyO r.fq r.start with
  | .fault w => .fault w
  | .err e => .err e
  | .ok key =>
  match seek l key with
  | .fault w => .fault w
  | .err e => .err e
  | .ok e0 =>
    if e0.hit then .fault "WTF: found a region with exact name as the search key" else
    let e1 := (e0.prev l).2
    let (n1, e2) := e1.next l
    -- `if err == io.EOF { enum = SeekFirst() }`
    let e3 : Option Cursor := if n1.isNone then seekFirst l else some e2
    match e3 with
    | none => .fault "error seeking first region"
    | some e3 =>
      match e3.next l with
      | (none, _) => .fault "error accessing first region"
      | (some v, e4) =>
        let first := if overlap v r then [v] else []
        .ok (ovLoop l r (l.length + 1) e4 first)

/-! ## `put` / `del` -/

structure Cache where
  regions : List Region
  dead : List Region
  deriving DecidableEq, Repr

def Cache.empty : Cache := ⟨[], []⟩

/-- `Tree.Delete(name)`. -/
def delName (l : List Region) (n : Bytes) : List Region := l.filter (fun x => x.name != n)

def markDead (d : List Region) (r : Region) : List Region := if r ∈ d then d else d ++ [r]

def insertAt (l : List Region) (i : Nat) (r : Region) : List Region := l.take i ++ r :: l.drop i

/-- `keyRegionCache.put(reg)` → (cache, overlaps, replaced). -/
def put (c : Cache) (r : Region) : Outcome (Cache × List Region × Bool) :=
  match seekIdx r.name c.regions with
  | .fault w => .fault w
  | .err e => .err e
  | .ok (i, true) =>
    match c.regions[i]? with
    | some v => .ok (c, [v], false)
    | none => .fault "unreachable: hit past the end"
  | .ok (i, false) =>
    match getOverlaps c.regions r with
    | .fault w => .fault w
    | .err e => .err e
    | .ok ov =>
      if ov.any (fun o => r.id < o.id) then .ok (c, ov, false)
      else
        .ok (⟨ov.foldl (fun l o => delName l o.name) (insertAt c.regions i r),
              ov.foldl markDead c.dead⟩, ov, true)

/-- `keyRegionCache.del(reg)` → (cache, success). The *argument* is marked dead. -/
def del (c : Cache) (r : Region) : Cache × Bool :=
  (⟨delName c.regions r.name, markDead c.dead r⟩, c.regions.any (fun x => x.name == r.name))

inductive Op where
  | put (r : Region)
  | del (r : Region)
  deriving DecidableEq, Repr

def Op.region : Op → Region
  | .put r => r
  | .del r => r

def step (c : Cache) : Op → Outcome Cache
  | .put r => (put c r).map (·.1)
  | .del r => .ok (del c r).1

def run : List Op → Cache → Outcome Cache
  | [], c => .ok c
  | op :: ops, c =>
    match step c op with
    | .ok c' => run ops c'
    | .err e => .err e
    | .fault w => .fault w

/-! ## Well-formedness (the property's domain) -/

/-- Decimal digits of a number, as HBase prints a region id into the region name. -/
def dec (n : Nat) : Bytes :=
  if h : n < 10 then [UInt8.ofNat (48 + n)] else dec (n / 10) ++ [UInt8.ofNat (48 + n % 10)]
termination_by n
decreasing_by omega

def dot : UInt8 := 0x2e

/-- A descriptor as HBase emits it: the name is `fqtable,start,<id>.<rest>` (the region id is
embedded in the name, so equal names mean equal ids), no `','` in the table name or after the
id, no `':'` in the table qualifier (so `(namespace, table)` and the fully-qualified name
determine each other), a non-empty key range, and a name within HBase's row-length limit. -/
structure Region.WF (r : Region) : Prop where
  nameShape : ∃ rest, r.name = mkName r.fq r.start (dec r.id ++ dot :: rest) ∧ comma ∉ rest
  fqNoComma : comma ∉ r.fq
  tblNoColon : colon ∉ r.tbl
  range : r.stop = [] ∨ bcmp r.start r.stop = .lt
  nameLen : r.name.length ≤ 32767

/-- Executable version of `WF` (used by the driver to tag out-of-domain cases). -/
def Region.wfB (r : Region) : Bool :=
  let pre := mkName r.fq r.start (dec r.id ++ [dot])
  pre.isPrefixOf r.name && !(r.name.drop pre.length).contains comma &&
  !r.fq.contains comma && !r.tbl.contains colon &&
  (r.stop.isEmpty || bcmp r.start r.stop == .lt) && decide (r.name.length ≤ 32767)

/-- `k ∈ [start, stop)` with an empty stop key meaning "unbounded". -/
def Region.contains (r : Region) (k : Bytes) : Prop :=
  bcmp r.start k ≠ .gt ∧ (r.stop = [] ∨ bcmp k r.stop = .lt)

def Region.containsB (r : Region) (k : Bytes) : Bool :=
  bcmp r.start k != .gt && (r.stop.isEmpty || bcmp k r.stop == .lt)

/-- `a` sorts strictly before `b` under `region.Compare`. -/
def nameLt (a b : Region) : Prop := (compareName a.name b.name).map signOf = .ok .lt

def Sorted (l : List Region) : Prop := l.Pairwise nameLt

/-- The cache invariant: sorted by name, all well-formed, pairwise non-overlapping. -/
structure GoodL (l : List Region) : Prop where
  sorted : Sorted l
  wf : ∀ x ∈ l, x.WF
  disjoint : l.Pairwise (fun a b => overlap a b = false)

def Good (c : Cache) : Prop := GoodL c.regions

end GV.Cache
