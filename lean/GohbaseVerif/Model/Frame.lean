import GohbaseVerif.Basic
import GohbaseVerif.Gen.Wire
/-!
# HBase RPC framing as written by `region/client.go`

Model of `sendHello`, `marshalProto`, `registerRPC` (call-id allocation) and of the `Write`
calls `send` issues, plus the decoder a server runs on the byte stream (`parseHello`,
`parseFrame`, `parseStream`) and the interleavings of several senders' writes.

The protobuf byte encoding is opaque and trusted: a frame is a header *payload*, a request
*payload* (both `Bytes`, produced by a `PBCodec` that is a parameter, never an axiom) and the
trailing cellblock bytes.  Only the framing around the payloads (4-byte big-endian total,
`protowire` varint delimiters) is modelled byte for byte.
Core Lean only (the driver links against this file).
-/
namespace GV.Frame
open GV

/-! ### `protowire` varints -/

/-- `protowire.AppendVarint` with `fuel` bytes still allowed. -/
def varintEncAux : Nat → Nat → Bytes
  | 0, _ => []
  | f + 1, n =>
    if n < 128 then [UInt8.ofNat n]
    else UInt8.ofNat (n % 128 + 128) :: varintEncAux f (n / 128)

/-- `protowire.AppendVarint(nil, uint64(n))`: little-endian base-128; a `uint64` takes at most
10 bytes (the `% 2^64` is Go's conversion to `uint64`). -/
def varintEnc (n : Nat) : Bytes := varintEncAux 10 (n % 2 ^ 64)

/-- `protowire.ConsumeVarint` with `fuel` bytes still allowed (10 at the start): the 10th byte
must be 0 or 1, a missing terminator is an error. Non-minimal encodings are accepted. -/
def varintDecAux : Nat → Nat → Nat → Bytes → Outcome (Nat × Bytes)
  | 0, _, _, _ => .err "varint-overflow"
  | _ + 1, _, _, [] => .err "varint-truncated"
  | f + 1, sh, acc, b :: bs =>
    if b.toNat < 128 then
      if f = 0 ∧ 1 < b.toNat then .err "varint-overflow"
      else .ok (acc + b.toNat * 2 ^ sh, bs)
    else
      if f = 0 then .err "varint-overflow"
      else varintDecAux f (sh + 7) (acc + (b.toNat - 128) * 2 ^ sh) bs

/-- `protowire.ConsumeVarint`: value and the remaining bytes. -/
def varintDec (b : Bytes) : Outcome (Nat × Bytes) := varintDecAux 10 0 0 b

/-- `protowire.SizeVarint`. -/
def varintSize (n : Nat) : Nat := (varintEnc n).length

/-! ### Delimited payloads and frames -/

/-- `protowire.AppendVarint(b, len(p)); append(b, p...)`. -/
def delimited (p : Bytes) : Bytes := varintEnc p.length ++ p

/-- `protowire.ConsumeBytes`-style read of one delimited payload. -/
def readDelimited (b : Bytes) : Outcome (Bytes × Bytes) :=
  match varintDec b with
  | .ok (n, rest) =>
    if rest.length < n then .err "delimited-truncated" else .ok (rest.take n, rest.drop n)
  | .err c => .err c
  | .fault w => .fault w

/-- The buffer `marshalProto` returns for a header payload `h`, a request payload `r` and a
cellblock length: 4-byte big-endian `uint32(protobufLen) + cellblocksLen`, then the two
delimited payloads. (`proto.Size` is modelled as the length of the marshalled payload: the Go
code panics when they differ.) -/
def marshalProto (h r : Bytes) (cbLen : Nat) : Bytes :=
  let pb := delimited h ++ delimited r
  toBE 4 ((pb.length % 2 ^ 32 + cbLen % 2 ^ 32) % 2 ^ 32) ++ pb

/-- A whole frame on the wire: the marshalled buffer followed by the cellblock bytes. -/
def marshal (h r cbs : Bytes) : Bytes := marshalProto h r cbs.length ++ cbs

/-- Number of bytes the length prefix of `marshal h r cbs` has to announce. -/
def bodyLen (h r cbs : Bytes) : Nat := (delimited h).length + (delimited r).length + cbs.length

structure RawFrame where
  header : Bytes
  request : Bytes
  cellblocks : Bytes
  deriving Repr, DecidableEq

def RawFrame.bytes (f : RawFrame) : Bytes := marshal f.header f.request f.cellblocks
def RawFrame.bodyLen (f : RawFrame) : Nat := Frame.bodyLen f.header f.request f.cellblocks

/-- What a server does with the head of the stream: read the 4-byte length, take that many
bytes, split them into delimited header, delimited request and the trailing cellblock.
Returns header payload, request payload, cellblock bytes, rest of the stream. -/
def parseFrame (b : Bytes) : Outcome (Bytes × Bytes × Bytes × Bytes) :=
  if b.length < 4 then .err "frame-truncated-length" else
  let total := beNat (b.take 4)
  let b1 := b.drop 4
  if b1.length < total then .err "frame-truncated-body" else
  let body := b1.take total
  let rest := b1.drop total
  match readDelimited body with
  | .ok (h, body1) =>
    match readDelimited body1 with
    | .ok (r, cbs) => .ok (h, r, cbs, rest)
    | .err c => .err ("request-" ++ c)
    | .fault w => .fault w
  | .err c => .err ("header-" ++ c)
  | .fault w => .fault w

/-- Frames until the stream is exhausted; `fuel` ≥ number of frames + 1 (every frame takes at
least 4 bytes, so `length + 1` always suffices: `parseFrames_fuel`). -/
def parseFramesAux : Nat → Bytes → Outcome (List RawFrame)
  | 0, _ => .fault "fuel"
  | _ + 1, [] => .ok []
  | f + 1, b@(_ :: _) =>
    match parseFrame b with
    | .ok (h, r, cbs, rest) =>
      match parseFramesAux f rest with
      | .ok fs => .ok (⟨h, r, cbs⟩ :: fs)
      | .err c => .err c
      | .fault w => .fault w
    | .err c => .err c
    | .fault w => .fault w

def parseFrames (b : Bytes) : Outcome (List RawFrame) := parseFramesAux (b.length + 1) b

/-! ### Connection preamble and header -/

/-- `sendHello`: `"HBas\x00\x50"`, 4-byte big-endian length of the marshalled
`ConnectionHeader`, the payload. One `Write`. -/
def hello (payload : Bytes) : Bytes :=
  Gen.Wire.preamble ++ toBE 4 (payload.length % 2 ^ 32) ++ payload

def parseHello (b : Bytes) : Outcome (Bytes × Bytes) :=
  let n := Gen.Wire.preamble.length
  if b.take n ≠ Gen.Wire.preamble then .err "bad-preamble" else
  let b1 := b.drop n
  if b1.length < 4 then .err "hello-truncated-length" else
  let len := beNat (b1.take 4)
  let b2 := b1.drop 4
  if b2.length < len then .err "hello-truncated-body" else
  .ok (b2.take len, b2.drop len)

/-- The whole connection as a server reads it: preamble + connection header, then frames. -/
def parseStream (b : Bytes) : Outcome (Bytes × List RawFrame) :=
  match parseHello b with
  | .ok (p, rest) =>
    match parseFrames rest with
    | .ok fs => .ok (p, fs)
    | .err c => .err c
    | .fault w => .fault w
  | .err c => .err c
  | .fault w => .fault w

/-! ### Structured header, protobuf as a parameter -/

/-- `pb.RequestHeader` as filled by `marshalProto`. -/
structure ReqHeader where
  callId : Nat
  methodName : Bytes
  requestParam : Bool
  priority : Option Nat
  cellBlockMeta : Option Nat
  deriving Repr, DecidableEq

/-- The header `marshalProto` builds: priority only when `> 0`, `CellBlockMeta` only when the
cellblock length is `> 0`. -/
def mkHeader (callId : Nat) (method : Bytes) (priority cbLen : Nat) : ReqHeader :=
  { callId := callId, methodName := method, requestParam := true,
    priority := if 0 < priority then some priority else none,
    cellBlockMeta := if 0 < cbLen then some cbLen else none }

/-- The assumed contract of the protobuf library for one message type: a marshaller and an
unmarshaller. `Lawful` (`Unmarshal ∘ Marshal = id`) is a *hypothesis* of the theorems. -/
structure PBCodec (α : Type) where
  marshal : α → Bytes
  unmarshal : Bytes → Option α

def PBCodec.Lawful {α} (c : PBCodec α) : Prop := ∀ a, c.unmarshal (c.marshal a) = some a

/-- `marshalProto` + cellblocks for structured header fields and a structured request. -/
def marshalMsg {ρ} (ch : PBCodec ReqHeader) (cr : PBCodec ρ)
    (callId : Nat) (method : Bytes) (priority : Nat) (req : ρ) (cbs : Bytes) : Bytes :=
  marshal (ch.marshal (mkHeader callId method priority cbs.length)) (cr.marshal req) cbs

/-- Server side: frame, then `Unmarshal` of both payloads. -/
def parseMsg {ρ} (ch : PBCodec ReqHeader) (cr : PBCodec ρ) (b : Bytes) :
    Outcome (ReqHeader × ρ × Bytes × Bytes) :=
  match parseFrame b with
  | .ok (h, r, cbs, rest) =>
    match ch.unmarshal h, cr.unmarshal r with
    | some hd, some rq => .ok (hd, rq, cbs, rest)
    | none, _ => .err "header-unmarshal"
    | _, none => .err "request-unmarshal"
  | .err c => .err c
  | .fault w => .fault w

/-- What the header says about the cellblock agrees with the bytes that trail the request:
`CellBlockMeta` is present iff there are trailing bytes, and its length is their number. -/
def metaOk (hd : ReqHeader) (cbs : Bytes) : Bool :=
  match hd.cellBlockMeta with
  | none => cbs.length == 0
  | some n => 0 < n && n == cbs.length

/-! ### Call ids -/

/-- `atomic.AddUint32(&c.id, 1)`: new counter value, which is the id handed out. -/
def nextId (s : Nat) : Nat := (s + 1) % 2 ^ 32

/-- The ids of `n` successive `registerRPC` calls starting from counter value `s`. -/
def allocIds : Nat → Nat → List Nat
  | _, 0 => []
  | s, n + 1 => nextId s :: allocIds (nextId s) n

/-! ### The `Write` calls of `send` -/

inductive ConnKind where
  /-- `*net.TCPConn`: `net.Buffers.WriteTo` is one `writev`. -/
  | tcp
  /-- any other `net.Conn` (custom dialer): `net.Buffers.WriteTo` is one `Write` per buffer. -/
  | other
  deriving Repr, DecidableEq

/-- The units (single atomic writes as seen by the connection) `send` emits for one request:
`b` is the marshalled buffer, `cellblocks = none` the `cellblocks == nil` branch (`c.write(b)`),
`some bufs` the `net.Buffers{b, bufs…}.WriteTo(conn)` branch. -/
def sendUnits (k : ConnKind) (b : Bytes) (cellblocks : Option (List Bytes)) : List Bytes :=
  match cellblocks with
  | none => [b]
  | some bufs =>
    match k with
    | .tcp => [b ++ bufs.flatten]
    | .other => b :: bufs

/-- The units of a frame given as payloads and cellblock buffers. -/
def frameUnits (k : ConnKind) (h r : Bytes) (cellblocks : Option (List Bytes)) : List Bytes :=
  sendUnits k (marshalProto h r (cellblocks.getD []).flatten.length) cellblocks

/-- One request as `send` has it in hand: marshalled header and request payloads and the
cellblock buffers (`none`: the `cellblocks == nil` branch). -/
structure SendReq where
  header : Bytes
  request : Bytes
  cellblocks : Option (List Bytes)
  deriving Repr, DecidableEq

/-- The frame a server should read for it. -/
def SendReq.raw (q : SendReq) : RawFrame := ⟨q.header, q.request, (q.cellblocks.getD []).flatten⟩

/-- The `Write` units `send` emits for it on a connection of kind `k`. -/
def SendReq.units (k : ConnKind) (q : SendReq) : List Bytes :=
  frameUnits k q.header q.request q.cellblocks

/-! ### Interleavings of concurrent senders -/

/-- All merges of two sequences that keep each sequence's own order. -/
def interleave2 {α} : List α → List α → List (List α)
  | [], ys => [ys]
  | xs, [] => [xs]
  | x :: xs, y :: ys =>
    (interleave2 xs (y :: ys)).map (x :: ·) ++ (interleave2 (x :: xs) ys).map (y :: ·)

/-- All interleavings of the senders' sequences (each sender's own order is kept). -/
def interleavings {α} : List (List α) → List (List α)
  | [] => [[]]
  | s :: ss => (interleavings ss).flatMap (interleave2 s)

end GV.Frame
