import GohbaseVerif.Basic
/-!
# `ToProto` of Get / Mutate / CheckAndPut / Scan and `multi.toProto`, structure level

The protobuf *messages* are modelled as Lean structures whose optional fields are `Option`s;
the byte encoding is opaque (see `Model/Frame.lean`). Each `…ToProto` follows the Go code
field by field, including the default-elision rules. `Spec.decode…` is the other side: the
operation an HBase server reads from such a message, with the defaults of `Client.proto` /
`ProtobufUtil` re-applied. Go maps are association lists and every function that ranges over
a map takes the iteration order as an argument.

Cells are owned by the C10 model: here a mutation's cellblock is an opaque buffer with an
associated cell count.
Core Lean only (the driver links against this file).
-/
namespace GV.ToProto
open GV

/-! ### constants of `hrpc/scan.go`, `hrpc/query.go` -/

def defaultMaxVersions : Nat := 1
def minTimestamp : Nat := 0
/-- `hrpc.MaxTimestamp = math.MaxUint64`: "no upper bound" / "no timestamp given". -/
def maxTimestamp : Nat := 2 ^ 64 - 1
/-- `math.MaxInt32`: gohbase's way of saying "no limit" (HBase: field absent, −1). -/
def defaultStoreLimit : Nat := 2 ^ 31 - 1
def defaultCacheBlocks : Bool := true
/-- `math.MaxUint64` in `Scan.scannerID`: "no scanner yet". -/
def noScannerID : Nat := 2 ^ 64 - 1

/-- `if cond { field = &v }`. -/
def optIf {α} (c : Bool) (v : α) : Option α := if c then some v else none

/-! ### queries -/

/-- `hrpc.ConsistencyType`; `invalid` stands for any other integer a caller may pass. -/
inductive Consistency where
  | default | strong | timeline | invalid
  deriving Repr, DecidableEq

inductive PBConsistency where
  | strong | timeline
  deriving Repr, DecidableEq

/-- `pb.Filter` (name + serialized filter), opaque. -/
structure Filter where
  name : Bytes
  serialized : Bytes
  deriving Repr, DecidableEq

/-- `map[string][]string`. -/
abbrev Families := List (Bytes × List Bytes)

/-- `hrpc.baseQuery`. -/
structure Query where
  families : Families
  filter : Option Filter
  fromTs : Nat
  toTs : Nat
  maxVersions : Nat
  storeLimit : Nat
  storeOffset : Nat
  priority : Nat
  cacheBlocks : Bool
  consistency : Consistency
  deriving Repr, DecidableEq

structure PBTimeRange where
  from_ : Option Nat
  to : Option Nat
  deriving Repr, DecidableEq

structure PBColumn where
  family : Bytes
  qualifiers : List Bytes
  deriving Repr, DecidableEq

/-- `familiesToColumn`, ranging over the map in order `ord`. -/
def familiesToColumn (ord : Families) : List PBColumn := ord.map fun fq => ⟨fq.1, fq.2⟩

/-- `ConsistencyType.toProto` (called only when the value is not the default): panics on the
default and on any unknown value. -/
def consistencyToProto : Consistency → Outcome PBConsistency
  | .strong => .ok .strong
  | .timeline => .ok .timeline
  | .default => .fault "default consistency depends on context"
  | .invalid => .fault "invalid value for ConsistencyType"

/-- The `if g.consistency != DefaultConsistency { … = g.consistency.toProto() }` step. -/
def consistencyField (c : Consistency) : Outcome (Option PBConsistency) :=
  if c = .default then .ok none else (consistencyToProto c).map some

/-! ### Get -/

structure GetCall where
  key : Bytes
  region : Bytes
  q : Query
  existsOnly : Bool
  deriving Repr, DecidableEq

structure PBGet where
  row : Bytes
  column : List PBColumn
  filter : Option Filter
  timeRange : Option PBTimeRange
  maxVersions : Option Nat
  cacheBlocks : Option Bool
  storeLimit : Option Nat
  storeOffset : Option Nat
  existenceOnly : Option Bool
  consistency : Option PBConsistency
  deriving Repr, DecidableEq

structure PBGetRequest where
  region : Bytes
  get : PBGet
  deriving Repr, DecidableEq

/-- `(*Get).ToProto`; `ord` is the order in which `familiesToColumn` ranges over the map. -/
def getToProto (g : GetCall) (ord : Families) : Outcome PBGetRequest :=
  match consistencyField g.q.consistency with
  | .ok cons =>
    .ok { region := g.region
          get := { row := g.key
                   column := familiesToColumn ord
                   filter := g.q.filter
                   timeRange := some { from_ := optIf (g.q.fromTs != minTimestamp) g.q.fromTs
                                       to := optIf (g.q.toTs != maxTimestamp) g.q.toTs }
                   maxVersions := optIf (g.q.maxVersions != defaultMaxVersions) g.q.maxVersions
                   cacheBlocks := optIf (g.q.cacheBlocks != defaultCacheBlocks) g.q.cacheBlocks
                   storeLimit := optIf (g.q.storeLimit != defaultStoreLimit) g.q.storeLimit
                   storeOffset := optIf (g.q.storeOffset != 0) g.q.storeOffset
                   existenceOnly := optIf g.existsOnly true
                   consistency := cons } }
  | .err c => .err c
  | .fault w => .fault w

/-! ### Mutate and CheckAndPut -/

/-- `pb.MutationProto_MutationType` (APPEND = 0, INCREMENT = 1, PUT = 2, DELETE = 3). -/
inductive MutType where
  | append | increment | put | delete
  deriving Repr, DecidableEq

inductive DeleteType where
  | oneVersion | multipleVersions | family | familyVersion
  deriving Repr, DecidableEq

/-- `map[string]map[string][]byte`; a nil inner map is `none`. -/
abbrev Values := List (Bytes × Option (List (Bytes × Bytes)))

structure MutateCall where
  key : Bytes
  region : Bytes
  mutType : MutType
  values : Values
  /-- `m.ttl` (empty = not set). -/
  ttl : Bytes
  /-- `m.timestamp` (`maxTimestamp` = not set). -/
  timestamp : Nat
  /-- index into `durabilities` (0 … 4). -/
  durability : Nat
  deleteOneVersion : Bool
  deriving Repr, DecidableEq

structure PBQualifierValue where
  qualifier : Bytes
  value : Bytes
  timestamp : Option Nat
  deleteType : Option DeleteType
  deriving Repr, DecidableEq

structure PBColumnValue where
  family : Bytes
  qualifierValue : List PBQualifierValue
  deriving Repr, DecidableEq

structure PBMutation where
  row : Bytes
  mutateType : Option MutType
  columnValue : List PBColumnValue
  timestamp : Option Nat
  attrs : List (Bytes × Bytes)
  durability : Option Nat
  associatedCellCount : Option Nat
  deriving Repr, DecidableEq

structure PBCondition where
  row : Bytes
  family : Bytes
  qualifier : Bytes
  /-- `pb.CompareType` as its number (EQUAL = 2). -/
  compareType : Nat
  /-- `pb.Comparator` (name + serialized comparator), opaque. -/
  comparator : Filter
  deriving Repr, DecidableEq

structure PBMutateRequest where
  region : Bytes
  mutation : PBMutation
  condition : Option PBCondition
  deriving Repr, DecidableEq

/-- `"_ttl"`. -/
def attributeNameTTL : Bytes := [95, 116, 116, 108]

/-- The delete type `valuesToProto` picks for one family. -/
def deleteTypeOf (m : MutateCall) (inner : Option (List (Bytes × Bytes))) : Option DeleteType :=
  if m.mutType = .delete then
    if (inner.getD []).length = 0 then
      some (if m.deleteOneVersion then .familyVersion else .family)
    else some (if m.deleteOneVersion then .oneVersion else .multipleVersions)
  else none

/-- The qualifier map `valuesToProto` ranges over for one family: `emptyQualifier` for a nil
inner map of a delete. -/
def effectiveInner (m : MutateCall) (inner : Option (List (Bytes × Bytes))) : List (Bytes × Bytes) :=
  if m.mutType = .delete ∧ (inner.getD []).length = 0 then [([], [])] else inner.getD []

/-- `valuesToProto`: `vals` is the value map in the order the outer and inner `range`s visit it. -/
def valuesToProto (m : MutateCall) (vals : Values) (ts : Option Nat) : List PBColumnValue :=
  vals.map fun fv =>
    { family := fv.1
      qualifierValue := (effectiveInner m fv.2).map fun qv =>
        { qualifier := qv.1, value := qv.2, timestamp := ts, deleteType := deleteTypeOf m fv.2 } }

/-- The part of `(*Mutate).toProto` common to both forms. -/
def mutationBase (m : MutateCall) : Outcome PBMutation :=
  if m.durability < 5 then
    .ok { row := m.key
          mutateType := some m.mutType
          columnValue := []
          timestamp := optIf (m.timestamp != maxTimestamp) m.timestamp
          attrs := if 0 < m.ttl.length then [(attributeNameTTL, m.ttl)] else []
          durability := some m.durability
          associatedCellCount := none }
  else .fault "index out of range (durabilities)"

/-- `(*Mutate).ToProto` = `toProto(false, nil)`: values as protobuf. -/
def mutateToProto (m : MutateCall) (vals : Values) : Outcome PBMutateRequest :=
  (mutationBase m).map fun p =>
    { region := m.region
      mutation := { p with columnValue := valuesToProto m vals p.timestamp }
      condition := none }

/-- `(*Mutate).SerializeCellBlocks(cbs)` = `toProto(true, cbs)`: `cb`/`count` are what
`valuesToCellblocks` returned (opaque here). Returns the request, the grown buffer list and
the size. -/
def mutateSerialize (m : MutateCall) (cb : Bytes) (count : Nat) (cbs : List Bytes) :
    Outcome (PBMutateRequest × List Bytes × Nat) :=
  (mutationBase m).map fun p =>
    ({ region := m.region
       mutation := { p with associatedCellCount := some count }
       condition := none },
     if 0 < cb.length then cbs ++ [cb] else cbs,
     cb.length)

structure CasCall where
  put : MutateCall
  family : Bytes
  qualifier : Bytes
  /-- `BinaryComparator(ByteArrayComparable(expectedValue))` as built by `NewCheckAndPut`. -/
  comparator : Filter
  deriving Repr, DecidableEq

/-- `(*CheckAndPut).ToProto`. -/
def casToProto (c : CasCall) (vals : Values) : Outcome PBMutateRequest :=
  (mutateToProto c.put vals).map fun r =>
    { r with condition := some { row := c.put.key, family := c.family, qualifier := c.qualifier
                                 compareType := 2, comparator := c.comparator } }

/-! ### Scan -/

structure ScanCall where
  region : Bytes
  startRow : Bytes
  stopRow : Bytes
  q : Query
  scannerID : Nat
  maxResultSize : Nat
  numberOfRows : Nat
  reversed : Bool
  attrs : List (Bytes × Bytes)
  trackScanMetrics : Bool
  closeScanner : Bool
  /-- client-side only: never on the wire. -/
  allowPartialResults : Bool
  renewalScan : Bool
  deriving Repr, DecidableEq

structure PBScan where
  column : List PBColumn
  attrs : List (Bytes × Bytes)
  startRow : Bytes
  stopRow : Bytes
  filter : Option Filter
  timeRange : Option PBTimeRange
  maxVersions : Option Nat
  cacheBlocks : Option Bool
  maxResultSize : Option Nat
  storeLimit : Option Nat
  storeOffset : Option Nat
  reversed : Option Bool
  consistency : Option PBConsistency
  deriving Repr, DecidableEq

structure PBScanRequest where
  region : Bytes
  scan : Option PBScan
  scannerId : Option Nat
  numberOfRows : Option Nat
  closeScanner : Option Bool
  clientHandlesPartials : Option Bool
  clientHandlesHeartbeats : Option Bool
  trackScanMetrics : Option Bool
  renew : Option Bool
  deriving Repr, DecidableEq

/-- `(*Scan).ToProto`: with a scanner id the request carries no `Scan` message at all. -/
def scanToProto (s : ScanCall) (ord : Families) : Outcome PBScanRequest :=
  let base : PBScanRequest :=
    { region := s.region, scan := none, scannerId := none
      numberOfRows := some s.numberOfRows
      closeScanner := some s.closeScanner
      clientHandlesPartials := some true
      clientHandlesHeartbeats := some true
      trackScanMetrics := some s.trackScanMetrics
      renew := some s.renewalScan }
  if s.scannerID != noScannerID then .ok { base with scannerId := some s.scannerID }
  else
    match consistencyField s.q.consistency with
    | .ok cons =>
      .ok { base with
            scan := some
              { column := familiesToColumn ord
                attrs := s.attrs
                startRow := s.startRow
                stopRow := s.stopRow
                filter := s.q.filter
                timeRange := some { from_ := optIf (s.q.fromTs != minTimestamp) s.q.fromTs
                                    to := optIf (s.q.toTs != maxTimestamp) s.q.toTs }
                maxVersions := optIf (s.q.maxVersions != defaultMaxVersions) s.q.maxVersions
                cacheBlocks := optIf (s.q.cacheBlocks != defaultCacheBlocks) s.q.cacheBlocks
                maxResultSize := some s.maxResultSize
                storeLimit := optIf (s.q.storeLimit != defaultStoreLimit) s.q.storeLimit
                storeOffset := optIf (s.q.storeOffset != 0) s.q.storeOffset
                reversed := optIf s.reversed true
                consistency := cons } }
    | .err c => .err c
    | .fault w => .fault w

/-! ### multi.toProto

A batched call as `multi.toProto` sees it: is its context done, which region object it
carries, the `pb.Action` payload its `ToProto`/`SerializeCellBlocks` gives (`α`: a `PBGet` or a
`PBMutation`), and the cellblock buffers it appends (`β`: none for a Get or a mutation without
cells, one otherwise) with their total size. -/

/-- `hrpc.RegionInfo` as a map key: the object identity and its name. -/
structure Region where
  id : Nat
  name : Bytes
  deriving Repr, DecidableEq

/-- The payload of a `pb.Action`: `a.Get = r.Get` or `a.Mutation = r.Mutation`. -/
inductive ActionMsg where
  | get (g : PBGet)
  | mutation (m : PBMutation)
  deriving Repr, DecidableEq

/-- How many cells of the cellblock stream an action announces (`associated_cell_count`). -/
def cellNeed : ActionMsg → Nat
  | .get _ => 0
  | .mutation m => m.associatedCellCount.getD 0

structure MCall (α β : Type) where
  cancelled : Bool
  region : Region
  msg : α
  cbs : List β
  size : Nat

structure PBAction (α : Type) where
  index : Nat
  msg : α
  deriving Repr, DecidableEq

structure PBRegionAction (α : Type) where
  region : Bytes
  actions : List (PBAction α)
  deriving Repr, DecidableEq

/-- The calls with their positions in `m.calls`. -/
def indexed {γ} (l : List γ) : List (Nat × γ) := (List.range l.length).zip l

/-- The live calls of region `r`, batch order kept, with their 1-based index. -/
def actionsOf {α β} (calls : List (MCall α β)) (r : Region) : List (Nat × MCall α β) :=
  (indexed calls).filter fun ic => !ic.2.cancelled && ic.2.region == r

/-- The distinct regions of the live calls, in order of first appearance (the key set of
`actionsPerReg`). -/
def liveRegions {α β} (calls : List (MCall α β)) : List Region :=
  ((calls.filter fun c => !c.cancelled).map (·.region)).eraseDups

structure MultiOut (α β : Type) where
  regionActions : List (PBRegionAction α)
  /-- the cellblock buffers appended to `cbs`, in order -/
  cellblocks : List β
  /-- the `uint32` size -/
  size : Nat
  /-- `m.regions` -/
  regions : List Region

/-- `multi.toProto(isCellblocks, nil)`; `π` is the order in which the final
`for r, as := range actionsPerReg` visits the regions (any permutation of `liveRegions`). -/
def multiToProto {α β} (calls : List (MCall α β)) (π : List Region) : MultiOut α β :=
  { regionActions := π.map fun r =>
      { region := r.name
        actions := (actionsOf calls r).map fun ic => { index := ic.1 + 1, msg := ic.2.msg } }
    cellblocks := π.flatMap fun r => (actionsOf calls r).flatMap fun ic => ic.2.cbs
    size := ((calls.filter fun c => !c.cancelled).map (·.size)).foldl (fun a b => (a + b) % 2 ^ 32) 0
    regions := π }

/-! ## `Spec`: what a server reads back -/

namespace Spec

/-- The Get an HBase server executes. -/
structure GetOp where
  region : Bytes
  row : Bytes
  columns : Families
  filter : Option Filter
  fromTs : Nat
  toTs : Nat
  maxVersions : Nat
  storeLimit : Nat
  storeOffset : Nat
  cacheBlocks : Bool
  consistency : PBConsistency
  existenceOnly : Bool
  deriving Repr, DecidableEq

def decodeColumns (cs : List PBColumn) : Families := cs.map fun c => (c.family, c.qualifiers)

def decodeFrom (tr : Option PBTimeRange) : Nat := ((tr.bind (·.from_)).getD minTimestamp)
def decodeTo (tr : Option PBTimeRange) : Nat := ((tr.bind (·.to)).getD maxTimestamp)

/-- Defaults of `Client.proto` (`max_versions` 1, `cache_blocks` true, `consistency` STRONG,
`existence_only` false, `store_offset` 0) and of `ProtobufUtil` (no time range bound, no store
limit — written with gohbase's sentinels `maxTimestamp`, `defaultStoreLimit`). -/
def decodeGet (r : PBGetRequest) : GetOp :=
  { region := r.region
    row := r.get.row
    columns := decodeColumns r.get.column
    filter := r.get.filter
    fromTs := decodeFrom r.get.timeRange
    toTs := decodeTo r.get.timeRange
    maxVersions := r.get.maxVersions.getD 1
    storeLimit := r.get.storeLimit.getD defaultStoreLimit
    storeOffset := r.get.storeOffset.getD 0
    cacheBlocks := r.get.cacheBlocks.getD true
    consistency := r.get.consistency.getD .strong
    existenceOnly := r.get.existenceOnly.getD false }

/-- What the caller asked for: `DefaultConsistency` means HBase's default, STRONG. -/
def intentConsistency : Consistency → PBConsistency
  | .timeline => .timeline
  | _ => .strong

/-- The Get the caller built (`ord`: the family map in some order — a map has none). -/
def getIntent (g : GetCall) (ord : Families) : GetOp :=
  { region := g.region
    row := g.key
    columns := ord
    filter := g.q.filter
    fromTs := g.q.fromTs
    toTs := g.q.toTs
    maxVersions := g.q.maxVersions
    storeLimit := g.q.storeLimit
    storeOffset := g.q.storeOffset
    cacheBlocks := g.q.cacheBlocks
    consistency := intentConsistency g.q.consistency
    existenceOnly := g.existsOnly }

/-- Cell kinds (`KeyValue.Type`). -/
inductive CellKind where
  | put | deleteOne | deleteMulti | deleteFamily | deleteFamilyVersion
  deriving Repr, DecidableEq

structure CellSpec where
  qualifier : Bytes
  value : Bytes
  /-- `none` = `LATEST_TIMESTAMP` -/
  ts : Option Nat
  kind : CellKind
  deriving Repr, DecidableEq

/-- The mutation a server executes (protobuf form: cells inline; cellblock form: `cells = []`
and `cellCount` cells follow in the cellblock). -/
structure MutateOp where
  region : Bytes
  row : Bytes
  mutType : MutType
  durability : Nat
  timestamp : Option Nat
  ttl : Option Bytes
  cells : List (Bytes × List CellSpec)
  cellCount : Option Nat
  condition : Option PBCondition
  deriving Repr, DecidableEq

def kindOfDelete : Option DeleteType → CellKind
  | none => .put
  | some .oneVersion => .deleteOne
  | some .multipleVersions => .deleteMulti
  | some .family => .deleteFamily
  | some .familyVersion => .deleteFamilyVersion

def decodeTTL (attrs : List (Bytes × Bytes)) : Option Bytes :=
  (attrs.find? fun a => a.1 == attributeNameTTL).map (·.2)

def decodeMutation (region : Bytes) (p : PBMutation) (cond : Option PBCondition) : MutateOp :=
  { region := region
    row := p.row
    mutType := p.mutateType.getD .put
    durability := p.durability.getD 0
    timestamp := p.timestamp
    ttl := decodeTTL p.attrs
    cells := p.columnValue.map fun cv =>
      (cv.family, cv.qualifierValue.map fun qv =>
        { qualifier := qv.qualifier, value := qv.value, ts := qv.timestamp
          kind := kindOfDelete qv.deleteType })
    cellCount := p.associatedCellCount
    condition := cond }

def decodeMutate (r : PBMutateRequest) : MutateOp := decodeMutation r.region r.mutation r.condition

/-- The cells one family of the caller's value map stands for (`NewDel` documentation: nil
qualifier map = the whole family; otherwise the listed qualifiers; a map without any qualifier names
the family and nothing else, the whole family as well). -/
def intentCells (m : MutateCall) (inner : Option (List (Bytes × Bytes))) : List CellSpec :=
  let ts := if m.timestamp = maxTimestamp then none else some m.timestamp
  if m.mutType = .delete then
    if (inner.getD []).length = 0 then
      [{ qualifier := [], value := [], ts := ts
         kind := if m.deleteOneVersion then .deleteFamilyVersion else .deleteFamily }]
    else
      (inner.getD []).map fun qv => { qualifier := qv.1, value := qv.2, ts := ts
                                      kind := if m.deleteOneVersion then .deleteOne else .deleteMulti }
  else
    (inner.getD []).map fun qv => { qualifier := qv.1, value := qv.2, ts := ts, kind := .put }

/-- The mutation the caller built, protobuf form. -/
def mutateIntent (m : MutateCall) (vals : Values) : MutateOp :=
  { region := m.region
    row := m.key
    mutType := m.mutType
    durability := m.durability
    timestamp := if m.timestamp = maxTimestamp then none else some m.timestamp
    ttl := if 0 < m.ttl.length then some m.ttl else none
    cells := vals.map fun fv => (fv.1, intentCells m fv.2)
    cellCount := none
    condition := none }

/-- The mutation the caller built, cellblock form (`count` cells travel in the cellblock). -/
def mutateIntentCB (m : MutateCall) (count : Nat) : MutateOp :=
  { mutateIntent m [] with cellCount := some count }

def casIntent (c : CasCall) (vals : Values) : MutateOp :=
  { mutateIntent c.put vals with
    condition := some { row := c.put.key, family := c.family, qualifier := c.qualifier
                        compareType := 2, comparator := c.comparator } }

structure ScanSpec where
  startRow : Bytes
  stopRow : Bytes
  columns : Families
  attrs : List (Bytes × Bytes)
  filter : Option Filter
  fromTs : Nat
  toTs : Nat
  maxVersions : Nat
  storeLimit : Nat
  storeOffset : Nat
  cacheBlocks : Bool
  consistency : PBConsistency
  reversed : Bool
  maxResultSize : Option Nat
  deriving Repr, DecidableEq

inductive ScanTarget where
  /-- open a scanner with this specification -/
  | openScan (spec : ScanSpec)
  /-- continue / close / renew the scanner with this id -/
  | next (scannerId : Nat)
  /-- neither a `Scan` message nor a scanner id (malformed) -/
  | nothing
  deriving Repr, DecidableEq

structure ScanOp where
  region : Bytes
  target : ScanTarget
  numberOfRows : Nat
  closeScanner : Bool
  renew : Bool
  trackScanMetrics : Bool
  clientHandlesPartials : Bool
  clientHandlesHeartbeats : Bool
  deriving Repr, DecidableEq

def decodeScanSpec (s : PBScan) : ScanSpec :=
  { startRow := s.startRow
    stopRow := s.stopRow
    columns := decodeColumns s.column
    attrs := s.attrs
    filter := s.filter
    fromTs := decodeFrom s.timeRange
    toTs := decodeTo s.timeRange
    maxVersions := s.maxVersions.getD 1
    storeLimit := s.storeLimit.getD defaultStoreLimit
    storeOffset := s.storeOffset.getD 0
    cacheBlocks := s.cacheBlocks.getD true
    consistency := s.consistency.getD .strong
    reversed := s.reversed.getD false
    maxResultSize := s.maxResultSize }

/-- `RSRpcServices.scan`: a request with a scanner id addresses that scanner, otherwise the
`Scan` message opens a new one. -/
def decodeScan (r : PBScanRequest) : ScanOp :=
  { region := r.region
    target := match r.scannerId, r.scan with
      | some id, _ => .next id
      | none, some s => .openScan (decodeScanSpec s)
      | none, none => .nothing
    numberOfRows := r.numberOfRows.getD 0
    closeScanner := r.closeScanner.getD false
    renew := r.renew.getD false
    trackScanMetrics := r.trackScanMetrics.getD false
    clientHandlesPartials := r.clientHandlesPartials.getD false
    clientHandlesHeartbeats := r.clientHandlesHeartbeats.getD false }

/-- The scan request the caller built: with a scanner id only the continuation fields count
(the scanner's specification already lives on the server); gohbase always handles partial
results and heartbeats itself (`AllowPartialResults` only changes what `Next` hands out). -/
def scanIntent (s : ScanCall) (ord : Families) : ScanOp :=
  { region := s.region
    target :=
      if s.scannerID != noScannerID then .next s.scannerID
      else .openScan
        { startRow := s.startRow, stopRow := s.stopRow, columns := ord, attrs := s.attrs
          filter := s.q.filter, fromTs := s.q.fromTs, toTs := s.q.toTs
          maxVersions := s.q.maxVersions, storeLimit := s.q.storeLimit
          storeOffset := s.q.storeOffset, cacheBlocks := s.q.cacheBlocks
          consistency := intentConsistency s.q.consistency, reversed := s.reversed
          maxResultSize := some s.maxResultSize }
    numberOfRows := s.numberOfRows
    closeScanner := s.closeScanner
    renew := s.renewalScan
    trackScanMetrics := s.trackScanMetrics
    clientHandlesPartials := true
    clientHandlesHeartbeats := true }

/-! #### the requests and operations as one type -/

inductive Request where
  | get (r : PBGetRequest)
  | mutate (r : PBMutateRequest)
  | scan (r : PBScanRequest)
  deriving Repr, DecidableEq

inductive Op where
  | get (o : GetOp)
  | mutate (o : MutateOp)
  | scan (o : ScanOp)
  deriving Repr, DecidableEq

/-- The operation a server reads from a request structure. -/
def decodeOp : Request → Op
  | .get r => .get (decodeGet r)
  | .mutate r => .mutate (decodeMutate r)
  | .scan r => .scan (decodeScan r)

/-! #### multi -/

/-- One decoded action: its index, its payload and the cellblock buffers that belong to it. -/
structure DecodedAction (α β : Type) where
  index : Nat
  msg : α
  cbs : List β
  deriving Repr, DecidableEq

/-- Walk the actions of one `RegionAction`, handing each the next `need a.msg` buffers of the
cellblock stream. Too few buffers left is an error. -/
def decodeActions {α β} (need : α → Nat) :
    List (PBAction α) → List β → Outcome (List (DecodedAction α β) × List β)
  | [], stream => .ok ([], stream)
  | a :: as, stream =>
    if stream.length < need a.msg then .err "cellblock-exhausted" else
    match decodeActions need as (stream.drop (need a.msg)) with
    | .ok (ds, rest) => .ok (⟨a.index, a.msg, stream.take (need a.msg)⟩ :: ds, rest)
    | .err c => .err c
    | .fault w => .fault w

/-- A server walks the `RegionAction`s in request order and takes each action's cells from the
front of the cellblock stream (`need`: how many buffers an action's payload announces). -/
def decodeMulti {α β} (need : α → Nat) :
    List (PBRegionAction α) → List β → Outcome (List (Bytes × List (DecodedAction α β)) × List β)
  | [], stream => .ok ([], stream)
  | ra :: ras, stream =>
    match decodeActions need ra.actions stream with
    | .ok (ds, rest) =>
      match decodeMulti need ras rest with
      | .ok (rs, rest') => .ok ((ra.region, ds) :: rs, rest')
      | .err c => .err c
      | .fault w => .fault w
    | .err c => .err c
    | .fault w => .fault w

/-- What the batch stands for, given the order `π` of the regions: per region the live calls in
batch order, index = position + 1, each with its own cellblock buffers. -/
def multiIntent {α β} (calls : List (MCall α β)) (π : List Region) :
    List (Bytes × List (DecodedAction α β)) :=
  π.map fun r => (r.name, (actionsOf calls r).map fun ic => ⟨ic.1 + 1, ic.2.msg, ic.2.cbs⟩)

end Spec

end GV.ToProto
