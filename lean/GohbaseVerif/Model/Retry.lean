import GohbaseVerif.Basic
import GohbaseVerif.Gen.Backoff
import GohbaseVerif.Gen.RetryLoop
/-!
Model of the retry loops of rpc.go (`SendRPC`, `SendBatch`, `lookupRegion`,
`lookupAllRegions`, `establishRegion`) as functions from scripted outcomes to event lists.
The growth formula, the start value and the per-error-class behaviour of the loops are taken
from the regenerated `Gen.Backoff` / `Gen.RetryLoop`, so the theorems are re-checked against
what the Go source says now.
-/
namespace GV.Retry
open GV.Gen GV.Gen.RetryLoop

def msec : Int := 1000000

/-- The n-th value of the back-off variable along a run of failures. -/
def sched : Nat → Int
  | 0 => Backoff.backoffStart
  | n + 1 => Backoff.nextBackoff (sched n)

/-- `sleepAndIncreaseBackoff(ctx, b)` with a live context: (time slept, new backoff). -/
def sleepAndIncrease (next : Int → Int) (b : Int) : Option Int × Int :=
  if Backoff.beforeWait b ≠ b then (none, Backoff.beforeWait b)
  else (some (Backoff.sleepFor b), next b)

/-- Outcome classes of one attempt. -/
inductive Cls where
  | ok | fatal | retryable | server | nsre
  deriving Repr, DecidableEq

def Cls.typeName : Cls → String
  | .retryable => "RetryableError"
  | .server => "ServerError"
  | .nsre => "NotServingRegionError"
  | _ => ""

inductive Ev where
  | attempt (c : Cls)
  | sleep (d : Int)
  deriving Repr, DecidableEq

def armFor (arms : List Arm) (c : Cls) : Option Arm :=
  arms.find? (fun a => a.types.contains c.typeName)

structure LoopSt where
  backoff : Int
  serverErr : Int
  deriving Repr

/-- `SendRPC`'s loop: one scripted outcome per attempt. `next` is the growth function
(`Gen.Backoff.nextBackoff` in the theorems; the harness instantiates it otherwise). -/
def sendRPC (next : Int → Int) (arms : List Arm) : LoopSt → List Cls → List Ev
  | _, [] => []
  | st, c :: rest =>
    .attempt c ::
      match armFor arms c with
      | none => []                       -- not a retry class: the result is returned
      | some a =>
        let doSleep := a.sleeps && (a.guardVar == "" || decide (st.serverErr > a.guardN))
        let (slept, nb) := if doSleep then sleepAndIncrease next st.backoff else (none, st.backoff)
        let st' : LoopSt :=
          { backoff := nb
            serverErr := if a.incs.contains "serverErrorCount" then st.serverErr + 1 else st.serverErr }
        (match slept with | some d => [.sleep d] | none => []) ++
          (if a.continues then sendRPC next arms st' rest else [])

def sendRPCInit : LoopSt :=
  { backoff := (sendRPC_initBackoff.getD 0), serverErr := 0 }

/-- `lookupRegion` / `lookupAllRegions`: attempt; on failure sleep and retry. `fails` = number of
consecutive failed lookups before the successful one. -/
def lookupLoop (next : Int → Int) : Int → Nat → List Ev
  | _, 0 => [.attempt .ok]
  | b, n + 1 =>
    let (slept, nb) := sleepAndIncrease next b
    .attempt .retryable :: (match slept with | some d => [.sleep d] | none => []) ++ lookupLoop next nb n

/-- `establishRegion`: the wait comes first in each iteration (the first returns at once
because the initial back-off is 0), then one attempt (lookup + dial + probe). -/
def establishLoop (next : Int → Int) : Int → Nat → List Ev
  | b, 0 =>
    let (slept, _) := sleepAndIncrease next b
    (match slept with | some d => [.sleep d] | none => []) ++ [.attempt .ok]
  | b, n + 1 =>
    let (slept, nb) := sleepAndIncrease next b
    (match slept with | some d => [.sleep d] | none => []) ++ .attempt .retryable :: establishLoop next nb n

/-! ## The monitor for observed gaps between attempts (used by `Drive/C17.lean`)

`p i g` = "gap `g` is long enough for the `i`-th wait of the schedule". -/

/-- every gap, in order, is long enough for its slot, slots counted from `i` -/
def gapsOk (p : Nat → Nat → Bool) : List Nat → Nat → Bool
  | [], _ => true
  | g :: gs, i => p i g && gapsOk p gs (i + 1)

/-- Greedy judgement: a gap is left out (an immediate retry) only when it is too short for its
slot; at most `k` gaps may be left out, `d` have been so far. -/
def greedyFollows (p : Nat → Nat → Bool) (k : Nat) : List Nat → Nat → Nat → Bool
  | [], _, _ => true
  | g :: gs, i, d =>
    if p i g then greedyFollows p k gs (i + 1) d
    else if d < k then greedyFollows p k gs i (d + 1) else false

/-- What the master answers to one procedure-state poll. -/
inductive ProcAns where
  | running | finished | exception | notFound
  deriving DecidableEq, Repr

/-- How an admin call (`CreateTable`, `DeleteTable`, `EnableTable`, `DisableTable`) ends once its
request has been accepted: `exhausted` = the script ran out while the procedure was running. -/
inductive ProcRes where
  | ok | procException | notFound | exhausted
  deriving DecidableEq, Repr

/-- `checkProcedureWithBackoff` against scripted answers: ask; a final answer ends the call; while
the procedure is running, wait and ask again. Result, number of polls sent, waits requested. -/
def procLoop (next : Int → Int) : Int → List ProcAns → ProcRes × Nat × List Int
  | _, [] => (.exhausted, 0, [])
  | _, .finished :: _ => (.ok, 1, [])
  | _, .exception :: _ => (.procException, 1, [])
  | _, .notFound :: _ => (.notFound, 1, [])
  | b, .running :: rest =>
    let (slept, nb) := sleepAndIncrease next b
    let r := procLoop next nb rest
    (r.1, r.2.1 + 1, (match slept with | some d => [d] | none => []) ++ r.2.2)

/-- `SendBatch`'s retry decision per failed round: `true` = some call asked for a back-off
(RetryableError), `false` = only connection/region errors. -/
structure BatchSt where
  backoff : Int
  immediate : Int

def sendBatchRounds (next : Int → Int) (guard : Option (String × Int)) : BatchSt → List Bool → List Ev
  | _, [] => [.attempt .ok]
  | st, needBackoff :: rest =>
    let need := needBackoff || (match guard with | some (_, n) => decide (st.immediate > n) | none => false)
    let imm := if needBackoff then st.immediate else (match guard with | some _ => st.immediate + 1 | none => st.immediate)
    let (slept, nb) := if need then sleepAndIncrease next st.backoff else (none, st.backoff)
    .attempt (if needBackoff then .retryable else .server) ::
      (match slept with | some d => [.sleep d] | none => []) ++
      sendBatchRounds next guard { backoff := nb, immediate := imm } rest

def sleepsOf : List Ev → List Int
  | [] => []
  | .sleep d :: r => d :: sleepsOf r
  | _ :: r => sleepsOf r

/-- Number of attempts of class `c` that are immediately followed by another attempt. -/
def immediateRetries (c : Cls) : List Ev → Nat
  | .attempt c' :: .attempt c'' :: r =>
    (if c' = c then 1 else 0) + immediateRetries c (.attempt c'' :: r)
  | _ :: r => immediateRetries c r
  | [] => 0

end GV.Retry
