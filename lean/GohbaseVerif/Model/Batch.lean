import GohbaseVerif.Basic
import GohbaseVerif.Gen.Backoff
/-
Model of `(*client).SendBatch` (rpc.go) with `findClients`, `waitForCompletion`, the effect
classes of `handleResultError` and the back-off decision, as a deterministic function of

* the batch: a list of call ids (a repeated id = the same `hrpc.Call` passed twice), with a table
  and a batchable flag per id (`Info`);
* one `Round` per pass through the retry loop:
  - `locate`   what `getRegionAndClientForRPC` (under the call's merged context) gives
               `findClients` for a call in this round (C01 is behind it): a region client id or an
               error (context error, client closed, …); `.error (.ownCtx c)` for call `c` = the wait
               for `c`'s region ended because `c`'s own context is done while the batch context is
               alive: only that call is failed, the rest of the batch goes on;
  - `ans`      what is on the call's result channel when `waitForCompletion` looks at it;
  - `order`    the order in which Go iterates the `rpcByClient` map (arbitrary: quantified);
  - `cancel`   where the batch context is observed to be done in this round;
  - `gaveUp`   the calls that have a context of their own which the back-off sleep after this round
               sees done (`contextOfCalls`): when that holds for EVERY call about to be retried the
               sleep ends at once and so does the retry loop, exactly as for a batch context that is
               done inside the sleep (nobody is waiting for the calls to be retried any more). A call
               without a context of its own (`rpc.Context() == ctx` or a context that is never done)
               never gives up: `gaveUp c = false`.

`res` is the Go slice, written only through `rpcToRes` (the Go map: first position of a call).
A goroutine blocked forever (no answer, no context done) is `Outcome.fault`.

`region/multi.go` `add`/`toProto` (what a region server sees of one `QueueBatch`) is `Multi` below.
-/
namespace GV.Batch

/-- Error classes `waitForCompletion` switches on (`default` = `fatal`). -/
inductive Cls where
  | retryable | nsre | server | fatal
  deriving DecidableEq, Repr

/-- Errors that can end up in a result slot. -/
inductive Err where
  | dup (j : Nat)          -- "duplicate call in batch at index j"
  | tables                 -- "multiple tables in batch request"
  | nonBatchable           -- "non-batchable call passed to SendBatch"
  | notExecuted            -- NotExecutedError
  | ans (cls : Cls) (tag : Nat)   -- an error delivered on the call's result channel
  | ownCtx (call : Nat)    -- rpc.Context().Err() of that call
  | batchCtx               -- ctx.Err() of the batch context
  | closed                 -- ErrClientClosed (from region location)
  | other (tag : Nat)      -- any other region-location error
  deriving DecidableEq, Repr

/-- `hrpc.RPCResult`: `Msg` (a tag identifying the response) and `Error`. -/
structure Slot where
  msg : Option Nat
  err : Option Err
  deriving DecidableEq, Repr

/-- What `waitForCompletion` finds for a call in one round. -/
inductive Ans where
  | ok (m : Nat)                  -- RPCResult{Msg: m}
  | fail (cls : Cls) (tag : Nat)  -- RPCResult{Error: …}
  | ownDone                       -- no answer; the call's own context is done
  | silent                        -- no answer, own context alive (only a done batch context ends the wait)
  deriving DecidableEq, Repr

def Ans.isOk : Ans → Bool
  | .ok _ => true
  | _ => false

/-- Where the batch context is observed done in a round. -/
inductive Cancel where
  | none
  | wait (p : Nat)  -- the select of the p-th waited call (in wait order, over all groups) takes `<-ctx.Done()`;
                    -- p ≥ number of waited calls: done but first seen by the check after the wait
  | after           -- seen by `ctx.Err() != nil` after the wait
  | sleep           -- seen by the select inside sleepAndIncreaseBackoff (ignored if the round does not sleep)
  deriving DecidableEq, Repr

structure Round where
  locate : Nat → Except Err Nat
  ans : Nat → Ans
  order : List Nat
  cancel : Cancel
  /-- has a context of its own, seen done by the back-off sleep after this round -/
  gaveUp : Nat → Bool := fun _ => false

structure Info where
  table : Nat → Nat
  batchable : Nat → Bool

inductive Event where
  | queue (round client : Nat) (calls : List Nat)   -- client.QueueBatch(ctx, calls)
  | sleep (ns : Int)                                 -- completed back-off sleep
  | sleepCut (ns : Int)                              -- back-off sleep interrupted by the context
  | sleepLeft (ns : Int)                             -- back-off sleep ended because the own context of
                                                     -- every call about to be retried is done
  deriving DecidableEq, Repr

structure Result where
  res : List Slot
  allOK : Bool
  events : List Event
  /-- a wait select took the `<-ctx.Done()` branch (bookkeeping; not Go state) -/
  interrupted : Bool
  deriving DecidableEq, Repr

/-! ### `rpcToRes` and the two kinds of writes to `res` -/

def firstIdx (c : Nat) : List Nat → Nat
  | [] => 0
  | x :: xs => if x = c then 0 else firstIdx c xs + 1

/-- The Go map `rpcToRes`: position of the first occurrence; a missing key reads as 0. -/
def rpcToRes (b0 : List Nat) (c : Nat) : Nat := if c ∈ b0 then firstIdx c b0 else 0

/-- `res[rpcToRes[rpc]] = s`. -/
def setRes (b0 : List Nat) (res : List Slot) (c : Nat) (s : Slot) : List Slot :=
  res.set (rpcToRes b0 c) s

/-- `res[rpcToRes[rpc]].Error = e` (keeps `Msg`). -/
def setErr (b0 : List Nat) (res : List Slot) (c : Nat) (e : Err) : List Slot :=
  res.modify (rpcToRes b0 c) (fun s => { s with err := some e })

def getSlot (b0 : List Nat) (res : List Slot) (c : Nat) : Slot :=
  res.getD (rpcToRes b0 c) ⟨none, none⟩

/-! ### validation pass -/

/-- The first loop of `SendBatch` from position `pre.length` on; `pre` = calls already seen. -/
def validate (info : Info) (table0 : Nat) : List Nat → List Nat → List Slot × Bool
  | _, [] => ([], true)
  | pre, c :: rest =>
    let r := validate info table0 (pre ++ [c]) rest
    if c ∈ pre then (⟨none, some (.dup (firstIdx c pre))⟩ :: r.1, false)
    else if info.table c ≠ table0 then (⟨none, some .tables⟩ :: r.1, false)
    else if !info.batchable c then (⟨none, some .nonBatchable⟩ :: r.1, false)
    else (⟨none, some .notExecuted⟩ :: r.1, r.2)

/-! ### findClients -/

def locOk (rd : Round) (c : Nat) : Bool :=
  match rd.locate c with
  | .ok _ => true
  | .error _ => false

def clientOf (rd : Round) (c : Nat) : Nat :=
  match rd.locate c with
  | .ok k => k
  | .error _ => 0

/-- first occurrences, in order -/
def dedup : List Nat → List Nat
  | [] => []
  | x :: xs => x :: (dedup xs).filter (· != x)

/-- Go's iteration order over the keys `cls` of `rpcByClient`, steered by `ord`: always some
permutation of `cls`, and every permutation is reached by some `ord`. -/
def arrange (ord cls : List Nat) : List Nat :=
  (dedup ord).filter (fun k => cls.contains k) ++ cls.filter (fun k => !ord.contains k)

/-- `rpcByClient` as the list of (client, calls) in iteration order. Grouping keeps batch order. -/
def groups (rd : Round) (batch : List Nat) : List (Nat × List Nat) :=
  (arrange rd.order (dedup (batch.map (clientOf rd)))).map
    fun k => (k, batch.filter (fun c => clientOf rd c == k))

/-- Region location gave up on `c` only because `c`'s own context is done (the batch context is
alive): `findClients` reports `rpc.Context().Err()` for it and keeps `ok == true`. -/
def ownGone (rd : Round) (c : Nat) : Bool :=
  match rd.locate c with
  | .error (.ownCtx d) => d == c
  | _ => false

/-- The calls `findClients` puts into `rpcByClient` when it returns `ok == true`. -/
def liveCalls (rd : Round) (batch : List Nat) : List Nat := batch.filter (fun c => !ownGone rd c)

/-- The loop after `findClients`: every error it found goes to the call's own slot. -/
def locateErrors (b0 : List Nat) (rd : Round) : List Nat → List Slot → List Slot
  | [], res => res
  | c :: cs, res =>
    match rd.locate c with
    | .error e => locateErrors b0 rd cs (setRes b0 res c ⟨none, some e⟩)
    | .ok _ => locateErrors b0 rd cs res

/-! ### waitForCompletion -/

/-- Local variables of one `waitForCompletion` call (+ the shared `res`). -/
structure W where
  res : List Slot
  retry : List Nat
  backoff : Bool
  unretry : Bool
  ok : Bool

/-- One iteration of the first loop whose select does not take `<-ctx.Done()`. -/
def handle (b0 : List Nat) (a : Ans) (c : Nat) (w : W) : Outcome W :=
  match a with
  | .ok m => .ok { w with res := setRes b0 w.res c ⟨some m, none⟩ }
  | .fail cls t =>
    let w := { w with res := setRes b0 w.res c ⟨none, some (.ans cls t)⟩, ok := false }
    match cls with
    | .retryable => .ok { w with backoff := true, retry := w.retry ++ [c] }
    | .nsre => .ok { w with retry := w.retry ++ [c] }
    | .server => .ok { w with retry := w.retry ++ [c] }
    | .fatal => .ok { w with unretry := true }
  | .ownDone => .ok { w with res := setErr b0 w.res c (.ownCtx c), ok := false, unretry := true }
  | .silent => .fault "no answer and no context done: waitForCompletion blocks forever"

/-- The second loop (non-blocking reads after cancellation). -/
def sweep (b0 : List Nat) (ans : Nat → Ans) : List Nat → List Slot → List Slot
  | [], res => res
  | c :: cs, res =>
    match ans c with
    | .ok m => sweep b0 ans cs (setRes b0 res c ⟨some m, none⟩)
    | .fail cls t => sweep b0 ans cs (setRes b0 res c ⟨none, some (.ans cls t)⟩)
    | _ => sweep b0 ans cs (setErr b0 res c .batchCtx)

/-- `waitForCompletion` for one group whose first call has wait position `pos`.
Returns the locals and whether the `<-ctx.Done()` branch was taken. -/
def waitGroup (b0 : List Nat) (ans : Nat → Ans) (cancel : Option Nat) :
    List Nat → Nat → W → Outcome (W × Bool)
  | [], _, w => .ok (w, false)
  | c :: cs, pos, w =>
    if cancel = some pos then
      -- the sweep clears `ok` for every call that ends with an error or without an answer
      .ok ({ w with res := sweep b0 ans (c :: cs) w.res,
                    ok := w.ok && (c :: cs).all (fun d => (ans d).isOk) }, true)
    else match handle b0 (ans c) c w with
      | .ok w' => waitGroup b0 ans cancel cs (pos + 1) w'
      | .err e => .err e
      | .fault f => .fault f

/-- Variables of `SendBatch` touched by the wait phase of a round. -/
structure Acc where
  res : List Slot
  allOK : Bool
  retries : List Nat
  needBackoff : Bool
  unretry : Bool
  interrupted : Bool

/-- The `for _, cAndR := range cAndRs` loop. Once the context has been seen done (`Acc.interrupted`)
every later group is entered with a done context: whatever branches its selects take, its calls end
with their answer if there is one and the context error otherwise, `ok` is true exactly when every
call of the group has a successful answer, and what is appended to `retries` is irrelevant because
the retry loop ends — modelled as a sweep of the whole group. -/
def waitAll (b0 : List Nat) (ans : Nat → Ans) (cancel : Option Nat) :
    List (Nat × List Nat) → Nat → Acc → Outcome Acc
  | [], _, a => .ok a
  | g :: gs, pos, a =>
    if a.interrupted then
      waitAll b0 ans cancel gs (pos + g.2.length)
        { a with res := sweep b0 ans g.2 a.res, allOK := a.allOK && g.2.all (fun d => (ans d).isOk) }
    else match waitGroup b0 ans cancel g.2 pos ⟨a.res, [], false, false, true⟩ with
      | .ok (w, cut) =>
        let a' : Acc :=
          if !w.ok then
            { res := w.res, allOK := false, retries := a.retries ++ w.retry,
              needBackoff := a.needBackoff || w.backoff, unretry := a.unretry || w.unretry,
              interrupted := cut }
          else { a with res := w.res, interrupted := cut }
        waitAll b0 ans cancel gs (pos + g.2.length) a'
      | .err e => .err e
      | .fault f => .fault f

/-! ### the retry loop -/

structure St where
  res : List Slot
  allOK : Bool
  unretry : Bool      -- unretryableErrorSeen
  backoff : Int       -- ns
  immediate : Nat     -- immediateRetries
  events : List Event

def cancelPos : Cancel → Option Nat
  | .wait p => some p
  | _ => none

def ctxDoneAfterWait : Cancel → Bool
  | .wait _ => true
  | .after => true
  | _ => false

/-- `SendBatch`'s variables after `findClients` returned `ok == true` and its errors were copied:
the calls whose own context ended the wait for their region carry that error; any of them clears
`allOK` and sets `unretryableErrorSeen`. -/
def afterLocate (b0 : List Nat) (rd : Round) (batch : List Nat) (st : St) : St :=
  { st with res := locateErrors b0 rd batch st.res,
            allOK := st.allOK && !batch.any (ownGone rd),
            unretry := st.unretry || batch.any (ownGone rd) }

def loop (b0 : List Nat) : List Round → Nat → List Nat → St → Outcome Result
  | [], _, _, _ => .fault "no further answers: SendBatch blocks forever"
  | rd :: rest, r, batch0, st0 =>
    -- `findClients` returns `ok == false`: some call could not be located for another reason than
    -- its own context (every error found, own-context ones included, is copied to `res`)
    if batch0.any (fun c => !locOk rd c && !ownGone rd c) then
      .ok ⟨locateErrors b0 rd batch0 st0.res, false, st0.events, false⟩
    else
      -- the calls whose own context is done are failed alone; the round goes on with the others
      let st := afterLocate b0 rd batch0 st0
      let batch := liveCalls rd batch0
      let gs := groups rd batch
      let ev := st.events ++ gs.map (fun g => Event.queue r g.1 g.2)
      match waitAll b0 rd.ans (cancelPos rd.cancel) gs 0 ⟨st.res, st.allOK, [], false, st.unretry, false⟩ with
      | .err e => .err e
      | .fault f => .fault f
      | .ok a =>
        if a.retries.isEmpty || ctxDoneAfterWait rd.cancel then .ok ⟨a.res, a.allOK, ev, a.interrupted⟩
        else
          let needBackoff := a.needBackoff || decide (st.immediate > 1)
          let imm := if a.needBackoff then st.immediate else st.immediate + 1
          if needBackoff then
            if st.backoff = 0 then
              -- sleepAndIncreaseBackoff returns backoffStart at once
              loop b0 rest (r + 1) a.retries
                ⟨a.res, !a.unretry, a.unretry, Gen.Backoff.beforeWait st.backoff, imm, ev⟩
            else if rd.cancel = .sleep then
              .ok ⟨a.res, a.allOK, ev ++ [.sleepCut (Gen.Backoff.sleepFor st.backoff)], a.interrupted⟩
            else if a.retries.all rd.gaveUp then
              -- `contextOfCalls`: every call about to be retried has a context of its own and all of
              -- them are done: the sleep returns an error and the loop `break`s with `res` as it stands
              .ok ⟨a.res, a.allOK, ev ++ [.sleepLeft (Gen.Backoff.sleepFor st.backoff)], a.interrupted⟩
            else
              loop b0 rest (r + 1) a.retries
                ⟨a.res, !a.unretry, a.unretry, Gen.Backoff.nextBackoff st.backoff, imm,
                 ev ++ [.sleep (Gen.Backoff.sleepFor st.backoff)]⟩
          else
            loop b0 rest (r + 1) a.retries ⟨a.res, !a.unretry, a.unretry, st.backoff, imm, ev⟩

/-- `SendBatch(ctx, batch)`. -/
def sendBatch (info : Info) (batch : List Nat) (rounds : List Round) : Outcome Result :=
  match batch with
  | [] => .ok ⟨[], true, [], false⟩
  | c0 :: _ =>
    let v := validate info (info.table c0) [] batch
    if !v.2 then .ok ⟨v.1, false, [], false⟩
    else loop batch rounds 0 batch ⟨v.1, true, false, Gen.Backoff.backoffStart, 0, []⟩

/-! ### `multi.add` / `multi.toProto` (region/multi.go): what a region server is shown -/

namespace Multi

/-- `m.calls` after the queued slices were `add`ed in order (each slice is appended whole). -/
def add (calls : List Nat) (slice : List Nat) : List Nat := calls ++ slice

/-- `actionsPerReg[r].pbs` for region `r`: the live calls of `r`, in `m.calls` order. -/
def actionsOf (region : Nat → Nat) (alive : Nat → Bool) (calls : List Nat) (r : Nat) : List Nat :=
  calls.filter (fun c => alive c && region c == r)

/-- Regions that get a `RegionAction`. -/
def regionsOf (region : Nat → Nat) (alive : Nat → Bool) (calls : List Nat) : List Nat :=
  dedup ((calls.filter alive).map region)

/-- `toProto`: one `RegionAction` per region, in the map iteration order steered by `ord`. -/
def toProto (region : Nat → Nat) (alive : Nat → Bool) (ord : List Nat) (calls : List Nat) :
    List (Nat × List Nat) :=
  (arrange ord (regionsOf region alive calls)).map fun r => (r, actionsOf region alive calls r)

end Multi

end GV.Batch
