import GohbaseVerif.Model.Retry
/-! Driver commands for C17. -/
namespace GV.Drive.C17
open GV GV.Retry GV.Gen

/-- The schedule the property states, independent of the source: next value after waiting `b`. -/
def specNext (b : Int) : Int :=
  if b < 5000 * msec then b * 2 else if b < 30000 * msec then b + 5000 * msec else b

def parseCls : String → Option Cls
  | "ok" => some .ok
  | "fatal" => some .fatal
  | "retryable" => some .retryable
  | "server" => some .server
  | "nsre" => some .nsre
  | _ => none

def intsStr (l : List Int) : String := ",".intercalate (l.map toString)

/-- Leaving out at most `k` gaps (the immediate retries), the i-th remaining gap is at least the
i-th wait of the schedule (1 % tolerance; microseconds). Decided greedily by
`Retry.greedyFollows`, which `Props/C17.greedy_decides_some_choice` proves equivalent to "some
choice of at most `k` gaps works". The schedule is constant from its 14th entry
(`schedule_constant_from_14`), which keeps a request storm of 10^5 attempts cheap to judge. -/
def longEnough (i g : Nat) : Bool := g * 100 ≥ ((GV.Retry.sched (min i 14)) / 1000).toNat * 99

def followsSchedule (k : Nat) (gaps : List Nat) : Bool := greedyFollows longEnough k gaps 0 0

/-- `step <b> <implNext> <elapsedNs>` — one real `sleepAndIncreaseBackoff(ctx, b)` with a live context.
    `cancel <b> <implNext> <err>` — the same with a context that is cancelled while waiting.
    `rpc <cls,cls,…> <implSleeps>` — SendRPC against scripted outcomes; the harness replaces the
    growth by `+1 ns` (sleep override) so only the loop structure is compared. -/
def handle : List String → String
  | ["step", b, implNext, elapsed] =>
    match b.toInt?, implNext.toInt?, elapsed.toInt? with
    | some b, some n, some el =>
      let (slept, mn) := sleepAndIncrease Backoff.nextBackoff b
      let want := if b = 0 then 16 * msec else specNext b
      let sl := slept.getD 0
      if n ≠ want then s!"SPEC key=schedule b={b} spec={want} impl={n} model={mn}"
      else if el < (if b = 0 then 0 else b) then s!"SPEC key=short-sleep b={b} elapsed={el}"
      else if mn ≠ n then s!"DIFF model={mn} impl={n}"
      else if sl ≠ (if b = 0 then 0 else b) then s!"DIFF model sleeps {sl} for b={b}"
      else s!"OK tags=step,{if b = 0 then "zero" else if b < 5000 * msec then "doubling" else if b < 30000 * msec then "linear" else "ceiling"}"
    | _, _, _ => "BAD int"
  | ["cancel", b, implNext, err, elapsed] =>
    match b.toInt?, implNext.toInt?, elapsed.toInt? with
    | some b, some n, some el =>
      if err ≠ "ctx" then s!"SPEC key=cancel-ignored b={b} err={err} next={n} elapsed={el}"
      else if el > 250 * msec ∧ el > b / 2 then s!"SPEC key=cancel-slow b={b} elapsed={el}"
      else if Backoff.waitHasCtxCase = false then "DIFF model has no ctx case"
      else "OK tags=cancel"
    | _, _, _ => "BAD int"
  | ["admin", api, script, res, polls, sleeps] =>
    -- `admin <api> <r|f|x|n,…> <result> <polls> <sleeps>`: one admin call against a scripted master
    -- (answers to the procedure-state polls), growth replaced by `+1 ns` as for `rpc`
    let as := (script.splitOn ",").filterMap (fun a => match a with
      | "r" => some ProcAns.running | "f" => some .finished | "x" => some .exception | "n" => some .notFound
      | _ => none)
    if as.length ≠ (script.splitOn ",").length then "BAD script" else
    let (r, n, ss) := procLoop (fun b => b + 1) Backoff.backoffStart as
    let rs := match r with | .ok => "ok" | .procException => "procexc" | .notFound => "notfound" | .exhausted => "exhausted"
    let m := intsStr ss
    let m := if m = "" then "-" else m
    -- spec: the call ends with what the first final answer means
    let firstFinal := (as.find? (· ≠ .running)).map (fun a => match a with
      | .finished => "ok" | .exception => "procexc" | _ => "notfound")
    if some res ≠ firstFinal then s!"SPEC key=admin-result-not-the-first-final-answer-{api} got={res} script={script}"
    else if rs = res && toString n = polls && m = sleeps then s!"OK tags=admin,{api},{res},polls{n}"
    else s!"DIFF model={rs}/{n}/{m} impl={res}/{polls}/{sleeps}"
  | ["rpc", outs, sleeps] =>
    let cs := (outs.splitOn ",").filterMap parseCls
    if cs.length ≠ (outs.splitOn ",").length then "BAD outcomes" else
    let start := (RetryLoop.sendRPC_initBackoff.getD 0)
    let evs := sendRPC (· + 1) RetryLoop.sendRPCArms ⟨start, 0⟩ cs
    let m := intsStr (sleepsOf evs)
    let m := if m = "" then "-" else m
    -- spec: retryable always followed by a sleep; at most two immediate server retries
    if m = sleeps then s!"OK tags=rpc,len{cs.length}" else s!"DIFF model={m} impl={sleeps}"
  | ["gaps", api, kind, _n, res, atts] =>
    -- attempts seen by the simulated servers: kind.outcome.time_us ; consecutive attempts must be
    -- separated by the schedule (lower bounds), except at most two immediate retries after a
    -- connection / region failure and none after a retry-later answer
    let parts := atts.splitOn ";"
    let evs0 := parts.filterMap (fun a => match a.splitOn "." with
      | [k, o, t] => t.toNat?.map (fun t => (k, o, t))
      | _ => none)
    if evs0.length ≠ parts.length then "BAD attempts" else
    -- a successful probe is not an attempt of the request
    let evs : List (String × Nat) := (evs0.filter (fun e => !(e.1 = "probe" && e.2.1 = "ok"))).map (fun e => e.2)
    if res ≠ "ok" then s!"SPEC key=request-failed-after-transient-{kind} result={res}" else
    -- the failed attempts, in order, followed by the first successful one after the last failure
    let idx : List ((String × Nat) × Nat) := evs.zipIdx
    let lastFail : Option Nat := ((idx.filter (fun p => p.1.1 ≠ "ok")).getLast?).map (fun p => p.2)
    let ts : List Nat := match lastFail with
      | none => []
      | some k =>
        let failed : List Nat := ((evs.take (k + 1)).filter (fun e => e.1 ≠ "ok")).map (fun e => e.2)
        let next : List Nat := match (evs.drop (k + 1)).head? with
          | some e => [e.2]
          | none => []
        failed ++ next
    let gaps := (ts.zip (ts.drop 1)).map (fun (a, b) => b - a)
    let immediate := gaps.filter (· < 8000)
    let waited := gaps.filter (· ≥ 8000)
    let allowedImmediate := if kind = "retryable" || kind = "partial-retryable" then 0 else 2
    let _ := api
    -- the statement: leaving out at most `allowedImmediate` of the gaps (the immediate retries —
    -- on a loaded machine an immediate retry with its probe can itself take longer than the first
    -- wait of the schedule, so they are not recognised by their length), the others are, in order,
    -- at least the waits of the schedule
    if followsSchedule allowedImmediate gaps then s!"OK tags=gaps,{api},{kind},waits{waited.length}"
    else if immediate.length > allowedImmediate then
      s!"SPEC key=hot-retry-{api}-{kind} immediate={immediate.length} gaps_us={gaps}"
    else
      let sched : List Nat := (List.range waited.length).map (fun i => ((sched i) / 1000).toNat)
      s!"SPEC key=wait-shorter-than-schedule-{api}-{kind} gaps_us={waited} schedule_us={sched}"
  | ["rate", kind, atts] =>
    -- attempts seen by the environment while the failure persists (x.<kind>.<time_us>): the k-th
    -- gap is at least the k-th wait of the schedule (whatever an attempt itself took comes on top);
    -- for a refused connection the first two retries may be immediate
    let ts := (atts.splitOn ";").filterMap (fun a => match a.splitOn "." with
      | [_, _, t] => t.toNat?
      | _ => none)
    if ts.length < 3 then s!"DIFF harness: rate scenario {kind} saw {ts.length} attempts"
    else
      let gaps := (ts.zip (ts.drop 1)).map (fun (a, b) => b - a)
      let immediate := gaps.filter (· < 8000)
      let waited := gaps.filter (· ≥ 8000)
      let allowedImmediate := if kind = "server-refuses" then 2 else 0
      if !followsSchedule allowedImmediate gaps && immediate.length > allowedImmediate then
        s!"SPEC key=hot-retry-{kind} immediate={immediate.length} attempts={ts.length}"
      else
        let sched : List Nat := (List.range waited.length).map (fun i => ((sched i) / 1000).toNat)
        if !followsSchedule allowedImmediate gaps then s!"SPEC key=wait-shorter-than-schedule-{kind} gaps_us={waited} schedule_us={sched}"
        else
          -- … and the attempts as a whole stay under the schedule: the k-th one cannot come before the
          -- first k−1 waits have passed (less the immediate retries allowed), however the attempts are
          -- spread over goroutines (two loops each on its own schedule double the rate)
          let t0 := ts.headD 0
          let cum : List Nat := (List.range ts.length).map (fun k =>
            ((List.range (k - allowedImmediate)).map (fun i => ((GV.Retry.sched i) / 1000).toNat)).foldl (· + ·) 0)
          let early := ((ts.zip cum).zipIdx).filter (fun ((t, need), _) => (t - t0) * 100 < need * 99)
          match early.head? with
          | some ((t, need), k) => s!"SPEC key=rate-above-schedule-{kind} attempt={k} at_us={t - t0} earliest_us={need} attempts={ts.length}"
          | none => s!"OK tags=rate,{kind},attempts{ts.length}"
  | _ => "BAD command"

end GV.Drive.C17
