import GohbaseVerif.Model.Cell
/-!
Driver commands for C10 (and the cell-decoder part of C11). Line protocol: BUILDING.md.

Text forms (one token each, no spaces):
* bytes: hex, `-` = empty;
* cell: `row.fam.qual.ts.typ.val` (hex, hex, hex, decimal, decimal, hex);
* cell list: cells joined by `,`, `E` = empty list;
* decode outcome: `ok:<cell>:<consumed>` | `err` | `panic`;
* stream outcome: `ok:<cell list>:<read>` | `err` | `panic`;
* map: `N` (nil map) | `E` (empty map) | families joined by `;`, family = `<fam>~N` (nil inner map)
  | `<fam>~E` (empty inner map) | `<fam>~<q>=<v>,<q>=<v>…`;
* protobuf column values: `E` | column values joined by `;`, one = `<fam>~E` |
  `<fam>~<q>=<v>@<ts or ->#<delete type 0..3 or ->,…` (delete type numbers as in `Client.proto`:
  0 DELETE_ONE_VERSION, 1 DELETE_MULTIPLE_VERSIONS, 2 DELETE_FAMILY, 3 DELETE_FAMILY_VERSION).
-/
namespace GV.Drive.C10
open GV GV.Cell

/-! ### parsing / printing -/

def cellStr (c : Cell) : String :=
  s!"{toHex c.row}.{toHex c.family}.{toHex c.qualifier}.{c.ts}.{c.typ.toNat}.{toHex c.value}"

def parseCell (s : String) : Option Cell :=
  match s.splitOn "." with
  | [r, f, q, ts, ty, v] => do
    let r ← fromHex r
    let f ← fromHex f
    let q ← fromHex q
    let ts ← ts.toNat?
    let ty ← ty.toNat?
    let v ← fromHex v
    if ty < 256 then some ⟨r, f, q, ts, UInt8.ofNat ty, v⟩ else none
  | _ => none

def parseCells (s : String) : Option (List Cell) :=
  if s = "E" then some [] else (s.splitOn ",").mapM parseCell

def cellsStr (cs : List Cell) : String :=
  if cs.isEmpty then "E" else ",".intercalate (cs.map cellStr)

/-- Observed outcome of a decoder call. -/
inductive Obs (α : Type) where
  | ok (a : α) (n : Nat)
  | err
  | panic

def parseObsCell (s : String) : Option (Obs Cell) :=
  if s = "err" then some .err else if s = "panic" then some .panic else
  match s.splitOn ":" with
  | ["ok", c, n] => do
    let c ← parseCell c
    let n ← n.toNat?
    some (.ok c n)
  | _ => none

def parseObsCells (s : String) : Option (Obs (List Cell)) :=
  if s = "err" then some .err else if s = "panic" then some .panic else
  match s.splitOn ":" with
  | ["ok", c, n] => do
    let c ← parseCells c
    let n ← n.toNat?
    some (.ok c n)
  | _ => none

def parseInner (s : String) : Option Inner :=
  if s = "N" then some none else if s = "E" then some (some []) else do
    let l ← (s.splitOn ",").mapM fun e =>
      match e.splitOn "=" with
      | [q, v] => do
        let q ← fromHex q
        let v ← fromHex v
        some (q, v)
      | _ => none
    some (some l)

def parseMap (s : String) : Option VMap :=
  if s = "N" ∨ s = "E" then some [] else
  (s.splitOn ";").mapM fun e =>
    match e.splitOn "~" with
    | [f, i] => do
      let f ← fromHex f
      let i ← parseInner i
      some (f, i)
    | _ => none

def parseDeleteKind (s : String) : Option (Option DeleteKind) :=
  match s with
  | "-" => some none
  | "0" => some (some .oneVersion)
  | "1" => some (some .multipleVersions)
  | "2" => some (some .family)
  | "3" => some (some .familyVersion)
  | _ => none

def parseQV (s : String) : Option QV :=
  match s.splitOn "#" with
  | [a, dt] =>
    match a.splitOn "@" with
    | [qv, ts] =>
      match qv.splitOn "=" with
      | [q, v] => do
        let q ← fromHex q
        let v ← fromHex v
        let ts ← if ts = "-" then some none else ts.toNat?.map some
        let dt ← parseDeleteKind dt
        some ⟨q, v, ts, dt⟩
      | _ => none
    | _ => none
  | _ => none

def parseProto (s : String) : Option (List CV) :=
  if s = "E" then some [] else
  (s.splitOn ";").mapM fun e =>
    match e.splitOn "~" with
    | [f, qs] => do
      let f ← fromHex f
      let qs ← if qs = "E" then some [] else (qs.splitOn ",").mapM parseQV
      some ⟨f, qs⟩
    | _ => none

def parseKind (s : String) : Option MutKind :=
  match s with
  | "put" => some .put
  | "del" => some .delete
  | "app" => some .append
  | "inc" => some .increment
  | _ => none

/-! ### classification helpers -/

/-- First field in which two cells differ (stable key component). -/
def cellDiff (a b : Cell) : String :=
  if a.row ≠ b.row then "row" else if a.family ≠ b.family then "family"
  else if a.qualifier ≠ b.qualifier then "qualifier" else if a.ts ≠ b.ts then "timestamp"
  else if a.typ ≠ b.typ then "type" else if a.value ≠ b.value then "value" else "none"

def lenClass (n : Nat) : String :=
  if n = 0 then "0" else if n = 1 then "1" else if n < 254 then "s" else if n < 256 then "b255"
  else if n < 65534 then "m" else if n < 65536 then "w65535" else "big"

def tsClass (ts : Nat) : String :=
  if ts = 0 then "ts0" else if ts = 2 ^ 63 - 1 then "tsLatest" else if ts = 2 ^ 64 - 1 then "tsMaxU64"
  else if ts ≥ 2 ^ 63 then "tsHigh" else "tsLow"

def modelClass : Outcome (Cell × Nat) → String
  | .ok _ => "ok"
  | .err c => c
  | .fault _ => "fault"

def cellValid (c : Cell) : Bool :=
  c.row.length < 65536 && c.family.length < 256 && c.ts < 2 ^ 64 &&
    24 + c.row.length + c.family.length + c.qualifier.length + c.value.length < 2 ^ 31

/-- Compare an observed single-cell decode with a model outcome. -/
def sameObsCell (m : Outcome (Cell × Nat)) (o : Obs Cell) : Bool :=
  match m, o with
  | .ok (c, n), .ok c' n' => c = c' && n = n'
  | .err _, .err => true
  | .fault _, .panic => true
  | _, _ => false

def sameObsCells (m : Outcome (List Cell × Nat)) (o : Obs (List Cell)) : Bool :=
  match m, o with
  | .ok (c, n), .ok c' n' => c = c' && n = n'
  | .err _, .err => true
  | .fault _, .panic => true
  | _, _ => false

def obsStr : Obs Cell → String
  | .ok c n => s!"ok:{cellStr c}:{n}"
  | .err => "err"
  | .panic => "panic"

def modelStr : Outcome (Cell × Nat) → String
  | .ok (c, n) => s!"ok:{cellStr c}:{n}"
  | .err c => s!"err({c})"
  | .fault w => s!"fault({w})"

def streamClass : Outcome (List Cell × Nat) → String
  | .ok _ => "ok"
  | .err c => c
  | .fault _ => "fault"

/-! ### commands -/

/-- `enc`: one cell through `appendCellblock(…, cbs = pre)`, `cellblockLen`, and the
implementation's own decoder run on `written ++ rest` (exact-capacity copy). -/
def handleEnc (pre row fam qual val : Bytes) (ts : Nat) (typ : UInt8) (rest : Bytes)
    (implOut : Option Bytes) (implLen : Nat) (implDec : Obs Cell) : String :=
  let c : Cell := ⟨row, fam, qual, ts, typ, val⟩
  let valid := cellValid c
  let mEnc := appendCellblock row fam qual val ts typ
  let mLen := cellblockLen row.length fam.length qual.length val.length
  match implOut with
  | none =>
    if valid then s!"SPEC key=enc-panic appendCellblock panicked on a valid cell"
    else s!"DIFF model=bytes impl=panic"
  | some out =>
    let enc := out.drop pre.length
    if valid then
      if out.take pre.length ≠ pre then "SPEC key=enc-clobbers-prefix bytes before the appended cell changed" else
      match Spec.kvDecode (enc ++ rest) with
      | none => s!"SPEC key=enc-kv-undecodable the bytes written are not a KeyValue impl={toHex (enc.take 64)}"
      | some (d, n) =>
        if d ≠ c then s!"SPEC key=enc-kv-{cellDiff c d} KeyValue parser reads {cellStr d}"
        else if n ≠ enc.length then s!"SPEC key=enc-kv-length parser consumes {n} of {enc.length} written"
        else if implLen ≠ enc.length then s!"SPEC key=enc-cellblockLen cellblockLen={implLen} written={enc.length}"
        else
          match implDec with
          | .panic => "SPEC key=rt-panic cellFromCellBlock panicked on an encoded cell"
          | .err => "SPEC key=rt-err cellFromCellBlock rejected an encoded cell"
          | .ok d' n' =>
            if d' ≠ c then s!"SPEC key=rt-{cellDiff c d'} cellFromCellBlock reads {cellStr d'}"
            else if n' ≠ enc.length then s!"SPEC key=rt-length consumed {n'} of {enc.length}"
            else if out ≠ pre ++ mEnc then s!"DIFF model={toHex (mEnc.take 64)} impl={toHex (enc.take 64)}"
            else if mLen ≠ implLen then s!"DIFF modelLen={mLen} implLen={implLen}"
            else
              s!"OK tags=enc,typ{typ.toNat},{tsClass ts},row{lenClass row.length},fam{lenClass fam.length},qual{lenClass qual.length},val{lenClass val.length}"
    else
      -- outside the property's quantifier: only model = implementation
      let mDec := cellFromCellBlock (mEnc ++ rest)
      if out ≠ pre ++ mEnc then s!"DIFF model={toHex (mEnc.take 64)} impl={toHex (enc.take 64)}"
      else if mLen ≠ implLen then s!"DIFF modelLen={mLen} implLen={implLen}"
      else if !sameObsCell mDec implDec then s!"DIFF model={modelStr mDec} impl={obsStr implDec}"
      else "OK tags=enc,oversize"

/-- `dec`: arbitrary bytes through `cellFromCellBlock`. -/
def handleDec (b : Bytes) (impl : Obs Cell) : String :=
  let m := cellFromCellBlock b
  let spec := Spec.kvDecode b
  match impl with
  | .panic => s!"SPEC key=dec-panic-{modelClass m} cellFromCellBlock panicked len={b.length}"
  | .err =>
    match spec with
    | some (c, _) =>
      if cellValid c then s!"SPEC key=dec-rejects-wellformed a well-formed KeyValue {cellStr c} was rejected"
      else if sameObsCell m impl then "OK tags=dec,err" else s!"DIFF model={modelStr m} impl=err"
    | none =>
      if sameObsCell m impl then s!"OK tags=dec,err,err-{modelClass m}" else s!"DIFF model={modelStr m} impl=err"
  | .ok c n =>
    match spec with
    | some (c', n') =>
      if c ≠ c' then s!"SPEC key=dec-mismatch-{cellDiff c' c} KeyValue parser reads {cellStr c'} impl {cellStr c}"
      else if n ≠ n' then s!"SPEC key=dec-mismatch-length parser consumes {n'} impl {n}"
      else if sameObsCell m impl then
        s!"OK tags=dec,ok,typ{c.typ.toNat},row{lenClass c.row.length},fam{lenClass c.family.length},qual{lenClass c.qualifier.length}"
      else s!"DIFF model={modelStr m} impl={obsStr impl}"
    | none =>
      if sameObsCell m impl then "OK tags=dec,ok,lenient" else s!"DIFF model={modelStr m} impl={obsStr impl}"

/-- `des`: arbitrary bytes and count through `deserializeCellBlocks`. -/
def handleDes (b : Bytes) (n : Nat) (impl : Obs (List Cell)) : String :=
  let m := deserializeCellBlocks b n
  let spec := Spec.kvDecodeN n b
  match impl with
  | .panic => s!"SPEC key=des-panic-{streamClass m} deserializeCellBlocks panicked len={b.length} n={n}"
  | .err =>
    match spec with
    | some (cs, _) =>
      if cs.all cellValid then "SPEC key=des-rejects-wellformed a stream of well-formed KeyValues was rejected"
      else if sameObsCells m impl then "OK tags=des,err" else s!"DIFF model={streamClass m} impl=err"
    | none => if sameObsCells m impl then s!"OK tags=des,err,err-{streamClass m}" else s!"DIFF model={streamClass m} impl=err"
  | .ok cs r =>
    match spec with
    | some (cs', r') =>
      if cs ≠ cs' then s!"SPEC key=des-mismatch-cells parser reads {cellsStr cs'}"
      else if r ≠ r' then s!"SPEC key=des-mismatch-length parser consumes {r'} impl {r}"
      else if sameObsCells m impl then s!"OK tags=des,ok,n{min n 5}" else s!"DIFF model={streamClass m} impl=ok"
    | none => if sameObsCells m impl then "OK tags=des,ok,lenient" else s!"DIFF model={streamClass m} impl=ok"

/-- `srt`: `cells` appended one after the other by the implementation (`bytes`), then
`deserializeCellBlocks(bytes ++ rest, len(cells))` by the implementation. -/
def handleSrt (cells : List Cell) (rest : Bytes) (bytes : Bytes) (impl : Obs (List Cell)) : String :=
  if !cells.all cellValid then "BAD srt takes valid cells only" else
  match Spec.kvDecodeN cells.length (bytes ++ rest) with
  | none => "SPEC key=srt-kv-undecodable the concatenated cells are not a KeyValue stream"
  | some (cs, l) =>
    if cs ≠ cells then "SPEC key=srt-kv-cells KeyValue parser reads other cells than were written"
    else if l ≠ bytes.length then s!"SPEC key=srt-kv-length parser consumes {l} of {bytes.length}"
    else
      match impl with
      | .panic => "SPEC key=srt-panic deserializeCellBlocks panicked on encoded cells"
      | .err => "SPEC key=srt-err deserializeCellBlocks rejected encoded cells"
      | .ok cs' r =>
        if cs' ≠ cells then "SPEC key=srt-cells deserializeCellBlocks returned other cells than were written"
        else if r ≠ bytes.length then s!"SPEC key=srt-length read {r} of {bytes.length}"
        else if cells.flatMap encodeCell ≠ bytes then "DIFF model bytes differ"
        else if !sameObsCells (deserializeCellBlocks (bytes ++ rest) cells.length) impl then "DIFF model stream outcome differs"
        else s!"OK tags=srt,n{min cells.length 5}{if rest.isEmpty then "" else ",rest"}"

def kindStr : MutKind → String
  | .put => "put" | .delete => "del" | .append => "app" | .increment => "inc"

/-- Which aspect distinguishes two cell multisets (stable key component). -/
def multisetDiff (a b : List Cell) : String :=
  if a.length ≠ b.length then "count"
  else if !(a.map (·.typ)).isPerm (b.map (·.typ)) then "type"
  else if !(a.map (·.ts)).isPerm (b.map (·.ts)) then "timestamp"
  else if !(a.map (·.value)).isPerm (b.map (·.value)) then "value"
  else if !(a.map (·.qualifier)).isPerm (b.map (·.qualifier)) then "qualifier"
  else if !(a.map (·.family)).isPerm (b.map (·.family)) then "family"
  else if !(a.map (·.row)).isPerm (b.map (·.row)) then "row"
  else "cells"

/-- Greedy parse of a whole block (used only to word a SPEC line). -/
def kvDecodeAll : Nat → Bytes → List Cell → Option (List Cell)
  | 0, _, _ => none
  | fuel + 1, b, acc =>
    if b.isEmpty then some acc.reverse else
    match Spec.kvDecode b with
    | some (c, l) => if l = 0 then none else kvDecodeAll fuel (b.drop l) (c :: acc)
    | none => none

def flattenProto (cvs : List CV) : List (Bytes × QV) := cvs.flatMap fun cv => cv.qvs.map fun q => (cv.family, q)

/-- `mut`: a mutation built with the public constructors; both encodings from the implementation. -/
def handleMut (mu : Mut) (shape : String) (m : VMap) (proto : Option (List CV)) (cb : Option Bytes)
    (count : Int) (size : Nat) : String :=
  let want := Spec.intendedCells mu m
  let nilInner := m.any fun e => e.2.isNone
  let emptyInner := m.any fun e => e.2 == some []
  let k := kindStr mu.kind
  match proto, cb with
  | _, none => s!"SPEC key=mut-panic-cellblocks-{k}{if nilInner then "-nilinner" else ""} valuesToCellblocks panicked"
  | none, _ => s!"SPEC key=mut-panic-proto-{k} valuesToProto panicked"
  | some proto, some cb =>
    let pbCells := Spec.cellsOfProto mu.kind mu.key proto
    match Spec.cellsOfCellblocks cb count with
    | none =>
      match kvDecodeAll (cb.length + 1) cb [] with
      | some cs => s!"SPEC key=mut-count-{k}{if nilInner then "-nilinner" else ""} associated cell count {count} but the cellblock holds {cs.length} cells"
      | none => s!"SPEC key=mut-cellblock-undecodable-{k} the cellblock is not a sequence of KeyValues"
    | some cbCells =>
      if !cbCells.isPerm pbCells then
        s!"SPEC key=mut-encodings-differ-{multisetDiff cbCells pbCells}-{k} cellblock={cellsStr cbCells} proto={cellsStr pbCells}"
      else if !cbCells.isPerm want then
        s!"SPEC key=mut-cells-differ-from-map-{multisetDiff cbCells want}-{k} both forms={cellsStr cbCells} map={cellsStr want}"
      else if size ≠ cb.length then s!"SPEC key=mut-size size {size} but {cb.length} bytes"
      else
        -- model = implementation (multisets: Go map order is random)
        let mProto := flattenProto (valuesToProto mu m (protoTs mu))
        match valuesToCellblocks mu m m with
        | .ok (mb, mc, ms) =>
          if !mProto.isPerm (flattenProto proto) then "DIFF model proto ≠ impl proto"
          else if (valuesToProto mu m (protoTs mu)).length ≠ proto.length then "DIFF model proto has another number of column values"
          else if mc ≠ count ∨ ms ≠ size ∨ mb.length ≠ cb.length then s!"DIFF model count/size {mc}/{ms} impl {count}/{size}"
          else if !(writtenCells mu m).isPerm cbCells then "DIFF model cells ≠ impl cells"
          else
            let ts := if mu.timestamp = maxTimestamp then "ts-unset" else "ts-set"
            let ov := if mu.deleteOneVersion then ",onev" else ""
            let ni := if nilInner then ",nil-inner" else ""
            let ei := if emptyInner then ",empty-inner" else ""
            s!"OK tags=mut,{k},{ts}{ov},map-{shape}{ni}{ei},cells{min want.length 5}"
        | .err e => s!"DIFF model=err({e}) impl=ok"
        | .fault w => s!"DIFF model=fault({w}) impl=ok"

def handle : List String → String
  | ["enc", pre, row, fam, qual, val, ts, typ, rest, out, ilen, idec] =>
    match fromHex pre, fromHex row, fromHex fam, fromHex qual, fromHex val, ts.toNat?, typ.toNat?,
      fromHex rest, ilen.toNat?, parseObsCell idec with
    | some pre, some row, some fam, some qual, some val, some ts, some typ, some rest, some ilen, some idec =>
      if typ ≥ 256 ∨ ts ≥ 2 ^ 64 then "BAD range" else
      if out = "panic" then handleEnc pre row fam qual val ts (UInt8.ofNat typ) rest none ilen idec else
      match fromHex out with
      | some out => handleEnc pre row fam qual val ts (UInt8.ofNat typ) rest (some out) ilen idec
      | none => "BAD hex"
    | _, _, _, _, _, _, _, _, _, _ => "BAD args"
  | ["dec", b, impl] =>
    match fromHex b, parseObsCell impl with
    | some b, some impl => handleDec b impl
    | _, _ => "BAD args"
  | ["des", b, n, impl] =>
    match fromHex b, n.toNat?, parseObsCells impl with
    | some b, some n, some impl => handleDes b n impl
    | _, _, _ => "BAD args"
  | ["srt", cells, rest, bytes, impl] =>
    match parseCells cells, fromHex rest, fromHex bytes, parseObsCells impl with
    | some cells, some rest, some bytes, some impl => handleSrt cells rest bytes impl
    | _, _, _, _ => "BAD args"
  | ["mut", kind, onev, ts, key, map, proto, cb, count, size, pbHead, cbHead] =>
    -- the mutation-level fields (timestamp, type, durability, row) of the protobuf form and of the
    -- cellblock form: a mutation without cells (whole-row delete) carries its timestamp only there
    if pbHead ≠ cbHead then
      s!"SPEC key=mut-encodings-differ-mutation-header-{kind} proto={pbHead} cellblock={cbHead}"
    else handle ["mut", kind, onev, ts, key, map, proto, cb, count, size]
  | ["mut", kind, onev, ts, key, map, proto, cb, count, size] =>
    match parseKind kind, ts.toNat?, fromHex key, parseMap map, count.toInt?, size.toNat? with
    | some kind, some ts, some key, some m, some count, some size =>
      if ts ≥ 2 ^ 64 then "BAD range" else
      if key.length ≥ 65536 ∨ m.any (fun e => e.1.length ≥ 256) then "BAD mut takes rows < 64 KiB and families < 256 B" else
      let mu : Mut := ⟨key, kind, ts, onev = "1"⟩
      let shape := if map = "N" then "nil" else if map = "E" then "empty" else s!"fam{min m.length 4}"
      let proto? : Option (Option (List CV)) := if proto = "panic" then some none else (parseProto proto).map some
      let cb? : Option (Option Bytes) := if cb = "panic" then some none else (fromHex cb).map some
      match proto?, cb? with
      | some p, some c => handleMut mu shape m p c count size
      | _, _ => "BAD proto/cellblock"
    | _, _, _, _, _, _ => "BAD args"
  | "batch-broken" :: status :: rest =>
    s!"SPEC key=batch-request-broken-{status} {" ".intercalate rest} (the multi request could not be split into its actions' cells)"
  | _ => "BAD command"

end GV.Drive.C10
