import GohbaseVerif.Model.Batch
/-!
Driver commands for C07 / C12 (model name `c07`).

`run <batch> <meta> <rounds> <res> <ok> <queue> <ms> <multi>` — one SendBatch case:
* `<batch>`  call ids by position, `.`-joined (`-` = empty batch)
* `<meta>`   per call id `table:b|n:region:a|d` (`d` = own context done when the multis were built)
* `<rounds>` `/`-joined `loc;ans;ord;cancel[;gone]` (what the harness scripted / observed per retry round):
  `loc` per id: client number | `C` (batch context error) | `L` (client closed) | `E<tag>` |
  `O` (the call's own context was done when its region could not be located and the batch context
  was alive: only that call is failed, with its own-context error);
  `ans` per id: `k<m>` ok | `r<t>` retryable | `n<t>` not serving | `s<t>` server | `f<t>` fatal |
  `o` no answer, own context done | `_` no answer; `ord` = clients in the observed QueueBatch order;
  `cancel`: `-` | `w<id>` at the wait on call id | `e<id>` right after the wait on call id |
  `a` at the check after the wait | `s` inside the back-off sleep;
  `gone` (optional, default none) = the call ids, `.`-joined, that have a context of their own which
  is done by the time the back-off sleep after this round is under way (cancelled before SendBatch,
  at a wait of this or an earlier round, or inside this or an earlier back-off sleep): when all the
  calls about to be retried are among them the sleep ends at once and SendBatch returns
* `<res>`    the implementation's slots `msg|err`, `.`-joined; `<ok>` `1|0|hang|panic`
* `<queue>`  observed QueueBatch calls `round:client:ids`, `/`-joined; `<ms>` duration;
* `<multi>`  per QueueBatch the RegionActions of a real `multi` fed with it: `reg=ids,reg=ids`.
-/
namespace GV.Drive.C07
open GV GV.Batch

def splitDot (s : String) : List String := if s = "-" ∨ s = "" then [] else s.splitOn "."

def nats (s : String) : Option (List Nat) := (splitDot s).mapM String.toNat?

/-- first character and the number after it -/
def headNat (s : String) : Option (Char × Nat) :=
  match s.toList with
  | h :: rest => (String.ofList rest).toNat?.map fun n => (h, n)
  | [] => none

structure Meta where
  table : Nat
  batchable : Bool
  region : Nat
  alive : Bool

def parseMeta (s : String) : Option Meta :=
  match s.splitOn ":" with
  | [t, b, r, a] => do
    let t ← t.toNat?
    let r ← r.toNat?
    pure ⟨t, b = "b", r, a = "a"⟩
  | _ => none

def parseLoc (s : String) : Option (Except Err Nat) :=
  if s = "C" then some (.error .batchCtx)
  else if s = "L" then some (.error .closed)
  else match headNat s with
    | some ('E', t) => some (.error (.other t))
    | _ => s.toNat?.map .ok

/-- the `loc` field: one token per call id (`O` needs the id) -/
def parseLocs (ls : List String) : Option (List (Except Err Nat)) :=
  (ls.zip (List.range ls.length)).mapM fun (s, i) =>
    if s = "O" then some (.error (.ownCtx i)) else parseLoc s

def parseAns (s : String) : Option Ans :=
  if s = "o" then some .ownDone
  else if s = "_" then some .silent
  else match headNat s with
    | some ('k', m) => some (.ok m)
    | some ('r', t) => some (.fail .retryable t)
    | some ('n', t) => some (.fail .nsre t)
    | some ('s', t) => some (.fail .server t)
    | some ('f', t) => some (.fail .fatal t)
    | _ => none

/-- cancel token; call-based ones are resolved to positions later -/
inductive CTok where
  | fixed (c : Cancel)
  | atCall (id : Nat)
  | afterCall (id : Nat)

def parseCancel (s : String) : Option CTok :=
  if s = "-" then some (.fixed .none)
  else if s = "a" then some (.fixed .after)
  else if s = "s" then some (.fixed .sleep)
  else match headNat s with
    | some ('w', j) => some (.atCall j)
    | some ('e', j) => some (.afterCall j)
    | _ => none

structure PRound where
  loc : List (Except Err Nat)
  ans : List Ans
  ord : List Nat
  cancel : CTok
  gone : List Nat

def parseRound (s : String) : Option PRound :=
  let mk (l a o c g : String) : Option PRound := do
    let l ← parseLocs (splitDot l)
    let a ← (splitDot a).mapM parseAns
    let o ← nats o
    let c ← parseCancel c
    let g ← nats g
    pure ⟨l, a, o, c, g⟩
  match s.splitOn ";" with
  | [l, a, o, c] => mk l a o c "-"
  | [l, a, o, c, g] => mk l a o c g
  | _ => none

def mkRound (p : PRound) (c : Cancel) : Round :=
  { locate := fun i => p.loc.getD i (.error (.other 999)),
    ans := fun i => p.ans.getD i .silent,
    order := p.ord, cancel := c,
    gaveUp := fun i => p.gone.contains i }

def errStr : Err → String
  | .dup j => s!"D{j}"
  | .tables => "T"
  | .nonBatchable => "B"
  | .notExecuted => "X"
  | .ans .retryable t => s!"R{t}"
  | .ans .nsre t => s!"N{t}"
  | .ans .server t => s!"S{t}"
  | .ans .fatal t => s!"F{t}"
  | .ownCtx c => s!"O{c}"
  | .batchCtx => "C"
  | .closed => "L"
  | .other t => s!"E{t}"

def slotStr (s : Slot) : String :=
  (match s.msg with | some m => toString m | none => "-") ++ "|" ++
  (match s.err with | some e => errStr e | none => "-")

def joinWith (sep : String) : List String → String
  | [] => "-"
  | l => sep.intercalate l

def queueStr (ev : List Event) : String :=
  joinWith "/" (ev.filterMap fun
    | .queue r k cs => some s!"{r}:{k}:{joinWith "." (cs.map toString)}"
    | _ => none)

def sleepNs (ev : List Event) : Int :=
  ev.foldl (fun acc e => match e with | .sleep n => acc + n | _ => acc) 0

def queueOf (ev : List Event) (r : Nat) : List Nat :=
  ev.flatMap fun
    | .queue r' _ cs => if r' = r then cs else []
    | _ => []

/-- Resolve call-based cancel tokens round by round (the wait order of round `r` does not depend on
round `r`'s own cancel point: run it once with `wait 0`, which never blocks). -/
def resolve (info : Info) (batch : List Nat) : List PRound → List Round → Nat → List Round
  | [], acc, _ => acc
  | p :: ps, acc, r =>
    let c : Cancel :=
      match p.cancel with
      | .fixed c => c
      | .atCall j | .afterCall j =>
        let probe := acc ++ [mkRound p (.wait 0)]
        let order := match sendBatch info batch probe with
          | .ok res => queueOf res.events r
          | _ => []
        let pos := order.idxOf j
        match p.cancel with
        | .afterCall _ => .wait (pos + 1)
        | _ => .wait pos
    resolve info batch ps (acc ++ [mkRound p c]) (r + 1)

/-- tags an answer may legitimately put into the slot of call `c` -/
def ownMsgs (ps : List PRound) (c : Nat) : List Nat :=
  ps.filterMap fun p => match p.ans.getD c .silent with | .ok m => some m | _ => none

def ownErrs (ps : List PRound) (c : Nat) : List String :=
  ["X", "C", "L", s!"O{c}"] ++ ps.filterMap (fun p => match p.ans.getD c .silent with
    | .fail cls t => some (errStr (.ans cls t)) | _ => none)
  ++ ps.filterMap (fun p => match p.loc.getD c (.ok 0) with
    | .error e => some (errStr e) | _ => none)

def isRetryCls : Ans → Bool
  | .fail .retryable _ | .fail .nsre _ | .fail .server _ => true
  | _ => false

structure QRec where
  round : Nat
  client : Nat
  calls : List Nat

def parseQ (s : String) : Option (List QRec) :=
  if s = "-" then some [] else
  (s.splitOn "/").mapM fun rec =>
    match rec.splitOn ":" with
    | [r, k, cs] => do
      let r ← r.toNat?
      let k ← k.toNat?
      let cs ← nats cs
      pure ⟨r, k, cs⟩
    | _ => none

def parseMP (s : String) : Option (List (List (Nat × List Nat))) :=
  if s = "-" then some [] else
  (s.splitOn "/").mapM fun rec =>
    if rec = "~" then some [] else
    (rec.splitOn ",").mapM fun ra =>
      match ra.splitOn "=" with
      | [r, cs] => do
        let r ← r.toNat?
        let cs ← nats cs
        pure (r, cs)
      | _ => none

/-- rounds in which call `c` was queued, in order -/
def sentRounds (q : List QRec) (c : Nat) : List Nat :=
  q.filterMap fun rec => if rec.calls.contains c then some rec.round else none

/-- A call queued again although the answer it was given before was a success or a fatal error. -/
def resentBad (ps : List PRound) (q : List QRec) (c : Nat) : Bool :=
  let rs := sentRounds q c
  (rs.zip (rs.drop 1)).any fun (r0, _) =>
    match ps[r0]? with
    | some p => !isRetryCls (p.ans.getD c .silent)
    | none => true

def implSlots (s : String) : List String := splitDot s

def handle : List String → String
  | ["run", batchS, metaS, roundsS, resS, okS, qS, msS, mpS] =>
    match nats batchS, (splitDot metaS).mapM parseMeta,
          (if roundsS = "-" then some [] else (roundsS.splitOn "/").mapM parseRound),
          parseQ qS, msS.toNat?, parseMP mpS with
    | some batch, some metas, some prs, some q, some ms, some mp =>
      let info : Info :=
        { table := fun c => (metas[c]?.map (·.table)).getD 0,
          batchable := fun c => (metas[c]?.map (·.batchable)).getD false }
      let region := fun c => (metas[c]?.map (·.region)).getD 0
      let alive := fun c => (metas[c]?.map (·.alive)).getD true
      let rounds0 := resolve info batch prs [] 0
      -- Whether a back-off sleep is left early because every call to be retried has given up is a
      -- race between the goroutine that `context.AfterFunc` starts and the sleep's timer (16 ms
      -- and up): both outcomes are executions of the code. The model is run with the observed
      -- `gone` sets first; if the implementation's result is not that one, the variants in which
      -- some rounds' sleeps run to their end are tried (what happens then is still the model's
      -- business: the next round, those calls ending with their own-context error).
      -- (equal, or equal up to the one tolerated choice judged further down: a call without answer in
      -- a group entered with a done context may end with its own-context or the batch-context error)
      let implS := implSlots resS
      let agreesWith := fun (m : Outcome Result) => match m with
        | .ok mr =>
          (joinWith "." (mr.res.map slotStr) == resS ||
            (mr.res.length = implS.length && (List.range implS.length).all fun i =>
              match mr.res[i]?, implS[i]?, batch[i]? with
              | some s, some t, some c =>
                slotStr s = t || (mr.interrupted && s.err = some .batchCtx &&
                  slotStr { s with err := some (.ownCtx c) } = t)
              | _, _, _ => false)) &&
          (if mr.allOK then "1" else "0") == okS && queueStr mr.events == qS
        | _ => false
      let nR := rounds0.length
      -- (the variant is resolved afresh: where a cancellation "at call j" falls in a later round
      -- depends on which calls are still retried, i.e. on the rounds before it)
      let variant := fun (mask : Nat) => resolve info batch (prs.zipIdx.map fun (p, i) =>
        if mask.testBit i then { p with gone := [] } else p) [] 0
      let m0 := sendBatch info batch rounds0
      let alt := if agreesWith m0 || !(prs.any (fun p => !p.gone.isEmpty)) then none
        else (List.range (2 ^ (min nR 6))).findSome? fun mask =>
          if mask = 0 then none else
          let m := sendBatch info batch (variant mask)
          if agreesWith m then some m else none
      let model := alt.getD m0
      let impl := implSlots resS
      let valid := match batch with
        | [] => true
        | c0 :: _ => (validate info (info.table c0) [] batch).2
      let allNil := impl.all fun s => s.endsWith "|-"
      -- ---- judgments on the implementation's output that do not need the model's result
      if !valid && !q.isEmpty then s!"SPEC key=invalid-sent queue={qS}"
      else if !valid && okS = "1" then "SPEC key=allok-mismatch invalid batch accepted"
      else if !valid && (impl.any fun s => s.endsWith "|-") then "SPEC key=invalid-slot-without-error res=" ++ resS
      else if okS ≠ "hang" && okS ≠ "panic" && impl.length ≠ batch.length then
        s!"SPEC key=slot-count impl={impl.length} batch={batch.length}"
      else if okS ≠ "hang" && okS ≠ "panic" && impl.any (· = "-|-") then "SPEC key=slot-empty res=" ++ resS
      else
      -- provenance: every slot only carries data of its own call
      let clob := (List.range batch.length).any fun i =>
        match impl[i]?, batch[i]? with
        | some s, some c =>
          match s.splitOn "|" with
          | [m, e] =>
            (m ≠ "-" && !((ownMsgs prs c).map toString).contains m) ||
            (valid && e ≠ "-" && !(ownErrs prs c).contains e)
          | _ => true
        | _, _ => false
      if okS ≠ "hang" && okS ≠ "panic" && clob then "SPEC key=slot-clobbered res=" ++ resS
      else if batch.any (resentBad prs q) then "SPEC key=resent queue=" ++ qS
      else
      -- per-region order inside every multi built from one QueueBatch
      let badMulti := (q.zip mp).any fun (rec, ras) =>
        let regs := ras.map (·.1)
        regs ≠ dedup regs ||
        ras.any (fun (r, cs) => cs ≠ Multi.actionsOf region alive rec.calls r || cs.isEmpty) ||
        (rec.calls.any fun c => alive c && !regs.contains (region c))
      if badMulti then "SPEC key=region-order multi=" ++ mpS
      else
      -- … and in every slice handed to a region client (first round and retry rounds): two calls of
      -- one region appear in the order they have in the batch (theorem `same_region_order`)
      let badQueue := q.any fun rec =>
        let pos := fun c => batch.idxOf c
        let rec go : List Nat → Bool
          | [] => false
          | c :: rest => rest.any (fun d => region d == region c && pos d < pos c) || go rest
        go rec.calls
      if valid && badQueue then "SPEC key=region-order-queue queue=" ++ qS
      else
      match model with
      | .fault _ =>
        if okS = "hang" then "OK tags=blocked" else s!"DIFF model=fault impl={okS}"
      | .err e => s!"DIFF model=err:{e} impl={okS}"
      | .ok mr =>
        let mres := joinWith "." (mr.res.map slotStr)
        let mok := if mr.allOK then "1" else "0"
        let mq := queueStr mr.events
        if okS = "hang" then s!"SPEC key=hang model={mres} ok={mok}"
        else if okS = "panic" then s!"SPEC key=panic model={mres} ok={mok}"
        else
        -- a call the scripts made succeed must keep ⟨msg, nil⟩
        let lost := (List.range batch.length).any fun i =>
          match mr.res[i]?, impl[i]? with
          | some s, some t => s.err.isNone && s.msg.isSome && slotStr s ≠ t
          | _, _ => false
        if lost then s!"SPEC key=slot-clobbered success lost: model={mres} impl={resS}"
        else if (okS = "1") ≠ allNil then s!"SPEC key=allok-mismatch res={resS} ok={okS}"
        else if mres ≠ resS then
          -- a later group entered with a done context: an own-context error and the batch
          -- context error are both possible for a call without answer (either select branch)
          let same := mr.res.length = impl.length && (List.range impl.length).all fun i =>
            match mr.res[i]?, impl[i]?, batch[i]? with
            | some s, some t, some c =>
              slotStr s = t || (mr.interrupted && s.err = some .batchCtx &&
                slotStr { s with err := some (.ownCtx c) } = t)
            | _, _, _ => false
          if same && mok = okS && mq = qS then "OK tags=valid,cancel,race-own-ctx"
          else s!"DIFF model={mres} impl={resS}"
        else if mok ≠ okS then s!"DIFF modelok={mok} implok={okS}"
        else if mq ≠ qS then s!"DIFF modelqueue={mq} implqueue={qS}"
        else if (ms : Int) * 1000000 + 2000000 < sleepNs mr.events then
          s!"DIFF sleeps model={sleepNs mr.events}ns impl={ms}ms"
        else
          let nr := (q.map (·.round)).foldl max 0
          let tags : List String :=
            [if valid then "valid" else "invalid"] ++
            (if batch.length ≤ 1 then ["single"] else []) ++
            (if q.isEmpty then ["unsent"] else [s!"rounds{nr + 1}"]) ++
            (if nr > 0 then ["retry"] else []) ++
            (if mr.interrupted then ["cancel-wait"] else []) ++
            (if prs.any (fun p => match p.cancel with | .fixed .after => true | _ => false) then ["cancel-after"] else []) ++
            (if mr.events.any (fun e => match e with | .sleepCut _ => true | _ => false) then ["cancel-sleep"] else []) ++
            (if mr.events.any (fun e => match e with | .sleepLeft _ => true | _ => false) then ["sleep-left"] else []) ++
            (if prs.any (fun p => !p.gone.isEmpty) then ["own-gone"] else []) ++
            (if alt.isSome then ["sleep-race"] else []) ++
            (if mr.events.any (fun e => match e with | .sleep _ => true | _ => false) then ["backoff"] else []) ++
            (if mr.res.any (fun s => match s.err with | some (.ownCtx _) => true | _ => false) then ["own-ctx"] else []) ++
            (if prs.any (fun p => p.loc.any (fun l => match l with | .error _ => true | _ => false)) then ["locate-error"] else []) ++
            (if prs.any (fun p => p.loc.any (fun l => match l with | .error (.ownCtx _) => true | _ => false)) then ["own-locate"] else []) ++
            (if q.any (fun r => (dedup (r.calls.map region)).length > 1) then ["multi-region-group"] else []) ++
            (if mr.allOK then ["allok"] else ["notok"])
          "OK tags=" ++ ",".intercalate tags
    | _, _, _, _, _, _ => "BAD c07 run fields"
  | _ => "BAD c07 command"

end GV.Drive.C07
