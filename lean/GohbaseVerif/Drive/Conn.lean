import GohbaseVerif.Model.Conn
/-!
Driver for C03 / C18 / C02: replays the event log of a real region client (produced by
harness/connrun.go) on the Lean transition system, compares what is observable after every event,
and evaluates the property monitors on the implementation's observations.

Line: `run <queueSize> <status> cancelled=<…> foreign=<…> <event>/<obs> …`
-/
namespace GV.Drive.Conn
open GV GV.Conn

def dropS (s : String) (n : Nat) : String := String.ofList (s.toList.drop n)

def parseRes : String → Option Res
  | "ok" => some .ok
  | "connErr" => some .connErr
  | "retryable" => some .retryable
  | "nsre" => some .nsre
  | "fatal" => some .fatal
  | _ => none

def parseWho (s : String) : Option Who :=
  if s = "W" then some .writer
  else if s.startsWith "D" then (dropS s 1).toNat?.map Who.direct
  else none

def parseIO : String → Option IO
  | "ok" => some .ok
  | "err" => some .err
  | _ => none

def parsePair (s : String) : Option (Nat × Res) :=
  match s.splitOn "." with
  | [c, r] => do let c ← c.toNat?; let r ← parseRes r; pure (c, r)
  | _ => none

def parseFrame (s : String) : Option Frame :=
  if s = "res" then some .result
  else if s = "undec" then some .undecodable
  else if s = "badhdr" then some .badHeader
  else if s.startsWith "exc-" then (parseRes (dropS s 4)).map Frame.exception
  else if s = "pc-none" then some (.perCall [])
  else if s.startsWith "pc-" then
    let parts := (dropS s 3).splitOn "+"
    let ps := parts.filterMap parsePair
    if ps.length = parts.length then some (.perCall ps) else none
  else none

/-- `none` = a harness event with no model action (`nop`). -/
def parseAct (s : String) : Option (Option Act) :=
  match s.splitOn ":" with
  | ["nop"] => some none
  | ["qb", c] => c.toNat?.map (fun c => some (.queueBatched c))
  | ["qd", c] => c.toNat?.map (fun c => some (.queueDirect c))
  | ["qu", c] => c.toNat?.map (fun c => some (.queueUnsendable c))
  | ["qc", c] => c.toNat?.map (fun c => some (.queueDirectClosing c))
  | ["qbu", c] => c.toNat?.map (fun c => some (.queueBatchedUnsendable c))
  | ["cx", c] => c.toNat?.map (fun c => some (.cancel c))
  | ["w", w, l, r] => do
    let w ← parseWho w; let r ← parseIO r
    pure (some (.write w (l = "1") r))
  | ["arm", w, r] => do let w ← parseWho w; let r ← parseIO r; pure (some (.arm w r))
  | ["rd", id, f] => do let id ← id.toNat?; let f ← parseFrame f; pure (some (.read id f))
  | ["rderr"] => some (some .readErr)
  | ["to"] => some (some .timeout)
  | ["clr", r] => (parseIO r).map (fun r => some (.clear r))
  | ["close"] => some (some .close)
  | _ => none

structure Obs where
  done : Bool
  sent : Nat
  inFlight : Nat
  armed : Bool
  gates : Nat
  blocked : Nat
  mutexWait : Nat
  results : List (Nat × Res)
  deriving Repr

def parseObs (s : String) : Option Obs :=
  match s.splitOn "," with
  | [d, se, f, a, g, b, m, r] =>
    if !(d.startsWith "d" && se.startsWith "s" && f.startsWith "f" && a.startsWith "a" &&
         g.startsWith "g" && b.startsWith "b" && m.startsWith "m" && r.startsWith "r=") then none else do
    let m ← (dropS m 1).toNat?
    let se ← (dropS se 1).toNat?
    let f ← (dropS f 1).toNat?
    let g ← (dropS g 1).toNat?
    let b ← (dropS b 1).toNat?
    let rs := dropS r 2
    let results ← if rs = "none" then some [] else
      let parts := rs.splitOn "+"
      let ps := parts.filterMap parsePair
      if ps.length = parts.length then some ps else none
    pure { done := d = "d1", sent := se, inFlight := f, armed := a = "a1", gates := g, blocked := b,
           mutexWait := m, results := results }
  | _ => none

def resOrd : Res → Nat
  | .ok => 0 | .connErr => 1 | .retryable => 2 | .nsre => 3 | .fatal => 4

def canon (l : List (Nat × Res)) : List (Nat × Nat) :=
  (l.map (fun p => (p.1, resOrd p.2))).mergeSort (fun a b => a.1 < b.1 || (a.1 == b.1 && a.2 ≤ b.2))

def resStr : Res → String
  | .ok => "ok" | .connErr => "connErr" | .retryable => "retryable" | .nsre => "nsre" | .fatal => "fatal"

def obsOfModel (s : St) : String :=
  s!"d{if s.done then 1 else 0},s{s.sent.length},f{s.inFlight},a{if s.armed then 1 else 0},r={canon (s.delivered.map (fun d => (d.call, d.res)))}"

def agrees (s : St) (o : Obs) : Bool :=
  s.done == o.done && s.sent.length == o.sent && s.inFlight == o.inFlight && s.armed == o.armed &&
    canon (s.delivered.map (fun d => (d.call, d.res))) == canon o.results

def countOf (o : Obs) (c : Nat) : Nat := (o.results.filter (·.1 == c)).length

/-- the event is the read of a multi response in which some call's result is a server exception
(`rd:<id>:pc-…<call>.connErr…`): a frame with `Frame.fatal` -/
def serverExcMulti (a : String) : Option (List Nat) :=
  match a.splitOn ":" with
  | ["rd", _, f] =>
    match parseFrame f with
    | some (.perCall rs) => if (Frame.perCall rs).fatal then some (rs.map (·.1)) else none
    | _ => none
  | _ => none

def isServerExcMulti (a : String) : Bool := (serverExcMulti a).isSome

/-- Property monitors on the implementation's own observations. -/
def monitors (model : String) (steps : List (String × Obs)) (cancelled : List Nat) (foreign : String)
    : Option String :=
  let handed := steps.filterMap (fun (a, _) =>
    match a.splitOn ":" with
    | ["qb", c] => c.toNat?
    | ["qd", c] => c.toNat?
    | ["qu", c] => c.toNat?
    | ["qc", c] => c.toNat?
    | ["qbu", c] => c.toNat?
    | _ => none)
  match steps.getLast? with
  | none => none
  | some (_, final) =>
    if model = "c03" then
      if foreign ≠ "none" then some s!"SPEC key=wrong-completion {foreign} (a call was completed with something else than its answer or a connection-level error)" else
      -- a frame whose header cannot be decoded ends the connection there and then (nothing that
      -- follows on the stream can be attributed to a request any more)
      match steps.find? (fun (a, o) => a.startsWith "rd:" && (a.splitOn ":").getLast? == some "badhdr" && !o.done) with
      | some (a, _) => some s!"SPEC key=undecodable-frame-did-not-fail-the-connection event={a}"
      | none =>
      -- a multi response that carries a "server is not in service" exception (for a region or for
      -- one action) fails the connection as soon as the reader has dealt with it (`Frame.fatal`).
      -- The reader may be parked with the frame in its hand — waiting for inFlightM behind a sender
      -- that is inside the arming SetReadDeadline, or inside its own clearing SetReadDeadline — and
      -- in both cases a deadline operation is parked on the connection (a gate). So from the read of
      -- such a frame on, the first observation with nothing parked and nobody blocked must show the
      -- connection done (if the id was not registered, or the connection had failed before, it is
      -- done anyway); and as soon as a call of that multi has its result (the reader has dealt with
      -- the frame: delivery comes first, `fail` right after it) the connection is done, whatever
      -- else is parked. Not a violation of C03 by itself, but a difference between the model and the
      -- implementation — reported here as well, because the event-by-event replay below stops at
      -- the first contended observation.
      let rec fatalMulti (pending : Option (String × List Nat)) : List (String × Obs) → Option String
        | [] => none
        | (a, o) :: rest =>
          let pending := match serverExcMulti a with
            | some cs => some (a, cs)
            | none => pending
          if o.done then none
          else match pending with
            | some (ev, cs) =>
              if o.gates = 0 && o.blocked = 0 && o.mutexWait = 0 then
                some s!"DIFF server-exception-in-multi-did-not-fail-the-connection event={ev} settled-after={a} (model: Frame.fatal, failConn after the delivery)"
              -- the calls of the multi have their results: the reader has dealt with the frame
              else if cs.any (fun c => countOf o c > 0) then
                some s!"DIFF server-exception-in-multi-did-not-fail-the-connection event={ev} delivered-after={a} (model: Frame.fatal, failConn after the delivery)"
              else fatalMulti pending rest
            | none => fatalMulti pending rest
      match fatalMulti none steps with
      | some v => some v
      | none =>
      -- at every quiescent observation of a failed connection: whatever was handed over so far and
      -- had not been cancelled by then has its result (a later cancellation does not excuse it)
      let rec midStranded (hd cx : List Nat) : List (String × Obs) → Option String
        | [] => none
        | (a, o) :: rest =>
          let parts := a.splitOn ":"
          let k := parts.headD ""
          let c := (parts.getD 1 "").toNat?
          let hd' := match c with
            | some c => if k = "qb" || k = "qd" || k = "qu" || k = "qc" || k = "qbu" then c :: hd else hd
            | none => hd
          let cx' := match c with
            | some c => if k = "cx" then c :: cx else cx
            | none => cx
          if o.done && o.gates = 0 && o.blocked = 0 && o.mutexWait = 0 then
            match hd'.find? (fun c => countOf o c = 0 && !cx'.contains c) with
            | some c => some s!"SPEC key=stranded call={c} after={a}"
            | none => midStranded hd' cx' rest
          else midStranded hd' cx' rest
      match midStranded [] [] steps with
      | some v => some v
      | none =>
      match handed.find? (fun c => countOf final c > 1) with
      | some c => some s!"SPEC key=double-completion call={c}"
      | none =>
        if final.gates = 0 && final.blocked = 0 && final.done then
          match handed.find? (fun c => countOf final c = 0 && !cancelled.contains c) with
          | some c => some s!"SPEC key=stranded call={c}"
          | none =>
            -- refused immediately once the connection is done
            let rec chk (prev : Option Obs) : List (String × Obs) → Option String
              | [] => none
              | (a, o) :: rest =>
                let bad := match prev, a.splitOn ":" with
                  | some p, [k, c] =>
                    if (k = "qb" || k = "qd" || k = "qu" || k = "qc" || k = "qbu") && p.done then
                      match c.toNat? with
                      | some c => !cancelled.contains c && countOf o c = 0
                      | none => false
                    else false
                  | _, _ => false
                if bad then some s!"SPEC key=not-refused event={a}" else chk (some o) rest
            chk none steps
        else some "DIFF harness did not reach a final quiescent state"
    else if model = "c18" then
      let rec chk18 : List (String × Obs) → Option String
        | [] => none
        | (a, o) :: rest =>
          if !o.done && o.gates = 0 && o.blocked = 0 then
            if o.inFlight ≠ o.sent then some s!"SPEC key=counter-drift after={a} inFlight={o.inFlight} outstanding={o.sent}"
            else if o.sent = 0 && o.armed then some s!"SPEC key=deadline-armed-idle after={a}"
            else if o.sent > 0 && !o.armed then some s!"SPEC key=deadline-missing after={a}"
            else chk18 rest
          else chk18 rest
      chk18 steps
    else if model = "c02" then
      if foreign ≠ "none" then some s!"SPEC key=wrong-response {foreign}"
      else match handed.find? (fun c => countOf final c > 1) with
        | some c => some s!"SPEC key=double-completion call={c}"
        | none => none
    else none

def parseNatList (s : String) : List Nat :=
  if s = "none" then [] else (s.splitOn ",").filterMap String.toNat?

def handle (model : String) : List String → String
  | ["script", "slow-close", _wrote, _armed, closed, results, cls] =>
    -- C03: a call registered while the failure transition is in progress (done closed, the
    -- connection's own Close still running) and written successfully must be completed once
    if closed ≠ "closed=true" then s!"DIFF harness: slow-close scenario did not reach the Close gate ({closed})"
    else if results = "results=0" then "SPEC key=stranded-slow-close (call registered during a slow connection Close was never completed)"
    else if results ≠ "results=1" then s!"SPEC key=double-completion-slow-close {results} {cls}"
    else s!"OK tags=script,slow-close,{cls}"
  | ["script", "blocked-write-close", parked, returned, connClosed, results] =>
    -- C03: the failure transition does not wait for a request stuck inside conn.Write
    if parked ≠ "parked=true" then s!"DIFF harness: no Write was parked ({parked})"
    else if connClosed ≠ "connclosed=true" then "SPEC key=connection-not-closed-while-write-blocked (Close with a request stuck in Write did not close the connection: on a real socket that Write never ends)"
    else if returned ≠ "closereturned=true" then "SPEC key=close-blocked-by-stuck-write"
    else if results ≠ "results=1" then s!"SPEC key=stranded-blocked-write {results}"
    else "OK tags=script,blocked-write-close"
  | ["script", "read-timeout", kind, configured, got, lookup] =>
    -- the timeout a connection arms its read deadline with is the configured RegionReadTimeout
    if configured.startsWith "setup-failed" then s!"DIFF harness: read-timeout scenario for {kind}: {configured} {got}"
    else if dropS configured 11 ≠ dropS got 4 then
      s!"SPEC key=read-timeout-not-the-configured-one-{kind} {configured} {got} {lookup}"
    else s!"OK tags=script,read-timeout,{kind}"
  | ["script", "read-timeout", kind, failed, conns] =>
    s!"DIFF harness: read-timeout scenario for {kind}: {failed} {conns}"
  | ["script", "midframe", fed, armed0, armedMid, clearedMid, results, cls] =>
    -- C18: a response that stops arriving in the middle leaves its request outstanding: the read
    -- deadline stays armed (the `read` action of the model consumes a whole frame; `clear` follows it)
    if armed0 ≠ "armedbefore=true" then s!"DIFF harness: midframe scenario {fed} {armed0}"
    else if armedMid ≠ "armedmid=true" || clearedMid ≠ "clearedmid=false" then
      s!"SPEC key=deadline-cleared-mid-response {armedMid} {clearedMid} (the only outstanding request is not answered yet)"
    else if fed ≠ "fed=true" then s!"DIFF harness: midframe scenario {fed}"
    else if results ≠ "results=1" || cls ≠ "class=none+connErr" then s!"SPEC key=midframe-silence-not-failed-over {results} {cls}"
    else "OK tags=script,midframe"
  | ["script", "deadline", answered, ares, armed, moved, late] =>
    -- C18: a silent server is detected within the read timeout of the last request *sent*
    let lateMs := ((String.ofList (late.toList.drop 8)).toInt?).getD 0
    if answered ≠ "answered=true" || ares ≠ "aresults=1" then s!"DIFF harness: deadline scenario {answered} {ares}"
    else if armed ≠ "armed=true" then "SPEC key=deadline-missing (a request is outstanding and no read deadline is set)"
    else if lateMs > 25 then s!"SPEC key=deadline-pushed-back-by-a-response {moved} {late} (later than last request + read timeout)"
    else "OK tags=script,deadline"
  | "script" :: name :: rest => s!"DIFF harness: script {name} {" ".intercalate rest}"
  | "run" :: q :: status :: cancelled :: foreign :: steps =>
    match q.toNat? with
    | none => "BAD queue size"
    | some q =>
      -- C05 (concurrent senders): the harness has parsed the byte stream that reached the connection
      let streamPart := (status.splitOn ",stream=")
      let status := streamPart.headD status
      let stream := (streamPart.drop 1).headD "ok"
      if model = "c05c" && stream ≠ "ok" then s!"SPEC key=stream-{stream} (frames of concurrent senders interleaved on the connection)" else
      if status ≠ "complete" then s!"DIFF harness: {status}" else
      let cancelled := parseNatList (dropS cancelled 10)
      let foreign := dropS foreign 8
      let parsed := steps.map (fun st => match st.splitOn "/" with
        | [a, o] => (match parseAct a, parseObs o with
            | some act, some obs => some (a, act, obs)
            | _, _ => none)
        | _ => none)
      if steps.any (·.startsWith "arm:R:") then
        "DIFF the reader goroutine armed the read deadline (in the model only senders arm it; the reader clears it)" else
      if parsed.any Option.isNone then "BAD step" else
      let parsed := parsed.filterMap id
      -- 1. property monitors on the implementation's observations
      match monitors model (parsed.map (fun (a, _, o) => (a, o))) cancelled foreign with
      | some v => v
      | none =>
      -- 2. replay on the model
      let rec go (s : St) (k : Nat) : List (String × Option Act × Obs) → String
        | [] =>
          let tags := [s!"q{q}",
            (if s.delivered.any (·.res == .connErr) then "connfail" else "noconnfail"),
            (if s.delivered.any (·.res == .ok) then "answered" else "unanswered"),
            (if s.wroteAs.any (fun p => s.wroteAs.any (fun p' => p'.2 == p.2 && p'.1 != p.1)) then "multi" else "nomulti"),
            (if s.dropped.isEmpty then "nodrop" else "ctxdrop"),
            (if parsed.any (fun (a, _, _) => isServerExcMulti a) then "multiservexc" else "nomultiservexc"),
            (if k > 12 then "long" else "short")]
          "OK tags=" ++ ",".intercalate tags
        | (a, act, o) :: rest =>
          -- a goroutine is blocked on a mutex: which of the releaser and the woken goroutine runs
          -- first from here on is up to the Go scheduler; the deterministic replay stops here
          -- (the monitors above have judged the whole run)
          if o.mutexWait > 0 then s!"OK tags=q{q},contended,replayed{k}" else
          match act with
          | none => if agrees s o then go s (k + 1) rest else s!"DIFF at={k} event={a} model={obsOfModel s}"
          | some act =>
            match step s act with
            | none =>
              match act with
              | .queueBatched c =>
                -- A batched call handed over with its context already done is outside the model's
                -- environment (QueueBatch's select could choose either way). The harness does it only
                -- while the batching goroutine is stuck inside a Write, where the hand-over branch is
                -- not ready: the call is dropped, nothing observable changes (and the per-call monitor
                -- has checked that it was not answered with a connection-level error).
                if s.ctxDone.contains c && !s.done && !s.handed.contains c then
                  let s' := { s with handed := s.handed ++ [c], dropped := s.dropped ++ [c] }
                  if agrees s' o then go s' (k + 1) rest
                  else s!"DIFF at={k} event={a} (batched call with a done context) model={obsOfModel s'}"
                else s!"DIFF at={k} event={a} not enabled in the model (model state before: {obsOfModel s})"
              | _ => s!"DIFF at={k} event={a} not enabled in the model (model state before: {obsOfModel s})"
            | some s' =>
              if agrees s' o then go s' (k + 1) rest
              else s!"DIFF at={k} event={a} model={obsOfModel s'}"
      go (init q) 0 parsed
  | _ => "BAD command"

end GV.Drive.Conn
