import GohbaseVerif.Model.CacheIO
/-!
Driver commands for C08 (location cache).  One line = one whole op sequence on a fresh cache
together with what the real `keyRegionCache` did after every op:

  c08 seq d:<ns>:<tbl>:<start>:<stop>:<name>:<id> …      descriptors (hex fields, decimal id), index = order
          put:<i>:<overlaps>:<replaced 0|1>:<dump>:<dead>    | put:<i>:panic
          del:<i>:<success 0|1>:<dump>:<dead>                | del:<i>:panic
          get:<i>:<overlaps>                                 | get:<i>:panic     (getOverlaps only)

`<overlaps>`, `<dump>`, `<dead>` are `.`-separated descriptor indices (`-` = none); the dump is in
tree order, the dead list ascending.  The harness keeps one Go object per distinct descriptor.

Verdict per op, first failure wins: the *spec* below (range intersection written independently
of `overlap`) re-judges the implementation's own before/after dumps → `SPEC key=…`; then the
model must reproduce every observation → `DIFF`.  Sequences containing a descriptor outside the
property's domain (`wfB` false) are only compared with the model (tag `ood`).
-/
namespace GV.Drive.C08
open GV GV.Cache GV.CacheIO

structure St where
  model : Cache
  dump : List Nat
  dead : List Nat
  mdead : List Nat   -- the model's dead set as ascending descriptor indices
  tags : List String

def addTag (s : St) (t : String) : St := if s.tags.contains t then s else { s with tags := s.tags ++ [t] }

/-- Spec verdict for a `put` (none = accepted, some key = violated). Regions by value, dead
marks by descriptor index (`beforeIdx` are the indices of `before`, position by position). -/
def specPut (r : Region) (beforeIdx : List Nat) (before after : List Region) (deadB deadA : List Nat)
    (replaced : Bool) : Option String :=
  let x := before.filter (intersects · r)
  let xIdx := ((beforeIdx.zip before).filter (fun p => intersects p.2 r)).map (·.1)
  let known := before.any (·.name == r.name)
  let older := x.any (fun o => r.id < o.id)
  let newDead := deadA.filter (fun d => !deadB.contains d)
  if anyPairIntersect after then some "overlap-in-cache"
  else if known || older then
    if after != before || replaced || !newDead.isEmpty then some "noop-changed"
    else none
  else if !replaced || !after.contains r then some "newer-not-inserted"
  else if x.any (fun o => after.contains o) then some "overlap-in-cache"
  else if xIdx.any (fun o => !deadA.contains o) then some "evicted-not-dead"
  else if before.any (fun o => !x.contains o && !after.contains o) then some "evicted-nonoverlapping"
  else if newDead.any (fun d => !xIdx.contains d) then some "marked-nonevicted"
  else if after.any (fun o => o != r && !before.contains o) then some "phantom-region"
  else none

/-- Indices of the descriptors the model marked dead in this step, merged into `mdead`. -/
def growDead (descs : Array Region) (old new : List Region) (mdead : List Nat) : List Nat :=
  (new.drop old.length).foldl (fun acc d => insertSorted (idxOf descs d) acc) mdead

/-- One op token. Returns the new state or the verdict line. -/
def stepTok (descs : Array Region) (inDomain : Bool) (s : St) (tok : String) : Except String St :=
  match tok.splitOn ":" with
  | ["put", i, "panic"] =>
    match i.toNat?.bind (descs[·]?) with
    | none => .error "BAD index"
    | some r =>
      if inDomain then .error s!"SPEC key=panic-put op={tok}"
      else match put s.model r with
        | .fault _ => .ok (addTag { s with dump := [] } "panic")
        | _ => .error s!"DIFF model=no-panic impl=panic op={tok}"
  | ["put", i, ov, rep, dump, dead] =>
    match i.toNat?.bind (descs[·]?), parseIdxList ov, parseIdxList dump, parseIdxList dead with
    | some r, some ov, some dump, some dead =>
      match regs descs s.dump, regs descs dump, regs descs ov with
      | some before, some after, some ovR =>
        let replaced := rep == "1"
        let verdict := if inDomain then specPut r s.dump before after s.dead dead replaced else none
        match verdict with
        | some key => .error s!"SPEC key={key} op={tok} before={showIdx s.dump}"
        | none =>
          match put s.model r with
          | .ok (c', mov, mrep) =>
            let mdead := growDead descs s.model.dead c'.dead s.mdead
            if mov != ovR || mrep != replaced || c'.regions != after || mdead != dead then
              .error s!"DIFF op={tok} model={showIdx (mov.map (idxOf descs))}:{b01 mrep}:{showIdx (c'.regions.map (idxOf descs))}:{showIdx mdead}"
            else
              let x := before.filter (intersects · r)
              let s := { s with model := c', dump := dump, dead := dead, mdead := mdead }
              let s := if before.any (·.name == r.name) then addTag s "noop-known" else s
              let s := if !x.isEmpty && !replaced then addTag s "noop-older" else s
              let s := if !x.isEmpty && replaced then addTag s "evict" else s
              let s := if x.length ≥ 2 && replaced then addTag s "evict-many" else s
              let s := if before.any (fun o => o.fq == r.fq && !intersects o r &&
                          (o.stop == r.start || r.stop == o.start) && !o.stop.isEmpty) then addTag s "touching" else s
              let s := if before.any (fun o => o.fq != r.fq) then addTag s "xtable" else s
              .ok s
          | .fault _ => .error s!"DIFF op={tok} model=panic"
          | .err e => .error s!"DIFF op={tok} model=err:{e}"
      | _, _, _ => .error "BAD index in observation"
    | _, _, _, _ => .error "BAD put token"
  | ["del", _, "panic"] =>
    if inDomain then .error s!"SPEC key=panic-del op={tok}" else .error s!"DIFF model=no-panic impl=panic op={tok}"
  | ["del", i, succ, dump, dead] =>
    match i.toNat?.bind (descs[·]?), parseIdxList dump, parseIdxList dead with
    | some r, some dump, some dead =>
      match regs descs dump with
      | some after =>
        let (c', msucc) := del s.model r
        let mdead := growDead descs s.model.dead c'.dead s.mdead
        let before := (regs descs s.dump).getD []
        if inDomain && anyPairIntersect after then .error s!"SPEC key=overlap-in-cache op={tok}"
        -- removal: afterwards no region of that name is cached, everything else is, and the
        -- answer says whether there was one
        else if after.any (·.name == r.name) then .error s!"SPEC key=del-left-region-in-cache op={tok}"
        else if after != before.filter (·.name != r.name) then .error s!"SPEC key=del-changed-other-regions op={tok}"
        else if succ != b01 (before.any (·.name == r.name)) then .error s!"SPEC key=del-wrong-answer op={tok}"
        else if b01 msucc != succ || c'.regions != after || mdead != dead then
          .error s!"DIFF op={tok} model={b01 msucc}:{showIdx (c'.regions.map (idxOf descs))}:{showIdx mdead}"
        else .ok (addTag { s with model := c', dump := dump, dead := dead, mdead := mdead } (if msucc then "del-hit" else "del-miss"))
      | none => .error "BAD index in observation"
    | _, _, _ => .error "BAD del token"
  | ["get", i, "panic"] =>
    match i.toNat?.bind (descs[·]?) with
    | none => .error "BAD index"
    | some r =>
      if inDomain then .error s!"SPEC key=panic-getoverlaps op={tok}"
      else match getOverlaps s.model.regions r with
        | .fault _ => .ok (addTag s "panic")
        | _ => .error s!"DIFF model=no-panic impl=panic op={tok}"
  | ["get", i, ov] =>
    match i.toNat?.bind (descs[·]?), parseIdxList ov with
    | some r, some ov =>
      match regs descs ov, regs descs s.dump with
      | some ovR, some cur =>
        -- spec: on a cache in the domain, exactly the cached regions whose range meets r's, in order
        if inDomain && ovR != cur.filter (intersects · r) then
          .error s!"SPEC key=overlaps-incomplete op={tok} cache={showIdx s.dump}"
        else match getOverlaps s.model.regions r with
          | .ok mov =>
            if mov != ovR then .error s!"DIFF op={tok} model={showIdx (mov.map (idxOf descs))}"
            else .ok (addTag s (if ovR.isEmpty then "get-none" else "get-some"))
          | .fault _ => .error s!"DIFF op={tok} model=panic"
          | .err e => .error s!"DIFF op={tok} model=err:{e}"
      | _, _ => .error "BAD index in observation"
    | _, _ => .error "BAD get token"
  | _ => .error s!"BAD token {tok}"

def finish (inDomain : Bool) (s : St) : String :=
  let triv := if s.tags.any (fun t => t == "evict" || t == "noop-older" || t == "noop-known" ||
                    t == "get-some" || t == "del-hit") then [] else ["plain"]
  let dom := if inDomain then [] else ["ood"]
  "OK tags=" ++ ",".intercalate (dom ++ triv ++ s.tags)

def runToks (descs : Array Region) (inDomain : Bool) : List String → St → String
  | [], s => finish inDomain s
  | tok :: rest, s =>
    match stepTok descs inDomain s tok with
    | .ok s' => if s'.tags.contains "panic" then finish inDomain s' else runToks descs inDomain rest s'
    | .error e => e

def handle : List String → String
  | "seq" :: toks =>
    match splitDescs toks #[] with
    | none => "BAD descriptor"
    | some (descs, ops) =>
      if !distinct descs then "BAD duplicate descriptor" else
      let inDomain := descs.all (·.wfB)
      runToks descs inDomain ops ⟨Cache.empty, [], [], [], []⟩
  | ["e2e", regions, ops, cached, defined] =>
    -- the cache of a real client in use (harness/c08.go c08EndToEnd): every cached region is one
    -- the cluster defined, with the key range it was defined with, and no two of them intersect
    let parse := fun (s : String) (pfx : Nat) =>
      let body := String.ofList (s.toList.drop pfx)
      if body = "-" then [] else (body.splitOn ",").map (fun e => e.splitOn ":")
    let cs := parse cached 7
    let ds := parse defined 8
    if cs.any (·.length ≠ 3) || ds.any (·.length ≠ 3) then "BAD e2e entry" else
    if ops.contains "err" || ops.contains "endless" then s!"DIFF harness: e2e scenario {ops}" else
    match cs.find? (fun c => !ds.contains c) with
    | some c => s!"SPEC key=cached-region-differs-from-its-definition cached={c} {regions}"
    | none =>
      -- ranges [start, stop) with "-" = empty key (unbounded stop, lowest start: '-' sorts before every hex digit); hex strings of equal-cased bytes compare like the bytes
      let hexLt := fun (a b : String) => decide (a.toList < b.toList)
      let inter := fun (a b : List String) =>
        let (s1, e1, s2, e2) := (a.getD 1 "", a.getD 2 "", b.getD 1 "", b.getD 2 "")
        (e2 = "-" || hexLt s1 e2) && (e1 = "-" || hexLt s2 e1)
      let rec pairs : List (List String) → Option String
        | [] => none
        | a :: rest => match rest.find? (inter a) with
          | some b => some s!"SPEC key=overlap-in-cache-e2e {a} {b}"
          | none => pairs rest
      match pairs cs with
      | some v => v
      | none => s!"OK tags=e2e,{regions},cached{cs.length}"
  | ["conc", rounds, overlapping, first] =>
    -- puts of pairwise intersecting regions issued at the same instant by several goroutines
    -- (harness/c08.go c08Concurrent): the invariant is about the cache, not about one caller
    if overlapping = "overlapping=0" then s!"OK tags=conc,{rounds}"
    else s!"SPEC key=overlap-in-cache-concurrent {overlapping} {first}"
  | _ => "BAD command"

end GV.Drive.C08
